(** History-level theorems: sink faults over whole call histories (C13), nothing
    is written after finalization (C13/C06), the reported duration (C06),
    rejected fragmented writes (C05) and tick-only dependence (C17). *)
From Coq Require Import Lia ZifyN ZifyNat ZifyBool.
From Muxide Require Import Model.Base Model.Annexb Model.Adts Model.Codec Model.Boxes Model.F64
  Model.Writer Model.Api Model.Frag Spec.Layout Spec.Checks
  Proofs.BaseProofs Proofs.ApiProofs Proofs.SinkProofs Proofs.FinishProofs Proofs.TimingProofs.
Open Scope N_scope.
Ltac Zify.zify_post_hook ::= Z.div_mod_to_equations.

(** * Replacing the sink of a writer / muxer *)
Definition wset (w : writer) (s : sink) : writer :=
  with_sink w (w_finalized w) (w_bytes_written w) s.

Definition mset (m : muxer) (s : sink) : muxer :=
  {| m_writer := wset (m_writer m) s; m_codec := m_codec m; m_video := m_video m; m_audio := m_audio m;
     m_meta := m_meta m; m_fast := m_fast m; m_first_vpts := m_first_vpts m;
     m_last_vpts := m_last_vpts m; m_last_vdts := m_last_vdts m; m_last_apts := m_last_apts m;
     m_vcount := m_vcount m; m_acount := m_acount m; m_finished := m_finished m;
     m_cur_vpts := m_cur_vpts m; m_cur_apts := m_cur_apts m |}.

Definition clean (s : sink) : sink := {| sk_rev_chunks := sk_rev_chunks s; sk_script := [] |}.

Lemma wset_self w : wset w (w_sink w) = w.
Proof. destruct w; reflexivity. Qed.

Lemma wself w :
  with_sink w (w_finalized w) (w_bytes_written w)
    {| sk_rev_chunks := sk_rev_chunks (w_sink w); sk_script := sk_script (w_sink w) |} = w.
Proof. destruct w as [cd vr vp vl vc au ar ap al fi bwr [ch sc]]; reflexivity. Qed.

Lemma mset_self m : mset m (w_sink (m_writer m)) = m.
Proof. unfold mset. rewrite wset_self. destruct m; reflexivity. Qed.

Lemma sink_bytes_clean s : sink_bytes (clean s) = sink_bytes s.
Proof. reflexivity. Qed.

(* destruct the innermost discriminee of the goal first *)
Ltac atom_match :=
  match goal with
  | |- context [match ?x with _ => _ end] =>
      lazymatch x with
      | context [match _ with _ => _ end] => fail
      | _ => destruct x eqn:?
      end
  end.

(** the queueing calls do not look at the sink *)
Lemma wvs_wset w s pts dts d k :
  write_video_sample_with_dts (wset w s) pts dts d k =
  match write_video_sample_with_dts w pts dts d k with
  | inl w' => inl (wset w' s)
  | inr e => inr e
  end.
Proof.
  destruct w as [cd vr vp vl vc au ar ap al fi bwr sk].
  unfold write_video_sample_with_dts, push_video, wset, with_sink.
  cbn [w_codec w_vrev w_vprev w_vlast_delta w_vconfig w_audio w_arev w_aprev
       w_alast_delta w_finalized w_bytes_written w_sink].
  repeat atom_match; reflexivity.
Qed.

Lemma was_wset w s pts d :
  write_audio_sample (wset w s) pts d =
  match write_audio_sample w pts d with
  | inl w' => inl (wset w' s)
  | inr e => inr e
  end.
Proof.
  destruct w as [cd vr vp vl vc au ar ap al fi bwr sk].
  unfold write_audio_sample, wset, with_sink. cbv zeta.
  cbn [w_codec w_vrev w_vprev w_vlast_delta w_vconfig w_audio w_arev w_aprev
       w_alast_delta w_finalized w_bytes_written w_sink].
  repeat atom_match; reflexivity.
Qed.

Lemma write_video_mset m s p d k :
  write_video (mset m s) p d k = (mset (fst (write_video m p d k)) s, snd (write_video m p d k)).
Proof.
  unfold write_video, write_video_sample.
  cbn [mset m_writer m_vcount m_last_vpts]. rewrite wvs_wset.
  repeat atom_match; reflexivity.
Qed.

Lemma write_video_with_dts_mset m s p t d k :
  write_video_with_dts (mset m s) p t d k =
  (mset (fst (write_video_with_dts m p t d k)) s, snd (write_video_with_dts m p t d k)).
Proof.
  unfold write_video_with_dts.
  cbn [mset m_writer m_vcount m_last_vdts m_finished]. rewrite wvs_wset.
  repeat atom_match; reflexivity.
Qed.

Lemma write_audio_mset m s p d :
  write_audio (mset m s) p d = (mset (fst (write_audio m p d)) s, snd (write_audio m p d)).
Proof.
  unfold write_audio.
  cbn [mset m_writer m_acount m_last_apts m_finished m_audio m_first_vpts]. rewrite was_wset.
  repeat atom_match; reflexivity.
Qed.

Lemma encode_video_mset m s d ms :
  encode_video (mset m s) d ms = (mset (fst (encode_video m d ms)) s, snd (encode_video m d ms)).
Proof.
  unfold encode_video.
  change (api_is_keyframe (mset m s) d) with (api_is_keyframe m d).
  change (m_cur_vpts (mset m s)) with (m_cur_vpts m).
  rewrite write_video_mset.
  destruct (write_video m (m_cur_vpts m) d (api_is_keyframe m d)) as [m1 [e|]]; reflexivity.
Qed.

Lemma encode_audio_mset m s d n :
  encode_audio (mset m s) d n = (mset (fst (encode_audio m d n)) s, snd (encode_audio m d n)).
Proof.
  unfold encode_audio.
  change (m_audio (mset m s)) with (m_audio m).
  change (m_cur_apts (mset m s)) with (m_cur_apts m).
  destruct (m_audio m) as [a|]; [|reflexivity].
  rewrite write_audio_mset.
  destruct (write_audio m (m_cur_apts m) d) as [m1 [e|]]; reflexivity.
Qed.

Lemma lift_mset r s : lift (mset (fst r) s, snd r) = (mset (fst (lift r)) s, snd (lift r)).
Proof. destruct r as [m [e|]]; reflexivity. Qed.

Lemma step_mset m s o : o <> FIN -> step (mset m s) o = (mset (fst (step m o)) s, snd (step m o)).
Proof.
  intros Hne. destruct o as [p d k|p t d k|p d|d ms|d n|]; cbn [step]; [| | | | |congruence].
  - rewrite write_video_mset. apply lift_mset.
  - rewrite write_video_with_dts_mset. apply lift_mset.
  - rewrite write_audio_mset. apply lift_mset.
  - rewrite encode_video_mset. apply lift_mset.
  - rewrite encode_audio_mset. apply lift_mset.
Qed.

Lemma op_fin_dec (o : op) : o = FIN \/ o <> FIN.
Proof. destruct o; auto; right; discriminate. Qed.

Lemma fst_run_cons m o t :
  fst (run m (o :: t)) =
  match snd (step m o) with
  | RPanic _ => fst (step m o)
  | _ => fst (run (fst (step m o)) t)
  end.
Proof.
  cbn [run]. destruct (step m o) as [m' r]. cbn [fst snd].
  destruct r; try reflexivity; destruct (run m' t); reflexivity.
Qed.

Lemma snd_run_cons m o t :
  snd (run m (o :: t)) =
  match snd (step m o) with
  | RPanic p => [RPanic p]
  | r => r :: snd (run (fst (step m o)) t)
  end.
Proof.
  cbn [run]. destruct (step m o) as [m' r]. cbn [fst snd].
  destruct r; try reflexivity; destruct (run m' t); reflexivity.
Qed.

(** * H3: nothing is written after finalization *)
Lemma step_finalized m o :
  w_finalized (m_writer m) = true ->
  w_finalized (m_writer (fst (step m o))) = true /\ sink_of (fst (step m o)) = sink_of m.
Proof.
  intros F. unfold sink_of.
  destruct (op_fin_dec o) as [->|Hne].
  - destruct (fin_cases m) as [[Hw _]|[F' _]]; [|congruence].
    rewrite Hw. auto.
  - destruct (step_keeps m o Hne) as (A & _ & C & _). rewrite A, C. auto.
Qed.

Theorem nothing_is_written_after_finalization : forall m ops,
  w_finalized (m_writer m) = true -> sink_of (fst (run m ops)) = sink_of m.
Proof.
  intros m ops. revert m. induction ops as [|o t IH]; intros m F; [reflexivity|].
  destruct (step_finalized m o F) as [F' S'].
  rewrite fst_run_cons.
  destruct (snd (step m o)); try exact S'; rewrite (IH _ F'); exact S'.
Qed.
Print Assumptions nothing_is_written_after_finalization.

Lemma run_cons_finalized m o t :
  w_finalized (m_writer (fst (step m o))) = true ->
  sink_of (fst (run m (o :: t))) = sink_of (fst (step m o)).
Proof.
  intros F. rewrite fst_run_cons.
  destruct (snd (step m o)); try reflexivity; apply nothing_is_written_after_finalization; exact F.
Qed.

(** * H1: accepted bytes are a prefix of the fault-free output, for every history *)
Definition guard (w : writer) (v : video_track) : bool :=
  (U16MAX <? vt_width v) || (U16MAX <? vt_height v) || param_sets_too_long (w_vconfig w).

Lemma finalize_guarded w v md fs :
  w_finalized w = false -> guard w v = true ->
  finalize w v md fs = (w, FinErr (FinIo IoInvalidInput)).
Proof.
  unfold guard, finalize. intros -> G.
  destruct ((U16MAX <? vt_width v) || (U16MAX <? vt_height v)); [reflexivity|].
  cbn [orb] in G. rewrite G. reflexivity.
Qed.

Lemma finalize_unguarded w v md fs :
  w_finalized w = false -> guard w v = false ->
  exists bw s r, finalize w v md fs = (with_sink w true bw s, r).
Proof.
  unfold guard, finalize. intros -> G.
  destruct ((U16MAX <? vt_width v) || (U16MAX <? vt_height v)); [discriminate|].
  cbn [orb] in G. rewrite G.
  destruct (if fs then finalize_fast_start w v md (effective_config w)
            else finalize_standard w v md (effective_config w)) as [bufs term].
  destruct (run_plan bufs (w_bytes_written w) (w_sink w)) as [[bw s] e].
  destruct e as [k|]; [|destruct term as [t|]]; eauto.
Qed.

Lemma finalize_phaseA w v md fs :
  w_finalized w = false ->
  (finalize w v md fs = (w, FinErr (FinIo IoInvalidInput)) /\
   finalize (wset w (clean (w_sink w))) v md fs =
     (wset w (clean (w_sink w)), FinErr (FinIo IoInvalidInput))) \/
  (w_finalized (fst (finalize w v md fs)) = true /\
   w_finalized (fst (finalize (wset w (clean (w_sink w))) v md fs)) = true /\
   exists rest,
     sink_bytes (w_sink (fst (finalize (wset w (clean (w_sink w))) v md fs))) =
     sink_bytes (w_sink (fst (finalize w v md fs))) ++ rest).
Proof.
  intros F.
  assert (F' : w_finalized (wset w (clean (w_sink w))) = false) by exact F.
  assert (G' : guard (wset w (clean (w_sink w))) v = guard w v) by reflexivity.
  destruct (guard w v) eqn:G.
  - left. split; apply finalize_guarded; assumption.
  - right.
    pose proof (finalize_accepted_is_prefix_of_fault_free w v md fs
                  (sk_rev_chunks (w_sink w)) (sk_script (w_sink w))) as P.
    cbv zeta in P. rewrite wself in P.
    destruct (finalize_unguarded w v md fs F G) as (bw1 & s1 & r1 & E1).
    destruct (finalize_unguarded _ v md fs F' G') as (bw2 & s2 & r2 & E2).
    split; [rewrite E1; reflexivity|]. split; [rewrite E2; reflexivity|].
    exact P.
Qed.

Definition cleanm (m : muxer) : muxer := mset m (clean (w_sink (m_writer m))).

Lemma sink_of_cleanm m : sink_of (cleanm m) = sink_of m.
Proof. reflexivity. Qed.

Lemma fin_phaseA m :
  w_finalized (m_writer m) = false -> m_finished m = false ->
  (step m FIN = (m, RErr (MIo IoInvalidInput)) /\
   step (cleanm m) FIN = (cleanm m, RErr (MIo IoInvalidInput))) \/
  (w_finalized (m_writer (fst (step m FIN))) = true /\
   w_finalized (m_writer (fst (step (cleanm m) FIN))) = true /\
   exists rest, sink_of (fst (step (cleanm m) FIN)) = sink_of (fst (step m FIN)) ++ rest).
Proof.
  intros F Ffin. unfold cleanm. cbn [step]. unfold finish_in_place_with_stats.
  cbn [mset m_finished m_writer m_video m_meta m_fast]. rewrite Ffin.
  destruct (finalize_phaseA (m_writer m) (m_video m) (m_meta m) (m_fast m) F)
    as [[E1 E2]|(F1 & F2 & rest & P)].
  - left. rewrite E1, E2. split.
    + destruct m; cbn in *; subst; reflexivity.
    + destruct m; cbn in *; subst; reflexivity.
  - right. unfold sink_of.
    destruct (finalize (m_writer m) (m_video m) (m_meta m) (m_fast m)) as [w1 r1].
    destruct (finalize (wset (m_writer m) (clean (w_sink (m_writer m)))) (m_video m) (m_meta m) (m_fast m))
      as [w2 r2].
    cbn [fst] in *.
    destruct r1 as [|[k1|p1]], r2 as [|[k2|p2]]; cbn [fst m_writer]; eauto.
Qed.

Lemma phaseA_prefix : forall ops m,
  w_finalized (m_writer m) = false -> m_finished m = false ->
  exists rest, sink_of (fst (run (cleanm m) ops)) = sink_of (fst (run m ops)) ++ rest.
Proof.
  induction ops as [|o t IH]; intros m F Ffin.
  - exists []. rewrite app_nil_r. reflexivity.
  - destruct (op_fin_dec o) as [->|Hne].
    + destruct (fin_phaseA m F Ffin) as [[E1 E2]|(F1 & F2 & rest & P)].
      * rewrite !fst_run_cons, E1, E2. cbn [fst snd]. apply IH; assumption.
      * rewrite !run_cons_finalized by assumption. exists rest. exact P.
    + destruct (step_keeps m o Hne) as (A & _ & C & D).
      rewrite !fst_run_cons. unfold cleanm. rewrite (step_mset _ _ _ Hne). cbn [fst snd].
      rewrite <- A. fold (cleanm (fst (step m o))).
      destruct (snd (step m o)).
      * apply IH; congruence.
      * apply IH; congruence.
      * apply IH; congruence.
      * exists []. rewrite app_nil_r. apply sink_of_cleanm.
Qed.

Lemma build_clean b script m0 m0' :
  build b script = inl m0 -> build b [] = inl m0' ->
  m0' = cleanm m0 /\ w_finalized (m_writer m0) = false /\ m_finished m0 = false /\
  sk_script (w_sink (m_writer m0)) = script /\ sink_of m0 = [].
Proof.
  unfold build. destruct (b_video b) as [[[c w] h]|]; [|discriminate].
  intros H H'. inversion H; subst m0. inversion H'; subst m0'.
  repeat split; reflexivity.
Qed.

Theorem faulty_history_is_prefix_of_fault_free : forall b script m0 m0' ops,
  build b script = inl m0 -> build b [] = inl m0' ->
  exists rest, sink_of (fst (run m0' ops)) = sink_of (fst (run m0 ops)) ++ rest.
Proof.
  intros b script m0 m0' ops H H'.
  destruct (build_clean _ _ _ _ H H') as (-> & F & Ffin & _).
  apply phaseA_prefix; assumption.
Qed.
Print Assumptions faulty_history_is_prefix_of_fault_free.

(** * H2: a benign script is indistinguishable from the fault-free sink *)
Lemma finalize_benign2 w s1 s2 v md fs :
  benign (sk_script s1) -> benign (sk_script s2) -> sink_bytes s1 = sink_bytes s2 ->
  exists s2',
    finalize (wset w s2) v md fs =
      (wset (fst (finalize (wset w s1) v md fs)) s2', snd (finalize (wset w s1) v md fs)) /\
    benign (sk_script s2') /\
    benign (sk_script (w_sink (fst (finalize (wset w s1) v md fs)))) /\
    sink_bytes (w_sink (fst (finalize (wset w s1) v md fs))) = sink_bytes s2'.
Proof.
  intros B1 B2 E. unfold wset. rewrite !finalize_with_sink.
  destruct (w_finalized w).
  { exists s2. cbn [fst snd with_sink w_sink]. auto. }
  destruct (_ || _).
  { exists s2. cbn [fst snd with_sink w_sink]. auto. }
  destruct (param_sets_too_long (w_vconfig w)).
  { exists s2. cbn [fst snd with_sink w_sink]. auto. }
  set (bufs := fst (plan_of w v md fs)). set (term := snd (plan_of w v md fs)).
  destruct (run_plan_benign bufs (w_bytes_written w) s1 B1) as [s1' [H1 [Hb1 Hben1]]].
  destruct (run_plan_benign bufs (w_bytes_written w) s2 B2) as [s2' [H2 [Hb2 Hben2]]].
  rewrite H1, H2. exists s2'.
  split; [|split; [exact Hben2|split]].
  - unfold fin_tail. destruct term; reflexivity.
  - rewrite fin_tail_sink. exact Hben1.
  - rewrite fin_tail_sink. rewrite Hb1, Hb2, E. reflexivity.
Qed.

(* equal up to the sink, both sinks benign and holding the same bytes *)
Definition Rb (m m' : muxer) : Prop :=
  exists s', m' = mset m s' /\ benign (sk_script (w_sink (m_writer m))) /\
             benign (sk_script s') /\ sink_bytes (w_sink (m_writer m)) = sink_bytes s'.

Lemma Rb_step m m' o :
  Rb m m' -> snd (step m' o) = snd (step m o) /\ Rb (fst (step m o)) (fst (step m' o)).
Proof.
  intros (s' & -> & B1 & B2 & E).
  destruct (op_fin_dec o) as [->|Hne].
  - cbn [step]. unfold finish_in_place_with_stats.
    cbn [mset m_finished m_writer m_video m_meta m_fast].
    destruct (m_finished m) eqn:Ffin.
    { cbn [fst snd]. split; [reflexivity|]. exists s'. auto. }
    destruct (finalize_benign2 (m_writer m) (w_sink (m_writer m)) s' (m_video m) (m_meta m) (m_fast m) B1 B2 E)
      as (s2' & Hf & Hb2 & Hb1 & Hs).
    rewrite wset_self in *. rewrite Hf.
    destruct (finalize (m_writer m) (m_video m) (m_meta m) (m_fast m)) as [w1 r1].
    cbn [fst snd] in *.
    destruct r1 as [|[k1|p1]]; cbn [fst snd]; (split; [reflexivity|]); exists s2'; cbn [m_writer]; auto.
  - rewrite (step_mset _ _ _ Hne). cbn [fst snd]. split; [reflexivity|].
    destruct (step_keeps m o Hne) as (A & _).
    exists s'. rewrite A. auto.
Qed.

Lemma Rb_run : forall ops m m',
  Rb m m' -> snd (run m' ops) = snd (run m ops) /\ Rb (fst (run m ops)) (fst (run m' ops)).
Proof.
  induction ops as [|o t IH]; intros m m' R.
  - cbn [run fst snd]. auto.
  - destruct (Rb_step m m' o R) as [Hr R'].
    rewrite !fst_run_cons, !snd_run_cons, Hr.
    destruct (IH _ _ R') as [IH1 IH2].
    destruct (snd (step m o)); try (rewrite IH1; auto). auto.
Qed.

Theorem benign_history_same_as_fault_free : forall b script m0 m0' ops,
  benign script -> build b script = inl m0 -> build b [] = inl m0' ->
  snd (run m0 ops) = snd (run m0' ops) /\ sink_of (fst (run m0 ops)) = sink_of (fst (run m0' ops)).
Proof.
  intros b script m0 m0' ops Hben H H'.
  destruct (build_clean _ _ _ _ H H') as (-> & _ & _ & Hs & _).
  assert (R : Rb m0 (cleanm m0)).
  { exists (clean (w_sink (m_writer m0))). rewrite Hs. repeat split; try assumption. constructor. }
  destruct (Rb_run ops _ _ R) as [Hr (s' & Hm & _ & _ & E)].
  split; [symmetry; exact Hr|].
  rewrite Hm. unfold sink_of at 2. cbn [mset m_writer wset with_sink w_sink]. exact E.
Qed.
Print Assumptions benign_history_same_as_fault_free.

(** * H4: the reported duration *)
Definition sample_end (last : option N) (s : sample) : N :=
  N.min (s_pts s + match s_dur s with Some d => d | None => match last with Some d => d | None => 0 end end) U64MAX.

Lemma track_end_spec l last :
  track_end l last =
  match l with [] => None | _ => Some (fold_right N.max 0 (map (sample_end last) l)) end.
Proof. destruct l; reflexivity. Qed.

Lemma fold_max_app l1 l2 :
  fold_right N.max 0 (l1 ++ l2) = N.max (fold_right N.max 0 l1) (fold_right N.max 0 l2).
Proof. induction l1 as [|x l1 IH]; cbn [app fold_right]; [|rewrite IH]; lia. Qed.

Theorem max_end_pts_is_largest_presentation_end : forall w,
  max_end_pts w =
    match map (sample_end (w_vlast_delta w)) (w_vrev w) ++ map (sample_end (w_alast_delta w)) (w_arev w) with
    | [] => None
    | l => Some (fold_right N.max 0 l)
    end.
Proof.
  intros w. unfold max_end_pts. rewrite !track_end_spec.
  destruct (w_vrev w) as [|a l]; destruct (w_arev w) as [|b l'].
  - reflexivity.
  - reflexivity.
  - cbn [map app]. rewrite app_nil_r. reflexivity.
  - change (map (sample_end (w_vlast_delta w)) (a :: l) ++ map (sample_end (w_alast_delta w)) (b :: l'))
      with (sample_end (w_vlast_delta w) a ::
            (map (sample_end (w_vlast_delta w)) l ++ map (sample_end (w_alast_delta w)) (b :: l'))).
    cbv iota. f_equal.
    change (sample_end (w_vlast_delta w) a ::
            (map (sample_end (w_vlast_delta w)) l ++ map (sample_end (w_alast_delta w)) (b :: l')))
      with (map (sample_end (w_vlast_delta w)) (a :: l) ++ map (sample_end (w_alast_delta w)) (b :: l')).
    rewrite fold_max_app. reflexivity.
Qed.
Print Assumptions max_end_pts_is_largest_presentation_end.

Theorem reported_duration_is_max_end_over_90000 : forall m s m',
  step m FIN = (m', RStats s) ->
  st_duration s = fdiv (of_N (match max_end_pts (m_writer m) with Some t => t | None => 0 end)) f_90000.
Proof.
  intros m s m' H. cbn [step] in H. unfold finish_in_place_with_stats in H.
  destruct (m_finished m); [discriminate|].
  destruct (finalize (m_writer m) (m_video m) (m_meta m) (m_fast m)) as [w r] eqn:Fz.
  destruct r as [|[k|p]]; cbv beta iota zeta in H; try discriminate.
  destruct (finalize_ok_with_sink _ _ _ _ _ Fz) as (bw & s0 & ->).
  inversion H; subst. reflexivity.
Qed.
Print Assumptions reported_duration_is_max_end_over_90000.

(** * H5: rejected fragmented writes leave no trace *)
Definition f_rejected (m : fmuxer) (o : fop) : bool :=
  match snd (fstep m o) with FrErrNonMonotonic _ _ => true | _ => false end.
Fixpoint f_kept (m : fmuxer) (ops : list fop) : list fop :=
  match ops with
  | [] => []
  | o :: t => if f_rejected m o then f_kept m t else o :: f_kept (fst (fstep m o)) t
  end.

Definition not_nonmono (r : fres) : bool :=
  match r with FrErrNonMonotonic _ _ => false | _ => true end.

Lemma fstep_no_panic m o : snd (fstep m o) <> FrPanic.
Proof.
  destruct o as [p d b s| | | |]; cbn [fstep].
  - unfold f_write. destruct (fm_last_dts m) as [last|]; [destruct (d <? last)|]; cbn [snd]; discriminate.
  - unfold f_flush. destruct (rev (fm_samples_rev m)); cbn [snd]; discriminate.
  - cbn [snd]. discriminate.
  - cbn [snd]. discriminate.
  - destruct (f_init m) as [m' b]. cbn [snd]. discriminate.
Qed.

Lemma fstep_rejected_unchanged m o : f_rejected m o = true -> fst (fstep m o) = m.
Proof.
  unfold f_rejected. destruct o as [p d b s| | | |]; cbn [fstep].
  - unfold f_write. destruct (fm_last_dts m) as [last|]; [destruct (d <? last)|]; cbn [fst snd];
      try reflexivity; discriminate.
  - unfold f_flush. destruct (rev (fm_samples_rev m)); cbn [snd]; discriminate.
  - cbn [snd]. discriminate.
  - cbn [snd]. discriminate.
  - destruct (f_init m) as [m' b]. cbn [snd]. discriminate.
Qed.

Lemma frun_cons m o t :
  frun m (o :: t) =
  (fst (frun (fst (fstep m o)) t), snd (fstep m o) :: snd (frun (fst (fstep m o)) t)).
Proof.
  cbn [frun]. pose proof (fstep_no_panic m o) as NP.
  destruct (fstep m o) as [m' r]. cbn [fst snd] in *.
  destruct r; try congruence; destruct (frun m' t); reflexivity.
Qed.

Theorem fragmented_rejected_writes_leave_no_trace : forall ops m,
  fst (frun m (f_kept m ops)) = fst (frun m ops) /\
  snd (frun m (f_kept m ops)) = filter (fun r => match r with FrErrNonMonotonic _ _ => false | _ => true end) (snd (frun m ops)).
Proof.
  induction ops as [|o t IH]; intros m.
  - cbn [f_kept frun fst snd filter]. auto.
  - cbn [f_kept]. rewrite (frun_cons m o t). cbn [fst snd filter].
    destruct (f_rejected m o) eqn:R.
    + rewrite (fstep_rejected_unchanged m o R).
      unfold f_rejected in R. destruct (snd (fstep m o)); try discriminate. apply IH.
    + rewrite frun_cons. cbn [fst snd].
      destruct (IH (fst (fstep m o))) as [IH1 IH2]. rewrite IH1, IH2.
      unfold f_rejected in R. destruct (snd (fstep m o)); try discriminate; auto.
Qed.
Print Assumptions fragmented_rejected_writes_leave_no_trace.

(** * H6: the writer depends on a video timestamp only through its tick *)
Theorem equal_ticks_equal_writer : forall m p p' d k,
  tick p = tick p' ->
  (forall e, snd (write_video m p d k) = Some e <-> snd (write_video m p' d k) = Some e) ->
  snd (write_video m p d k) = None ->
  m_writer (fst (write_video m p d k)) = m_writer (fst (write_video m p' d k)).
Proof.
  intros m p p' d k Ht Hiff Hok.
  assert (Hok' : snd (write_video m p' d k) = None).
  { destruct (snd (write_video m p' d k)) as [e|] eqn:E; [|reflexivity].
    pose proof (proj2 (Hiff e) eq_refl) as E'. congruence. }
  revert Hok Hok'. unfold write_video. rewrite <- Ht.
  destruct (write_video_sample (m_writer m) (tick p) d k) as [w|e].
  - repeat atom_match; cbn [fst snd set_video_ok m_writer]; intros; try reflexivity; discriminate.
  - repeat atom_match; cbn [fst snd]; intros; discriminate.
Qed.
Print Assumptions equal_ticks_equal_writer.
