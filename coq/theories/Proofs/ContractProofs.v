(** C04: the model obeys the documented input contract ([Spec/Contract.v]) for
    every call history: a call succeeds exactly when it violates no
    precondition, and the error of a failing call names a precondition that this
    very call violates.

    Part 1 ([F64Facts]) proves, in plain integer arithmetic over
    [Coq.Floats.SpecFloat] (no reals, no axioms), the binary64 facts the
    argument needs: values that cross the API are canonical, the accumulated
    audio clock stays canonical, and the 90 kHz tick conversion is monotone.
    Part 2 proves the contract theorems. *)
From Coq Require Import Floats.SpecFloat ZArith NArith Lia ZifyN ZifyNat ZifyBool Bool.
From Muxide Require Import Model.Base Model.F64.

Module F64Facts.
Local Open Scope Z_scope.

(** * Deliverable definition *)

Definition canon (x : f64) : Prop :=
  match x with
  | S754_finite _ m e => (Z.pos m < 2^53 /\ -1074 <= e /\ (e = -1074 \/ 2^52 <= Z.pos m))%Z
  | _ => True
  end.

(** * Powers of two *)

Lemma pow2_pos k : 0 <= k -> 0 < 2 ^ k.
Proof. intros. apply Z.pow_pos_nonneg; lia. Qed.

Lemma pow2_le a b : a <= b -> 2 ^ a <= 2 ^ b.
Proof. intros. apply Z.pow_le_mono_r; lia. Qed.

Lemma pow2_lt_inv a b : 2 ^ a < 2 ^ b -> a < b.
Proof.
  intros H. destruct (Z_lt_le_dec a b) as [|Hle]; [assumption|].
  apply pow2_le in Hle. lia.
Qed.

Lemma pow2_add a b : 0 <= a -> 0 <= b -> 2 ^ (a + b) = 2 ^ a * 2 ^ b.
Proof. intros. apply Z.pow_add_r; assumption. Qed.

Lemma pow2_succ a : 0 <= a -> 2 ^ (a + 1) = 2 * 2 ^ a.
Proof. intros. rewrite Z.add_1_r. apply Z.pow_succ_r. assumption. Qed.

Lemma pow2_split a b : 0 <= b <= a -> 2 ^ a = 2 ^ (a - b) * 2 ^ b.
Proof. intros. rewrite <- pow2_add by lia. f_equal. lia. Qed.

(** * Digits *)

Lemma fexp_eq x : fexp 53 1024 x = Z.max (x - 53) (-1074).
Proof. reflexivity. Qed.

Lemma digits2_pos_bounds p :
  2 ^ (Z.pos (digits2_pos p) - 1) <= Z.pos p < 2 ^ Z.pos (digits2_pos p).
Proof.
  induction p as [p IH|p IH|]; cbn [digits2_pos].
  - rewrite Pos2Z.inj_succ, Pos2Z.inj_xI.
    replace (Z.succ (Z.pos (digits2_pos p)) - 1) with (Z.pos (digits2_pos p) - 1 + 1) by lia.
    rewrite <- Z.add_1_r.
    rewrite !pow2_succ by lia. lia.
  - rewrite Pos2Z.inj_succ, Pos2Z.inj_xO.
    replace (Z.succ (Z.pos (digits2_pos p)) - 1) with (Z.pos (digits2_pos p) - 1 + 1) by lia.
    rewrite <- Z.add_1_r.
    rewrite !pow2_succ by lia. lia.
  - change (2 ^ 0 <= 1 < 2 ^ 1). change (1 <= 1 < 2). lia.
Qed.

Lemma Zdigits2_bounds m : 0 < m -> 2 ^ (Zdigits2 m - 1) <= m < 2 ^ Zdigits2 m.
Proof. destruct m; try lia. intros _. apply digits2_pos_bounds. Qed.

Lemma Zdigits2_nonneg m : 0 <= Zdigits2 m.
Proof. destruct m; simpl; lia. Qed.

Lemma Zdigits2_upper m : 0 <= m -> m < 2 ^ Zdigits2 m.
Proof.
  intros H. destruct (Z.eq_dec m 0) as [->|]; [reflexivity|].
  apply Zdigits2_bounds; lia.
Qed.

Lemma Zdigits2_unique m k : 0 < m -> 2 ^ (k - 1) <= m < 2 ^ k -> Zdigits2 m = k.
Proof.
  intros Hm Hk. pose proof (Zdigits2_bounds m Hm) as Hd.
  assert (Zdigits2 m - 1 < k) by (apply pow2_lt_inv; lia).
  assert (k - 1 < Zdigits2 m) by (apply pow2_lt_inv; lia).
  lia.
Qed.

Lemma Zdigits2_ge m k : 0 < m -> 2 ^ (k - 1) <= m -> k <= Zdigits2 m.
Proof.
  intros Hm Hk. pose proof (Zdigits2_bounds m Hm) as Hd.
  assert (k - 1 < Zdigits2 m) by (apply pow2_lt_inv; lia).
  lia.
Qed.

Lemma Zdigits2_le m k : 0 <= k -> 0 <= m < 2 ^ k -> Zdigits2 m <= k.
Proof.
  intros Hk Hm. destruct (Z.eq_dec m 0) as [->|]; [simpl; lia|].
  pose proof (Zdigits2_bounds m ltac:(lia)) as Hd.
  assert (Zdigits2 m - 1 < k) by (apply pow2_lt_inv; lia).
  lia.
Qed.

(** * Shifting right *)

Lemma shr_1_spec m r s : 0 <= m ->
  shr_1 {| shr_m := m; shr_r := r; shr_s := s |} =
  {| shr_m := m / 2; shr_r := Z.odd m; shr_s := r || s |}.
Proof.
  intros Hm. rewrite <- Z.div2_div.
  destruct m as [|[p|p|]|p]; try reflexivity. lia.
Qed.

Fixpoint niter {A} (n : nat) (f : A -> A) (x : A) : A :=
  match n with O => x | S n => f (niter n f x) end.

Lemma nat_iter_add {A} (f : A -> A) a b x :
  niter (a + b) f x = niter a f (niter b f x).
Proof. induction a; simpl; congruence. Qed.

Lemma iter_pos_nat {A} (f : A -> A) p : forall x,
  SpecFloat.iter_pos f p x = niter (Pos.to_nat p) f x.
Proof.
  induction p as [p IH|p IH|]; intros x; cbn [SpecFloat.iter_pos].
  - rewrite !IH. rewrite Pos2Nat.inj_xI.
    replace (S (2 * Pos.to_nat p))%nat with (Pos.to_nat p + (Pos.to_nat p + 1))%nat by lia.
    rewrite !nat_iter_add. reflexivity.
  - rewrite !IH. rewrite Pos2Nat.inj_xO.
    replace (2 * Pos.to_nat p)%nat with (Pos.to_nat p + Pos.to_nat p)%nat by lia.
    rewrite !nat_iter_add. reflexivity.
  - reflexivity.
Qed.

Lemma iter_shr_spec n : forall m r s, 0 <= m ->
  niter (S n) shr_1 {| shr_m := m; shr_r := r; shr_s := s |} =
  {| shr_m := m / 2 ^ (Z.of_nat n + 1); shr_r := Z.odd (m / 2 ^ Z.of_nat n);
     shr_s := r || s || negb (m mod 2 ^ Z.of_nat n =? 0) |}.
Proof.
  induction n as [|n IH]; intros m r s Hm.
  - change (niter 1 shr_1 ?x) with (shr_1 x). rewrite shr_1_spec by assumption.
    change (Z.of_nat 0) with 0. change (2 ^ (0 + 1)) with 2. change (2 ^ 0) with 1.
    rewrite Z.div_1_r, Z.mod_1_r. rewrite orb_false_r. reflexivity.
  - change (niter (S (S n)) shr_1 ?x) with (shr_1 (niter (S n) shr_1 x)).
    rewrite IH by assumption.
    assert (Hh : 0 < 2 ^ Z.of_nat n) by (apply pow2_pos; lia).
    assert (Hh1 : 2 ^ (Z.of_nat n + 1) = 2 ^ Z.of_nat n * 2)
      by (rewrite pow2_succ by lia; lia).
    rewrite shr_1_spec by (apply Z.div_pos; lia).
    rewrite Nat2Z.inj_succ, <- !Z.add_1_r.
    f_equal.
    + rewrite Z.div_div by lia. f_equal.
      rewrite (pow2_succ (Z.of_nat n + 1)) by lia. lia.
    + rewrite Hh1.
      rewrite (Z.rem_mul_r m (2 ^ Z.of_nat n) 2) by lia.
      rewrite Zmod_odd.
      pose proof (Z.mod_pos_bound m (2 ^ Z.of_nat n) Hh).
      destruct (Z.odd (m / 2 ^ Z.of_nat n)); lia.
Qed.

Lemma shr_pos_spec p m r s : 0 <= m ->
  SpecFloat.iter_pos shr_1 p {| shr_m := m; shr_r := r; shr_s := s |} =
  {| shr_m := m / 2 ^ Z.pos p; shr_r := Z.odd (m / 2 ^ (Z.pos p - 1));
     shr_s := r || s || negb (m mod 2 ^ (Z.pos p - 1) =? 0) |}.
Proof.
  intros Hm. rewrite iter_pos_nat.
  destruct (Pos2Nat.is_succ p) as [n Hn]. rewrite Hn, iter_shr_spec by assumption.
  assert (Z.pos p = Z.of_nat n + 1) by lia.
  replace (Z.pos p - 1) with (Z.of_nat n) by lia.
  replace (Z.pos p) with (Z.of_nat n + 1) by lia. reflexivity.
Qed.

(** * Round to nearest even on integers *)

Definition rne (m k : Z) : Z :=
  let q := m / 2 ^ k in
  let r := m mod 2 ^ k in
  if 2 ^ k <? 2 * r then q + 1
  else if 2 * r =? 2 ^ k then (if Z.even q then q else q + 1)
  else q.

Lemma rne_shr m k : 0 <= m -> 0 < k ->
  round_nearest_even (m / 2 ^ k)
    (loc_of_shr_record
       {| shr_m := m / 2 ^ k; shr_r := Z.odd (m / 2 ^ (k - 1));
          shr_s := false || false || negb (m mod 2 ^ (k - 1) =? 0) |}) = rne m k.
Proof.
  intros Hm Hk. unfold rne.
  assert (Hh : 0 < 2 ^ (k - 1)) by (apply pow2_pos; lia).
  assert (Hk2 : 2 ^ k = 2 ^ (k - 1) * 2).
  { replace k with (k - 1 + 1) at 1 by lia. rewrite pow2_succ by lia. lia. }
  rewrite Hk2. set (h := 2 ^ (k - 1)) in *.
  rewrite <- (Z.div_div m h 2) by lia.
  rewrite (Z.rem_mul_r m h 2) by lia.
  rewrite Zmod_odd.
  pose proof (Z.mod_pos_bound m h Hh) as Hb.
  set (a := m / h) in *. set (b := m mod h) in *.
  cbn [orb].
  destruct (Z.odd a); destruct (Z.eqb_spec b 0) as [Hb0|Hb0]; cbn [negb loc_of_shr_record round_nearest_even].
  - replace (h * 2 <? 2 * (b + h * 1)) with false by lia.
    replace (2 * (b + h * 1) =? h * 2) with true by lia. reflexivity.
  - replace (h * 2 <? 2 * (b + h * 1)) with true by lia. reflexivity.
  - replace (h * 2 <? 2 * (b + h * 0)) with false by lia.
    replace (2 * (b + h * 0) =? h * 2) with false by lia. reflexivity.
  - replace (h * 2 <? 2 * (b + h * 0)) with false by lia.
    replace (2 * (b + h * 0) =? h * 2) with false by lia. reflexivity.
Qed.

Lemma rne_bounds m k : 0 <= k -> m / 2 ^ k <= rne m k <= m / 2 ^ k + 1.
Proof.
  intros. unfold rne.
  destruct (_ <? _); [lia|]. destruct (_ =? _); [|lia]. destruct (Z.even _); lia.
Qed.

Lemma rne_exact a k : 0 <= k -> rne (a * 2 ^ k) k = a.
Proof.
  intros Hk. unfold rne. pose proof (pow2_pos k Hk).
  rewrite Z.div_mul, Z.mod_mul by lia.
  replace (2 ^ k <? 2 * 0) with false by lia.
  replace (2 * 0 =? 2 ^ k) with false by lia. reflexivity.
Qed.

Lemma rne_mono m1 m2 k : 0 <= k -> m1 <= m2 -> rne m1 k <= rne m2 k.
Proof.
  intros Hk Hle. pose proof (pow2_pos k Hk) as Hp. unfold rne.
  pose proof (Z.div_le_mono m1 m2 (2 ^ k) Hp Hle) as Hq.
  pose proof (Z.div_mod m1 (2 ^ k) ltac:(lia)) as E1.
  pose proof (Z.div_mod m2 (2 ^ k) ltac:(lia)) as E2.
  pose proof (Z.mod_pos_bound m1 (2 ^ k) Hp) as B1.
  pose proof (Z.mod_pos_bound m2 (2 ^ k) Hp) as B2.
  set (P := 2 ^ k) in *.
  set (q1 := m1 / P) in *. set (q2 := m2 / P) in *.
  set (r1 := m1 mod P) in *. set (r2 := m2 mod P) in *.
  assert (Hc : q1 < q2 \/ q1 = q2) by lia.
  destruct Hc as [Hc|Hc].
  - assert (q1 + 1 <= q2) by lia.
    destruct (P <? 2 * r1); destruct (P <? 2 * r2);
    destruct (2 * r1 =? P); destruct (2 * r2 =? P);
    destruct (Z.even q1); destruct (Z.even q2); lia.
  - assert (r1 <= r2) by (rewrite Hc in E1; lia).
    rewrite Hc.
    destruct (Z.ltb_spec P (2 * r1)); destruct (Z.ltb_spec P (2 * r2));
    destruct (Z.eqb_spec (2 * r1) P); destruct (Z.eqb_spec (2 * r2) P);
    destruct (Z.even q2); lia.
Qed.

Lemma rne_scale m k j : 0 <= k -> 0 <= j -> rne (m * 2 ^ j) (k + j) = rne m k.
Proof.
  intros Hk Hj. unfold rne.
  pose proof (pow2_pos k Hk). pose proof (pow2_pos j Hj).
  rewrite (pow2_add k j) by lia.
  rewrite Z.div_mul_cancel_r by lia.
  rewrite Z.mul_mod_distr_r by lia.
  set (P := 2 ^ k) in *. set (J := 2 ^ j) in *.
  set (q := m / P). set (r := m mod P).
  replace (P * J <? 2 * (r * J)) with (P <? 2 * r) by nia.
  replace (2 * (r * J) =? P * J) with (2 * r =? P) by nia.
  reflexivity.
Qed.

Lemma rne_le_pow m k j : 0 <= k -> 0 <= j -> m <= 2 ^ (j + k) -> rne m k <= 2 ^ j.
Proof.
  intros Hk Hj H. rewrite <- (rne_exact (2 ^ j) k Hk).
  apply rne_mono; [assumption|]. rewrite <- pow2_add by lia. assumption.
Qed.

Lemma rne_ge_pow m k j : 0 <= k -> 0 <= j -> 2 ^ (j + k) <= m -> 2 ^ j <= rne m k.
Proof.
  intros Hk Hj H. rewrite <- (rne_exact (2 ^ j) k Hk) at 1.
  apply rne_mono; [assumption|]. rewrite <- pow2_add by lia. assumption.
Qed.

(** * The two stages of [binary_round_aux] *)

Definition rnd1 (m e : Z) (l : location) : Z * Z :=
  let '(mrs, e') := shr_fexp 53 1024 m e l in
  (round_nearest_even (shr_m mrs) (loc_of_shr_record mrs), e').

Definition stage2 (s : bool) (m1 e1 : Z) : spec_float :=
  let '(mrs'', e'') := shr_fexp 53 1024 m1 e1 loc_Exact in
  match shr_m mrs'' with
  | Z0 => S754_zero s
  | Zpos m => if Zle_bool e'' (1024 - 53) then S754_finite s m e'' else S754_infinity s
  | _ => S754_nan
  end.

Lemma bra_unfold s m e l :
  binary_round_aux 53 1024 s m e l = stage2 s (fst (rnd1 m e l)) (snd (rnd1 m e l)).
Proof.
  unfold binary_round_aux, rnd1, stage2.
  destruct (shr_fexp 53 1024 m e l) as [mrs e']. reflexivity.
Qed.

Definition loc_r (l : location) : bool :=
  match l with loc_Inexact Eq | loc_Inexact Gt => true | _ => false end.
Definition loc_s (l : location) : bool :=
  match l with loc_Inexact Lt | loc_Inexact Gt => true | _ => false end.

Lemma shr_record_of_loc_eq m l :
  shr_record_of_loc m l = {| shr_m := m; shr_r := loc_r l; shr_s := loc_s l |}.
Proof. destruct l as [|[]]; reflexivity. Qed.

Lemma rne_loc_bounds q r s :
  q <= round_nearest_even q (loc_of_shr_record {| shr_m := q; shr_r := r; shr_s := s |}) <= q + 1.
Proof. destruct r, s; cbn; try destruct (Z.even q); lia. Qed.

Lemma shr_fexp_nonpos m e l :
  Z.max (Zdigits2 m + e - 53) (-1074) - e <= 0 ->
  shr_fexp 53 1024 m e l = (shr_record_of_loc m l, e).
Proof.
  intros H. unfold shr_fexp. rewrite fexp_eq.
  destruct (Z.max (Zdigits2 m + e - 53) (-1074) - e) eqn:E; try reflexivity. lia.
Qed.

Lemma shr_fexp_pos m e l :
  0 <= m ->
  let n := Z.max (Zdigits2 m + e - 53) (-1074) - e in
  0 < n ->
  shr_fexp 53 1024 m e l =
  ({| shr_m := m / 2 ^ n; shr_r := Z.odd (m / 2 ^ (n - 1));
      shr_s := loc_r l || loc_s l || negb (m mod 2 ^ (n - 1) =? 0) |}, e + n).
Proof.
  intros Hm n Hn. unfold shr_fexp. rewrite fexp_eq. fold n.
  destruct n as [|p|p] eqn:E; try lia.
  unfold SpecFloat.shr. rewrite shr_record_of_loc_eq, shr_pos_spec by assumption. reflexivity.
Qed.

Lemma rnd1_exact m e : 0 <= m ->
  let n := Z.max (Zdigits2 m + e - 53) (-1074) - e in
  rnd1 m e loc_Exact = if 0 <? n then (rne m n, e + n) else (m, e).
Proof.
  intros Hm n. unfold rnd1. destruct (Z.ltb_spec 0 n) as [Hn|Hn].
  - rewrite shr_fexp_pos by assumption. fold n. cbn [shr_m loc_r loc_s].
    rewrite rne_shr by assumption. reflexivity.
  - rewrite shr_fexp_nonpos by assumption. reflexivity.
Qed.

Lemma rnd1_gen m e l : 0 <= m ->
  let n := Z.max (Zdigits2 m + e - 53) (-1074) - e in
  0 <= n ->
  exists m1, rnd1 m e l = (m1, e + n) /\ m / 2 ^ n <= m1 <= m / 2 ^ n + 1.
Proof.
  intros Hm n Hn. unfold rnd1.
  assert (Hc : n = 0 \/ 0 < n) by lia. destruct Hc as [Hc|Hc].
  - rewrite shr_fexp_nonpos by (fold n; lia). rewrite shr_record_of_loc_eq.
    eexists. split; [rewrite Hc, Z.add_0_r; reflexivity|].
    rewrite Hc. change (2 ^ 0) with 1. rewrite Z.div_1_r. cbn [shr_m]. apply rne_loc_bounds.
  - rewrite shr_fexp_pos by assumption. fold n. cbn [shr_m].
    eexists. split; [reflexivity|]. apply rne_loc_bounds.
Qed.

Lemma stage2_spec s m1 e1 : 0 <= m1 <= 2 ^ 53 -> -1074 <= e1 ->
  stage2 s m1 e1 =
  if m1 =? 0 then S754_zero s
  else if m1 <? 2 ^ 53 then
    (if e1 <=? 971 then S754_finite s (Z.to_pos m1) e1 else S754_infinity s)
  else
    (if e1 + 1 <=? 971 then S754_finite s (Z.to_pos (2 ^ 52)) (e1 + 1) else S754_infinity s).
Proof.
  intros Hm He. unfold stage2. change (1024 - 53) with 971.
  destruct (Z.eqb_spec m1 0) as [H0|H0].
  - subst m1. rewrite shr_fexp_nonpos by (change (Zdigits2 0) with 0; lia). reflexivity.
  - destruct (Z.ltb_spec m1 (2 ^ 53)) as [Hlt|Hge].
    + assert (Zdigits2 m1 <= 53) by (apply Zdigits2_le; lia).
      rewrite shr_fexp_nonpos by lia. cbn [shr_record_of_loc shr_m].
      destruct m1 as [|p|p]; try lia. reflexivity.
    + assert (m1 = 2 ^ 53) by lia. subst m1.
      assert (Hd : Zdigits2 (2 ^ 53) = 54) by reflexivity.
      rewrite shr_fexp_pos by (rewrite ?Hd; lia). rewrite Hd.
      replace (Z.max (54 + e1 - 53) (-1074) - e1) with 1 by lia.
      cbn [shr_m]. reflexivity.
Qed.

(** * Value semantics (in units of [2^-K]) and monotonicity of [tick] *)

Lemma f_90000_eq : f_90000 = S754_finite false 6184752906240000 (-36).
Proof. vm_compute. reflexivity. Qed.

Lemma V_bounds (M : positive) j : 0 <= j ->
  2 ^ (Zdigits2 (Z.pos M) + j - 1) <= Z.pos M * 2 ^ j < 2 ^ (Zdigits2 (Z.pos M) + j).
Proof.
  intros Hj. pose proof (Zdigits2_bounds (Z.pos M) ltac:(lia)) as B.
  pose proof (Zdigits2_nonneg (Z.pos M)).
  assert (0 < Zdigits2 (Z.pos M)) by (simpl; lia).
  replace (Zdigits2 (Z.pos M) + j - 1) with (Zdigits2 (Z.pos M) - 1 + j) by lia.
  rewrite !pow2_add by lia.
  pose proof (pow2_pos j Hj). nia.
Qed.

Section Value.
Variable K : Z.
Hypothesis HK : 1110 <= K.

Definition FVal (x : f64) (U : Z) : Prop :=
  match x with
  | S754_zero _ => U = 0
  | S754_finite false m e => -1074 <= e /\ Z.pos m * 2 ^ (e + K) = U
  | S754_infinity false => 2 ^ (972 + K) <= U
  | _ => False
  end.

Definition Rd (V d : Z) : Z :=
  let n := Z.max (d - 53) (K - 1074) in rne V n * 2 ^ n.

Lemma Rd_mono V1 d1 V2 d2 :
  0 < V1 <= V2 ->
  2 ^ (d1 - 1) <= V1 < 2 ^ d1 ->
  2 ^ (d2 - 1) <= V2 < 2 ^ d2 ->
  Rd V1 d1 <= Rd V2 d2.
Proof.
  intros HV B1 B2. unfold Rd.
  assert (Hd : d1 - 1 < d2) by (apply pow2_lt_inv; lia).
  set (n1 := Z.max (d1 - 53) (K - 1074)). set (n2 := Z.max (d2 - 53) (K - 1074)).
  assert (Hc : n1 = n2 \/ n1 < n2) by lia. destruct Hc as [Hc|Hc].
  - rewrite Hc. apply Z.mul_le_mono_nonneg_r.
    + pose proof (pow2_pos n2 ltac:(lia)); lia.
    + apply rne_mono; lia.
  - assert (Hn2 : n2 = d2 - 53) by lia.
    apply Z.le_trans with (2 ^ (53 + n1)).
    + rewrite (pow2_add 53 n1) by lia.
      apply Z.mul_le_mono_nonneg_r; [pose proof (pow2_pos n1 ltac:(lia)); lia|].
      apply rne_le_pow; try lia.
      assert (2 ^ d1 <= 2 ^ (53 + n1)) by (apply pow2_le; lia). lia.
    + apply Z.le_trans with (2 ^ (52 + n2)); [apply pow2_le; lia|].
      rewrite (pow2_add 52 n2) by lia.
      apply Z.mul_le_mono_nonneg_r; [pose proof (pow2_pos n2 ltac:(lia)); lia|].
      apply rne_ge_pow; try lia.
      replace (52 + n2) with (d2 - 1) by lia. lia.
Qed.

Lemma bra_value (m : positive) e : -1110 <= e ->
  FVal (binary_round_aux 53 1024 false (Z.pos m) e loc_Exact)
      (Rd (Z.pos m * 2 ^ (e + K)) (Zdigits2 (Z.pos m) + e + K)).
Proof.
  intros He. rewrite bra_unfold, rnd1_exact by lia.
  pose proof (Zdigits2_bounds (Z.pos m) ltac:(lia)) as B.
  set (d := Zdigits2 (Z.pos m)) in *.
  set (n := Z.max (d + e - 53) (-1074) - e).
  unfold Rd.
  assert (HnV : Z.max (d + e + K - 53) (K - 1074) = n + (e + K)) by lia.
  rewrite HnV.
  destruct (Z.ltb_spec 0 n) as [Hn|Hn]; cbn [fst snd].
  - rewrite rne_scale by lia.
    pose proof (rne_bounds (Z.pos m) n ltac:(lia)) as Hb.
    assert (0 <= Z.pos m / 2 ^ n) by (apply Z.div_pos; [lia|apply pow2_pos; lia]).
    assert (Hup : rne (Z.pos m) n <= 2 ^ 53).
    { apply rne_le_pow; try lia.
      assert (2 ^ d <= 2 ^ (53 + n)) by (apply pow2_le; lia). lia. }
    rewrite stage2_spec by lia.
    set (m1 := rne (Z.pos m) n) in *.
    pose proof (pow2_pos (n + (e + K)) ltac:(lia)) as HP.
    destruct (Z.eqb_spec m1 0) as [H0|H0].
    + cbn. rewrite H0. reflexivity.
    + destruct (Z.ltb_spec m1 (2 ^ 53)) as [Hlt|Hge].
      * destruct (Z.leb_spec (e + n) 971) as [Hle|Hgt]; cbn [FVal].
        -- split; [lia|]. rewrite Z2Pos.id by lia. f_equal. f_equal. lia.
        -- assert (2 ^ (972 + K) <= 2 ^ (n + (e + K))) by (apply pow2_le; lia). nia.
      * assert (Hm1 : m1 = 2 ^ 53) by lia. rewrite Hm1.
        destruct (Z.leb_spec (e + n + 1) 971) as [Hle|Hgt]; cbn [FVal].
        -- split; [lia|]. rewrite Z2Pos.id by (apply pow2_pos; lia).
           replace (e + n + 1 + K) with (n + (e + K) + 1) by lia.
           rewrite pow2_succ by lia. change (2 ^ 53) with (2 * 2 ^ 52). lia.
        -- assert (2 ^ (972 + K) <= 2 ^ (n + (e + K) + 1)) by (apply pow2_le; lia).
           rewrite pow2_succ in * by lia. change (2 ^ 53) with (2 * 2 ^ 52).
           pose proof (pow2_pos 52 ltac:(lia)). nia.
  - assert (Hd53 : d <= 53) by lia.
    assert (Z.pos m < 2 ^ 53).
    { assert (2 ^ d <= 2 ^ 53) by (apply pow2_le; lia). lia. }
    rewrite stage2_spec by lia.
    replace (Z.pos m =? 0) with false by lia.
    replace (Z.pos m <? 2 ^ 53) with true by lia.
    assert (HV : rne (Z.pos m * 2 ^ (e + K)) (n + (e + K)) * 2 ^ (n + (e + K))
                 = Z.pos m * 2 ^ (e + K)).
    { rewrite (pow2_split (e + K) (n + (e + K))) by lia.
      rewrite Z.mul_assoc. rewrite rne_exact by lia. reflexivity. }
    rewrite HV.
    destruct (Z.leb_spec e 971) as [Hle|Hgt]; cbn [FVal].
    + split; [lia|]. reflexivity.
    + assert (2 ^ (972 + K) <= 2 ^ (e + K)) by (apply pow2_le; lia). nia.
Qed.

Lemma r2u_finite m e : -1074 <= e ->
  round_to_u64 (S754_finite false m e) =
  N.min (Z.to_N ((Z.pos m * 2 ^ (e + K) + 2 ^ (K - 1)) / 2 ^ K)) U64MAX.
Proof.
  intros He. unfold round_to_u64. f_equal. f_equal.
  pose proof (pow2_pos K ltac:(lia)) as HPK.
  destruct (Z.leb_spec 0 e) as [H0|H0].
  - rewrite (pow2_add e K) by lia. rewrite Z.mul_assoc.
    rewrite Z.div_add_l by lia.
    rewrite Z.div_small; [lia|].
    split; [pose proof (pow2_pos (K - 1) ltac:(lia)); lia|].
    apply Z.pow_lt_mono_r; lia.
  - set (j := e + K).
    assert (HK1 : 2 ^ K = 2 ^ (- e) * 2 * 2 ^ (j - 1)).
    { replace K with (- e + (j - 1 + 1)) at 1 by lia.
      rewrite pow2_add, pow2_succ by lia. lia. }
    assert (HK2 : 2 ^ (K - 1) = 2 ^ (- e) * 2 ^ (j - 1)).
    { replace (K - 1) with (- e + (j - 1)) by lia. apply pow2_add; lia. }
    assert (Hj : 2 ^ j = 2 * 2 ^ (j - 1)).
    { replace j with (j - 1 + 1) at 1 by lia. apply pow2_succ; lia. }
    rewrite HK1, HK2, Hj.
    pose proof (pow2_pos (- e) ltac:(lia)) as Hd.
    pose proof (pow2_pos (j - 1) ltac:(lia)) as Hg.
    set (dd := 2 ^ (- e)) in *. set (g := 2 ^ (j - 1)) in *.
    replace (Z.pos m * (2 * g) + dd * g) with ((2 * Z.pos m + dd) * g) by lia.
    rewrite Z.div_mul_cancel_r by lia.
    pose proof (Z.div_mod (Z.pos m) dd ltac:(lia)) as E.
    pose proof (Z.mod_pos_bound (Z.pos m) dd Hd) as Bd.
    set (q := Z.pos m / dd) in *. set (r := Z.pos m mod dd) in *.
    destruct (Z.leb_spec dd (2 * r)) as [Hc|Hc].
    + apply Z.div_unique with (r := 2 * r - dd); [lia|]. rewrite E. lia.
    + apply Z.div_unique with (r := 2 * r + dd); [lia|]. rewrite E. lia.
Qed.

Lemma r2u_mono x y U U' :
  FVal x U -> FVal y U' -> U <= U' -> (round_to_u64 x <= round_to_u64 y)%N.
Proof.
  intros Hx Hy HU.
  pose proof (pow2_pos K ltac:(lia)) as HPK.
  assert (Hbig : forall W, 2 ^ (972 + K) <= W ->
            2 ^ 64 <= (W + 2 ^ (K - 1)) / 2 ^ K).
  { intros W HW. apply Z.div_le_lower_bound; [assumption|].
    rewrite (pow2_add 972 K) in HW by lia.
    assert (2 ^ 64 <= 2 ^ 972) by (apply pow2_le; lia).
    pose proof (pow2_pos (K - 1) ltac:(lia)). nia. }
  destruct x as [sx|sx| |sx mx ex]; cbn [FVal] in Hx; try contradiction.
  - cbn. apply N.le_0_l.
  - destruct sx; [contradiction|].
    destruct y as [sy|sy| |sy my ey]; cbn [FVal] in Hy; try contradiction.
    + pose proof (pow2_pos (972 + K) ltac:(lia)). lia.
    + destruct sy; [contradiction|]. cbn. lia.
    + destruct sy; [contradiction|]. destruct Hy as [Hey Hy].
      rewrite r2u_finite by assumption. rewrite Hy.
      pose proof (Hbig U' ltac:(lia)) as Hb.
      change (2 ^ 64) with 18446744073709551616 in Hb.
      cbn [round_to_u64]. unfold U64MAX. lia.
  - destruct sx; [contradiction|]. destruct Hx as [Hex Hx].
    destruct y as [sy|sy| |sy my ey]; cbn [FVal] in Hy; try contradiction.
    + pose proof (pow2_pos (ex + K) ltac:(lia)). nia.
    + destruct sy; [contradiction|]. rewrite r2u_finite by assumption.
      cbn [round_to_u64]. apply N.le_min_r.
    + destruct sy; [contradiction|]. destruct Hy as [Hey Hy].
      rewrite !r2u_finite by assumption. rewrite Hx, Hy.
      apply N.min_le_compat_r.
      assert ((U + 2 ^ (K - 1)) / 2 ^ K <= (U' + 2 ^ (K - 1)) / 2 ^ K)
        by (apply Z.div_le_mono; lia).
      lia.
Qed.

Lemma fleb_finite mx ex my ey :
  canon (S754_finite false mx ex) -> canon (S754_finite false my ey) ->
  SFleb (S754_finite false mx ex) (S754_finite false my ey) = true ->
  Z.pos mx * 2 ^ (ex + 1074) <= Z.pos my * 2 ^ (ey + 1074).
Proof.
  intros (Hx1 & Hx2 & Hx3) (Hy1 & Hy2 & Hy3). unfold SFleb, SFcompare.
  change (Pos.compare_cont Eq mx my) with (Pos.compare mx my).
  pose proof (pow2_pos (ex + 1074) ltac:(lia)) as HP.
  destruct (Z.compare_spec ex ey) as [He|He|He]; [| |discriminate].
  - subst ey. destruct (Pos.compare_spec mx my) as [Hm|Hm|Hm]; try discriminate; intros _.
    + subst; lia.
    + apply Z.mul_le_mono_nonneg_r; lia.
  - intros _.
    assert (H2 : 2 * 2 ^ (ex + 1074) <= 2 ^ (ey + 1074)).
    { rewrite <- pow2_succ by lia. apply pow2_le; lia. }
    destruct Hy3 as [Hy3|Hy3]; [lia|].
    change (2 ^ 53) with (2 * 2 ^ 52) in Hx1.
    pose proof (pow2_pos 52 ltac:(lia)) as H52.
    set (P := 2 ^ (ex + 1074)) in *. set (Q := 2 ^ (ey + 1074)) in *.
    set (c := 2 ^ 52) in *.
    apply Z.le_trans with (2 * c * P); [nia|].
    apply Z.le_trans with (c * Q); nia.
Qed.

Lemma fmul_rep mx ex : -1074 <= ex ->
  FVal (fmul (S754_finite false mx ex) f_90000)
      (Rd (Z.pos (mx * 6184752906240000) * 2 ^ (ex + -36 + K))
          (Zdigits2 (Z.pos (mx * 6184752906240000)) + (ex + -36) + K)).
Proof.
  intros He. rewrite f_90000_eq. unfold fmul, SFmul.
  change prec with 53. change emax with 1024. change (xorb false false) with false.
  apply bra_value. lia.
Qed.

Lemma tick_mono_K : forall x y : f64, canon x -> canon y ->
  is_finite x = true -> is_finite y = true ->
  fltb x f_zero = false -> fleb x y = true -> (tick x <= tick y)%N.
Proof.
  intros x y Cx Cy Fx Fy Hlt Hle. unfold tick.
  destruct x as [sx|sx| |sx mx ex]; try discriminate.
  - rewrite f_90000_eq. cbn. apply N.le_0_l.
  - destruct sx; [discriminate|].
    destruct y as [sy|sy| |sy my ey]; try discriminate.
    destruct sy; [discriminate|].
    pose proof (fleb_finite mx ex my ey Cx Cy Hle) as Hord.
    destruct Cx as (Hx1 & Hx2 & Hx3). destruct Cy as (Hy1 & Hy2 & Hy3).
    eapply r2u_mono; [apply fmul_rep; assumption|apply fmul_rep; assumption|].
    set (mc := 6184752906240000%positive).
    assert (Hj : forall e, -1074 <= e ->
              2 ^ (e + -36 + K) = 2 ^ (e + 1074) * 2 ^ (K - 1110)).
    { intros e He. rewrite <- pow2_add by lia. f_equal. lia. }
    apply Rd_mono.
    + rewrite !Pos2Z.inj_mul, !Hj by assumption.
      pose proof (pow2_pos (K - 1110) ltac:(lia)).
      pose proof (pow2_pos (ex + 1074) ltac:(lia)).
      split; [nia|].
      replace (Z.pos mx * Z.pos mc * (2 ^ (ex + 1074) * 2 ^ (K - 1110)))
        with (Z.pos mx * 2 ^ (ex + 1074) * (Z.pos mc * 2 ^ (K - 1110))) by ring.
      replace (Z.pos my * Z.pos mc * (2 ^ (ey + 1074) * 2 ^ (K - 1110)))
        with (Z.pos my * 2 ^ (ey + 1074) * (Z.pos mc * 2 ^ (K - 1110))) by ring.
      apply Z.mul_le_mono_nonneg_r; [lia|assumption].
    + replace (Zdigits2 (Z.pos (mx * mc)) + (ex + -36) + K)
        with (Zdigits2 (Z.pos (mx * mc)) + (ex + -36 + K)) by lia.
      apply V_bounds. lia.
    + replace (Zdigits2 (Z.pos (my * mc)) + (ey + -36) + K)
        with (Zdigits2 (Z.pos (my * mc)) + (ey + -36 + K)) by lia.
      apply V_bounds. lia.
Qed.

End Value.

(* the 90 kHz tick conversion is monotone on non-negative finite canonical values *)
Lemma tick_mono : forall x y : f64, canon x -> canon y ->
  is_finite x = true -> is_finite y = true ->
  fltb x f_zero = false -> fleb x y = true -> (tick x <= tick y)%N.
Proof. exact (tick_mono_K 1110 (Z.le_refl 1110)). Qed.


(** * Canonicity of results *)

Lemma canon_decode64 : forall n : N, canon (decode64 n).
Proof.
  intros n. unfold decode64. cbv zeta.
  set (b := Z.of_N (n mod 18446744073709551616)%N).
  pose proof (Z.mod_pos_bound b 4503599627370496 ltac:(lia)) as Hm.
  pose proof (Z.mod_pos_bound (b / 4503599627370496) 2048 ltac:(lia)) as He.
  set (m := b mod 4503599627370496) in *.
  set (e := (b / 4503599627370496) mod 2048) in *.
  change (2 ^ 53) with 9007199254740992. change (2 ^ 52) with 4503599627370496.
  destruct (Z.eqb_spec e 0) as [He0|He0].
  - destruct (Z.eqb_spec m 0) as [Hm0|Hm0]; cbn [canon]; [exact I|].
    change (2 ^ 53) with 9007199254740992. change (2 ^ 52) with 4503599627370496.
    rewrite Z2Pos.id by lia. lia.
  - destruct (Z.eqb_spec e 2047) as [He1|He1].
    + destruct (m =? 0); exact I.
    + cbn [canon].
      change (2 ^ 53) with 9007199254740992. change (2 ^ 52) with 4503599627370496.
      rewrite Z2Pos.id by lia. lia.
Qed.


Lemma bra_canon s m e l : 0 <= m ->
  0 <= Z.max (Zdigits2 m + e - 53) (-1074) - e ->
  canon (binary_round_aux 53 1024 s m e l).
Proof.
  intros Hm Hn. rewrite bra_unfold.
  destruct (rnd1_gen m e l Hm Hn) as (m1 & E & B). rewrite E. cbn [fst snd].
  pose proof (Zdigits2_upper m Hm) as Hup.
  pose proof (Zdigits2_nonneg m) as Hd0.
  set (d := Zdigits2 m) in *.
  set (n := Z.max (d + e - 53) (-1074) - e) in *.
  pose proof (pow2_pos n Hn) as HPn.
  assert (Hq0 : 0 <= m / 2 ^ n) by (apply Z.div_pos; lia).
  assert (Hq1 : m / 2 ^ n < 2 ^ 53).
  { apply Z.div_lt_upper_bound; [lia|].
    rewrite <- pow2_add by lia.
    assert (2 ^ d <= 2 ^ (n + 53)) by (apply pow2_le; lia). lia. }
  rewrite stage2_spec by lia.
  destruct (Z.eqb_spec m1 0) as [H0|H0]; [exact I|].
  destruct (Z.ltb_spec m1 (2 ^ 53)) as [Hlt|Hge].
  - destruct (e + n <=? 971); [|exact I]. cbn [canon].
    rewrite Z2Pos.id by lia. split; [assumption|]. split; [lia|].
    destruct (Z.eq_dec (e + n) (-1074)) as [He|He]; [left; assumption|right].
    assert (Hm0 : 0 < m).
    { destruct (Z.eq_dec m 0) as [Hz|Hz]; [|lia].
      subst m. change (Zdigits2 0) with 0 in d. lia. }
    pose proof (Zdigits2_bounds m Hm0) as Hb. fold d in Hb.
    apply Z.le_trans with (m / 2 ^ n); [|lia].
    apply Z.div_le_lower_bound; [lia|].
    rewrite <- pow2_add by lia.
    replace (n + 52) with (d - 1) by lia. lia.
  - destruct (e + n + 1 <=? 971); [|exact I]. cbn [canon].
    rewrite Z2Pos.id by (apply pow2_pos; lia).
    split; [apply Z.pow_lt_mono_r; lia|]. split; [lia|]. right. lia.
Qed.

Lemma binary_round_canon s mx ex : canon (binary_round 53 1024 s mx ex).
Proof.
  unfold binary_round, shl_align. rewrite fexp_eq.
  change (Z.pos (digits2_pos mx)) with (Zdigits2 (Z.pos mx)).
  set (d := Zdigits2 (Z.pos mx)).
  destruct (Z.max (d + ex - 53) (-1074) - ex) as [|p|p] eqn:E.
  - apply bra_canon; [lia|]. fold d. lia.
  - apply bra_canon; [lia|]. fold d. lia.
  - apply bra_canon; [lia|].
    assert (Hz : Z.pos (shift_pos p mx) = Z.pos mx * 2 ^ Z.pos p).
    { rewrite shift_pos_correct. change (Z.pow_pos 2 p) with (2 ^ Z.pos p). lia. }
    assert (Hd : Zdigits2 (Z.pos (shift_pos p mx)) = d + Z.pos p).
    { apply Zdigits2_unique; [lia|]. rewrite Hz. apply V_bounds. lia. }
    rewrite Hd. lia.
Qed.

Lemma binary_normalize_canon m e sz : canon (binary_normalize 53 1024 m e sz).
Proof. destruct m; cbn [binary_normalize]; [exact I| |]; apply binary_round_canon. Qed.

Lemma canon_of_N : forall n, canon (of_N n).
Proof. intros n. unfold of_N. change prec with 53. change emax with 1024. apply binary_normalize_canon. Qed.

Lemma canon_fadd : forall x y, canon x -> canon y -> canon (fadd x y).
Proof.
  intros x y Cx Cy. unfold fadd, SFadd. change prec with 53. change emax with 1024.
  destruct x as [sx|sx| |sx mx ex]; destruct y as [sy|sy| |sy my ey];
    try exact I; try assumption.
  - destruct (Bool.eqb sx sy); exact I.
  - destruct (Bool.eqb sx sy); exact I.
  - apply binary_normalize_canon.
Qed.

Lemma div_core_spec mx ex my ey :
  exists q e' l,
    SFdiv_core_binary 53 1024 (Z.pos mx) ex (Z.pos my) ey = (q, e', l) /\
    0 <= q /\ 0 <= Z.max (Zdigits2 q + e' - 53) (-1074) - e'.
Proof.
  unfold SFdiv_core_binary. rewrite fexp_eq.
  pose proof (Zdigits2_bounds (Z.pos mx) ltac:(lia)) as B1.
  pose proof (Zdigits2_bounds (Z.pos my) ltac:(lia)) as B2.
  assert (H1 : 0 < Zdigits2 (Z.pos mx)) by (simpl; lia).
  assert (H2 : 0 < Zdigits2 (Z.pos my)) by (simpl; lia).
  set (d1 := Zdigits2 (Z.pos mx)) in *. set (d2 := Zdigits2 (Z.pos my)) in *.
  set (e' := Z.min (Z.max (d1 + ex - (d2 + ey) - 53) (-1074)) (ex - ey)).
  set (s := ex - ey - e').
  assert (Hs : 0 <= s) by lia.
  set (m' := match s with Z0 => _ | Zpos _ => _ | Zneg _ => _ end).
  assert (Hm' : m' = Z.pos mx * 2 ^ s).
  { subst m'. destruct s as [|p|p] eqn:Es; [change (2 ^ 0) with 1; lia| |lia].
    apply Z.shiftl_mul_pow2. lia. }
  destruct (Z.div_eucl m' (Z.pos my)) as [q r] eqn:Hdiv.
  assert (Hq : q = m' / Z.pos my) by (unfold Z.div; rewrite Hdiv; reflexivity).
  exists q, e', (new_location (Z.pos my) r). split; [reflexivity|].
  pose proof (pow2_pos s Hs) as HPs.
  assert (Hq0 : 0 <= q) by (rewrite Hq; apply Z.div_pos; nia).
  split; [assumption|].
  assert (Hdq : d1 + s - d2 <= Zdigits2 q).
  { pose proof (Zdigits2_nonneg q).
    destruct (Z_le_gt_dec (d1 + s - d2) 0) as [Hc|Hc]; [lia|].
    set (t := d1 + s - d2 - 1).
    assert (Ht : 2 ^ t <= q).
    { rewrite Hq. apply Z.div_le_lower_bound; [lia|].
      apply Z.le_trans with (2 ^ d2 * 2 ^ t).
      - pose proof (pow2_pos t ltac:(lia)). nia.
      - rewrite <- pow2_add by lia. replace (d2 + t) with (d1 - 1 + s) by lia.
        rewrite pow2_add by lia. rewrite Hm'. nia. }
    pose proof (pow2_pos t ltac:(lia)).
    replace (d1 + s - d2) with (t + 1) by lia.
    apply Zdigits2_ge; [lia|]. replace (t + 1 - 1) with t by lia. assumption. }
  lia.
Qed.

Lemma canon_fdiv : forall x y, canon x -> canon y -> canon (fdiv x y).
Proof.
  intros x y Cx Cy. unfold fdiv, SFdiv. change prec with 53. change emax with 1024.
  destruct x as [sx|sx| |sx mx ex]; destruct y as [sy|sy| |sy my ey]; try exact I.
  destruct (div_core_spec mx ex my ey) as (q & e' & l & E & Hq & Hn).
  rewrite E. apply bra_canon; assumption.
Qed.

(* accumulated audio clock stays canonical *)
Lemma canon_cura_step : forall (x : f64) (n r : N),
  canon x -> canon (fadd x (fdiv (of_N (u32 n)) (of_N (u32 r)))).
Proof.
  intros x n r Cx. apply canon_fadd; [assumption|].
  apply canon_fdiv; apply canon_of_N.
Qed.


End F64Facts.

From Muxide Require Import Model.Base Model.Annexb Model.Adts Model.Codec Model.Boxes Model.F64 Model.Writer Model.Api
  Spec.NalSplit Spec.Contract Proofs.BaseProofs Proofs.ApiProofs Proofs.AnnexbProofs Proofs.AdtsProofs.
Open Scope N_scope.
Ltac Zify.zify_post_hook ::= Z.div_mod_to_equations.

Notation canon := F64Facts.canon.
Definition canon_decode64 := F64Facts.canon_decode64.
Definition canon_cura_step := F64Facts.canon_cura_step.
Definition tick_mono := F64Facts.tick_mono.


(** * Float comparisons: duality of <= and < on non-NaN values *)
Lemma SFcompare_antisym x y c :
  SFcompare x y = Some c -> SFcompare y x = Some (CompOpp c).
Proof.
  destruct x as [sx|sx| |sx mx ex], y as [sy|sy| |sy my ey]; cbn [SFcompare]; intros H;
    try discriminate; injection H as <-;
    try (destruct sx; reflexivity); try (destruct sy; reflexivity);
    try (destruct sx, sy; reflexivity).
  destruct sx, sy; try reflexivity.
  - rewrite (Z.compare_antisym ex ey). destruct (ex ?= ey)%Z; cbn [CompOpp]; try reflexivity.
    rewrite (Pos.compare_cont_antisym mx my Eq). reflexivity.
  - rewrite (Z.compare_antisym ex ey). destruct (ex ?= ey)%Z; cbn [CompOpp]; try reflexivity.
    rewrite (Pos.compare_cont_antisym mx my Eq). reflexivity.
Qed.

Lemma SFcompare_finite x y : is_finite x = true -> is_finite y = true -> exists c, SFcompare x y = Some c.
Proof.
  destruct x, y; cbn [is_finite]; intros; try discriminate; cbn [SFcompare]; eauto.
Qed.

Lemma fleb_dual x y : is_finite x = true -> is_finite y = true -> fleb x y = negb (fltb y x).
Proof.
  intros Hx Hy. destruct (SFcompare_finite x y Hx Hy) as [c Hc].
  pose proof (SFcompare_antisym _ _ _ Hc) as Hc'.
  unfold fleb, fltb, SFleb, SFltb. rewrite Hc, Hc'. destruct c; reflexivity.
Qed.

Lemma fltb_dual x y : is_finite x = true -> is_finite y = true -> fltb x y = negb (fleb y x).
Proof. intros Hx Hy. rewrite (fleb_dual y x Hy Hx), negb_involutive. reflexivity. Qed.


(** * NAL-type scans: model (find / existsb over the non-empty scanner output)
      versus contract (has_type over the declarative units) *)
Lemma existsb_filter_nonempty (p : bytes -> bool) (q : N -> bool) (l : list bytes) :
  (forall b t, p (b :: t) = q b) ->
  existsb p (filter nonempty l) = has_type q l.
Proof.
  intros Hpq. unfold has_type. induction l as [|u l IH]; [reflexivity|].
  cbn [filter existsb]. destruct u as [|b t]; cbn [nonempty].
  - exact IH.
  - cbn [existsb]. rewrite Hpq, IH. reflexivity.
Qed.

Lemma find_is_existsb {A} (p : A -> bool) l :
  match find p l with Some _ => true | None => false end = existsb p l.
Proof.
  induction l as [|x l IH]; [reflexivity|]. cbn [find existsb].
  destruct (p x); [reflexivity| exact IH].
Qed.

Lemma band31 b : band b 31 = b mod 32.
Proof. unfold band. change 31 with (N.ones 5). rewrite N.land_ones. reflexivity. Qed.

Lemma hevc_ty b : band (shr b 1) 63 = (b / 2) mod 64.
Proof.
  unfold band, shr. change 63 with (N.ones 6). rewrite N.land_ones, N.shiftr_div_pow2. reflexivity.
Qed.

Lemma h264_scan k d :
  existsb (fun n => h264_nal_type n =? k) (filter nonempty (nal_iter d)) =
  has_type (fun b => b mod 32 =? k) (spec_units d).
Proof.
  rewrite nal_iter_is_spec_units. apply existsb_filter_nonempty.
  intros b t. cbn [h264_nal_type]. rewrite band31. reflexivity.
Qed.

Lemma hevc_scan (f : N -> bool) d :
  existsb (fun n => f (hevc_nal_type n)) (filter nonempty (nal_iter d)) =
  has_type (fun b => f ((b / 2) mod 64)) (spec_units d).
Proof.
  rewrite nal_iter_is_spec_units. apply existsb_filter_nonempty.
  intros b t. cbn [hevc_nal_type]. rewrite hevc_ty. reflexivity.
Qed.

Definition is_some {A} (o : option A) : bool := match o with Some _ => true | None => false end.

Lemma has_config_extract codec d : d <> [] ->
  has_config codec d = is_some (extract_config codec d).
Proof.
  intros Hd. destruct codec; cbn [has_config extract_config].
  - unfold extract_avc_config. destruct d as [|x d']; [congruence|].
    set (D := x :: d'). unfold first_of.
    rewrite <- (h264_scan 7 D), <- (h264_scan 8 D), <- !find_is_existsb.
    destruct (find _ _); destruct (find _ _); reflexivity.
  - unfold extract_hevc_config. destruct d as [|x d']; [congruence|].
    set (D := x :: d'). unfold first_of.
    rewrite <- (hevc_scan (fun t => t =? 32) D), <- (hevc_scan (fun t => t =? 33) D),
            <- (hevc_scan (fun t => t =? 34) D), <- !find_is_existsb.
    destruct (find _ _); destruct (find _ _); destruct (find _ _); reflexivity.
  - destruct (extract_av1_config d); reflexivity.
  - destruct (extract_vp9_config d); reflexivity.
Qed.

(** * The stored configuration versus the contract's [params_fit]: the parameter sets the writer stores
      ([extract_config] of the first accepted key frame) are the first units of each parameter-set type of
      the declarative split, so the model's finish-time guard [param_sets_too_long] is the negation of
      [params_fit] *)
Lemma find_filter_c {A} (p q : A -> bool) l : find p (filter q l) = find (fun x => q x && p x) l.
Proof.
  induction l as [|x l IH]; [reflexivity|].
  cbn [filter find]. destruct (q x); cbn [find andb]; [destruct (p x); [reflexivity | exact IH] | exact IH].
Qed.

Lemma find_ext_c {A} (p q : A -> bool) l : (forall x, p x = q x) -> find p l = find q l.
Proof.
  intros H. induction l as [|x l IH]; [reflexivity|]. cbn [find]. rewrite H, IH. reflexivity.
Qed.

Lemma first_of_h264_c t d :
  first_of (fun n => h264_nal_type n =? t) (filter nonempty (nal_iter d)) =
  first_unit_c (fun b => b mod 32 =? t) d.
Proof.
  unfold first_of, first_unit_c. rewrite find_filter_c, nal_iter_is_spec_units.
  apply find_ext_c. intros [|b u]; [reflexivity|].
  unfold nonempty, h264_nal_type. rewrite band31. reflexivity.
Qed.

Lemma first_of_hevc_c t d :
  first_of (fun n => hevc_nal_type n =? t) (filter nonempty (nal_iter d)) =
  first_unit_c (fun b => (b / 2) mod 64 =? t) d.
Proof.
  unfold first_of, first_unit_c. rewrite find_filter_c, nal_iter_is_spec_units.
  apply find_ext_c. intros [|b u]; [reflexivity|].
  unfold nonempty, hevc_nal_type. rewrite hevc_ty. reflexivity.
Qed.

Lemma params_fit_extract codec d c :
  extract_config codec d = Some c -> negb (param_sets_too_long (Some c)) = params_fit codec d.
Proof.
  destruct codec; cbn [extract_config params_fit]; intros H.
  - unfold extract_avc_config in H. destruct d as [|x d']; [discriminate|].
    rewrite !first_of_h264_c in H.
    destruct (first_unit_c (fun b => b mod 32 =? 7) (x :: d')) as [sp|]; [|discriminate H].
    destruct (first_unit_c (fun b => b mod 32 =? 8) (x :: d')) as [pp|]; [|discriminate H].
    cbn [opt_map] in H. inversion H; subst c.
    cbn [param_sets_too_long unit_fits avc_sps avc_pps]. unfold U16MAX. lia.
  - unfold extract_hevc_config in H. destruct d as [|x d']; [discriminate|].
    rewrite !first_of_hevc_c in H.
    destruct (first_unit_c (fun b => (b / 2) mod 64 =? 32) (x :: d')) as [vp|]; [|discriminate H].
    destruct (first_unit_c (fun b => (b / 2) mod 64 =? 33) (x :: d')) as [sp|]; [|discriminate H].
    destruct (first_unit_c (fun b => (b / 2) mod 64 =? 34) (x :: d')) as [pp|]; [|discriminate H].
    cbn [opt_map] in H. inversion H; subst c.
    cbn [param_sets_too_long unit_fits hevc_vps hevc_sps hevc_pps]. unfold U16MAX. lia.
  - destruct (extract_av1_config d); [|discriminate]. inversion H; subst c. reflexivity.
  - destruct (extract_vp9_config d); [|discriminate]. inversion H; subst c. reflexivity.
Qed.

(** * VP9 key-frame pattern *)
Lemma bit_of_shr b k : (band (shr b k) 1 =? 0) = negb (N.testbit b k).
Proof.
  unfold band, shr. change 1 with (N.ones 1) at 1. rewrite N.land_ones.
  change (2 ^ 1) with 2. rewrite N.shiftr_div_pow2.
  pose proof (N.testbit_spec' b k) as H.
  destruct (N.testbit b k); cbn [N.b2n] in H; rewrite <- H; reflexivity.
Qed.

Ltac kill_pos p := try (destruct p as [p|p|]; try reflexivity).
Ltac kill_N a := destruct a as [|a]; [try reflexivity|]; 
  kill_pos a; kill_pos a; kill_pos a; kill_pos a; kill_pos a; kill_pos a; kill_pos a; kill_pos a; kill_pos a.

Lemma vp9_key_pattern d :
  match is_vp9_keyframe d with Vp9Key b => b | _ => false end =
  match d with
  | 73 :: 131 :: 66 :: b3 :: _ => negb (N.testbit b3 5 || N.testbit b3 4)
  | _ => false
  end.
Proof.
  destruct d as [|a d]; [reflexivity|].
  destruct (N.eqb_spec a 73) as [->|Ha].
  2:{ transitivity false.
      - unfold is_vp9_keyframe. destruct d as [|b [|c r]]; try reflexivity.
        unfold vp9_marker_ok. apply N.eqb_neq in Ha. rewrite Ha. reflexivity.
      - clear -Ha. kill_N a; try congruence; destruct d; reflexivity. }
  destruct d as [|b d]; [reflexivity|].
  destruct (N.eqb_spec b 131) as [->|Hb].
  2:{ transitivity false.
      - unfold is_vp9_keyframe. destruct d as [|c r]; try reflexivity.
        unfold vp9_marker_ok. apply N.eqb_neq in Hb. rewrite Hb. reflexivity.
      - clear -Hb. kill_N b; try congruence; destruct d; reflexivity. }
  destruct d as [|c d]; [reflexivity|].
  destruct (N.eqb_spec c 66) as [->|Hc].
  2:{ transitivity false.
      - unfold is_vp9_keyframe.
        unfold vp9_marker_ok. apply N.eqb_neq in Hc. rewrite Hc. reflexivity.
      - clear -Hc. kill_N c; try congruence; destruct d; reflexivity. }
  destruct d as [|b3 r]; [reflexivity|].
  unfold is_vp9_keyframe, vp9_marker_ok. cbn [N.eqb Pos.eqb andb negb].
  rewrite !bit_of_shr. destruct (N.testbit b3 5), (N.testbit b3 4); reflexivity.
Qed.

Lemma api_keyframe_is_detect m d :
  api_is_keyframe m d = detect_key_c (m_codec m) (m_vcount m) d.
Proof.
  unfold api_is_keyframe, detect_key_c. destruct d as [|x d']; [reflexivity|].
  set (D := x :: d'). destruct (m_codec m).
  - apply h264_scan.
  - apply (hevc_scan (fun t => (19 <=? t) && (t <=? 21))).
  - reflexivity.
  - exact (vp9_key_pattern D).
Qed.


(** * Size of the length-prefixed conversion: at most twice the input (+4) *)
Fixpoint sep (lo n : nat) (ps : list nat) : Prop :=
  match ps with
  | [] => True
  | p :: t => (lo <= p)%nat /\ (p + 3 <= n)%nat /\ sep (p + 3) n t
  end.

Lemma sc3_upper l : forall i p, In p (sc3_positions l i) -> (p + 3 <= i + length l)%nat.
Proof.
  induction l as [|a t IH]; intros i p H.
  - contradiction.
  - rewrite sc3_cons in H. destruct (at3 (a :: t)) eqn:E.
    + destruct H as [H|H].
      * subst p. apply at3_shape in E. destruct E as (a' & b & c & t' & E & _).
        rewrite E. cbn [length]. lia.
      * apply IH in H. cbn [length]. lia.
    + apply IH in H. cbn [length]. lia.
Qed.

Lemma sc3_sep : forall n l i, (length l <= n)%nat -> sep i (i + length l) (sc3_positions l i).
Proof.
  induction n as [|n IH]; intros l i Hn.
  - destruct l; [exact I| cbn [length] in Hn; lia].
  - destruct (sc3_positions l i) as [|q rest] eqn:E; [exact I|].
    pose proof (sc3_head_lower _ _ _ _ E) as Hlo.
    assert (Hup : (q + 3 <= i + length l)%nat).
    { apply (sc3_upper l i q). rewrite E. left. reflexivity. }
    cbn [sep]. split; [exact Hlo|]. split; [exact Hup|].
    pose proof (sc3_skip_after _ _ _ _ E) as R. rewrite <- R.
    assert (HL : (length (skipn (q + 3 - i) l) = length l - (q + 3 - i))%nat) by apply skipn_length.
    replace (i + length l)%nat with (q + 3 + length (skipn (q + 3 - i) l))%nat by lia.
    apply IH. lia.
Qed.

Fixpoint tot (l : list bytes) : nat :=
  match l with [] => 0%nat | u :: t => (length u + 3 + tot t)%nat end.

Lemma sc_begin_le d cur p : (sc_begin d cur p <= p)%nat.
Proof.
  unfold sc_begin. destruct p as [|q]; [lia|].
  destruct (_ && _); lia.
Qed.

Lemma units_tot d : forall ps s, (s <= length d)%nat -> sep s (length d) ps ->
  (tot (units_from d ps (Some s)) + s <= length d + 3)%nat.
Proof.
  induction ps as [|p t IH]; intros s Hs Hsep.
  - cbn [units_from tot]. unfold sub. rewrite firstn_length, skipn_length. lia.
  - cbn [sep] in Hsep. destruct Hsep as (H1 & H2 & H3).
    cbn [units_from tot]. specialize (IH (p + 3)%nat H2 H3).
    pose proof (sc_begin_le d (Some s) p) as Hb.
    unfold sub at 1. rewrite firstn_length, skipn_length. lia.
Qed.

Lemma spec_units_tot d : (tot (spec_units d) <= length d)%nat.
Proof.
  unfold spec_units. pose proof (sc3_sep (length d) d 0%nat (le_n _)) as Hsep.
  cbn [Nat.add] in Hsep.
  destruct (sc3_positions d 0) as [|p t]; [cbn; lia|].
  cbn [sep] in Hsep. destruct Hsep as (_ & H2 & H3).
  cbn [units_from]. pose proof (units_tot d t (p + 3)%nat H2 H3). lia.
Qed.

Lemma len_prefixed_length l : (length (len_prefixed (filter nonempty l)) <= 2 * tot l)%nat.
Proof.
  induction l as [|u t IH]; [cbn; lia|].
  cbn [filter tot]. destruct (nonempty u).
  - rewrite len_prefixed_cons, !app_length, be32_length. lia.
  - lia.
Qed.

Lemma annexb_to_avcc_length d : (length (annexb_to_avcc d) <= 2 * length d + 4)%nat.
Proof.
  unfold annexb_to_avcc. rewrite nal_iter_is_spec_units.
  pose proof (len_prefixed_length (spec_units d)) as H1.
  pose proof (spec_units_tot d) as H2.
  destruct (len_prefixed (filter nonempty (spec_units d))) as [|y ys] eqn:E.
  - destruct d as [|x d']; [cbn; lia|]. rewrite app_length, be32_length. lia.
  - destruct d; cbn [length] in *; lia.
Qed.

Lemma convert_video_len codec d : len d < 2147483646 -> len (convert_video codec d) <= U32MAX.
Proof.
  intros H. pose proof (annexb_to_avcc_length d) as HL.
  unfold U32MAX, len in *.
  destruct codec; cbn [convert_video]; unfold hevc_annexb_to_hvcc; lia.
Qed.

(* from here on float operations and the large spec predicates are opaque (file-local) *)
Opaque tick decode64 fltb fleb is_finite cts_fits fadd fdiv of_N.



(** * Writer-level case analyses *)
Lemma push_video_ok w vrev vlast cfg pts dts d key :
  len (convert_video (w_codec w) d) <= U32MAX ->
  exists w', push_video w vrev vlast cfg pts dts d key = inl w' /\
    w_vprev w' = Some dts /\ w_audio w' = w_audio w /\ w_codec w' = w_codec w /\
    w_aprev w' = w_aprev w /\ w_finalized w' = w_finalized w /\ w_vconfig w' = cfg.
Proof.
  intros H. unfold push_video.
  replace (U32MAX <? len (convert_video (w_codec w) d)) with false by lia.
  eexists. split; [reflexivity|]. cbn. repeat split; reflexivity.
Qed.

Lemma wvs_cases w pts dts d key :
  len (convert_video (w_codec w) d) <= U32MAX ->
  match write_video_sample_with_dts w pts dts d key with
  | inl w' =>
      w_finalized w = false /\ cts_fits pts dts = true /\
      match w_vprev w with
      | Some prev => (prev <? dts) = true /\ (dts - prev <=? U32MAX) = true
      | None => key = true /\ is_some (extract_config (w_codec w) d) = true
      end /\
      w_vprev w' = Some dts /\ w_audio w' = w_audio w /\ w_codec w' = w_codec w /\
      w_aprev w' = w_aprev w /\ w_finalized w' = w_finalized w /\
      match w_vprev w with
      | Some _ => w_vconfig w' = w_vconfig w
      | None => w_vconfig w' = extract_config (w_codec w) d
      end
  | inr e =>
      (e = AlreadyFinalized /\ w_finalized w = true) \/
      (e = DurationOverflow /\ cts_fits pts dts = false) \/
      (e = NonIncreasingTimestamp /\ exists prev, w_vprev w = Some prev /\ (prev <? dts) = false) \/
      (e = DurationOverflow /\ exists prev, w_vprev w = Some prev /\ (dts - prev <=? U32MAX) = false) \/
      (e = FirstFrameMustBeKeyframe /\ w_vprev w = None /\ key = false) \/
      (e = missing_config_err (w_codec w) /\ w_vprev w = None /\
       is_some (extract_config (w_codec w) d) = false)
  end.
Proof.
  intros HL. unfold write_video_sample_with_dts.
  destruct (w_finalized w) eqn:Ef; [left; auto|].
  destruct (cts_fits pts dts) eqn:Ec; cbn [negb]; [|right; left; auto].
  destruct (w_vprev w) as [prev|] eqn:Ep.
  - destruct (dts <=? prev) eqn:E1.
    { right; right; left. split; [reflexivity|]. exists prev. split; [reflexivity|lia]. }
    destruct (U32MAX <? dts - prev) eqn:E2.
    { right; right; right; left. split; [reflexivity|]. exists prev. split; [reflexivity|lia]. }
    destruct (push_video_ok w (set_last_dur (w_vrev w) (dts - prev)) (Some (dts - prev)) (w_vconfig w)
                pts dts d key HL) as (w' & -> & H1 & H2 & H3 & H4 & H5 & H6).
    repeat split; try assumption; try congruence; lia.
  - destruct key; cbn [negb]; [|right; right; right; right; left; auto].
    destruct (extract_config (w_codec w) d) as [c|] eqn:Ex.
    + destruct (push_video_ok w (w_vrev w) (w_vlast_delta w) (Some c) pts dts d true HL)
        as (w' & -> & H1 & H2 & H3 & H4 & H5 & H6).
      repeat split; try assumption; congruence.
    + right; right; right; right; right. auto.
Qed.

Lemma was_cases w pts d track :
  bytes_ok d = true -> len d <= U32MAX -> w_audio w = Some track -> at_codec track <> NoAudio ->
  match write_audio_sample w pts d with
  | inl w' =>
      w_finalized w = false /\
      match w_aprev w with
      | Some prev => (pts <? prev) = false /\ (pts - prev <=? U32MAX) = true
      | None => True
      end /\
      valid_audio track d = true /\
      w_aprev w' = Some pts /\ w_vprev w' = w_vprev w /\ w_audio w' = w_audio w /\
      w_codec w' = w_codec w /\ w_finalized w' = w_finalized w /\ w_vconfig w' = w_vconfig w
  | inr e =>
      (e = AlreadyFinalized /\ w_finalized w = true) \/
      (e = NonIncreasingTimestamp /\ exists prev, w_aprev w = Some prev /\ (pts <? prev) = true) \/
      (e = DurationOverflow /\ exists prev, w_aprev w = Some prev /\ (pts - prev <=? U32MAX) = false) \/
      (((exists a, e = InvalidAdtsDetailed a) \/ e = InvalidOpusPacket) /\ valid_audio track d = false)
  end.
Proof.
  intros Hb HL Ha Hc. unfold write_audio_sample.
  destruct (w_finalized w) eqn:Ef; [left; auto|]. rewrite Ha.
  assert (T : match w_aprev w with
              | Some prev => (pts <? prev) = false /\ (pts - prev <=? U32MAX) = true
              | None => True end ->
          match
            match at_codec track with
            | Aac _ => match adts_to_raw d with AdtsOk raw => inl raw | AdtsErr e => inr (InvalidAdtsDetailed e) end
            | Opus => if is_valid_opus_packet d then inl d else inr InvalidOpusPacket
            | NoAudio => inr AudioNotEnabled
            end with
          | inl sd => valid_audio track d = true /\ len sd <= U32MAX
          | inr e => ((exists a, e = InvalidAdtsDetailed a) \/ e = InvalidOpusPacket) /\ valid_audio track d = false
          end).
  { intros _. unfold valid_audio. destruct (at_codec track) as [p| |]; [| |congruence].
    - pose proof (adts_to_raw_is_spec d Hb) as S.
      destruct (adts_to_raw d) as [raw|a] eqn:Er.
      + rewrite S. split; [reflexivity|].
        destruct (adts_payload_is_the_declared_slice d raw Hb Er) as (hdr & fl & _ & _ & _ & Hfl & _ & Hlr).
        lia.
      + rewrite S. split; [left; eauto| reflexivity].
    - rewrite (opus_valid_is_spec d Hb). destruct (spec_opus_valid d); [split; [reflexivity|exact HL]|].
      split; [right; reflexivity | reflexivity]. }
  destruct (w_aprev w) as [prev|] eqn:Ep.
  - destruct (pts <? prev) eqn:E1.
    { right; left. split; [reflexivity|]. eauto. }
    destruct (U32MAX <? pts - prev) eqn:E2.
    { right; right; left. split; [reflexivity|]. exists prev. split; [reflexivity|lia]. }
    lapply T; [clear T; intros T'| split; [reflexivity|lia]].
    destruct (match at_codec track with Aac _ => _ | Opus => _ | NoAudio => _ end) as [sd|e].
    + destruct T' as [Tv Tl]. replace (U32MAX <? len sd) with false by lia.
      cbn. repeat split; try assumption; try reflexivity; lia.
    + right; right; right. exact T'.
  - specialize (T I).
    destruct (match at_codec track with Aac _ => _ | Opus => _ | NoAudio => _ end) as [sd|e].
    + destruct T as [Tv Tl]. replace (U32MAX <? len sd) with false by lia.
      cbn. repeat split; try assumption; reflexivity.
    + right; right; right. exact T.
Qed.



Opaque has_config valid_audio.

(* all payload bytes are bytes *)
Definition op_bytes_ok (o : op) : Prop :=
  match o with
  | WV _ d _ | WVD _ _ d _ | WA _ d | EV d _ | EA d _ => bytes_ok d = true
  | FIN => True
  end.

(* Added hypothesis: payloads are shorter than 2^31 - 2 bytes.  A frame whose
   converted form (Annex B -> 4-byte length prefixes grows a frame by one byte
   per 3-byte start code, at most to 2*len+4) reaches 4 GiB is rejected by
   [push_video] / [write_audio_sample] with [DurationOverflow], i.e.
   [MIo IoInvalidData], although no documented precondition is violated. *)
Definition op_len_ok (o : op) : Prop :=
  match o with
  | WV _ d _ | WVD _ _ d _ | WA _ d | EV d _ | EA d _ => len d < 2147483646
  | FIN => True
  end.

Definition op_ok (o : op) : Prop := op_bytes_ok o /\ op_len_ok o.

(* abstraction: the summary of the accepted history that a muxer state stands for *)
Definition abs_csum (m : muxer) : csum :=
  {| c_closed := w_finalized (m_writer m);
     c_vcount := m_vcount m;
     c_last_vpts := m_last_vpts m; c_last_vdts := m_last_vdts m;
     c_last_vtick := w_vprev (m_writer m);
     c_first_vpts := m_first_vpts m;
     c_last_apts := m_last_apts m; c_last_atick := w_aprev (m_writer m);
     c_curv := m_cur_vpts m; c_cura := m_cur_apts m;
     (* the finish-time guard of the model on the STORED configuration *)
     c_params_fit := negb (param_sets_too_long (w_vconfig (m_writer m))) |}.

Definition opt_finite (o : option f64) : Prop :=
  match o with Some p => is_finite p = true | None => True end.

Record Rep (b : builder) (m : muxer) : Prop := mkRep {
  rep_video : b_video b = Some (m_codec m, vt_width (m_video m), vt_height (m_video m));
  rep_audio : m_audio m = audio_of (b_audio b);
  rep_waudio : w_audio (m_writer m) = m_audio m;
  rep_wcodec : w_codec (m_writer m) = m_codec m;
  rep_fin : m_finished m = true -> w_finalized (m_writer m) = true;
  rep_vpts : opt_finite (m_last_vpts m);
  rep_vdts : opt_finite (m_last_vdts m);
  rep_fvpts : opt_finite (m_first_vpts m);
  rep_apts : match m_last_apts m with
             | Some p => w_aprev (m_writer m) = Some (tick p) /\ is_finite p = true /\
                         fltb p f_zero = false /\ canon p
             | None => w_aprev (m_writer m) = None
             end;
  rep_cura : canon (m_cur_apts m) }.

Definition vupd (b : builder) (s : csum) (pts dts : f64) (explicit : bool) (curv : f64) (d : bytes) : csum :=
  {| c_params_fit := match c_last_vtick s with
                     | None => params_fit (match b_video b with Some (c, _, _) => c | None => H264 end) d
                     | Some _ => c_params_fit s
                     end;
     c_closed := c_closed s; c_vcount := c_vcount s + 1; c_last_vpts := Some pts;
     c_last_vdts := if explicit then Some dts else c_last_vdts s;
     c_last_vtick := Some (tick dts);
     c_first_vpts := match c_first_vpts s with None => Some pts | x => x end;
     c_last_apts := c_last_apts s; c_last_atick := c_last_atick s; c_curv := curv; c_cura := c_cura s |}.

Definition aupd (s : csum) (pts : f64) (cura : f64) : csum :=
  {| c_params_fit := c_params_fit s; c_closed := c_closed s; c_vcount := c_vcount s; c_last_vpts := c_last_vpts s; c_last_vdts := c_last_vdts s;
     c_last_vtick := c_last_vtick s; c_first_vpts := c_first_vpts s;
     c_last_apts := Some pts; c_last_atick := Some (tick pts); c_curv := c_curv s; c_cura := cura |}.

Lemma mem_app n a b : mem n (a ++ b) = mem n a || mem n b.
Proof. unfold mem. apply existsb_app. Qed.

Lemma mem_nb n c k : mem n (nb c k) = negb c && (n =? k).
Proof. unfold mem, nb. destruct c; cbn [existsb negb andb]; [reflexivity| apply orb_false_r]. Qed.

Ltac codes := unfold P_NotFinished, P_AudioConfigured, P_NonEmpty, P_FinitePts, P_NonNegPts, P_FiniteDts,
  P_NonNegDts, P_VideoPtsIncreasing, P_DecodeOrder, P_GapFits32, P_CtsFits32, P_FirstKey, P_FirstConfig,
  P_AudioNonDecreasing, P_AudioNotBeforeVideo, P_ValidAudioFraming, P_DimsFit16, P_FileFits32, P_SinkOk,
  P_ParamSetsFit16 in *.


Ltac rw_all :=
  repeat match goal with
         | H : ?x = true |- _ => rewrite H
         | H : ?x = false |- _ => rewrite H
         | H : ?x = Some _ |- _ => rewrite H
         | H : ?x = None |- _ => rewrite H
         end.

Lemma mem_app_l n a b : mem n a = true -> mem n (a ++ b) = true.
Proof. intros H. rewrite mem_app, H. reflexivity. Qed.
Lemma mem_app_r n a b : mem n b = true -> mem n (a ++ b) = true.
Proof. intros H. rewrite mem_app, H. apply orb_true_r. Qed.

Ltac prep :=
  cbn [err_names convert_mp4_error missing_config_err existsb];
  unfold video_pre, audio_pre;
  cbn [abs_csum c_closed c_vcount c_last_vpts c_last_vdts c_last_vtick c_first_vpts c_last_apts
       c_last_atick c_curv c_cura];
  rw_all; cbn [andb orb negb]; rw_all.

Ltac find_mem :=
  first [ reflexivity
        | rewrite mem_nb; rw_all; reflexivity
        | apply mem_app_l; find_mem
        | apply mem_app_r; find_mem ].

Ltac any_mem :=
  first [ find_mem
        | apply orb_true_iff; left; find_mem
        | apply orb_true_iff; right; any_mem ].

Ltac hit := prep; rewrite ?orb_false_r; any_mem.

Lemma opt_lt_cmp pts o : is_finite pts = true -> opt_finite o ->
  opt_lt pts o = negb (opt_cmp fleb pts o).
Proof.
  intros Hp Ho. destruct o as [p|]; cbn [opt_lt opt_cmp opt_finite] in *; [|reflexivity].
  apply fltb_dual; assumption.
Qed.

Lemma opt_le_cmp pts o : is_finite pts = true -> opt_finite o ->
  opt_le pts o = negb (opt_cmp fltb pts o).
Proof.
  intros Hp Ho. destruct o as [p|]; cbn [opt_le opt_cmp opt_finite] in *; [|reflexivity].
  apply fleb_dual; assumption.
Qed.

Lemma codec_of_builder b m : Rep b m ->
  match b_video b with Some (c, _, _) => c | None => H264 end = m_codec m.
Proof. intros [Hv _ _ _ _ _ _ _ _ _]. rewrite Hv. reflexivity. Qed.

(* common part of write_video / write_video_with_dts after the API-level checks *)
Lemma video_core b m pts dts (explicit : bool) x d' key :
  Rep b m -> 
  is_finite pts = true -> fltb pts f_zero = false -> is_finite dts = true -> fltb dts f_zero = false ->
  (if explicit then opt_lt dts (m_last_vdts m) else opt_lt pts (m_last_vpts m)) = true ->
  len (x :: d') < 2147483646 ->
  let s := abs_csum m in
  let v := video_pre b s pts dts explicit (x :: d') key in
  match write_video_sample_with_dts (m_writer m) (tick pts) (tick dts) (x :: d') key with
  | inl w' =>
      v = [] /\
      abs_csum (set_video_ok m w' pts (if explicit then Some dts else None)) = vupd b s pts dts explicit (c_curv s) (x :: d') /\
      Rep b (set_video_ok m w' pts (if explicit then Some dts else None))
  | inr e => forall idx, existsb (fun n => mem n v) (err_names (convert_mp4_error e idx)) = true
  end.
Proof.
  intros HR Efp Enp Efd End Eord HL. pose proof (codec_of_builder b m HR) as Hcodec.
  destruct HR as [Hv Ha Hwa Hwc Hf Hlp Hld Hfp Hap Hca]. cbv zeta.
  assert (HLc : len (convert_video (w_codec (m_writer m)) (x :: d')) <= U32MAX)
    by (apply convert_video_len; exact HL).
  pose proof (wvs_cases (m_writer m) (tick pts) (tick dts) (x :: d') key HLc) as W.
  pose proof (has_config_extract (m_codec m) (x :: d') ltac:(discriminate)) as Hcfg.
  rewrite <- Hwc in Hcfg.
  destruct (write_video_sample_with_dts (m_writer m) (tick pts) (tick dts) (x :: d') key) as [w'|e].
  - destruct W as (W1 & W2 & W3 & W4 & W5 & W6 & W7 & W8 & W9).
    split; [|split].
    + unfold video_pre. rewrite Hcodec. 
      cbn [abs_csum c_closed c_vcount c_last_vpts c_last_vdts c_last_vtick c_first_vpts c_last_apts
       c_last_atick c_curv c_cura].
      destruct (w_vprev (m_writer m)) as [prev|] eqn:Evp.
      * destruct W3 as [W3 W3']. destruct explicit; rw_all; reflexivity.
      * destruct W3 as [W3 W3']. rewrite <- Hwc, Hcfg. destruct explicit; rw_all; reflexivity.
    + unfold abs_csum, vupd, set_video_ok. cbn [m_writer m_vcount m_last_vpts m_last_vdts m_first_vpts
        m_last_apts m_cur_vpts m_cur_apts c_closed c_vcount c_last_vpts c_last_vdts c_last_vtick c_first_vpts
        c_last_apts c_last_atick c_curv c_cura c_params_fit].
      rewrite W4, W7, W8, Hcodec.
      assert (Hpf : negb (param_sets_too_long (w_vconfig w')) =
                    match w_vprev (m_writer m) with
                    | Some _ => negb (param_sets_too_long (w_vconfig (m_writer m)))
                    | None => params_fit (m_codec m) (x :: d')
                    end).
      { destruct (w_vprev (m_writer m)) as [prev|].
        - rewrite W9. reflexivity.
        - destruct W3 as [_ W3']. rewrite W9. rewrite Hwc in *.
          destruct (extract_config (m_codec m) (x :: d')) as [c|] eqn:Ex; [|discriminate W3'].
          apply params_fit_extract. exact Ex. }
      rewrite Hpf. destruct explicit; reflexivity.
    + constructor; unfold set_video_ok; cbn [m_writer m_codec m_video m_audio m_finished m_last_vpts
        m_last_vdts m_first_vpts m_last_apts m_cur_apts]; try assumption; try congruence.
      * intros F. rewrite W8. apply Hf, F.
      * destruct explicit; [exact Efd | exact Hld].
      * destruct (m_first_vpts m); [exact Hfp | exact Efp].
      * rewrite W7. exact Hap.
  - intros idx.
    destruct W as [[-> W]|[[-> W]|[[-> (prev & W & W')]|[[-> (prev & W & W')]|[[-> [W W']]|[-> [W W']]]]]]].
    + hit.
    + hit.
    + hit.
    + hit.
    + hit.
    + rewrite <- Hcfg in W'. rewrite Hwc in *. rewrite ?Hcodec.
      destruct (m_codec m); hit.
Qed.

Lemma write_video_contract b m pts d key m' r :
  Rep b m -> len d < 2147483646 ->
  write_video m pts d key = (m', r) ->
  let s := abs_csum m in
  let v := video_pre b s pts pts false d key in
  match r with
  | None => v = [] /\ abs_csum m' = vupd b s pts pts false (c_curv s) d /\ Rep b m'
  | Some e => existsb (fun n => mem n v) (err_names e) = true /\ m' = m
  end.
Proof.
  intros HR HL Hw. pose proof HR as [Hv Ha Hwa Hwc Hf Hlp Hld Hfp Hap Hca].
  unfold write_video in Hw. cbv zeta.
  destruct d as [|x d'].
  { inversion Hw; subst. split; [|reflexivity]. hit. }
  destruct (is_finite pts) eqn:Efp; cbn [negb] in Hw;
    [| inversion Hw; subst; split; [hit|reflexivity]].
  destruct (fltb pts f_zero) eqn:Enp;
    [inversion Hw; subst; split; [hit|reflexivity]|].
  pose proof (opt_lt_cmp pts (m_last_vpts m) Efp Hlp) as Hlt.
  destruct (opt_cmp fleb pts (m_last_vpts m)) eqn:Ecmp; cbn [negb] in Hlt;
    [inversion Hw; subst; split; [hit|reflexivity]|].
  pose proof (video_core b m pts pts false x d' key HR Efp Enp Efp Enp Hlt HL) as C.
  cbv zeta in C. unfold write_video_sample in Hw.
  destruct (write_video_sample_with_dts (m_writer m) (tick pts) (tick pts) (x :: d') key) as [w'|e].
  - inversion Hw; subst. exact C.
  - inversion Hw; subst. split; [apply C | reflexivity].
Qed.

Lemma write_video_with_dts_contract b m pts dts d key m' r :
  Rep b m -> len d < 2147483646 ->
  write_video_with_dts m pts dts d key = (m', r) ->
  let s := abs_csum m in
  let v := video_pre b s pts dts true d key in
  match r with
  | None => v = [] /\ abs_csum m' = vupd b s pts dts true (c_curv s) d /\ Rep b m'
  | Some e => existsb (fun n => mem n v) (err_names e) = true /\ m' = m
  end.
Proof.
  intros HR HL Hw. pose proof HR as [Hv Ha Hwa Hwc Hf Hlp Hld Hfp Hap Hca].
  unfold write_video_with_dts in Hw. cbv zeta.
  destruct (m_finished m) eqn:Efin.
  { specialize (Hf eq_refl). inversion Hw; subst. split; [hit|reflexivity]. }
  destruct d as [|x d'].
  { inversion Hw; subst. split; [|reflexivity]. hit. }
  destruct (is_finite pts) eqn:Efp; cbn [negb] in Hw;
    [| inversion Hw; subst; split; [hit|reflexivity]].
  destruct (fltb pts f_zero) eqn:Enp;
    [inversion Hw; subst; split; [hit|reflexivity]|].
  destruct (is_finite dts) eqn:Efd; cbn [negb] in Hw;
    [| inversion Hw; subst; split; [hit|reflexivity]].
  destruct (fltb dts f_zero) eqn:End;
    [inversion Hw; subst; split; [hit|reflexivity]|].
  pose proof (opt_lt_cmp dts (m_last_vdts m) Efd Hld) as Hlt.
  destruct (opt_cmp fleb dts (m_last_vdts m)) eqn:Ecmp; cbn [negb] in Hlt;
    [inversion Hw; subst; split; [hit|reflexivity]|].
  pose proof (video_core b m pts dts true x d' key HR Efp Enp Efd End Hlt HL) as C.
  cbv zeta in C.
  destruct (write_video_sample_with_dts (m_writer m) (tick pts) (tick dts) (x :: d') key) as [w'|e].
  - inversion Hw; subst. exact C.
  - inversion Hw; subst. split; [apply C | reflexivity].
Qed.

Lemma audio_of_codec x a : audio_of x = Some a -> at_codec a <> NoAudio.
Proof.
  unfold audio_of. destruct x as [[[c r] ch]|]; [|discriminate].
  destruct c; intros H; inversion H; subst; cbn; discriminate.
Qed.

Lemma write_audio_contract b m pts d m' r :
  Rep b m -> bytes_ok d = true -> len d < 2147483646 -> canon pts ->
  write_audio m pts d = (m', r) ->
  let s := abs_csum m in
  let v := audio_pre b s pts d in
  match r with
  | None => v = [] /\ abs_csum m' = aupd s pts (c_cura s) /\ Rep b m'
  | Some e => existsb (fun n => mem n v) (err_names e) = true /\ m' = m
  end.
Proof.
  intros HR Hb HL Hcp Hw. pose proof HR as [Hv Ha Hwa Hwc Hf Hlp Hld Hfp Hap Hca].
  unfold write_audio in Hw. cbv zeta.
  destruct (m_finished m) eqn:Efin.
  { specialize (Hf eq_refl). inversion Hw; subst. split; [hit|reflexivity]. }
  unfold audio_pre. rewrite <- Ha.
  destruct (m_audio m) as [a|] eqn:Eaud.
  2:{ inversion Hw; subst. split; [hit|reflexivity]. }
  destruct (is_finite pts) eqn:Efp; cbn [negb] in Hw;
    [| inversion Hw; subst; split; [hit|reflexivity]].
  destruct (fltb pts f_zero) eqn:Enp;
    [inversion Hw; subst; split; [hit|reflexivity]|].
  destruct d as [|x d'].
  { inversion Hw; subst. split; [hit|reflexivity]. }
  assert (Hlaf : opt_finite (m_last_apts m)).
  { destruct (m_last_apts m); [cbn; tauto | exact I]. }
  pose proof (opt_le_cmp pts (m_last_apts m) Efp Hlaf) as Hle.
  destruct (opt_cmp fltb pts (m_last_apts m)) eqn:Ecmp; cbn [negb] in Hle;
    [inversion Hw; subst; split; [hit|reflexivity]|].
  destruct (m_first_vpts m) as [fv|] eqn:Efv;
    [| inversion Hw; subst; split; [hit|reflexivity]].
  cbn [opt_finite] in Hfp.
  pose proof (fleb_dual fv pts Hfp Efp) as Hfvle.
  destruct (fltb pts fv) eqn:Eabv; cbn [negb] in Hfvle;
    [inversion Hw; subst; split; [hit|reflexivity]|].
  assert (Hwa' : w_audio (m_writer m) = Some a) by congruence.
  assert (Hnc : at_codec a <> NoAudio) by (apply (audio_of_codec (b_audio b)); congruence).
  assert (HL' : len (x :: d') <= U32MAX) by (unfold U32MAX; lia).
  pose proof (was_cases (m_writer m) (tick pts) (x :: d') a Hb HL' Hwa' Hnc) as W.
  destruct (write_audio_sample (m_writer m) (tick pts) (x :: d')) as [w'|e].
  - destruct W as (W1 & W2 & W3 & W4 & W5 & W6 & W7 & W8 & W9).
    inversion Hw; subst m' r. split; [|split].
    + cbn [abs_csum c_closed c_vcount c_last_vpts c_last_vdts c_last_vtick c_first_vpts c_last_apts
       c_last_atick c_curv c_cura].
      destruct (w_aprev (m_writer m)) as [prev|] eqn:Eap.
      * destruct W2 as [W2 W2']. rw_all. reflexivity.
      * rw_all. reflexivity.
    + unfold abs_csum, aupd. cbn [m_writer m_vcount m_last_vpts m_last_vdts m_first_vpts
        m_last_apts m_cur_vpts m_cur_apts c_closed c_vcount c_last_vpts c_last_vdts c_last_vtick c_first_vpts
        c_last_apts c_last_atick c_curv c_cura c_params_fit].
      rewrite W4, W5, W8, W9, Efv. reflexivity.
    + constructor; cbn [m_writer m_codec m_video m_audio m_finished m_last_vpts
        m_last_vdts m_first_vpts m_last_apts m_cur_apts]; try assumption; try congruence.
      auto.
  - inversion Hw; subst m' r. split; [|reflexivity].
    destruct W as [[-> W]|[[-> (prev & W & W')]|[[-> (prev & W & W')]|[[[ad ->]| ->] W]]]].
    + hit.
    + exfalso. rewrite W in Hap.
      destruct (m_last_apts m) as [p|]; [|discriminate].
      destruct Hap as (Hp1 & Hp2 & Hp3 & Hp4). inversion Hp1; subst prev.
      cbn [opt_cmp] in Ecmp.
      pose proof (fleb_dual p pts Hp2 Efp) as Hd. rewrite Ecmp in Hd. cbn [negb] in Hd.
      pose proof (tick_mono p pts Hp4 Hcp Hp2 Efp Hp3 Hd). lia.
    + hit.
    + hit.
    + hit.
Qed.

(** * encode_video / encode_audio *)
Lemma Rep_set_cur b m v a : Rep b m -> canon a -> Rep b (set_cur m v a).
Proof.
  intros [Hv Ha Hwa Hwc Hf Hlp Hld Hfp Hap Hca] Hc.
  constructor; unfold set_cur; cbn [m_writer m_codec m_video m_audio m_finished m_last_vpts
    m_last_vdts m_first_vpts m_last_apts m_cur_apts]; assumption.
Qed.

Definition with_cur (s : csum) (v a : f64) : csum :=
  {| c_params_fit := c_params_fit s; c_closed := c_closed s; c_vcount := c_vcount s; c_last_vpts := c_last_vpts s; c_last_vdts := c_last_vdts s;
     c_last_vtick := c_last_vtick s; c_first_vpts := c_first_vpts s; c_last_apts := c_last_apts s;
     c_last_atick := c_last_atick s; c_curv := v; c_cura := a |}.

Lemma abs_set_cur m v a : abs_csum (set_cur m v a) = with_cur (abs_csum m) v a.
Proof. reflexivity. Qed.

Lemma encode_video_contract b m d ms m' r :
  Rep b m -> len d < 2147483646 ->
  encode_video m d ms = (m', r) ->
  let s := abs_csum m in
  let codec := match b_video b with Some (c, _, _) => c | None => H264 end in
  let v := video_pre b s (c_curv s) (c_curv s) false d (detect_key_c codec (c_vcount s) d) in
  match r with
  | None => v = [] /\
            abs_csum m' = vupd b s (c_curv s) (c_curv s) false (fadd (c_curv s) (fdiv (of_N (u32 ms)) f_1000)) d /\
            Rep b m'
  | Some e => existsb (fun n => mem n v) (err_names e) = true /\ m' = m
  end.
Proof.
  intros HR HL He. cbv zeta. rewrite (codec_of_builder b m HR).
  unfold encode_video in He.
  destruct (write_video m (m_cur_vpts m) d (api_is_keyframe m d)) as [m1 [e|]] eqn:W;
    apply (write_video_contract b _ _ _ _ _ _ HR HL) in W; cbv zeta in W;
    rewrite api_keyframe_is_detect in W.
  - inversion He; subst. exact W.
  - inversion He; subst. destruct W as (W1 & W2 & W3). split; [exact W1|]. split.
    + rewrite abs_set_cur, W2.
      assert (E1 : m_cur_vpts m1 = m_cur_vpts m) by (change (c_curv (abs_csum m1) = c_curv (abs_csum m)); rewrite W2; reflexivity).
      assert (E2 : m_cur_apts m1 = m_cur_apts m) by (change (c_cura (abs_csum m1) = c_cura (abs_csum m)); rewrite W2; reflexivity).
      rewrite E1, E2. reflexivity.
    + apply Rep_set_cur; [exact W3 | apply W3].
Qed.

Lemma encode_audio_contract b m d smp m' r :
  Rep b m -> bytes_ok d = true -> len d < 2147483646 ->
  encode_audio m d smp = (m', r) ->
  let s := abs_csum m in
  let v := audio_pre b s (c_cura s) d in
  let rate := match audio_of (b_audio b) with Some a => at_sample_rate a | None => 0 end in
  match r with
  | None => v = [] /\
            abs_csum m' = aupd s (c_cura s) (fadd (c_cura s) (fdiv (of_N (u32 smp)) (of_N (u32 rate)))) /\
            Rep b m'
  | Some e => existsb (fun n => mem n v) (err_names e) = true /\ m' = m
  end.
Proof.
  intros HR Hb HL He. cbv zeta. pose proof HR as [Hv Ha Hwa Hwc Hf Hlp Hld Hfp Hap Hca].
  unfold encode_audio in He. rewrite <- Ha.
  destruct (m_audio m) as [a|] eqn:Eaud.
  2:{ inversion He; subst. split; [|reflexivity]. unfold audio_pre. rewrite <- Ha. hit. }
  destruct (write_audio m (m_cur_apts m) d) as [m1 [e|]] eqn:W;
    apply (write_audio_contract b _ _ _ _ _ HR Hb HL Hca) in W; cbv zeta in W.
  - inversion He; subst. exact W.
  - inversion He; subst. destruct W as (W1 & W2 & W3). split; [exact W1|]. split.
    + rewrite abs_set_cur, W2.
      assert (E1 : m_cur_vpts m1 = m_cur_vpts m) by (change (c_curv (abs_csum m1) = c_curv (abs_csum m)); rewrite W2; reflexivity).
      assert (E2 : m_cur_apts m1 = m_cur_apts m) by (change (c_cura (abs_csum m1) = c_cura (abs_csum m)); rewrite W2; reflexivity).
      rewrite E1, E2. reflexivity.
    + apply Rep_set_cur; [exact W3 |].
      assert (E2 : m_cur_apts m1 = m_cur_apts m) by (change (c_cura (abs_csum m1) = c_cura (abs_csum m)); rewrite W2; reflexivity).
      rewrite E2. apply canon_cura_step. exact Hca.
Qed.

(** * finish *)
Definition sink_err (k : io_kind) : Prop := k = IoWriteZero \/ exists j, k = IoInjected j.

Lemma write_all_err : forall script buf s' acc k,
  write_all script buf = (s', acc, Some k) -> sink_err k.
Proof.
  induction script as [|ev script IH]; intros buf s' acc k H.
  - destruct buf; cbn in H; discriminate.
  - destruct buf as [|y buf']; [cbn in H; discriminate|].
    destruct ev as [n| |j].
    + cbn [write_all] in H. destruct (n =? 0).
      * inversion H; subst. left. reflexivity.
      * destruct (write_all script (skipn (N.to_nat (N.min n (len (y :: buf')))) (y :: buf')))
          as [[s'' acc'] e] eqn:E.
        inversion H; subst. eapply IH; eauto.
    + cbn [write_all] in H. eapply IH; eauto.
    + cbn [write_all] in H. inversion H; subst. right. eauto.
Qed.

Lemma run_plan_err : forall bufs bw s bw' s' k,
  run_plan bufs bw s = (bw', s', Some k) -> sink_err k.
Proof.
  induction bufs as [|bf t IH]; intros bw s bw' s' k H.
  - cbn in H. discriminate.
  - cbn [run_plan] in H. unfold sink_write_all in H.
    destruct (write_all (sk_script s) bf) as [[scr acc] e] eqn:E.
    destruct e as [k'|].
    + inversion H; subst. eapply write_all_err; eauto.
    + eapply IH; eauto.
Qed.

Definition term_ok (t : option fin_err) : Prop :=
  match t with
  | Some (FinIo k) => k = IoInvalidData
  | _ => True
  end.

Lemma fast_start_term w v md c : term_ok (snd (finalize_fast_start w v md c)).
Proof.
  unfold finalize_fast_start, MDAT_TOO_BIG.
  repeat (match goal with |- context [match ?x with _ => _ end] => destruct x end;
          cbn [snd term_ok]; auto).
Qed.

Lemma standard_term w v md c : term_ok (snd (finalize_standard w v md c)).
Proof.
  unfold finalize_standard, MDAT_TOO_BIG.
  repeat (match goal with |- context [match ?x with _ => _ end] => destruct x end;
          cbn [snd term_ok]; auto).
Qed.

Lemma finalize_shape w v md f :
  let '(w', r) := finalize w v md f in
  (w_finalized w = true /\ w' = w /\ r = FinErr (FinIo IoOther)) \/
  (w_finalized w = false /\ (U16MAX <? vt_width v) || (U16MAX <? vt_height v) = true /\
   w' = w /\ r = FinErr (FinIo IoInvalidInput)) \/
  (w_finalized w = false /\ (U16MAX <? vt_width v) || (U16MAX <? vt_height v) = false /\
   param_sets_too_long (w_vconfig w) = true /\ w' = w /\ r = FinErr (FinIo IoInvalidInput)) \/
  (w_finalized w = false /\ (U16MAX <? vt_width v) || (U16MAX <? vt_height v) = false /\
   param_sets_too_long (w_vconfig w) = false /\
   (exists bw s, w' = with_sink w true bw s) /\
   (r = FinOk \/ r = FinErr (FinIo IoInvalidData) \/ (exists k, r = FinErr (FinIo k) /\ sink_err k) \/
    exists p, r = FinErr (FinPanic p))).
Proof.
  unfold finalize.
  destruct (w_finalized w) eqn:F; [left; auto|].
  destruct ((U16MAX <? vt_width v) || (U16MAX <? vt_height v)) eqn:G; [right; left; auto|].
  destruct (param_sets_too_long (w_vconfig w)) eqn:G2; [right; right; left; auto|].
  cbv zeta.
  assert (T : term_ok (snd (if f then finalize_fast_start w v md (effective_config w)
                            else finalize_standard w v md (effective_config w)))).
  { destruct f; [apply fast_start_term | apply standard_term]. }
  destruct f; revert T;
    [destruct (finalize_fast_start w v md (effective_config w)) as [bufs term]
    |destruct (finalize_standard w v md (effective_config w)) as [bufs term]];
    intros T; cbn [snd] in T;
    (destruct (run_plan bufs (w_bytes_written w) (w_sink w)) as [[bw s] e] eqn:R;
     destruct e as [k|];
     [ right; right; right; repeat split; eauto; right; right; left; exists k; split; [reflexivity|];
       eapply run_plan_err; eauto
     | destruct term as [[k|p]|]; cbn [term_ok] in T;
       [ subst k; right; right; right; repeat split; eauto
       | right; right; right; repeat split; eauto; right; right; right; eauto
       | right; right; right; repeat split; eauto ] ]).
Qed.

(** * One step *)
Lemma frame_call b m o m1 (ro : option merr) m' r :
  o <> FIN -> Rep b m ->
  lift (m1, ro) = (m', r) ->
  match ro with
  | None => violated b (abs_csum m) o = [] /\ abs_csum m1 = csum_ok b (abs_csum m) o /\ Rep b m1
  | Some e => existsb (fun n => mem n (violated b (abs_csum m) o)) (err_names e) = true /\ m1 = m
  end ->
  call_ok b (abs_csum m) o (outcome_of r) = true /\
  abs_csum m' = csum_next b (abs_csum m) o (outcome_of r) /\ Rep b m'.
Proof.
  intros Ho HR HL H. destruct ro as [e|]; cbn [lift] in HL; inversion HL; subst m' r.
  - destruct H as [H1 ->]. cbn [outcome_of]. unfold call_ok, csum_next. rewrite H1.
    split; [reflexivity|]. split; [|exact HR]. destruct o; try reflexivity. congruence.
  - destruct H as (H1 & H2 & H3). cbn [outcome_of]. unfold call_ok, csum_next. rewrite H1.
    auto.
Qed.

Lemma Rep_after_fin b m w fin :
  Rep b m -> w_audio w = w_audio (m_writer m) -> w_codec w = w_codec (m_writer m) ->
  w_aprev w = w_aprev (m_writer m) -> (fin = true -> w_finalized w = true) ->
  Rep b {| m_writer := w; m_codec := m_codec m; m_video := m_video m; m_audio := m_audio m;
           m_meta := m_meta m; m_fast := m_fast m; m_first_vpts := m_first_vpts m;
           m_last_vpts := m_last_vpts m; m_last_vdts := m_last_vdts m; m_last_apts := m_last_apts m;
           m_vcount := m_vcount m; m_acount := m_acount m; m_finished := fin;
           m_cur_vpts := m_cur_vpts m; m_cur_apts := m_cur_apts m |}.
Proof.
  intros [Hv Ha Hwa Hwc Hf Hlp Hld Hfp Hap Hca] E1 E2 E3 E4.
  constructor; cbn [m_writer m_codec m_video m_audio m_finished m_last_vpts
    m_last_vdts m_first_vpts m_last_apts m_cur_apts]; try assumption; try congruence.
  rewrite E3. exact Hap.
Qed.

Lemma finish_contract b m m' r :
  Rep b m -> step m FIN = (m', r) -> (forall p, r <> RPanic p) ->
  call_ok b (abs_csum m) FIN (outcome_of r) = true /\
  abs_csum m' = csum_next b (abs_csum m) FIN (outcome_of r) /\ Rep b m'.
Proof.
  intros HR Hs Hnp. pose proof HR as [Hv Ha Hwa Hwc Hf Hlp Hld Hfp Hap Hca].
  cbn [step] in Hs. unfold finish_in_place_with_stats in Hs.
  unfold call_ok, csum_next. cbn [violated].
  cbn [abs_csum c_closed c_params_fit]. rewrite Hv.
  destruct (m_finished m) eqn:Efin.
  { inversion Hs; subst m' r. rewrite (Hf eq_refl). split; [reflexivity|]. split; [reflexivity|exact HR]. }
  pose proof (finalize_shape (m_writer m) (m_video m) (m_meta m) (m_fast m)) as S.
  destruct (finalize (m_writer m) (m_video m) (m_meta m) (m_fast m)) as [w' fr].
  destruct S as [(S1 & -> & ->)|[(S1 & S2 & -> & ->)|[(S1 & S2 & S3 & -> & ->)|(S1 & S2 & S3 & (bw & sk & ->) & S4)]]].
  - inversion Hs; subst m' r. rewrite S1. split; [reflexivity|]. split; [reflexivity|].
    apply Rep_after_fin; auto; try discriminate.
  - inversion Hs; subst m' r. rewrite S1.
    replace ((vt_width (m_video m) <=? U16MAX) && (vt_height (m_video m) <=? U16MAX)) with false by lia.
    split; [reflexivity|]. split; [reflexivity|].
    apply Rep_after_fin; auto; try discriminate.
  - inversion Hs; subst m' r. rewrite S1, S3.
    replace ((vt_width (m_video m) <=? U16MAX) && (vt_height (m_video m) <=? U16MAX)) with true by lia.
    split; [reflexivity|]. split; [reflexivity|].
    apply Rep_after_fin; auto; try discriminate.
  - rewrite S1, S3.
    replace ((vt_width (m_video m) <=? U16MAX) && (vt_height (m_video m) <=? U16MAX)) with true by lia.
    destruct S4 as [->|[->|[(k & -> & Hk)|(p & ->)]]].
    + inversion Hs; subst m' r. split; [reflexivity|]. split; [reflexivity|].
      apply Rep_after_fin; auto.
    + inversion Hs; subst m' r. split; [reflexivity|]. split; [reflexivity|].
      apply Rep_after_fin; auto; try discriminate.
    + inversion Hs; subst m' r.
      destruct Hk as [->|[j ->]]; (split; [reflexivity|]; split; [reflexivity|];
        apply Rep_after_fin; auto; try discriminate).
    + inversion Hs; subst m' r. exfalso. eapply Hnp. reflexivity.
Qed.

Theorem step_obeys_contract : forall b m o m' r,
  Rep b m -> op_ok o -> step m o = (m', r) ->
  (forall p, r <> RPanic p) ->
  call_ok b (abs_csum m) o (outcome_of r) = true /\
  abs_csum m' = csum_next b (abs_csum m) o (outcome_of r) /\ Rep b m'.
Proof.
  intros b m o m' r HR Hok Hs Hnp.
  destruct o as [p d k|p t d k|p d|d ms|d smp|]; unfold op_ok in Hok; cbn [op_bytes_ok op_len_ok] in Hok.
  - destruct Hok as [Hb HL]. cbn [step] in Hs.
    destruct (write_video m (decode64 p) d k) as [m1 ro] eqn:W.
    eapply frame_call; eauto; [discriminate|].
    apply (write_video_contract b _ _ _ _ _ _ HR HL) in W. exact W.
  - destruct Hok as [Hb HL]. cbn [step] in Hs.
    destruct (write_video_with_dts m (decode64 p) (decode64 t) d k) as [m1 ro] eqn:W.
    eapply frame_call; eauto; [discriminate|].
    apply (write_video_with_dts_contract b _ _ _ _ _ _ _ HR HL) in W. exact W.
  - destruct Hok as [Hb HL]. cbn [step] in Hs.
    destruct (write_audio m (decode64 p) d) as [m1 ro] eqn:W.
    eapply frame_call; eauto; [discriminate|].
    apply (write_audio_contract b _ _ _ _ _ HR Hb HL (canon_decode64 p)) in W. exact W.
  - destruct Hok as [Hb HL]. cbn [step] in Hs.
    destruct (encode_video m d ms) as [m1 ro] eqn:W.
    eapply frame_call; eauto; [discriminate|].
    apply (encode_video_contract b _ _ _ _ _ HR HL) in W. exact W.
  - destruct Hok as [Hb HL]. cbn [step] in Hs.
    destruct (encode_audio m d smp) as [m1 ro] eqn:W.
    eapply frame_call; eauto; [discriminate|].
    apply (encode_audio_contract b _ _ _ _ _ HR Hb HL) in W. exact W.
  - apply finish_contract; assumption.
Qed.
Print Assumptions step_obeys_contract.

(** * All histories *)
Lemma build_Rep b script m0 : build b script = inl m0 -> Rep b m0 /\ abs_csum m0 = csum0.
Proof.
  unfold build. destruct (b_video b) as [[[c w] h]|] eqn:Ev; [|discriminate].
  intros H. inversion H; subst m0. split; [|reflexivity].
  constructor; cbn; try reflexivity; try exact I; try assumption. discriminate.
Qed.

Lemma run_obeys_contract : forall b ops m,
  Rep b m -> Forall op_ok ops ->
  Forall (fun r => forall p, r <> RPanic p) (snd (run m ops)) ->
  contract_holds b (abs_csum m) ops (map outcome_of (snd (run m ops))) = true.
Proof.
  intros b. induction ops as [|o t IH]; intros m HR Hok Hnp; [reflexivity|].
  inversion Hok as [|? ? Ho Ht]; subst.
  cbn [run] in *. destruct (step m o) as [m1 r] eqn:S.
  assert (Hr : forall p, r <> RPanic p).
  { destruct r; try discriminate. cbn [snd] in Hnp. inversion Hnp; subst. assumption. }
  destruct (step_obeys_contract b m o m1 r HR Ho S Hr) as (C1 & C2 & C3).
  assert (E : snd (match r with
                   | RPanic p => (m1, [RPanic p])
                   | _ => let '(m'', rs) := run m1 t in (m'', r :: rs)
                   end) = r :: snd (run m1 t)).
  { destruct r; try (destruct (run m1 t); reflexivity). exfalso. eapply Hr; reflexivity. }
  rewrite E in *. cbn [map contract_holds]. rewrite C1, <- C2. cbn [andb].
  apply IH; [exact C3 | exact Ht |]. inversion Hnp; subst; assumption.
Qed.

Theorem model_obeys_contract : forall b script m0 ops,
  build b script = inl m0 -> Forall op_ok ops ->
  Forall (fun r => forall p, r <> RPanic p) (snd (run m0 ops)) ->
  check_C04 b ops (map outcome_of (snd (run m0 ops))) = true.
Proof.
  intros b script m0 ops Hb Hok Hnp. destruct (build_Rep b script m0 Hb) as [HR H0].
  unfold check_C04. rewrite <- H0. apply run_obeys_contract; assumption.
Qed.
Print Assumptions model_obeys_contract.

Theorem build_succeeds_iff_video_configured : forall b script,
  (exists m, build b script = inl m) <-> b_video b <> None.
Proof.
  intros b script. unfold build. destruct (b_video b) as [[[c w] h]|]; split.
  - discriminate.
  - intros _. eauto.
  - intros [m H]. discriminate.
  - congruence.
Qed.
Print Assumptions build_succeeds_iff_video_configured.
