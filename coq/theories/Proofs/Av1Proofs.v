(** AV1: the model's sequence-header parser (Model/Codec.v) against the
    specification's sequence_header_obu syntax (Spec/Av1Syntax.v). *)
From Coq Require Import Lia ZifyN ZifyNat ZifyBool.
From Muxide Require Import Model.Base Model.Codec Spec.Av1Syntax Proofs.BaseProofs.
Open Scope N_scope.
Ltac Zify.zify_post_hook ::= Z.div_mod_to_equations.

#[local] Arguments N.add : simpl never.
#[local] Arguments N.sub : simpl never.
#[local] Arguments N.mul : simpl never.
#[local] Arguments N.div : simpl never.
#[local] Arguments N.modulo : simpl never.
#[local] Arguments N.eqb : simpl never.
#[local] Arguments N.ltb : simpl never.
#[local] Arguments N.leb : simpl never.
#[local] Arguments N.pow : simpl never.
#[local] Arguments N.testbit : simpl never.
#[local] Arguments N.land : simpl never.
#[local] Arguments N.lor : simpl never.
#[local] Arguments N.shiftl : simpl never.
#[local] Arguments N.shiftr : simpl never.

(** * Finite sweeps *)
Lemma forall_lt_sweep (P : N -> bool) (n : nat) :
  forallb P (map N.of_nat (seq 0 n)) = true -> forall x, x < N.of_nat n -> P x = true.
Proof.
  intros H x Hx. rewrite forallb_forall in H. apply H.
  apply in_map_iff. exists (N.to_nat x). split; [lia|]. apply in_seq. lia.
Qed.

(** * A4: leb128 *)
Lemma leb_byte_facts x : x < 128 ->
  band x 128 = 0 /\ band x 127 = x /\ band (x + 128) 128 <> 0 /\ band (x + 128) 127 = x.
Proof.
  intros Hx.
  pose (P := fun x => (band x 128 =? 0) && (band x 127 =? x) &&
                      negb (band (x + 128) 128 =? 0) && (band (x + 128) 127 =? x)).
  assert (HP : P x = true).
  { apply (forall_lt_sweep P 128); [vm_compute; reflexivity | exact Hx]. }
  unfold P in HP. lia.
Qed.

Lemma lor_split_128 n : N.lor (n mod 128) (N.shiftl (n / 128) 7) = n.
Proof.
  apply N.bits_inj. intro i. rewrite N.lor_spec.
  change 128 with (2 ^ 7).
  destruct (N.lt_ge_cases i 7) as [Hi | Hi].
  - rewrite N.mod_pow2_bits_low by exact Hi.
    rewrite N.shiftl_spec_low by exact Hi. apply orb_false_r.
  - rewrite N.mod_pow2_bits_high by exact Hi.
    rewrite N.shiftl_spec_high' by exact Hi.
    rewrite N.div_pow2_bits. cbn [orb]. f_equal. lia.
Qed.

Lemma read_leb_gen : forall f f' n r value shift i,
  n < 128 ^ N.of_nat (S f) -> (f <= f')%nat ->
  Codec.leb128_f (S f) (Av1Syntax.leb128_f (S f') n ++ r) value shift i
  = Some (N.lor value (N.shiftl n shift), (i + length (Av1Syntax.leb128_f (S f') n))%nat).
Proof.
  induction f as [|f IH]; intros f' n r value shift i Hn Hf.
  - change (128 ^ N.of_nat 1) with 128 in Hn.
    cbn [Av1Syntax.leb128_f]. replace (n <? 128) with true by lia.
    cbn [app Codec.leb128_f length].
    destruct (leb_byte_facts n Hn) as (H1 & H2 & _ & _).
    rewrite H1, H2. cbn [N.eqb]. change (0 =? 0) with true. cbv iota.
    repeat f_equal. lia.
  - destruct f' as [|f']; [lia|].
    remember (S f) as sf. remember (S f') as sf'.
    cbn [Av1Syntax.leb128_f].
    destruct (n <? 128) eqn:Hlt.
    + cbn [app Codec.leb128_f length].
      assert (Hn' : n < 128) by lia.
      destruct (leb_byte_facts n Hn') as (H1 & H2 & _ & _).
      rewrite H1, H2. change (0 =? 0) with true. cbv iota.
      repeat f_equal. lia.
    + cbn [app Codec.leb128_f length].
      assert (Hm : n mod 128 < 128) by lia.
      destruct (leb_byte_facts _ Hm) as (_ & _ & H3 & H4).
      rewrite H4. apply N.eqb_neq in H3. rewrite H3. cbv iota.
      subst sf sf'. rewrite IH.
      * f_equal. f_equal.
        -- rewrite <- N.lor_assoc. f_equal.
           rewrite (N.add_comm shift 7), <- N.shiftl_shiftl, <- N.shiftl_lor.
           rewrite lor_split_128. reflexivity.
        -- lia.
      * replace (N.of_nat (S (S f))) with (N.succ (N.of_nat (S f))) in Hn by lia.
        rewrite N.pow_succ_r' in Hn. lia.
      * lia.
Qed.

Theorem read_leb128_leb128 : forall n r, n < 72057594037927936 ->
  exists k, read_leb128 (leb128 n ++ r) = Some (n, k) /\ k = length (leb128 n).
Proof.
  intros n r Hn. eexists. split; [|reflexivity].
  unfold read_leb128, leb128.
  rewrite (read_leb_gen 7 9) by (try lia; exact Hn).
  rewrite N.shiftl_0_r, N.lor_0_l. reflexivity.
Qed.
Print Assumptions read_leb128_leb128.

Lemma leb128_nonempty n : leb128 n <> [].
Proof. unfold leb128. cbn [Av1Syntax.leb128_f]. destruct (n <? 128); discriminate. Qed.

(** * Bit level: the reader on encoded fields *)
Lemma f_length n v : length (f n v) = n.
Proof. induction n as [|n IH]; cbn [f length]; [reflexivity | now rewrite IH]. Qed.

Lemma read_bits_acc_f : forall n v acc r,
  read_bits_acc n acc (f n v ++ r) = Some (acc * 2 ^ N.of_nat n + v mod 2 ^ N.of_nat n, r).
Proof.
  induction n as [|n IH]; intros v acc r.
  - cbn [f app read_bits_acc]. change (2 ^ N.of_nat 0) with 1. rewrite N.mod_1_r.
    do 2 f_equal. lia.
  - cbn [f app read_bits_acc]. rewrite IH. do 2 f_equal.
    replace (N.of_nat (S n)) with (N.succ (N.of_nat n)) by lia. rewrite N.pow_succ_r'.
    assert (Hp : 2 ^ N.of_nat n <> 0) by (apply N.pow_nonzero; discriminate).
    rewrite (N.mul_comm 2 (2 ^ _)). rewrite N.mod_mul_r by (try exact Hp; discriminate).
    rewrite <- N.testbit_spec'.
    set (p := 2 ^ N.of_nat n). set (m := v mod p).
    destruct (N.testbit v (N.of_nat n)); cbn [N.b2n]; ring.
Qed.

Lemma read_bits_f n v r : (n <= 64)%nat -> v < 2 ^ N.of_nat n ->
  read_bits n (f n v ++ r) = Some (v, r).
Proof.
  intros Hn Hv. unfold read_bits. replace (64 <? n)%nat with false by lia.
  rewrite read_bits_acc_f. rewrite N.mod_small by exact Hv. do 2 f_equal.
Qed.

Lemma read_bits_f_fits n v r : (n <= 64)%nat -> fits n v = true ->
  read_bits n (f n v ++ r) = Some (v, r).
Proof. intros Hn Hv. apply read_bits_f; [exact Hn|]. unfold fits in Hv. lia. Qed.

Lemma skip_bits_app l r n : length l = n -> skip_bits n (l ++ r) = Some r.
Proof.
  intros H. unfold skip_bits. rewrite app_length.
  replace (length l + length r <? n)%nat with false by lia.
  rewrite skipn_app. subst n. rewrite skipn_all, Nat.sub_diag. reflexivity.
Qed.

Lemma skip_bits_f n v r : skip_bits n (f n v ++ r) = Some r.
Proof. apply skip_bits_app, f_length. Qed.

Lemma skip_uvlc_f_spec : forall k fuel zeros l r,
  (k < fuel)%nat -> (zeros + k <= 32)%nat -> length l = (zeros + k)%nat ->
  skip_uvlc_f fuel zeros (repeat false k ++ true :: l ++ r) = Some r.
Proof.
  induction k as [|k IH]; intros fuel zeros l r Hf Hz Hl; (destruct fuel as [|fuel]; [lia|]).
  - cbn [repeat app skip_uvlc_f]. apply skip_bits_app. lia.
  - cbn [repeat app skip_uvlc_f].
    replace (32 <? S zeros)%nat with false by lia.
    apply IH; lia.
Qed.

Lemma log2_uvlc v : v < 4294967295 -> N.log2 (v + 1) <= 31.
Proof.
  intros Hv. assert (H : N.log2 (v + 1) < 32); [|lia].
  apply N.log2_lt_pow2; [lia|]. change (2 ^ 32) with 4294967296. lia.
Qed.

Lemma skip_uvlc_uvlc v r : v < 4294967295 -> skip_uvlc (uvlc v ++ r) = Some r.
Proof.
  intros Hv. pose proof (log2_uvlc v Hv) as Hl.
  unfold skip_uvlc, uvlc. cbv zeta. rewrite <- !app_assoc. cbn [app].
  apply skip_uvlc_f_spec; [lia | lia | rewrite f_length; lia].
Qed.

Lemma uvlc_length v : v < 4294967295 -> (length (uvlc v) <= 63)%nat.
Proof.
  intros Hv. pose proof (log2_uvlc v Hv) as Hl.
  unfold uvlc. cbv zeta. rewrite !app_length, repeat_length, f_length. cbn [length]. lia.
Qed.

(** * Packing *)
Lemma byte_round b7 b6 b5 b4 b3 b2 b1 b0 t :
  exists v, byte_of_bits (b7 :: b6 :: b5 :: b4 :: b3 :: b2 :: b1 :: b0 :: t) 0 8 = (v, t) /\
            bits_of_byte v = [b7; b6; b5; b4; b3; b2; b1; b0].
Proof.
  destruct b7, b6, b5, b4, b3, b2, b1, b0; eexists; (split; [reflexivity | reflexivity]).
Qed.

Lemma bits_of_bytes_pack_f : forall k fuel l,
  length l = (8 * k)%nat -> (k <= fuel)%nat -> bits_of_bytes (pack_f fuel l) = l.
Proof.
  induction k as [|k IH]; intros fuel l Hl Hf.
  - destruct l; [|discriminate]. destruct fuel; reflexivity.
  - destruct fuel as [|fuel]; [lia|].
    destruct l as [|b7 [|b6 [|b5 [|b4 [|b3 [|b2 [|b1 [|b0 t]]]]]]]]; try (cbn [length] in Hl; lia).
    destruct (byte_round b7 b6 b5 b4 b3 b2 b1 b0 t) as (v & Hv & Hb).
    cbn [pack_f]. rewrite Hv. unfold bits_of_bytes. cbn [map concat].
    rewrite Hb. cbn [app]. do 8 f_equal.
    apply IH; [cbn [length] in Hl; lia | lia].
Qed.

Lemma bits_of_bytes_pack l k : length l = (8 * k)%nat -> bits_of_bytes (pack l) = l.
Proof. intros H. unfold pack. apply (bits_of_bytes_pack_f k); [exact H | lia]. Qed.

Lemma bits_of_bytes_length bs : length (bits_of_bytes bs) = (8 * length bs)%nat.
Proof.
  unfold bits_of_bytes. induction bs as [|b bs IH]; [reflexivity|].
  cbn [map concat]. rewrite app_length, IH. cbn [bits_of_byte length]. lia.
Qed.

Lemma trailing_aligned n : exists k, (n + length (trailing n) = 8 * k)%nat.
Proof.
  unfold trailing. cbn [length]. rewrite repeat_length.
  exists ((n + S ((8 - S n mod 8) mod 8)) / 8)%nat.
  pose proof (Nat.div_mod (n + S ((8 - S n mod 8) mod 8)) 8).
  assert (((n + S ((8 - S n mod 8) mod 8)) mod 8 = 0)%nat); [|lia].
  pose proof (Nat.mod_upper_bound (S n) 8).
  pose proof (Nat.div_mod (S n) 8).
  destruct (Nat.eq_dec (S n mod 8) 0) as [E|E].
  - rewrite E. change ((8 - 0) mod 8)%nat with 0%nat.
    replace (n + 1)%nat with (S n) by lia. exact E.
  - rewrite (Nat.mod_small (8 - S n mod 8) 8) by lia.
    replace (n + S (8 - S n mod 8))%nat with (8 + (S n - S n mod 8))%nat by lia.
    replace (S n - S n mod 8)%nat with (S n / 8 * 8)%nat by lia.
    replace (8 + S n / 8 * 8)%nat with ((1 + S n / 8) * 8)%nat by lia.
    apply Nat.mod_mul. discriminate.
Qed.

Lemma seq_payload_bits s :
  bits_of_bytes (seq_payload s) =
  enc_sequence_header s ++ trailing (length (enc_sequence_header s)).
Proof.
  unfold seq_payload. cbv zeta.
  destruct (trailing_aligned (length (enc_sequence_header s))) as (k & Hk).
  apply (bits_of_bytes_pack _ k). rewrite app_length. exact Hk.
Qed.

(** * A3: the recorded monochrome defect *)
Definition mono_cc : color_config :=
  {| cc_high_bitdepth := false; cc_twelve_bit := false; cc_mono_chrome := true;
     cc_description := None; cc_color_range := false; cc_subsampling_x := true; cc_subsampling_y := true;
     cc_chroma_sample_position := 0; cc_separate_uv_delta_q := false |}.
Definition mono_hdr (fwb : N) : seq_hdr :=
  {| sh_seq_profile := 0; sh_still_picture := true; sh_reduced_still_picture_header := true;
     sh_reduced_level := 0; sh_timing := None; sh_initial_display_delay_present := false;
     sh_operating_points := [];
     sh_frame_width_bits_minus_1 := fwb; sh_frame_height_bits_minus_1 := 0;
     sh_max_frame_width_minus_1 := 0; sh_max_frame_height_minus_1 := 0; sh_frame_id := None;
     sh_use_128x128_superblock := false; sh_enable_filter_intra := false; sh_enable_intra_edge_filter := false;
     sh_enable_interintra_compound := false; sh_enable_masked_compound := false;
     sh_enable_warped_motion := false; sh_enable_dual_filter := false;
     sh_order_hint := None; sh_force_screen_content_tools := None; sh_force_integer_mv := None;
     sh_enable_superres := false; sh_enable_cdef := false; sh_enable_restoration := false;
     sh_color := mono_cc; sh_film_grain_params_present := true |}.

Theorem av1_monochrome_chroma_position_refuted :
  exists s, valid_seq s = true /\ cc_mono_chrome (sh_color s) = true /\
            exists c, extract_av1_config (seq_obu None s) = Some c /\ av1_chroma_sample_position c <> 0.
Proof.
  exists (mono_hdr 1). split; [vm_compute; reflexivity|]. split; [reflexivity|].
  eexists. split; [vm_compute; reflexivity|]. cbn [av1_chroma_sample_position]. discriminate.
Qed.
Print Assumptions av1_monochrome_chroma_position_refuted.

(* a second face of the same defect: when the header ends on the last-but-one bit of a byte,
   the two extra bits eat film_grain_params_present and the trailing one bit, and the parser
   runs out of data: a valid monochrome header is rejected *)
Theorem av1_monochrome_header_rejected :
  exists s, valid_seq s = true /\ cc_mono_chrome (sh_color s) = true /\
            extract_av1_config (seq_obu None s) = None.
Proof.
  exists (mono_hdr 0). split; [vm_compute; reflexivity|]. split; [reflexivity|].
  vm_compute; reflexivity.
Qed.
Print Assumptions av1_monochrome_header_rejected.

(** * The parser, cut into the segments of the syntax *)
Definition ps_timing (tip : bool) (r : bitrd) : option bitrd :=
  if tip then
    let? r := skip_bits 32 r in
    let? r := skip_bits 32 r in
    let? (epi, r) := read_bit r in
    if epi then skip_uvlc r else Some r
  else Some r.

Definition ps_dmi (dmi : bool) (r : bitrd) : option (nat * bitrd) :=
  if dmi then
    let? (b, r) := read_bits 5 r in
    let? r := skip_bits 32 r in
    let? r := skip_bits 5 r in
    let? r := skip_bits 5 r in
    Some (S (N.to_nat b), r)
  else Some (O, r).

Definition ps_level (reduced : bool) (r : bitrd) : option (N * N * bitrd) :=
  if reduced then
    let? (l, r) := read_bits 5 r in Some (l, 0, r)
  else
    let? (tip, r) := read_bit r in
    let? r := ps_timing tip r in
    let? (dmi, r) := (if tip then read_bit r else Some (false, r)) in
    let? (bdl, r) := ps_dmi dmi r in
    let? (iddp, r) := read_bit r in
    let? (opc, r) := read_bits 5 r in
    op_points (S (N.to_nat opc)) true dmi bdl iddp 0 0 r.

Definition ps_frame_id (reduced : bool) (r : bitrd) : option bitrd :=
  if negb reduced then
    let? (fidp, r) := read_bit r in
    if fidp then
      let? (_, r) := read_bits 4 r in
      let? (_, r) := read_bits 3 r in Some r
    else Some r
  else Some r.

Definition ps_tools (reduced : bool) (r : bitrd) : option bitrd :=
  if negb reduced then
    let? (_, r) := read_bit r in
    let? (_, r) := read_bit r in
    let? (_, r) := read_bit r in
    let? (_, r) := read_bit r in
    let? (eoh, r) := read_bit r in
    let? r := (if eoh then
                 let? (_, r) := read_bit r in
                 let? (_, r) := read_bit r in Some r
               else Some r) in
    let? (scsct, r) := read_bit r in
    let? (sfsct, r) := (if scsct then Some (2, r)
                        else let? (b, r) := read_bit r in Some (b2n b, r)) in
    let? r := (if 0 <? sfsct then
                 let? (scim, r) := read_bit r in
                 if negb scim then (let? (_, r) := read_bit r in Some r) else Some r
               else Some r) in
    if eoh then skip_bits 3 r else Some r
  else Some r.

Definition ps_bits (obu_data : bytes) (r : bitrd) : option av1_config :=
  let? (seq_profile, r) := read_bits 3 r in
  if 3 <? seq_profile then None else
  let? (_, r) := read_bit r in
  let? (reduced, r) := read_bit r in
  let? (lvl, tier, r) := ps_level reduced r in
  let? (fwb, r) := read_bits 4 r in
  let? (fhb, r) := read_bits 4 r in
  let? (_, r) := read_bits (S (N.to_nat fwb)) r in
  let? (_, r) := read_bits (S (N.to_nat fhb)) r in
  let? r := ps_frame_id reduced r in
  let? (_, r) := read_bit r in
  let? (_, r) := read_bit r in
  let? (_, r) := read_bit r in
  let? r := ps_tools reduced r in
  let? (_, r) := read_bit r in
  let? (_, r) := read_bit r in
  let? (_, r) := read_bit r in
  let? (hb, tb, mono, sx, sy, csp, r) := parse_color_config r seq_profile in
  let? (_, r) := read_bit r in
  Some {| av1_sequence_header := obu_data; av1_seq_profile := seq_profile;
          av1_seq_level_idx := lvl; av1_seq_tier := tier; av1_high_bitdepth := hb;
          av1_twelve_bit := tb; av1_monochrome := mono; av1_subsampling_x := sx;
          av1_subsampling_y := sy; av1_chroma_sample_position := csp |}.

Lemma parse_sequence_header_eq obu hs :
  parse_sequence_header obu hs =
  match skipn hs obu with
  | [] => None
  | _ => ps_bits obu (bits_of_bytes (skipn hs obu))
  end.
Proof. reflexivity. Qed.

#[local] Opaque f read_bits skip_bits uvlc skip_uvlc.

Ltac rb := cbn [f1 app read_bit opt_bind negb].

(** ** timing info, decoder model info *)
Lemma ps_timing_enc t r :
  (match ti_num_ticks_per_picture_minus_1 t with Some v => v <? 4294967295 | None => true end) = true ->
  ps_timing true (enc_timing_info t ++ r) = Some r.
Proof.
  intros Hv. unfold ps_timing, enc_timing_info. rewrite <- ?app_assoc.
  rewrite skip_bits_f. rb. rewrite skip_bits_f. rb.
  destruct (ti_num_ticks_per_picture_minus_1 t) as [v|].
  - rewrite <- ?app_assoc. rb. apply skip_uvlc_uvlc. lia.
  - rb. reflexivity.
Qed.

Lemma ps_dmi_enc d r : fits 5 (dm_buffer_delay_length_minus_1 d) = true ->
  ps_dmi true (enc_decoder_model_info d ++ r) =
  Some (S (N.to_nat (dm_buffer_delay_length_minus_1 d)), r).
Proof.
  intros Hv. unfold ps_dmi, enc_decoder_model_info. rewrite <- ?app_assoc.
  rewrite read_bits_f_fits by (try lia; exact Hv). rb.
  rewrite !skip_bits_f. rb. rewrite !skip_bits_f. rb. rewrite !skip_bits_f. rb. reflexivity.
Qed.

(** ** operating points *)
Definition dmi_flag (dmi : option decoder_model_info) : bool :=
  match dmi with Some _ => true | None => false end.
Definition dmi_bdl (dmi : option decoder_model_info) : nat :=
  match dmi with Some d => S (N.to_nat (dm_buffer_delay_length_minus_1 d)) | None => O end.

Definition op_tier (level_idx : N) (r : bitrd) : option (N * bitrd) :=
  if 7 <? level_idx then (let? (b, r) := read_bit r in Some (b2n b, r)) else Some (0, r).
Definition op_params (dmi : bool) (bdl : nat) (r : bitrd) : option bitrd :=
  if dmi then
    let? (p, r) := read_bit r in
    if p then
      let? r := skip_bits bdl r in
      let? r := skip_bits bdl r in
      let? (_, r) := read_bit r in Some r
    else Some r
  else Some r.
Definition op_idd (iddp : bool) (r : bitrd) : option bitrd :=
  if iddp then
    let? (p, r) := read_bit r in
    if p then skip_bits 4 r else Some r
  else Some r.

Lemma op_points_S k first dmi bdl iddp lvl tier r :
  op_points (S k) first dmi bdl iddp lvl tier r =
  (let? r := skip_bits 12 r in
   let? (level_idx, r) := read_bits 5 r in
   let? (t, r) := op_tier level_idx r in
   let? r := op_params dmi bdl r in
   let? r := op_idd iddp r in
   op_points k false dmi bdl iddp (if first then level_idx else lvl) (if first then t else tier) r).
Proof. reflexivity. Qed.

Definition enc_op_tier (o : operating_point) : bits :=
  if 7 <? op_seq_level_idx o then f1 (op_seq_tier o) else [].
Definition enc_op_params (dmi : option decoder_model_info) (o : operating_point) : bits :=
  match dmi with
  | Some d =>
      match op_parameters o with
      | Some (dec, enc, low) =>
          let n := S (N.to_nat (dm_buffer_delay_length_minus_1 d)) in
          [true] ++ f n dec ++ f n enc ++ f1 low
      | None => [false]
      end
  | None => []
  end.
Definition enc_op_idd (iddp : bool) (o : operating_point) : bits :=
  if iddp then
    match op_initial_display_delay_minus_1 o with
    | Some v => [true] ++ f 4 v
    | None => [false]
    end
  else [].

Lemma enc_operating_point_eq dmi iddp o :
  enc_operating_point dmi iddp o =
  f 12 (op_idc o) ++ f 5 (op_seq_level_idx o) ++ enc_op_tier o ++ enc_op_params dmi o ++ enc_op_idd iddp o.
Proof. reflexivity. Qed.

Lemma op_tier_enc o r :
  (if 7 <? op_seq_level_idx o then true else negb (op_seq_tier o)) = true ->
  op_tier (op_seq_level_idx o) (enc_op_tier o ++ r) = Some (if op_seq_tier o then 1 else 0, r).
Proof.
  intros H. unfold op_tier, enc_op_tier. destruct (7 <? op_seq_level_idx o).
  - rb. reflexivity.
  - rb. destruct (op_seq_tier o); [discriminate | reflexivity].
Qed.

Lemma op_params_enc dmi o r :
  (match dmi, op_parameters o with
   | Some d, Some (dec, enc, _) =>
       let n := S (N.to_nat (dm_buffer_delay_length_minus_1 d)) in fits n dec && fits n enc
   | None, Some _ => false
   | _, None => true
   end) = true ->
  op_params (dmi_flag dmi) (dmi_bdl dmi) (enc_op_params dmi o ++ r) = Some r.
Proof.
  intros H. unfold op_params, enc_op_params.
  destruct dmi as [d|]; destruct (op_parameters o) as [[[dec enc] low]|];
    cbn [dmi_flag dmi_bdl]; cbv zeta; try discriminate.
  - rewrite <- ?app_assoc. rb. rewrite skip_bits_f. rb. rewrite skip_bits_f. rb. reflexivity.
  - rb. reflexivity.
  - rb. reflexivity.
Qed.

Lemma op_idd_enc iddp o r :
  (match op_initial_display_delay_minus_1 o with
   | Some v => iddp && fits 4 v
   | None => true
   end) = true ->
  op_idd iddp (enc_op_idd iddp o ++ r) = Some r.
Proof.
  intros H. unfold op_idd, enc_op_idd.
  destruct iddp; destruct (op_initial_display_delay_minus_1 o) as [v|]; try discriminate.
  - rewrite <- ?app_assoc. rb. apply skip_bits_f.
  - rb. reflexivity.
  - rb. reflexivity.
Qed.

Lemma op_points_enc : forall ops first dmi iddp lvl tier r,
  forallb (valid_op dmi iddp) ops = true ->
  op_points (length ops) first (dmi_flag dmi) (dmi_bdl dmi) iddp lvl tier
            (concat (map (enc_operating_point dmi iddp) ops) ++ r)
  = Some (match ops with o :: _ => if first then op_seq_level_idx o else lvl | [] => lvl end,
          match ops with
          | o :: _ => if first then (if op_seq_tier o then 1 else 0) else tier
          | [] => tier
          end, r).
Proof.
  induction ops as [|o ops IH]; intros first dmi iddp lvl tier r Hv.
  - reflexivity.
  - cbn [forallb] in Hv. apply andb_true_iff in Hv. destruct Hv as (Ho & Hv).
    unfold valid_op in Ho. rewrite !andb_true_iff in Ho.
    destruct Ho as ((((H1 & H2) & H3) & H4) & H5).
    cbn [length map concat]. rewrite op_points_S, enc_operating_point_eq.
    rewrite <- ?app_assoc.
    rewrite skip_bits_f. rb.
    rewrite read_bits_f_fits by (try lia; exact H2). rb.
    rewrite op_tier_enc by exact H3. rb.
    rewrite op_params_enc by exact H4. rb.
    rewrite op_idd_enc by exact H5. rb.
    rewrite IH by exact Hv.
    destruct ops; reflexivity.
Qed.

(** ** the level segment: reduced level, or timing / decoder model / operating points *)
Definition enc_level (s : seq_hdr) : bits :=
  if sh_reduced_still_picture_header s then f 5 (sh_reduced_level s)
  else
    (match sh_timing s with
     | Some (t, dmi) =>
         [true] ++ enc_timing_info t ++
         match dmi with Some d => [true] ++ enc_decoder_model_info d | None => [false] end
     | None => [false]
     end) ++
    f1 (sh_initial_display_delay_present s) ++
    f 5 (N.of_nat (length (sh_operating_points s)) - 1) ++
    concat (map (enc_operating_point (match sh_timing s with Some (_, d) => d | None => None end)
                                     (sh_initial_display_delay_present s))
                (sh_operating_points s)).

Definition enc_frame_id (s : seq_hdr) : bits :=
  if sh_reduced_still_picture_header s then []
  else match sh_frame_id s with
       | Some (d, a) => [true] ++ f 4 d ++ f 3 a
       | None => [false]
       end.

Definition enc_tools (s : seq_hdr) : bits :=
  if sh_reduced_still_picture_header s then []
  else
    f1 (sh_enable_interintra_compound s) ++ f1 (sh_enable_masked_compound s) ++
    f1 (sh_enable_warped_motion s) ++ f1 (sh_enable_dual_filter s) ++
    (match sh_order_hint s with
     | Some (jnt, mvs, _) => [true] ++ f1 jnt ++ f1 mvs
     | None => [false]
     end) ++
    (match sh_force_screen_content_tools s with
     | None => [true]
     | Some b => [false] ++ f1 b
     end) ++
    (match sh_force_screen_content_tools s with
     | Some false => []
     | _ => match sh_force_integer_mv s with
            | None => [true]
            | Some b => [false] ++ f1 b
            end
     end) ++
    (match sh_order_hint s with
     | Some (_, _, ohb) => f 3 ohb
     | None => []
     end).

Lemma enc_sequence_header_eq s :
  enc_sequence_header s =
  f 3 (sh_seq_profile s) ++ f1 (sh_still_picture s) ++ f1 (sh_reduced_still_picture_header s) ++
  enc_level s ++
  f 4 (sh_frame_width_bits_minus_1 s) ++ f 4 (sh_frame_height_bits_minus_1 s) ++
  f (S (N.to_nat (sh_frame_width_bits_minus_1 s))) (sh_max_frame_width_minus_1 s) ++
  f (S (N.to_nat (sh_frame_height_bits_minus_1 s))) (sh_max_frame_height_minus_1 s) ++
  enc_frame_id s ++
  f1 (sh_use_128x128_superblock s) ++ f1 (sh_enable_filter_intra s) ++ f1 (sh_enable_intra_edge_filter s) ++
  enc_tools s ++
  f1 (sh_enable_superres s) ++ f1 (sh_enable_cdef s) ++ f1 (sh_enable_restoration s) ++
  enc_color_config (sh_seq_profile s) (sh_color s) ++
  f1 (sh_film_grain_params_present s).
Proof. reflexivity. Qed.

Definition valid_mid (s : seq_hdr) : bool :=
  if sh_reduced_still_picture_header s then
    sh_still_picture s && fits 5 (sh_reduced_level s)
  else
    (match sh_timing s with
     | Some (t, dmi) =>
         fits 32 (ti_num_units_in_display_tick t) && fits 32 (ti_time_scale t) &&
         (match ti_num_ticks_per_picture_minus_1 t with Some v => v <? 4294967295 | None => true end) &&
         (match dmi with
          | Some d => fits 5 (dm_buffer_delay_length_minus_1 d) && fits 32 (dm_num_units_in_decoding_tick d) &&
                      fits 5 (dm_buffer_removal_time_length_minus_1 d) &&
                      fits 5 (dm_frame_presentation_time_length_minus_1 d)
          | None => true end)
     | None => true
     end) &&
    (1 <=? length (sh_operating_points s))%nat && (length (sh_operating_points s) <=? 32)%nat &&
    forallb (valid_op (match sh_timing s with Some (_, d) => d | None => None end)
                      (sh_initial_display_delay_present s)) (sh_operating_points s) &&
    (match sh_frame_id s with Some (d, a) => fits 4 d && fits 3 a | None => true end) &&
    (match sh_order_hint s with Some (_, _, o) => fits 3 o | None => true end).

Lemma valid_seq_eq s :
  valid_seq s =
  (sh_seq_profile s <=? 2) && valid_mid s &&
  fits 4 (sh_frame_width_bits_minus_1 s) && fits 4 (sh_frame_height_bits_minus_1 s) &&
  fits (S (N.to_nat (sh_frame_width_bits_minus_1 s))) (sh_max_frame_width_minus_1 s) &&
  fits (S (N.to_nat (sh_frame_height_bits_minus_1 s))) (sh_max_frame_height_minus_1 s) &&
  valid_color (sh_seq_profile s) (sh_color s).
Proof. reflexivity. Qed.

Definition ps_level_tail (dmi : bool) (bdl : nat) (r : bitrd) : option (N * N * bitrd) :=
  let? (iddp, r) := read_bit r in
  let? (opc, r) := read_bits 5 r in
  op_points (S (N.to_nat opc)) true dmi bdl iddp 0 0 r.

Lemma ps_level_full r :
  ps_level false r =
  (let? (tip, r) := read_bit r in
   let? r := ps_timing tip r in
   let? (dmi, r) := (if tip then read_bit r else Some (false, r)) in
   let? (bdl, r) := ps_dmi dmi r in
   ps_level_tail dmi bdl r).
Proof. reflexivity. Qed.

Lemma level_tail_enc dmi iddp ops r :
  (1 <= length ops)%nat -> (length ops <= 32)%nat ->
  forallb (valid_op dmi iddp) ops = true ->
  ps_level_tail (dmi_flag dmi) (dmi_bdl dmi)
    (f1 iddp ++ f 5 (N.of_nat (length ops) - 1) ++
     concat (map (enc_operating_point dmi iddp) ops) ++ r)
  = Some (match ops with o :: _ => op_seq_level_idx o | [] => 0 end,
          match ops with o :: _ => if op_seq_tier o then 1 else 0 | [] => 0 end, r).
Proof.
  intros H1 H32 Hv. unfold ps_level_tail. rb.
  rewrite read_bits_f_fits by (try lia; unfold fits; change (2 ^ N.of_nat 5) with 32; lia). rb.
  replace (S (N.to_nat (N.of_nat (length ops) - 1))) with (length ops) by lia.
  rewrite op_points_enc by exact Hv. destruct ops; reflexivity.
Qed.

Lemma ps_level_enc s r :
  valid_mid s = true ->
  ps_level (sh_reduced_still_picture_header s) (enc_level s ++ r) = Some (seq_level0 s, seq_tier0 s, r).
Proof.
  intros Hv. unfold valid_mid in Hv. unfold enc_level, seq_level0, seq_tier0.
  destruct (sh_reduced_still_picture_header s).
  - apply andb_true_iff in Hv. destruct Hv as (_ & Hl).
    unfold ps_level. rewrite read_bits_f_fits by (try lia; exact Hl). rb. reflexivity.
  - rewrite !andb_true_iff in Hv. destruct Hv as (((((Ht & H1) & H32) & Hops) & _) & _).
    apply Nat.leb_le in H1, H32.
    rewrite ps_level_full.
    destruct (sh_timing s) as [[t dmi]|].
    + rewrite !andb_true_iff in Ht. destruct Ht as (((_ & _) & Hu) & Hd).
      rewrite <- ?app_assoc. rb.
      rewrite ps_timing_enc by exact Hu. rb.
      destruct dmi as [d|].
      * rewrite !andb_true_iff in Hd. destruct Hd as (((Hd & _) & _) & _).
        rewrite <- ?app_assoc. rb.
        rewrite ps_dmi_enc by exact Hd. rb.
        apply (level_tail_enc (Some d)); assumption.
      * rb. unfold ps_dmi. rb. apply (level_tail_enc None); assumption.
    + rb. unfold ps_timing, ps_dmi. rb. apply (level_tail_enc None); assumption.
Qed.

(** ** frame id, tool flags *)
Lemma ps_frame_id_enc s r :
  valid_mid s = true ->
  ps_frame_id (sh_reduced_still_picture_header s) (enc_frame_id s ++ r) = Some r.
Proof.
  intros Hv. unfold valid_mid in Hv. unfold ps_frame_id, enc_frame_id.
  destruct (sh_reduced_still_picture_header s); [reflexivity|].
  rewrite !andb_true_iff in Hv. destruct Hv as (((((_ & _) & _) & _) & Hf) & _).
  destruct (sh_frame_id s) as [[d a]|].
  - apply andb_true_iff in Hf. destruct Hf as (Hd & Ha).
    rewrite <- ?app_assoc. rb.
    rewrite read_bits_f_fits by (try lia; exact Hd). rb.
    rewrite read_bits_f_fits by (try lia; exact Ha). rb. reflexivity.
  - rb. reflexivity.
Qed.

Lemma ps_tools_enc s r :
  ps_tools (sh_reduced_still_picture_header s) (enc_tools s ++ r) = Some r.
Proof.
  unfold ps_tools, enc_tools.
  destruct (sh_reduced_still_picture_header s); [reflexivity|].
  rewrite <- ?app_assoc. rb.
  destruct (sh_order_hint s) as [[[jnt mvs] ohb]|];
    destruct (sh_force_screen_content_tools s) as [[|]|];
    destruct (sh_force_integer_mv s) as [[|]|];
    rewrite <- ?app_assoc; rb; cbn [b2n];
    change (0 <? 2) with true; change (0 <? 1) with true; change (0 <? 0) with false; rb;
    solve [reflexivity | apply skip_bits_f].
Qed.

(** ** color config *)
Definition pc_twelve (profile : N) (hb : bool) (r : bitrd) : option (bool * bitrd) :=
  if (profile =? 2) && hb then read_bit r else Some (false, r).
Definition pc_mono (profile : N) (r : bitrd) : option (bool * bitrd) :=
  if profile =? 1 then Some (false, r) else read_bit r.
Definition pc_desc (cdp : bool) (r : bitrd) : option (N * N * N * bitrd) :=
  if cdp then
    let? (cp, r) := read_bits 8 r in
    let? (tc, r) := read_bits 8 r in
    let? (mc, r) := read_bits 8 r in Some (cp, tc, mc, r)
  else Some (2, 2, 2, r).
Definition pc_sub (profile bit_depth : N) (mono : bool) (cp tc mc : N) (r : bitrd)
  : option (bool * bool * bitrd) :=
  if mono then
    let? (_, r) := read_bit r in Some (true, true, r)
  else if (cp =? 1) && (tc =? 13) && (mc =? 0) then Some (false, false, r)
  else
    let? (_, r) := read_bit r in
    if profile =? 0 then Some (true, true, r)
    else if profile =? 1 then Some (false, false, r)
    else if bit_depth =? 12 then
      let? (sx, r) := read_bit r in
      let? (sy, r) := (if sx then read_bit r else Some (false, r)) in
      Some (sx, sy, r)
    else Some (true, false, r).
Definition pc_csp (sx sy : bool) (r : bitrd) : option (N * bitrd) :=
  if sx && sy then read_bits 2 r else Some (0, r).
Definition pc_suv (mono : bool) (r : bitrd) : option bitrd :=
  if negb mono then (let? (_, r) := read_bit r in Some r) else Some r.

Lemma parse_color_config_eq r profile :
  parse_color_config r profile =
  (let? (high_bitdepth, r) := read_bit r in
   let? (twelve_bit, r) := pc_twelve profile high_bitdepth r in
   let? (monochrome, r) := pc_mono profile r in
   let? (cdp, r) := read_bit r in
   let? (cp, tc, mc, r) := pc_desc cdp r in
   let? (sx, sy, r) :=
      pc_sub profile (if (profile =? 2) && twelve_bit then 12 else if high_bitdepth then 10 else 8)
             monochrome cp tc mc r in
   let? (csp, r) := pc_csp sx sy r in
   let? r := pc_suv monochrome r in
   Some (high_bitdepth, twelve_bit, monochrome, sx, sy, csp, r)).
Proof. reflexivity. Qed.

Definition desc_vals (c : color_config) : N * N * N :=
  match cc_description c with Some x => x | None => (2, 2, 2) end.
Definition srgb_test (x : N * N * N) : bool :=
  let '(cp, tc, mc) := x in (cp =? 1) && (tc =? 13) && (mc =? 0).

Lemma is_srgb_test c : is_srgb c = srgb_test (desc_vals c).
Proof.
  unfold is_srgb, desc_vals, srgb_test.
  destruct (cc_description c) as [[[cp tc] mc]|]; [|reflexivity].
  destruct cp as [|[p|p|]]; try reflexivity.
  destruct tc as [|p1]; [reflexivity|].
  destruct p1 as [p2|p2|]; try reflexivity.
  destruct p2 as [p3|p3|]; try reflexivity.
  destruct p3 as [p4|p4|]; try reflexivity.
  destruct p4; try reflexivity.
Qed.

Definition enc_cc_desc (c : color_config) : bits :=
  match cc_description c with
  | Some (cp, tc, mc) => [true] ++ f 8 cp ++ f 8 tc ++ f 8 mc
  | None => [false]
  end.
Definition enc_cc_sub (profile : N) (c : color_config) : bits :=
  f1 (cc_color_range c) ++
  (if (profile =? 2) && (bit_depth profile c =? 12) then
     f1 (cc_subsampling_x c) ++ (if cc_subsampling_x c then f1 (cc_subsampling_y c) else [])
   else []).
Definition enc_cc_csp (c : color_config) : bits :=
  if cc_subsampling_x c && cc_subsampling_y c then f 2 (cc_chroma_sample_position c) else [].

Lemma enc_color_config_nonmono profile c :
  cc_mono_chrome c = false ->
  enc_color_config profile c =
  f1 (cc_high_bitdepth c) ++
  (if (profile =? 2) && cc_high_bitdepth c then f1 (cc_twelve_bit c) else []) ++
  (if profile =? 1 then [] else f1 false) ++
  enc_cc_desc c ++
  (if is_srgb c then [] else enc_cc_sub profile c ++ enc_cc_csp c) ++
  f1 (cc_separate_uv_delta_q c).
Proof.
  intros Hm. unfold enc_color_config, enc_cc_sub, enc_cc_csp, enc_cc_desc. rewrite Hm.
  destruct (is_srgb c); rewrite <- ?app_assoc; reflexivity.
Qed.

Lemma pc_desc_enc {A} c r (K : N * N * N * bitrd -> option A) :
  (match cc_description c with Some (a, b, d) => fits 8 a && fits 8 b && fits 8 d | None => true end) = true ->
  (let? (cdp, r) := read_bit (enc_cc_desc c ++ r) in let? x := pc_desc cdp r in K x) =
  K (let '(cp, tc, mc) := desc_vals c in (cp, tc, mc, r)).
Proof.
  intros H. unfold enc_cc_desc, desc_vals, pc_desc.
  destruct (cc_description c) as [[[cp tc] mc]|].
  - rewrite !andb_true_iff in H. destruct H as ((Ha & Hb) & Hd).
    rewrite <- ?app_assoc. rb.
    rewrite read_bits_f_fits by (try lia; exact Ha). rb.
    rewrite read_bits_f_fits by (try lia; exact Hb). rb.
    rewrite read_bits_f_fits by (try lia; exact Hd). rb. reflexivity.
  - rb. reflexivity.
Qed.

Lemma bit_depth_12 profile c :
  (if cc_twelve_bit c then (profile =? 2) && cc_high_bitdepth c else true) = true ->
  ((if (profile =? 2) && cc_twelve_bit c then 12 else if cc_high_bitdepth c then 10 else 8) =? 12)
  = (bit_depth profile c =? 12).
Proof.
  unfold bit_depth. intros H.
  destruct (profile =? 2), (cc_high_bitdepth c), (cc_twelve_bit c); cbn [andb] in *;
    try discriminate; reflexivity.
Qed.

Lemma pc_sub_enc profile c bd cp tc mc r :
  profile <= 2 ->
  (bd =? 12) = (bit_depth profile c =? 12) ->
  (cp =? 1) && (tc =? 13) && (mc =? 0) = false ->
  (if profile =? 0 then cc_subsampling_x c && cc_subsampling_y c
   else if profile =? 1 then negb (cc_subsampling_x c) && negb (cc_subsampling_y c)
   else if bit_depth profile c =? 12 then (if cc_subsampling_x c then true else negb (cc_subsampling_y c))
   else cc_subsampling_x c && negb (cc_subsampling_y c)) = true ->
  pc_sub profile bd false cp tc mc (enc_cc_sub profile c ++ r) =
  Some (cc_subsampling_x c, cc_subsampling_y c, r).
Proof.
  intros Hp Hbd Hs Hv. unfold pc_sub, enc_cc_sub. rewrite Hs, Hbd. rewrite <- ?app_assoc. rb.
  assert (Hc : profile = 0 \/ profile = 1 \/ profile = 2) by lia.
  destruct Hc as [Hc | [Hc | Hc]]; subst profile.
  - change (0 =? 0) with true in *. change (0 =? 2) with false. cbn [andb app].
    destruct (cc_subsampling_x c), (cc_subsampling_y c); try discriminate. reflexivity.
  - change (1 =? 0) with false in *. change (1 =? 1) with true in *. change (1 =? 2) with false.
    cbn [andb app].
    destruct (cc_subsampling_x c), (cc_subsampling_y c); try discriminate. reflexivity.
  - change (2 =? 0) with false in *. change (2 =? 1) with false in *. change (2 =? 2) with true.
    cbn [andb].
    destruct (bit_depth 2 c =? 12).
    + rewrite <- ?app_assoc. rb.
      destruct (cc_subsampling_x c).
      * rb. reflexivity.
      * rb. destruct (cc_subsampling_y c); [discriminate | reflexivity].
    + cbn [app].
      destruct (cc_subsampling_x c), (cc_subsampling_y c); try discriminate. reflexivity.
Qed.

Lemma pc_csp_enc c r :
  fits 2 (cc_chroma_sample_position c) = true ->
  (if cc_subsampling_x c && cc_subsampling_y c then true else cc_chroma_sample_position c =? 0) = true ->
  pc_csp (cc_subsampling_x c) (cc_subsampling_y c) (enc_cc_csp c ++ r) =
  Some (cc_chroma_sample_position c, r).
Proof.
  intros Hf Hz. unfold pc_csp, enc_cc_csp.
  destruct (cc_subsampling_x c && cc_subsampling_y c).
  - apply read_bits_f_fits; [lia | exact Hf].
  - apply N.eqb_eq in Hz. rewrite Hz. reflexivity.
Qed.

Lemma parse_color_config_enc profile c r :
  profile <= 2 -> valid_color profile c = true -> cc_mono_chrome c = false ->
  parse_color_config (enc_color_config profile c ++ r) profile =
  Some (cc_high_bitdepth c, cc_twelve_bit c, false, cc_subsampling_x c, cc_subsampling_y c,
        cc_chroma_sample_position c, r).
Proof.
  intros Hp Hv Hm. unfold valid_color in Hv. rewrite Hm in Hv.
  rewrite !andb_true_iff in Hv. destruct Hv as ((((V1 & _) & V3) & V4) & V5).
  rewrite parse_color_config_eq, (enc_color_config_nonmono _ _ Hm).
  rewrite <- ?app_assoc. rb.
  (* twelve_bit *)
  assert (H12 : forall r', pc_twelve profile (cc_high_bitdepth c)
            ((if (profile =? 2) && cc_high_bitdepth c then f1 (cc_twelve_bit c) else []) ++ r')
          = Some (cc_twelve_bit c, r')).
  { intros r'. unfold pc_twelve. destruct ((profile =? 2) && cc_high_bitdepth c).
    - rb. reflexivity.
    - rb. destruct (cc_twelve_bit c); [discriminate | reflexivity]. }
  rewrite H12. rb. clear H12.
  (* mono_chrome *)
  assert (Hmo : forall r', pc_mono profile ((if profile =? 1 then [] else f1 false) ++ r')
          = Some (false, r')).
  { intros r'. unfold pc_mono. destruct (profile =? 1); rb; reflexivity. }
  rewrite Hmo. rb. clear Hmo.
  (* color description *)
  rewrite pc_desc_enc by exact V3.
  pose proof (is_srgb_test c) as Hsr.
  destruct (desc_vals c) as [[cp tc] mc]. cbn [srgb_test] in Hsr. rb.
  pose proof (bit_depth_12 profile c V1) as Hbd.
  destruct (is_srgb c).
  - (* sRGB: nothing coded, 4:4:4 *)
    rewrite !andb_true_iff in V5. destruct V5 as (((Vx & Vy) & _) & Vc).
    unfold pc_sub. rewrite <- Hsr. rb.
    destruct (cc_subsampling_x c); [discriminate|]. destruct (cc_subsampling_y c); [discriminate|].
    unfold pc_csp. cbn [andb]. rb. unfold pc_suv. rb.
    apply N.eqb_eq in Vc. rewrite Vc. reflexivity.
  - apply andb_true_iff in V5. destruct V5 as (Vs & Vc).
    rewrite <- ?app_assoc.
    rewrite (pc_sub_enc profile c _ cp tc mc) by (try exact Hp; try exact Hbd; try exact Vs; symmetry; exact Hsr).
    rb. rewrite pc_csp_enc by assumption. rb.
    unfold pc_suv. rb. reflexivity.
Qed.

(** ** the whole header on the bit level *)
Lemma fits_lt n v : fits n v = true -> v < 2 ^ N.of_nat n.
Proof. unfold fits. lia. Qed.

Lemma ps_bits_enc s obu_data tr :
  valid_seq s = true -> cc_mono_chrome (sh_color s) = false ->
  ps_bits obu_data (enc_sequence_header s ++ tr) =
  Some {| av1_sequence_header := obu_data; av1_seq_profile := sh_seq_profile s;
          av1_seq_level_idx := seq_level0 s; av1_seq_tier := seq_tier0 s;
          av1_high_bitdepth := cc_high_bitdepth (sh_color s);
          av1_twelve_bit := cc_twelve_bit (sh_color s); av1_monochrome := false;
          av1_subsampling_x := cc_subsampling_x (sh_color s);
          av1_subsampling_y := cc_subsampling_y (sh_color s);
          av1_chroma_sample_position := cc_chroma_sample_position (sh_color s) |}.
Proof.
  intros Hv Hm. rewrite valid_seq_eq in Hv. rewrite !andb_true_iff in Hv.
  destruct Hv as ((((((Hp & Hmid) & Hwb) & Hhb) & Hw) & Hh) & Hc).
  apply N.leb_le in Hp.
  pose proof (fits_lt _ _ Hwb) as Hwb'. change (2 ^ N.of_nat 4) with 16 in Hwb'.
  pose proof (fits_lt _ _ Hhb) as Hhb'. change (2 ^ N.of_nat 4) with 16 in Hhb'.
  unfold ps_bits. rewrite enc_sequence_header_eq. rewrite <- ?app_assoc.
  rewrite read_bits_f by (try lia; change (2 ^ N.of_nat 3) with 8; lia). rb.
  replace (3 <? sh_seq_profile s) with false by lia. rb.
  rewrite ps_level_enc by exact Hmid. rb.
  rewrite read_bits_f_fits by (try lia; exact Hwb). rb.
  rewrite read_bits_f_fits by (try lia; exact Hhb). rb.
  rewrite read_bits_f_fits by (try lia; exact Hw). rb.
  rewrite read_bits_f_fits by (try lia; exact Hh). rb.
  rewrite ps_frame_id_enc by exact Hmid. rb.
  rewrite ps_tools_enc. rb.
  rewrite parse_color_config_enc by assumption. rb.
  reflexivity.
Qed.

(** ** size of the coded header *)
Lemma enc_timing_info_length t :
  (match ti_num_ticks_per_picture_minus_1 t with Some v => v <? 4294967295 | None => true end) = true ->
  (length (enc_timing_info t) <= 128)%nat.
Proof.
  intros H. unfold enc_timing_info. rewrite !app_length, !f_length.
  destruct (ti_num_ticks_per_picture_minus_1 t) as [v|].
  - rewrite app_length. cbn [length]. assert (v < 4294967295) by lia.
    pose proof (uvlc_length v). lia.
  - cbn [length]. lia.
Qed.

Lemma enc_operating_point_length dmi iddp o :
  match dmi with Some d => fits 5 (dm_buffer_delay_length_minus_1 d) = true | None => True end ->
  (length (enc_operating_point dmi iddp o) <= 100)%nat.
Proof.
  intros Hd. rewrite enc_operating_point_eq. unfold enc_op_tier, enc_op_params, enc_op_idd, f1.
  assert (Hd' : match dmi with Some d => dm_buffer_delay_length_minus_1 d < 32 | None => True end).
  { destruct dmi as [d|]; [|exact I]. apply fits_lt in Hd. exact Hd. }
  clear Hd.
  destruct (7 <? op_seq_level_idx o);
    (destruct iddp; [destruct (op_initial_display_delay_minus_1 o)|]);
    (destruct dmi as [d|]; [destruct (op_parameters o) as [[[dec enc] low]|]|]);
    cbv zeta; rewrite ?app_length, ?f_length; cbn [length]; lia.
Qed.

Lemma concat_map_length {A} (g : A -> bits) (B : nat) l :
  (forall x, length (g x) <= B)%nat -> (length (concat (map g l)) <= B * length l)%nat.
Proof.
  intros Hg. induction l as [|x l IH]; cbn [map concat length]; [lia|].
  rewrite app_length. specialize (Hg x). lia.
Qed.

Lemma enc_level_length s : valid_mid s = true -> (length (enc_level s) <= 3400)%nat.
Proof.
  intros Hv. unfold valid_mid in Hv. unfold enc_level, f1.
  destruct (sh_reduced_still_picture_header s); [rewrite f_length; lia|].
  rewrite !andb_true_iff in Hv. destruct Hv as (((((Ht & _) & H32) & _) & _) & _).
  apply Nat.leb_le in H32.
  rewrite !app_length, f_length. cbn [length].
  destruct (sh_timing s) as [[t dmi]|].
  - rewrite !andb_true_iff in Ht. destruct Ht as (((_ & _) & Hu) & Hd).
    pose proof (enc_timing_info_length t Hu) as Hl.
    rewrite !app_length. cbn [length].
    destruct dmi as [d|].
    + rewrite !andb_true_iff in Hd. destruct Hd as (((Hd & _) & _) & _).
      pose proof (concat_map_length (enc_operating_point (Some d) (sh_initial_display_delay_present s)) 100
                    (sh_operating_points s)
                    (fun o => enc_operating_point_length (Some d) _ o Hd)) as Hc.
      unfold enc_decoder_model_info. rewrite !app_length, !f_length. cbn [length]. lia.
    + pose proof (concat_map_length (enc_operating_point None (sh_initial_display_delay_present s)) 100
                    (sh_operating_points s)
                    (fun o => enc_operating_point_length None _ o I)) as Hc.
      cbn [length]. lia.
  - pose proof (concat_map_length (enc_operating_point None (sh_initial_display_delay_present s)) 100
                  (sh_operating_points s)
                  (fun o => enc_operating_point_length None _ o I)) as Hc.
    cbn [length]. lia.
Qed.

Lemma enc_frame_id_length s : (length (enc_frame_id s) <= 8)%nat.
Proof.
  unfold enc_frame_id. destruct (sh_reduced_still_picture_header s); [cbn [length]; lia|].
  destruct (sh_frame_id s) as [[d a]|]; rewrite ?app_length, ?f_length; cbn [length]; lia.
Qed.

Lemma enc_tools_length s : (length (enc_tools s) <= 20)%nat.
Proof.
  unfold enc_tools, f1. destruct (sh_reduced_still_picture_header s); [cbn [length]; lia|].
  destruct (sh_order_hint s) as [[[jnt mvs] ohb]|];
    destruct (sh_force_screen_content_tools s) as [[|]|];
    destruct (sh_force_integer_mv s) as [[|]|];
    rewrite ?app_length, ?f_length; cbn [length]; lia.
Qed.

Lemma enc_color_config_length profile c : (length (enc_color_config profile c) <= 40)%nat.
Proof.
  unfold enc_color_config, f1.
  destruct (cc_description c) as [[[cp tc] mc]|];
    repeat match goal with |- context [if ?b then _ else _] => destruct b end;
    rewrite ?app_length, ?f_length; cbn [length]; lia.
Qed.

Lemma enc_sequence_header_length s :
  valid_seq s = true -> (length (enc_sequence_header s) <= 3600)%nat.
Proof.
  intros Hv. rewrite valid_seq_eq in Hv. rewrite !andb_true_iff in Hv.
  destruct Hv as ((((((Hp & Hmid) & Hwb) & Hhb) & Hw) & Hh) & Hc).
  apply fits_lt in Hwb, Hhb. change (2 ^ N.of_nat 4) with 16 in Hwb, Hhb.
  rewrite enc_sequence_header_eq. unfold f1. rewrite !app_length, !f_length. cbn [length].
  pose proof (enc_level_length s Hmid). pose proof (enc_frame_id_length s).
  pose proof (enc_tools_length s).
  pose proof (enc_color_config_length (sh_seq_profile s) (sh_color s)). lia.
Qed.

Lemma trailing_length n : (1 <= length (trailing n) <= 8)%nat.
Proof.
  unfold trailing. cbn [length]. rewrite repeat_length.
  pose proof (Nat.mod_upper_bound (8 - S n mod 8) 8). lia.
Qed.

Lemma seq_payload_props s : valid_seq s = true ->
  seq_payload s <> [] /\ len (seq_payload s) < 72057594037927936.
Proof.
  intros Hv. pose proof (seq_payload_bits s) as Hb.
  pose proof (f_equal (@length bool) Hb) as Hl.
  rewrite bits_of_bytes_length, app_length in Hl.
  pose proof (trailing_length (length (enc_sequence_header s))).
  pose proof (enc_sequence_header_length s Hv).
  split.
  - intros E. rewrite E in Hl. cbn [length] in Hl. lia.
  - unfold len. lia.
Qed.

(** * OBU level *)
Lemma obu_header_byte_facts typ : typ < 16 ->
  band (typ * 8 + 0 + 2) 128 = 0 /\ band (typ * 8 + 4 + 2) 128 = 0 /\
  obu_has_extension (typ * 8 + 0 + 2) = false /\ obu_has_extension (typ * 8 + 4 + 2) = true /\
  obu_has_size (typ * 8 + 0 + 2) = true /\ obu_has_size (typ * 8 + 4 + 2) = true /\
  obu_type (typ * 8 + 0 + 2) = typ /\ obu_type (typ * 8 + 4 + 2) = typ.
Proof.
  intros Ht.
  pose (P := fun t =>
    (band (t * 8 + 0 + 2) 128 =? 0) && (band (t * 8 + 4 + 2) 128 =? 0) &&
    negb (obu_has_extension (t * 8 + 0 + 2)) && obu_has_extension (t * 8 + 4 + 2) &&
    obu_has_size (t * 8 + 0 + 2) && obu_has_size (t * 8 + 4 + 2) &&
    (obu_type (t * 8 + 0 + 2) =? t) && (obu_type (t * 8 + 4 + 2) =? t)).
  assert (HP : P typ = true).
  { apply (forall_lt_sweep P 16); [vm_compute; reflexivity | exact Ht]. }
  unfold P in HP. rewrite !andb_true_iff in HP.
  destruct HP as (((((((H1 & H2) & H3) & H4) & H5) & H6) & H7) & H8).
  apply negb_true_iff in H3. apply N.eqb_eq in H1, H2, H7, H8. tauto.
Qed.

Lemma leb128_length_pos n : (1 <= length (leb128 n))%nat.
Proof. pose proof (leb128_nonempty n). destruct (leb128 n); [congruence | cbn [length]; lia]. Qed.

Definition obu_hs (ext : option N) (payload : bytes) : nat :=
  ((match ext with Some _ => 2 | None => 1 end) + length (leb128 (len payload)))%nat.

Lemma parse_obu_header_obu typ ext payload rest :
  typ < 16 -> len payload < 72057594037927936 ->
  parse_obu_header (obu typ ext payload ++ rest) =
  Some {| obu_ty := typ; obu_ext := (match ext with Some _ => true | None => false end);
          obu_header_size := obu_hs ext payload; obu_payload_size := len payload;
          obu_total_size := N.of_nat (obu_hs ext payload) + len payload |}.
Proof.
  intros Ht Hl.
  destruct (obu_header_byte_facts typ Ht) as (H1 & H2 & H3 & H4 & H5 & H6 & H7 & H8).
  destruct (read_leb128_leb128 (len payload) (payload ++ rest) Hl) as (k & Hk & Hk').
  pose proof (leb128_length_pos (len payload)) as Hpos.
  unfold obu, obu_hs, parse_obu_header. destruct ext as [e|]; cbn [app].
  - rewrite H2, H4, H6, H8. change (0 =? 0) with true. cbn [negb andb length].
    rewrite <- !app_assoc.
    match goal with |- context [(?a <? 2)%nat] => replace (a <? 2)%nat with false by lia end.
    rewrite !app_length.
    match goal with |- context [(?a <=? 2)%nat] => replace (a <=? 2)%nat with false by lia end.
    cbn [skipn]. rewrite Hk. cbn [opt_bind]. subst k. reflexivity.
  - rewrite H1, H3, H5, H7. change (0 =? 0) with true. cbn [negb andb length].
    rewrite <- !app_assoc. rewrite !app_length.
    match goal with |- context [(?a <=? 1)%nat] => replace (a <=? 1)%nat with false by lia end.
    cbn [skipn]. rewrite Hk. cbn [opt_bind]. subst k. reflexivity.
Qed.

Lemma obu_len typ ext payload :
  len (obu typ ext payload) = N.of_nat (obu_hs ext payload) + len payload.
Proof.
  unfold obu, obu_hs, len. destruct ext; rewrite !app_length; cbn [length]; lia.
Qed.

Lemma skipn_obu_hs typ ext payload : skipn (obu_hs ext payload) (obu typ ext payload) = payload.
Proof.
  unfold obu, obu_hs. destruct ext as [e|]; cbn [app Nat.add skipn].
  - rewrite skipn_app, skipn_all, Nat.sub_diag. reflexivity.
  - rewrite skipn_app, skipn_all, Nat.sub_diag. reflexivity.
Qed.

Lemma parse_obu_header_total_pos data info :
  parse_obu_header data = Some info -> 1 <= obu_total_size info.
Proof.
  unfold parse_obu_header. destruct data as [|h t]; [discriminate|].
  destruct (negb (band h 128 =? 0)); [discriminate|].
  destruct (obu_has_extension h && (length (h :: t) <? 2)%nat); [discriminate|].
  destruct (obu_has_size h).
  - destruct (length (h :: t) <=? (if obu_has_extension h then 2 else 1))%nat; [discriminate|].
    destruct (read_leb128 _) as [[sz lb]|]; cbn [opt_bind]; [|discriminate].
    intros H. inversion H. cbn [obu_total_size]. destruct (obu_has_extension h); lia.
  - intros H. inversion H. cbn [obu_total_size]. destruct (obu_has_extension h); lia.
Qed.

Lemma obu_iter_f_fuel : forall n m rest,
  (length rest < n)%nat -> (length rest < m)%nat -> obu_iter_f n rest = obu_iter_f m rest.
Proof.
  induction n as [|n IH]; intros m rest Hn Hm; [lia|].
  destruct m as [|m]; [lia|].
  cbn [obu_iter_f]. destruct rest as [|b rest]; [reflexivity|].
  destruct (parse_obu_header (b :: rest)) as [info|] eqn:Hp; [|reflexivity].
  apply parse_obu_header_total_pos in Hp.
  destruct (len (b :: rest) <? obu_total_size info) eqn:Hlt; [reflexivity|].
  f_equal.
  assert (Hd : (length (drop (obu_total_size info) (b :: rest)) < length (b :: rest))%nat).
  { unfold drop. rewrite skipn_length. unfold len in Hlt. cbn [length] in *. lia. }
  apply IH; lia.
Qed.

Lemma obu_iter_obu typ ext payload rest :
  typ < 16 -> len payload < 72057594037927936 ->
  obu_iter (obu typ ext payload ++ rest) =
  ({| obu_ty := typ; obu_ext := (match ext with Some _ => true | None => false end);
      obu_header_size := obu_hs ext payload; obu_payload_size := len payload;
      obu_total_size := N.of_nat (obu_hs ext payload) + len payload |}, obu typ ext payload)
  :: obu_iter rest.
Proof.
  intros Ht Hl. unfold obu_iter at 1. cbn [obu_iter_f].
  rewrite parse_obu_header_obu by assumption.
  cbn [obu_total_size]. rewrite <- (obu_len typ).
  rewrite take_app_exact, drop_app_exact.
  rewrite len_app.
  replace (len (obu typ ext payload) + len rest <? len (obu typ ext payload)) with false by lia.
  assert (Hne : (1 <= length (obu typ ext payload))%nat).
  { unfold obu. cbn [app length]. lia. }
  destruct (obu typ ext payload ++ rest) as [|x l] eqn:E.
  - apply (f_equal (@length N)) in E. rewrite app_length in E. cbn [length] in E. lia.
  - rewrite <- E. f_equal. unfold obu_iter. apply obu_iter_f_fuel; rewrite ?app_length; lia.
Qed.

Lemma extract_av1_config_eq data :
  extract_av1_config data =
  match find (fun io => obu_ty (fst io) =? 1) (obu_iter data) with
  | Some (info, obu) => parse_sequence_header obu (obu_header_size info)
  | None => None
  end.
Proof. destruct data; reflexivity. Qed.

Lemma extract_seq_obu ext payload rest :
  len payload < 72057594037927936 ->
  extract_av1_config (obu 1 ext payload ++ rest) =
  parse_sequence_header (obu 1 ext payload) (obu_hs ext payload).
Proof.
  intros Hl. rewrite extract_av1_config_eq, obu_iter_obu by (try lia; exact Hl).
  cbn [find fst obu_ty]. change (1 =? 1) with true. cbv iota. reflexivity.
Qed.

Lemma extract_skip_obu typ payload rest :
  typ < 16 -> typ <> 1 -> len payload < 72057594037927936 ->
  extract_av1_config (obu typ None payload ++ rest) = extract_av1_config rest.
Proof.
  intros Ht H1 Hl. rewrite !extract_av1_config_eq, obu_iter_obu by assumption.
  cbn [find fst obu_ty]. apply N.eqb_neq in H1. rewrite H1. reflexivity.
Qed.

Lemma parse_seq_obu s ext :
  valid_seq s = true -> cc_mono_chrome (sh_color s) = false ->
  parse_sequence_header (seq_obu ext s) (obu_hs ext (seq_payload s)) =
  Some {| av1_sequence_header := seq_obu ext s; av1_seq_profile := sh_seq_profile s;
          av1_seq_level_idx := seq_level0 s; av1_seq_tier := seq_tier0 s;
          av1_high_bitdepth := cc_high_bitdepth (sh_color s);
          av1_twelve_bit := cc_twelve_bit (sh_color s); av1_monochrome := false;
          av1_subsampling_x := cc_subsampling_x (sh_color s);
          av1_subsampling_y := cc_subsampling_y (sh_color s);
          av1_chroma_sample_position := cc_chroma_sample_position (sh_color s) |}.
Proof.
  intros Hv Hm. destruct (seq_payload_props s Hv) as (Hne & _).
  rewrite parse_sequence_header_eq. unfold seq_obu. rewrite skipn_obu_hs.
  destruct (seq_payload s) as [|b bs] eqn:E; [congruence|]. rewrite <- E.
  rewrite seq_payload_bits. apply ps_bits_enc; assumption.
Qed.

(** * A1 *)
Theorem av1_parser_accepts_conformant_headers : forall (s : seq_hdr) (ext : option N),
  valid_seq s = true -> cc_mono_chrome (sh_color s) = false ->
  (match ext with Some e => e < 256 | None => True end) ->
  exists c, extract_av1_config (seq_obu ext s) = Some c /\
    av1_sequence_header c = seq_obu ext s /\
    av1_seq_profile c = sh_seq_profile s /\
    av1_seq_level_idx c = seq_level0 s /\
    av1_seq_tier c = seq_tier0 s /\
    av1_high_bitdepth c = cc_high_bitdepth (sh_color s) /\
    av1_twelve_bit c = cc_twelve_bit (sh_color s) /\
    av1_monochrome c = false /\
    av1_subsampling_x c = cc_subsampling_x (sh_color s) /\
    av1_subsampling_y c = cc_subsampling_y (sh_color s) /\
    av1_chroma_sample_position c = cc_chroma_sample_position (sh_color s).
Proof.
  intros s ext Hv Hm _. destruct (seq_payload_props s Hv) as (_ & Hl).
  eexists. split.
  - rewrite <- (app_nil_r (seq_obu ext s)). unfold seq_obu at 1.
    rewrite extract_seq_obu by exact Hl.
    apply (parse_seq_obu s ext Hv Hm).
  - cbn [av1_sequence_header av1_seq_profile av1_seq_level_idx av1_seq_tier av1_high_bitdepth
         av1_twelve_bit av1_monochrome av1_subsampling_x av1_subsampling_y
         av1_chroma_sample_position].
    repeat split; reflexivity.
Qed.
Print Assumptions av1_parser_accepts_conformant_headers.

(** * A2 *)
Definition plain_obu (typ : N) (payload : bytes) : bytes := obu typ None payload.

Theorem av1_parser_skips_other_obus : forall (s : seq_hdr) (pre : list (N * bytes)) (post : bytes),
  valid_seq s = true -> cc_mono_chrome (sh_color s) = false ->
  Forall (fun tp => fst tp < 16 /\ fst tp <> 1 /\ len (snd tp) < 72057594037927936) pre ->
  extract_av1_config (concat (map (fun tp => plain_obu (fst tp) (snd tp)) pre) ++ seq_obu None s ++ post) =
  extract_av1_config (seq_obu None s ++ post)
  /\ (forall c, extract_av1_config (seq_obu None s) = Some c -> exists c',
        extract_av1_config (seq_obu None s ++ post) = Some c' /\
        av1_seq_profile c' = av1_seq_profile c /\ av1_seq_level_idx c' = av1_seq_level_idx c /\
        av1_sequence_header c' = av1_sequence_header c).
Proof.
  intros s pre post Hv Hm Hpre. destruct (seq_payload_props s Hv) as (_ & Hl). split.
  - induction Hpre as [|tp pre (H16 & H1 & Hlen) Hpre IH]; [reflexivity|].
    cbn [map concat]. rewrite <- app_assoc. unfold plain_obu at 1.
    rewrite extract_skip_obu by assumption. exact IH.
  - intros c Hc. exists c. split; [|repeat split; reflexivity].
    rewrite <- Hc. rewrite <- (app_nil_r (seq_obu None s)) at 2. unfold seq_obu.
    rewrite !extract_seq_obu by exact Hl. reflexivity.
Qed.
Print Assumptions av1_parser_skips_other_obus.
