(** Clause-by-clause correspondence between the model's header-box / configuration-record
    builders (Model/Boxes.v, Model/Frag.v) and the strict decoders of Spec/Headers.v:
    which builders satisfy their decoder for all parameter values, and which are refuted
    (recorded defects of the real code). *)
From Coq Require Import Lia ZifyN ZifyNat ZifyBool.
From Muxide Require Import Model.Base Model.Annexb Model.Codec Model.Boxes Model.Api Model.Frag.
From Muxide Require Import Spec.Bmff Spec.NalSplit Spec.Headers Spec.HeaderChecks.
From Muxide Require Import Proofs.BaseProofs Proofs.AnnexbProofs.
Open Scope N_scope.
Ltac Zify.zify_post_hook ::= Z.div_mod_to_equations.
Arguments N.add : simpl never.
Arguments N.sub : simpl never.
Arguments N.mul : simpl never.
Arguments N.div : simpl never.
Arguments N.modulo : simpl never.
Arguments N.eqb : simpl never.
Arguments N.ltb : simpl never.
Arguments N.leb : simpl never.

(** * Generic helpers *)

Lemma payload_of_build_box a b c d p : payload_of (build_box [a; b; c; d] p) = p.
Proof. reflexivity. Qed.

Ltac pob :=
  match goal with
  | |- context [payload_of (build_box ?t ?p)] => change (payload_of (build_box t p)) with p
  end.

Lemma be32_bytes x : x < 4294967296 ->
  exists a b c e, be32 x = [a; b; c; e] /\ a * 16777216 + b * 65536 + c * 256 + e = x.
Proof.
  intros Hx. unfold be32. do 4 eexists. split; [reflexivity|]. lia.
Qed.

Lemma be16_bytes x : x < 65536 ->
  exists a b, be16 x = [a; b] /\ a * 256 + b = x.
Proof.
  intros Hx. unfold be16. do 2 eexists. split; [reflexivity|]. lia.
Qed.

Theorem mvhd_strict : forall d n, d < 4294967296 -> n < 4294967296 ->
  strict_mvhd (build_mvhd_payload d n) = Some {| mv_timescale := 1000; mv_duration := d; mv_next_track_id := n |}.
Proof.
  intros d n Hd Hn.
  destruct (be32_bytes d Hd) as (d3 & d2 & d1 & d0 & Ed & Vd).
  destruct (be32_bytes n Hn) as (n3 & n2 & n1 & n0 & En & Vn).
  unfold build_mvhd_payload. rewrite Ed, En. rewrite <- Vd, <- Vn.
  vm_compute. reflexivity.
Qed.
Print Assumptions mvhd_strict.

Theorem mvhd_fmp4_strict : forall ts, ts < 4294967296 ->
  strict_mvhd (payload_of (build_mvhd_fmp4 ts)) = Some {| mv_timescale := ts; mv_duration := 0; mv_next_track_id := 2 |}.
Proof.
  intros ts Hts.
  destruct (be32_bytes ts Hts) as (d3 & d2 & d1 & d0 & Ed & Vd).
  unfold build_mvhd_fmp4. pob. rewrite Ed. rewrite <- Vd.
  vm_compute. reflexivity.
Qed.
Print Assumptions mvhd_fmp4_strict.

Theorem tkhd_fmp4_strict : forall c, fc_width c < 65536 -> fc_height c < 65536 ->
  strict_tkhd (payload_of (build_tkhd_fmp4 c)) =
    Some {| tk_flags := 3; tk_track_id := 1; tk_duration := 0; tk_volume := 0;
            tk_width := fc_width c * 65536; tk_height := fc_height c * 65536 |}.
Proof.
  intros c Hw Hh.
  assert (Hw' : fc_width c * 65536 < 4294967296) by lia.
  assert (Hh' : fc_height c * 65536 < 4294967296) by lia.
  destruct (be32_bytes _ Hw') as (w3 & w2 & w1 & w0 & Ew & Vw).
  destruct (be32_bytes _ Hh') as (h3 & h2 & h1 & h0 & Eh & Vh).
  unfold build_tkhd_fmp4. pob. rewrite Ew, Eh. rewrite <- Vw, <- Vh.
  vm_compute. reflexivity.
Qed.
Print Assumptions tkhd_fmp4_strict.

Theorem hdlr_video_strict : strict_hdlr (payload_of build_hdlr_box) = Some [118; 105; 100; 101].
Proof. vm_compute. reflexivity. Qed.
Print Assumptions hdlr_video_strict.
Theorem hdlr_sound_strict : strict_hdlr (payload_of build_sound_hdlr_box) = Some [115; 111; 117; 110].
Proof. vm_compute. reflexivity. Qed.
Print Assumptions hdlr_sound_strict.
Theorem smhd_strict_ok : strict_smhd (payload_of build_smhd_box) = true.
Proof. vm_compute. reflexivity. Qed.
Print Assumptions smhd_strict_ok.
Theorem vmhd_fmp4_strict_ok : strict_vmhd (payload_of build_vmhd) = true.
Proof. vm_compute. reflexivity. Qed.
Print Assumptions vmhd_fmp4_strict_ok.

Theorem visual_entry_strict : forall v rest, vt_width v < 65536 -> vt_height v < 65536 ->
  strict_visual_entry (visual_entry_prefix v ++ rest) = Some (vt_width v, vt_height v).
Proof.
  intros v rest Hw Hh.
  destruct (be16_bytes _ Hw) as (w1 & w0 & Ew & Vw).
  destruct (be16_bytes _ Hh) as (h1 & h0 & Eh & Vh).
  unfold visual_entry_prefix. rewrite Ew, Eh. rewrite <- Vw, <- Vh.
  vm_compute. reflexivity.
Qed.
Print Assumptions visual_entry_strict.

Lemma be32_shl16 x : x < 65536 -> be32 (x * 65536) = be16 x ++ [0; 0].
Proof.
  intros Hx. unfold be32, be16. cbn [app].
  assert (E1 : x * 65536 / 16777216 = x / 256).
  { change 16777216 with (256 * 65536). apply N.div_mul_cancel_r; lia. }
  assert (E2 : x * 65536 / 65536 = x) by (apply N.div_mul; lia).
  assert (E3 : x * 65536 / 256 = x * 256).
  { change 65536 with (256 * 256). rewrite N.mul_assoc. apply N.div_mul; lia. }
  assert (E4 : (x * 65536) mod 256 = 0).
  { change 65536 with (256 * 256). rewrite N.mul_assoc. apply N.mod_mul; lia. }
  assert (E5 : (x * 256) mod 256 = 0) by (apply N.mod_mul; lia).
  rewrite E1, E2, E3, E4, E5. reflexivity.
Qed.

Theorem audio_entry_strict : forall ch rate rest, ch < 65536 -> rate < 65536 ->
  strict_audio_entry (audio_entry_prefix ch rate ++ rest) = Some (ch, rate).
Proof.
  intros ch rate rest Hc Hr.
  unfold audio_entry_prefix. rewrite (be32_shl16 rate Hr).
  destruct (be16_bytes _ Hc) as (c1 & c0 & Ec & Vc).
  destruct (be16_bytes _ Hr) as (r1 & r0 & Er & Vr).
  rewrite Ec, Er. rewrite <- Vc, <- Vr.
  vm_compute. reflexivity.
Qed.
Print Assumptions audio_entry_strict.

Theorem trex_strict_ok : exists p, build_mvex = build_box T_mvex (build_box T_trex p) /\ strict_trex p = Some (1, 1).
Proof.
  eexists. split; [reflexivity|]. vm_compute. reflexivity.
Qed.
Print Assumptions trex_strict_ok.

(** refutations with closed shape *)
Theorem tkhd_progressive_refuted : forall id vol w h, strict_tkhd (payload_of (build_tkhd_box_with_id id vol w h)) = None.
Proof.
  intros. unfold build_tkhd_box_with_id. pob.
  unfold strict_tkhd.
  match goal with |- (if ?a && _ && _ && _ && _ && _ then _ else _) = _ => replace a with false by reflexivity end.
  reflexivity.
Qed.
Print Assumptions tkhd_progressive_refuted.

Theorem vmhd_progressive_refuted : strict_vmhd (payload_of build_vmhd_box) = false.
Proof. vm_compute. reflexivity. Qed.
Print Assumptions vmhd_progressive_refuted.

Theorem vpcc_refuted : forall c, strict_vpcc (payload_of (build_vpcc_box c)) = None.
Proof. intros c. reflexivity. Qed.
Print Assumptions vpcc_refuted.

(** * av1C *)
Lemma forall_below (P : N -> bool) (n : nat) :
  forallb P (map N.of_nat (seq 0 n)) = true -> forall x, x < N.of_nat n -> P x = true.
Proof.
  intros HF x Hx. rewrite forallb_forall in HF. apply HF.
  apply in_map_iff. exists (N.to_nat x). split; [lia|]. apply in_seq. lia.
Qed.

Definition av1_byte1 (p l : N) : N := N.lor (u8 (N.shiftl (band p 7) 5)) (band l 31).
Definition av1_byte2 (t : N) (hb tb mono sx sy : bool) (csp : N) : N :=
    N.lor (N.lor (N.lor (N.lor (N.lor (N.lor
      (u8 (N.shiftl (band t 1) 7))
      (if hb then 64 else 0))
      (if tb then 32 else 0))
      (if mono then 16 else 0))
      (if sx then 8 else 0))
      (if sy then 4 else 0))
      (band csp 3).

Lemma av1_byte1_ok p l : p < 8 -> l < 32 ->
  av1_byte1 p l / 32 = p /\ av1_byte1 p l mod 32 = l.
Proof.
  intros Hp Hl.
  set (Q := fun p l => (av1_byte1 p l / 32 =? p) && (av1_byte1 p l mod 32 =? l)).
  set (P := fun p => forallb (Q p) (map N.of_nat (seq 0 32))).
  assert (H : P p = true).
  { apply (forall_below P 8); [vm_compute; reflexivity | exact Hp]. }
  pose proof (forall_below (Q p) 32 H l Hl) as H2. unfold Q in H2. lia.
Qed.

Lemma av1_byte2_ok t hb tb mono sx sy csp : t < 2 -> csp < 4 ->
  let b2 := av1_byte2 t hb tb mono sx sy csp in
  b2 / 128 = t /\ N.testbit b2 6 = hb /\ N.testbit b2 5 = tb /\ N.testbit b2 4 = mono /\
  N.testbit b2 3 = sx /\ N.testbit b2 2 = sy /\ b2 mod 4 = csp.
Proof.
  intros Ht Hc.
  assert (Et : t = 0 \/ t = 1) by lia.
  assert (Ec : csp = 0 \/ csp = 1 \/ csp = 2 \/ csp = 3) by lia.
  destruct Et as [-> | ->]; destruct Ec as [-> | [-> | [-> | ->]]];
    destruct hb, tb, mono, sx, sy; vm_compute; repeat split; reflexivity.
Qed.

Lemma strict_av1c_shape b1 b2 obus :
  strict_av1c ([129; b1; b2; 0] ++ obus) =
  Some {| a1_profile := b1 / 32; a1_level := b1 mod 32; a1_tier := b2 / 128;
          a1_high_bitdepth := N.testbit b2 6; a1_twelve_bit := N.testbit b2 5; a1_mono := N.testbit b2 4;
          a1_sx := N.testbit b2 3; a1_sy := N.testbit b2 2; a1_csp := b2 mod 4; a1_obus := obus |}.
Proof. reflexivity. Qed.

Theorem av1c_strict : forall c, av1_seq_profile c < 8 -> av1_seq_level_idx c < 32 -> av1_seq_tier c < 2 ->
  av1_chroma_sample_position c < 4 ->
  strict_av1c (payload_of (build_av1c_box c)) =
    Some {| a1_profile := av1_seq_profile c; a1_level := av1_seq_level_idx c; a1_tier := av1_seq_tier c;
            a1_high_bitdepth := av1_high_bitdepth c; a1_twelve_bit := av1_twelve_bit c; a1_mono := av1_monochrome c;
            a1_sx := av1_subsampling_x c; a1_sy := av1_subsampling_y c; a1_csp := av1_chroma_sample_position c;
            a1_obus := av1_sequence_header c |}.
Proof.
  intros c Hp Hl Ht Hc.
  unfold build_av1c_box. cbv zeta. pob.
  rewrite strict_av1c_shape.
  change (N.lor (u8 (N.shiftl (band (av1_seq_profile c) 7) 5)) (band (av1_seq_level_idx c) 31))
    with (av1_byte1 (av1_seq_profile c) (av1_seq_level_idx c)).
  match goal with |- context [N.testbit ?b 6] =>
    change b with (av1_byte2 (av1_seq_tier c) (av1_high_bitdepth c) (av1_twelve_bit c) (av1_monochrome c)
                             (av1_subsampling_x c) (av1_subsampling_y c) (av1_chroma_sample_position c)) end.
  destruct (av1_byte1_ok _ _ Hp Hl) as [E1 E2].
  destruct (av1_byte2_ok _ (av1_high_bitdepth c) (av1_twelve_bit c) (av1_monochrome c)
                             (av1_subsampling_x c) (av1_subsampling_y c) _ Ht Hc) as (F1 & F2 & F3 & F4 & F5 & F6 & F7).
  rewrite E1, E2, F1, F2, F3, F4, F5, F6, F7. reflexivity.
Qed.
Print Assumptions av1c_strict.

(* the av1C payload decodes for ALL field values: the builder masks every field to its width *)
Lemma av1c_strict_some : forall c, exists a,
  strict_av1c (payload_of (build_av1c_box c)) = Some a /\ a1_obus a = av1_sequence_header c.
Proof.
  intros c. unfold build_av1c_box. cbv zeta. pob. rewrite strict_av1c_shape.
  eexists. split; reflexivity.
Qed.

(** the fragmented muxer writes av1C with the progressive builder, from the configuration parsed
    out of the supplied sequence header or, when it does not parse, from default fields
    (formerly refuted: finding KF-C19-6 / KF-C07-1, repaired in muxide by commit 48ef1ef) *)
Theorem fragmented_av1c_strict : forall c a,
  extract_av1_config (match fc_av1 c with Some s => s | None => [] end) = Some a ->
  av1_seq_profile a < 8 -> av1_seq_level_idx a < 32 -> av1_seq_tier a < 2 -> av1_chroma_sample_position a < 4 ->
  strict_av1c (payload_of (build_av1c_fmp4 c)) =
    Some {| a1_profile := av1_seq_profile a; a1_level := av1_seq_level_idx a; a1_tier := av1_seq_tier a;
            a1_high_bitdepth := av1_high_bitdepth a; a1_twelve_bit := av1_twelve_bit a; a1_mono := av1_monochrome a;
            a1_sx := av1_subsampling_x a; a1_sy := av1_subsampling_y a; a1_csp := av1_chroma_sample_position a;
            a1_obus := av1_sequence_header a |}.
Proof.
  intros c a He Hp Hl Ht Hc. unfold build_av1c_fmp4. cbv zeta.
  rewrite He. exact (av1c_strict a Hp Hl Ht Hc).
Qed.
Print Assumptions fragmented_av1c_strict.

Theorem fragmented_av1c_strict_fallback : forall c,
  extract_av1_config (match fc_av1 c with Some s => s | None => [] end) = None ->
  strict_av1c (payload_of (build_av1c_fmp4 c)) =
    Some {| a1_profile := 0; a1_level := 0; a1_tier := 0;
            a1_high_bitdepth := false; a1_twelve_bit := false; a1_mono := false;
            a1_sx := true; a1_sy := true; a1_csp := 0;
            a1_obus := match fc_av1 c with Some s => s | None => [] end |}.
Proof.
  intros c He. unfold build_av1c_fmp4. cbv zeta.
  rewrite He.
  apply (av1c_strict (av1_config_default (match fc_av1 c with Some s => s | None => [] end))); reflexivity.
Qed.
Print Assumptions fragmented_av1c_strict_fallback.

(* whatever the supplied sequence header is, the record is a well-formed av1C *)
Theorem fragmented_av1c_wellformed : forall c, exists a, strict_av1c (payload_of (build_av1c_fmp4 c)) = Some a.
Proof.
  intros c. unfold build_av1c_fmp4. cbv zeta.
  match goal with |- context [build_av1c_box ?x] => destruct (av1c_strict_some x) as (a & Ha & _) end.
  exists a. exact Ha.
Qed.
Print Assumptions fragmented_av1c_wellformed.

(** * esds / AudioSpecificConfig *)
Theorem esds_strict : forall a,
  strict_esds (payload_of (build_esds_box a)) = Some (build_audio_specific_config (at_sample_rate a) (at_channels a)).
Proof.
  intros a. unfold build_esds_box. cbv zeta. pob.
  assert (E : exists x y, build_audio_specific_config (at_sample_rate a) (at_channels a) = [x; y]).
  { unfold build_audio_specific_config. cbv zeta. do 2 eexists. reflexivity. }
  destruct E as (x & y & E). rewrite E.
  vm_compute. reflexivity.
Qed.
Print Assumptions esds_strict.

Lemma freq_index_cases rate fi : freq_index rate = Some fi ->
  (rate = 96000 /\ fi = 0) \/ (rate = 88200 /\ fi = 1) \/ (rate = 64000 /\ fi = 2) \/ (rate = 48000 /\ fi = 3) \/
  (rate = 44100 /\ fi = 4) \/ (rate = 32000 /\ fi = 5) \/ (rate = 24000 /\ fi = 6) \/ (rate = 22050 /\ fi = 7) \/
  (rate = 16000 /\ fi = 8) \/ (rate = 12000 /\ fi = 9) \/ (rate = 11025 /\ fi = 10) \/ (rate = 8000 /\ fi = 11) \/
  (rate = 7350 /\ fi = 12).
Proof.
  unfold freq_index.
  repeat match goal with
  | |- context [?k =? rate] => destruct (N.eqb_spec k rate) as [<- | ?]
  end; intros H; try discriminate H; injection H as <-; vm_compute; tauto.
Qed.

Theorem asc_fields_of_config : forall rate ch fi, freq_index rate = Some fi -> 1 <= ch <= 6 ->
  asc_fields (build_audio_specific_config rate ch) = Some (2, fi, ch).
Proof.
  intros rate ch fi Hf Hc.
  assert (Ec : ch = 1 \/ ch = 2 \/ ch = 3 \/ ch = 4 \/ ch = 5 \/ ch = 6) by lia.
  apply freq_index_cases in Hf.
  repeat (destruct Hf as [[-> ->] | Hf]); try destruct Hf as [-> ->];
  repeat (destruct Ec as [-> | Ec]); try subst ch; vm_compute; reflexivity.
Qed.
Print Assumptions asc_fields_of_config.

(** * dOps *)
Theorem dops_strict_stereo : forall a, 1 <= at_channels a <= 2 ->
  strict_dops (payload_of (build_dops_box a)) = Some (at_channels a, 48000, 0).
Proof.
  intros a H. unfold build_dops_box. cbv zeta. pob.
  assert (E : at_channels a = 1 \/ at_channels a = 2) by lia.
  destruct E as [-> | ->]; vm_compute; reflexivity.
Qed.
Print Assumptions dops_strict_stereo.


Theorem dops_multichannel_refuted : forall a, 3 <= at_channels a < 256 -> strict_dops (payload_of (build_dops_box a)) = None.
Proof.
  intros a H. unfold build_dops_box. cbv zeta. pob.
  assert (Eu : u8 (at_channels a) = at_channels a) by (unfold u8; lia).
  rewrite Eu.
  replace (2 <? at_channels a) with true by lia.
  change (1 =? 0) with false. cbv iota.
  remember (N.to_nat (at_channels a)) as k eqn:Ek.
  destruct k as [|[|k]]; [lia | lia |].
  unfold strict_dops.
  cbn [app be16 be32 length u8_at nth seq map].
  rewrite <- Ek. cbn [sub_bytes skipn firstn forallb Nat.leb].
  change (N.of_nat 0) with 0; change (N.of_nat 1) with 1.
  change ((0 <? 1 + 0) || (0 =? 255)) with true; change ((1 <? 1 + 0) || (1 =? 255)) with false.
  cbn [andb]. rewrite andb_false_r. cbn [andb]. reflexivity.
Qed.
Print Assumptions dops_multichannel_refuted.



Lemma to_nat_len {A} (l : list A) : N.to_nat (len l) = length l.
Proof. unfold len. apply Nat2N.id. Qed.

Lemma u16_at_be16 x r : x < 65536 -> u16_at (be16 x ++ r) 0 = x.
Proof. intros Hx. unfold u16_at. cbn [skipn]. rewrite rd16_be16 by exact Hx. reflexivity. Qed.

Lemma skipn_app_len {A} (a r : list A) k : skipn (length a + k) (a ++ r) = skipn k r.
Proof. induction a as [|x a IH]; [reflexivity|]. cbn [length Nat.add app skipn]. exact IH. Qed.

Lemma skipn_app_len0 {A} (a r : list A) : skipn (length a) (a ++ r) = r.
Proof. rewrite <- (Nat.add_0_r (length a)). apply skipn_app_len. Qed.

Lemma firstn_app_len {A} (a r : list A) : firstn (length a) (a ++ r) = a.
Proof. induction a as [|x a IH]; [reflexivity|]. cbn [length app firstn]. now rewrite IH. Qed.

Lemma len_lt_length {A} (l : list A) n : len l < N.of_nat n -> (length l < n)%nat.
Proof. unfold len. lia. Qed.

Lemma strict_avcc_gen pi pc li sps pps :
  len sps < 65536 -> len pps < 65536 ->
  match sps with _ :: a :: b :: c :: _ => (pi =? a) && (pc =? b) && (li =? c) | _ => true end = true ->
  strict_avcc ([1; pi; pc; li; 255; 225] ++ be16 (len sps) ++ sps ++ [1] ++ be16 (len pps) ++ pps)
  = Some (sps, pps).
Proof.
  intros Hs Hp Hprof.
  set (p := [1; pi; pc; li; 255; 225] ++ be16 (len sps) ++ sps ++ [1] ++ be16 (len pps) ++ pps).
  assert (Flen : @length byte p = (8 + length sps + 3 + length pps)%nat).
  { unfold p. rewrite !app_length, !be16_length. cbn [length]. lia. }
  assert (F0 : u8_at p 0 = 1) by reflexivity.
  assert (F1 : u8_at p 1 = pi) by reflexivity.
  assert (F2 : u8_at p 2 = pc) by reflexivity.
  assert (F3 : u8_at p 3 = li) by reflexivity.
  assert (F4 : u8_at p 4 = 255) by reflexivity.
  assert (F5 : u8_at p 5 = 225) by reflexivity.
  assert (E6 : u16_at p 6 = len sps).
  { unfold u16_at, p. cbn [app skipn]. rewrite rd16_be16 by exact Hs. reflexivity. }
  assert (Esps : sub_bytes p 8 (length sps) = sps).
  { unfold sub_bytes, p. unfold be16 at 1. cbn [app skipn]. apply firstn_app_len. }
  assert (S8 : forall k, skipn (8 + length sps + k) p = skipn k ([1] ++ be16 (len pps) ++ pps)).
  { intros k. unfold p. unfold be16 at 1. cbn [app Nat.add skipn].
    change (1 :: be16 (len pps) ++ pps) with ([1] ++ be16 (len pps) ++ pps).
    apply skipn_app_len. }
  assert (Eo : u8_at p (8 + length sps) = 1).
  { unfold u8_at. pose proof (nth_skipn' (8 + length sps) 0 p 0) as HN.
    rewrite Nat.add_0_r in HN. etransitivity; [symmetry; exact HN|].
    pose proof (S8 0%nat) as S80. rewrite Nat.add_0_r in S80. rewrite S80. reflexivity. }
  assert (Epl : u16_at p (8 + length sps + 1) = len pps).
  { unfold u16_at. rewrite S8. cbn [app skipn]. rewrite rd16_be16 by exact Hp. reflexivity. }
  assert (Epps : sub_bytes p (8 + length sps + 3) (length pps) = pps).
  { unfold sub_bytes. rewrite S8. unfold be16. cbn [app skipn].
    rewrite <- (app_nil_r pps) at 2. apply firstn_app_len. }
  clearbody p. unfold strict_avcc.
  rewrite F0, F1, F2, F3, F4, F5, E6, to_nat_len, Esps, Eo, Epl, to_nat_len, Epps, Flen, !Nat.eqb_refl.
  replace (7 <=? 8 + length sps + 3 + length pps)%nat with true by (symmetry; apply Nat.leb_le; lia).
  rewrite Nat.leb_refl || replace (8 + length sps + 3 <=? 8 + length sps + 3 + length pps)%nat with true
    by (symmetry; apply Nat.leb_le; lia).
  change (1 =? 1) with true. change (255 =? 255) with true. change (225 =? 225) with true.
  cbn [andb].
  match goal with |- (if ?m then _ else _) = _ => replace m with true by (symmetry; exact Hprof) end.
  reflexivity.
Qed.

Theorem avcc_strict : forall c, len (avc_sps c) < 65536 -> len (avc_pps c) < 65536 ->
  bytes_ok (avc_sps c) = true ->
  strict_avcc (payload_of (build_avcc_box c)) = Some (avc_sps c, avc_pps c).
Proof.
  intros c Hs Hp _. unfold build_avcc_box. cbv zeta.
  destruct (match avc_sps c with _ :: a :: b :: d :: _ => (a, b, d) | _ => (66, 0, 30) end)
    as [[pi pc] li] eqn:E.
  pob. apply strict_avcc_gen; [exact Hs | exact Hp |].
  destruct (avc_sps c) as [|x0 [|x1 [|x2 [|x3 t]]]]; try reflexivity.
  injection E as <- <- <-. rewrite !N.eqb_refl. reflexivity.
Qed.
Print Assumptions avcc_strict.

(* bonus: the fragmented muxer's avcC satisfies the same decoder *)
Theorem avcc_fmp4_strict : forall c, len (fc_sps c) < 65536 -> len (fc_pps c) < 65536 ->
  strict_avcc (payload_of (build_avcc_fmp4 c)) = Some (fc_sps c, fc_pps c).
Proof.
  intros c Hs Hp. unfold build_avcc_fmp4. pob.
  apply strict_avcc_gen; [exact Hs | exact Hp |].
  destruct (fc_sps c) as [|x0 [|x1 [|x2 [|x3 t]]]]; try reflexivity.
  unfold nth_or. cbn [nth_error]. rewrite !N.eqb_refl. reflexivity.
Qed.
Print Assumptions avcc_fmp4_strict.

(** * hvcC *)
Lemma hvcc_arrays_step k h nal rest :
  N.testbit h 6 = false -> len nal < 65536 ->
  hvcc_arrays (S k) ([h] ++ be16 1 ++ be16 (len nal) ++ nal ++ rest) =
  match hvcc_arrays k rest with Some r => Some ((h mod 64, nal) :: r) | None => None end.
Proof.
  intros Hb Hl.
  cbn [app hvcc_arrays]. rewrite Hb. cbn [negb andb].
  assert (E0 : u16_at (be16 1 ++ be16 (len nal) ++ nal ++ rest) 0 = 1) by reflexivity.
  assert (E2 : u16_at (be16 1 ++ be16 (len nal) ++ nal ++ rest) 2 = len nal).
  { unfold u16_at. unfold be16 at 1. cbn [app skipn]. rewrite rd16_be16 by exact Hl. reflexivity. }
  assert (En : sub_bytes (be16 1 ++ be16 (len nal) ++ nal ++ rest) 4 (length nal) = nal).
  { unfold sub_bytes, be16. cbn [app skipn]. apply firstn_app_len. }
  assert (Es : skipn (4 + length nal) (be16 1 ++ be16 (len nal) ++ nal ++ rest) = rest).
  { unfold be16. cbn [app skipn Nat.add]. apply skipn_app_len0. }
  rewrite E0, E2, to_nat_len, En, Es, Nat.eqb_refl. reflexivity.
Qed.

Lemma hvcc_arrays_last h nal :
  N.testbit h 6 = false -> len nal < 65536 ->
  hvcc_arrays 1 ([h] ++ be16 1 ++ be16 (len nal) ++ nal) = Some [(h mod 64, nal)].
Proof.
  intros Hb Hl. rewrite <- (app_nil_r nal) at 2. rewrite hvcc_arrays_step by assumption. reflexivity.
Qed.

Lemma strict_hvcc_hdr b1 lvl arrs :
  strict_hvcc ([1; b1; 96; 0; 0; 0; 144; 0; 0; 0; 0; 0; lvl; 240; 0; 252; 253; 248; 248] ++
               be16 0 ++ [3; 3] ++ arrs) = hvcc_arrays 3 arrs.
Proof. reflexivity. Qed.

Theorem hvcc_strict : forall c, len (hevc_vps c) < 65536 -> len (hevc_sps c) < 65536 -> len (hevc_pps c) < 65536 ->
  bytes_ok (hevc_sps c) = true ->
  strict_hvcc (payload_of (build_hvcc_box c)) = Some [(32, hevc_vps c); (33, hevc_sps c); (34, hevc_pps c)].
Proof.
  intros c Hv Hs Hp _. unfold build_hvcc_box. cbv zeta. pob.
  rewrite strict_hvcc_hdr.
  rewrite hvcc_arrays_step by (reflexivity || exact Hv).
  rewrite hvcc_arrays_step by (reflexivity || exact Hs).
  rewrite hvcc_arrays_last by (reflexivity || exact Hp).
  reflexivity.
Qed.
Print Assumptions hvcc_strict.

(** the fragmented muxer writes hvcC with the progressive builder
    (formerly refuted: finding KF-C19-6, repaired in muxide by commit 48ef1ef) *)
Theorem fragmented_hvcc_strict : forall c,
  let vps := match fc_vps c with Some v => v | None => [] end in
  len vps < 65536 -> len (fc_sps c) < 65536 -> len (fc_pps c) < 65536 ->
  strict_hvcc (payload_of (build_hvcc_fmp4 c)) = Some [(32, vps); (33, fc_sps c); (34, fc_pps c)].
Proof.
  intros c vps Hv Hs Hp. unfold build_hvcc_fmp4. fold vps.
  unfold build_hvcc_box. cbv zeta. pob. cbn [hevc_vps hevc_sps hevc_pps].
  rewrite strict_hvcc_hdr.
  rewrite hvcc_arrays_step by (reflexivity || exact Hv).
  rewrite hvcc_arrays_step by (reflexivity || exact Hs).
  rewrite hvcc_arrays_last by (reflexivity || exact Hp).
  reflexivity.
Qed.
Print Assumptions fragmented_hvcc_strict.

(** * extracted parameter sets are the first units of the declarative split *)
Lemma find_filter {A} (p q : A -> bool) l : find p (filter q l) = find (fun x => q x && p x) l.
Proof.
  induction l as [|x l IH]; [reflexivity|].
  cbn [filter find]. destruct (q x); cbn [find andb]; [destruct (p x); [reflexivity | exact IH] | exact IH].
Qed.

Lemma find_ext' {A} (p q : A -> bool) l : (forall x, p x = q x) -> find p l = find q l.
Proof.
  intros H. induction l as [|x l IH]; [reflexivity|]. cbn [find]. rewrite H, IH. reflexivity.
Qed.

Lemma band31 b : band b 31 = b mod 32.
Proof. unfold band. change 31 with (N.ones 5). rewrite N.land_ones. reflexivity. Qed.

Lemma band_shr1_63 b : band (shr b 1) 63 = (b / 2) mod 64.
Proof.
  unfold band, shr. change 63 with (N.ones 6). rewrite N.land_ones, N.shiftr_div_pow2. reflexivity.
Qed.

Lemma first_of_h264 t d :
  first_of (fun n => h264_nal_type n =? t) (filter nonempty (nal_iter d)) =
  first_unit (fun b => b mod 32 =? t) d.
Proof.
  unfold first_of, first_unit. rewrite find_filter, nal_iter_is_spec_units.
  apply find_ext'. intros [|b u]; [reflexivity|].
  unfold nonempty, h264_nal_type. rewrite band31. reflexivity.
Qed.

Lemma first_of_hevc t d :
  first_of (fun n => hevc_nal_type n =? t) (filter nonempty (nal_iter d)) =
  first_unit (fun b => (b / 2) mod 64 =? t) d.
Proof.
  unfold first_of, first_unit. rewrite find_filter, nal_iter_is_spec_units.
  apply find_ext'. intros [|b u]; [reflexivity|].
  unfold nonempty, hevc_nal_type. rewrite band_shr1_63. reflexivity.
Qed.

Theorem extract_avc_is_first_units : forall d c, extract_avc_config d = Some c ->
  first_unit (fun b => b mod 32 =? 7) d = Some (avc_sps c) /\ first_unit (fun b => b mod 32 =? 8) d = Some (avc_pps c).
Proof.
  intros d c H. unfold extract_avc_config in H.
  destruct d as [|x d]; [discriminate H|]. cbv zeta in H.
  rewrite !first_of_h264 in H.
  destruct (first_unit (fun b => b mod 32 =? 7) (x :: d)) as [s|]; [|discriminate H].
  destruct (first_unit (fun b => b mod 32 =? 8) (x :: d)) as [p|]; [|discriminate H].
  injection H as <-. split; reflexivity.
Qed.
Print Assumptions extract_avc_is_first_units.

Theorem extract_hevc_is_first_units : forall d c, extract_hevc_config d = Some c ->
  first_unit (fun b => (b / 2) mod 64 =? 32) d = Some (hevc_vps c) /\
  first_unit (fun b => (b / 2) mod 64 =? 33) d = Some (hevc_sps c) /\
  first_unit (fun b => (b / 2) mod 64 =? 34) d = Some (hevc_pps c).
Proof.
  intros d c H. unfold extract_hevc_config in H.
  destruct d as [|x d]; [discriminate H|]. cbv zeta in H.
  rewrite !first_of_hevc in H.
  destruct (first_unit (fun b => (b / 2) mod 64 =? 32) (x :: d)) as [v|]; [|discriminate H].
  destruct (first_unit (fun b => (b / 2) mod 64 =? 33) (x :: d)) as [s|]; [|discriminate H].
  destruct (first_unit (fun b => (b / 2) mod 64 =? 34) (x :: d)) as [p|]; [|discriminate H].
  injection H as <-. repeat split; reflexivity.
Qed.
Print Assumptions extract_hevc_is_first_units.

(* bonus: the fragmented muxer's vpcC has the same (short, version-less) layout *)
Theorem vpcc_fmp4_refuted : forall c, strict_vpcc (payload_of (build_vpcc_fmp4 c)) = None.
Proof. intros c. unfold build_vpcc_fmp4. pob. destruct (fc_vp9 c); reflexivity. Qed.
Print Assumptions vpcc_fmp4_refuted.
