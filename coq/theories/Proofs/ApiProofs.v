(** Lemmas about the API state machine (Model/Api.v). *)
From Coq Require Import Lia.
From Muxide Require Import Model.Base Model.Annexb Model.Adts Model.Codec Model.Boxes Model.F64
  Model.Writer Model.Api.
Open Scope N_scope.

Ltac break_match :=
  match goal with
  | H : context [match ?x with _ => _ end] |- _ => destruct x eqn:?
  | |- context [match ?x with _ => _ end] => destruct x eqn:?
  end.

(** A rejected frame-writing call returns the muxer it was given. *)
Lemma write_video_err_unchanged m p d k m' e :
  write_video m p d k = (m', Some e) -> m' = m.
Proof.
  unfold write_video. intros H.
  repeat (break_match; try (inversion H; subst; reflexivity); try discriminate).
Qed.

Lemma write_video_with_dts_err_unchanged m p t d k m' e :
  write_video_with_dts m p t d k = (m', Some e) -> m' = m.
Proof.
  unfold write_video_with_dts. intros H.
  repeat (break_match; try (inversion H; subst; reflexivity); try discriminate).
Qed.

Lemma write_audio_err_unchanged m p d m' e :
  write_audio m p d = (m', Some e) -> m' = m.
Proof.
  unfold write_audio. intros H.
  repeat (break_match; try (inversion H; subst; reflexivity); try discriminate).
Qed.

Lemma encode_video_err_unchanged m d ms m' e :
  encode_video m d ms = (m', Some e) -> m' = m.
Proof.
  unfold encode_video. intros H.
  destruct (write_video m (m_cur_vpts m) d (api_is_keyframe m d)) as [m1 [e1|]] eqn:W.
  - inversion H; subst. eapply write_video_err_unchanged; eauto.
  - discriminate.
Qed.

Lemma encode_audio_err_unchanged m d s m' e :
  encode_audio m d s = (m', Some e) -> m' = m.
Proof.
  unfold encode_audio. intros H.
  destruct (m_audio m) eqn:A.
  - destruct (write_audio m (m_cur_apts m) d) as [m1 [e1|]] eqn:W.
    + inversion H; subst. eapply write_audio_err_unchanged; eauto.
    + discriminate.
  - inversion H; reflexivity.
Qed.

Theorem step_rejected_unchanged m o m' e :
  o <> FIN -> step m o = (m', RErr e) -> m' = m.
Proof.
  intros Hne H. destruct o; cbn [step] in H; try congruence.
  - destruct (write_video m (decode64 pts) data key) as [m1 [e1|]] eqn:W; cbn in H; inversion H; subst.
    eapply write_video_err_unchanged; eauto.
  - destruct (write_video_with_dts m (decode64 pts) (decode64 dts) data key) as [m1 [e1|]] eqn:W; cbn in H; inversion H; subst.
    eapply write_video_with_dts_err_unchanged; eauto.
  - destruct (write_audio m (decode64 pts) data) as [m1 [e1|]] eqn:W; cbn in H; inversion H; subst.
    eapply write_audio_err_unchanged; eauto.
  - destruct (encode_video m data duration_ms) as [m1 [e1|]] eqn:W; cbn in H; inversion H; subst.
    eapply encode_video_err_unchanged; eauto.
  - destruct (encode_audio m data samples) as [m1 [e1|]] eqn:W; cbn in H; inversion H; subst.
    eapply encode_audio_err_unchanged; eauto.
Qed.

(** The already-finished rejection of finish also leaves the muxer untouched. *)
Lemma finish_already_finished_unchanged m m' :
  finish_in_place_with_stats m = (m', FErr AlreadyFinished) -> m_finished m = true -> m' = m.
Proof.
  unfold finish_in_place_with_stats. intros H F. rewrite F in H. inversion H; reflexivity.
Qed.

(** * Lifting to whole histories: removing the rejected frame-writing calls
      changes neither the final muxer (sink bytes, counters, both layers)
      nor any later result. *)
Definition is_fin (o : op) : bool := match o with FIN => true | _ => false end.

(* is this call a rejected frame-writing call in state m? *)
Definition rejected (m : muxer) (o : op) : bool :=
  match step m o with
  | (_, RErr _) => negb (is_fin o)
  | _ => false
  end.

Fixpoint kept_ops (m : muxer) (ops : list op) : list op :=
  match ops with
  | [] => []
  | o :: t =>
      match step m o with
      | (m', RPanic _) => [o]
      | (m', _) => if rejected m o then kept_ops m' t else o :: kept_ops m' t
      end
  end.

Fixpoint kept_results (m : muxer) (ops : list op) : list result :=
  match ops with
  | [] => []
  | o :: t =>
      match step m o with
      | (m', RPanic p) => [RPanic p]
      | (m', r) => if rejected m o then kept_results m' t else r :: kept_results m' t
      end
  end.

Lemma rejected_unchanged m o : rejected m o = true -> fst (step m o) = m.
Proof.
  unfold rejected. destruct (step m o) as [m' r] eqn:S. destruct r; try discriminate.
  intros H. cbn. eapply step_rejected_unchanged; eauto.
  destruct o; cbn in H; congruence.
Qed.

Theorem rejected_calls_leave_no_trace : forall ops m,
  run m (kept_ops m ops) = (fst (run m ops), kept_results m ops).
Proof.
  induction ops as [|o t IH]; intros m; cbn [kept_ops kept_results run].
  - reflexivity.
  - destruct (step m o) as [m' r] eqn:S.
    destruct r as [| s | e | p].
    + (* ROk *)
      assert (R : rejected m o = false) by (unfold rejected; rewrite S; reflexivity).
      rewrite R. cbn [run]. rewrite S. rewrite IH.
      destruct (run m' t) as [m'' rs]. reflexivity.
    + assert (R : rejected m o = false) by (unfold rejected; rewrite S; reflexivity).
      rewrite R. cbn [run]. rewrite S. rewrite IH.
      destruct (run m' t) as [m'' rs]. reflexivity.
    + destruct (rejected m o) eqn:R.
      * pose proof (rejected_unchanged m o R) as U. rewrite S in U. cbn in U. subst m'.
        rewrite IH. destruct (run m t) as [m'' rs]. reflexivity.
      * cbn [run]. rewrite S. rewrite IH. destruct (run m' t) as [m'' rs]. reflexivity.
    + cbn [run]. rewrite S. reflexivity.
Qed.

(* what [kept_results] is: the original results with exactly the rejected
   frame-writing calls' entries deleted *)
Fixpoint drop_rejected (m : muxer) (ops : list op) (rs : list result) : list result :=
  match ops, rs with
  | o :: t, r :: rt => if rejected m o then drop_rejected (fst (step m o)) t rt
                       else r :: drop_rejected (fst (step m o)) t rt
  | _, _ => []
  end.

Lemma kept_results_spec : forall ops m, kept_results m ops = drop_rejected m ops (snd (run m ops)).
Proof.
  induction ops as [|o t IH]; intros m; [reflexivity|].
  cbn [kept_results run].
  destruct (step m o) as [m' r] eqn:S.
  assert (F : fst (step m o) = m') by (rewrite S; reflexivity).
  destruct r as [| s | e | p].
  - destruct (run m' t) as [m'' rs] eqn:Rn. cbn [snd drop_rejected]. rewrite F.
    rewrite IH, Rn. reflexivity.
  - destruct (run m' t) as [m'' rs] eqn:Rn. cbn [snd drop_rejected]. rewrite F.
    rewrite IH, Rn. reflexivity.
  - destruct (run m' t) as [m'' rs] eqn:Rn. cbn [snd drop_rejected]. rewrite F.
    rewrite IH, Rn. reflexivity.
  - cbn [snd drop_rejected]. rewrite F.
    assert (R : rejected m o = false) by (unfold rejected; rewrite S; reflexivity).
    rewrite R. destruct t; reflexivity.
Qed.
