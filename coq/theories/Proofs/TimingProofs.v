(** Timing invariants of the writer model (C03): the sample queues of every
    reachable writer are well formed ([WInv]), the stts duration table derived
    from them is exactly the consecutive decode-time differences (no drift), and
    the stored composition offsets are exactly pts - dts. *)
From Coq Require Import Sorting.Sorted.
From Coq Require Import Lia ZifyN ZifyNat ZifyBool.
From Muxide Require Import Model.Base Model.Annexb Model.Adts Model.Codec Model.Boxes Model.F64 Model.Writer Model.Api
  Spec.Layout Proofs.BaseProofs Proofs.ApiProofs.
Open Scope N_scope.
Ltac Zify.zify_post_hook ::= Z.div_mod_to_equations.

(** * Sortedness of reversed lists *)
Lemma SSorted_snoc {A} (R : A -> A -> Prop) l x :
  StronglySorted R l -> Forall (fun y => R y x) l -> StronglySorted R (l ++ [x]).
Proof.
  induction l as [|a l IH]; intros Hs Hf; cbn [app].
  - constructor; constructor.
  - inversion Hs as [|a' l' Hs' Hfa]; subst. inversion Hf as [|a' l' Hax Hf']; subst.
    constructor.
    + apply IH; assumption.
    + apply Forall_app. split; [assumption|]. constructor; [assumption|constructor].
Qed.

Lemma SSorted_rev {A} (R : A -> A -> Prop) l :
  StronglySorted (fun a b => R b a) l -> StronglySorted R (rev l).
Proof.
  induction 1 as [|a l Hs IH Hf]; cbn [rev].
  - constructor.
  - apply SSorted_snoc; [exact IH|].
    rewrite Forall_forall in *. intros y Hy. apply Hf. apply in_rev. exact Hy.
Qed.

Lemma SSorted_rev_inv {A} (R : A -> A -> Prop) l :
  StronglySorted R (rev l) -> StronglySorted (fun a b => R b a) l.
Proof.
  intros H. rewrite <- (rev_involutive l).
  apply (SSorted_rev (fun a b => R b a) (rev l)). exact H.
Qed.

(** the invariant phrased on the newest-first queues *)
Definition WInvR (w : writer) : Prop :=
  StronglySorted (fun a b => s_dts b < s_dts a) (w_vrev w) /\
  StronglySorted (fun a b => s_pts b <= s_pts a) (w_arev w) /\
  durs_linked (w_vrev w) s_dts /\ durs_linked (w_arev w) s_pts /\
  (match w_vrev w with
   | [] => w_vprev w = None /\ w_vlast_delta w = None
   | [s] => w_vprev w = Some (s_dts s) /\ w_vlast_delta w = None /\ s_dur s = None
   | s :: p :: _ => w_vprev w = Some (s_dts s) /\ w_vlast_delta w = Some (s_dts s - s_dts p) /\ s_dur s = None
   end) /\
  (match w_arev w with
   | [] => w_aprev w = None /\ w_alast_delta w = None
   | [s] => w_aprev w = Some (s_pts s) /\ w_alast_delta w = None /\ s_dur s = None
   | s :: p :: _ => w_aprev w = Some (s_pts s) /\ w_alast_delta w = Some (s_pts s - s_pts p) /\ s_dur s = None
   end) /\
  Forall (fun s => s_dts s = s_pts s) (w_arev w).

Lemma WInv_WInvR w : WInv w <-> WInvR w.
Proof.
  unfold WInv, WInvR, dts_increasing, pts_nondecreasing, vsamples, asamples.
  split; intros (Hv & Ha & Hrest); (split; [|split]); try exact Hrest.
  - apply (SSorted_rev_inv (fun a b => s_dts a < s_dts b)). exact Hv.
  - apply (SSorted_rev_inv (fun a b => s_pts a <= s_pts b)). exact Ha.
  - apply (SSorted_rev (fun a b => s_dts a < s_dts b)). exact Hv.
  - apply (SSorted_rev (fun a b => s_pts a <= s_pts b)). exact Ha.
Qed.

Theorem WInv_new : forall snk codec audio, WInv (writer_new snk codec audio).
Proof.
  intros. apply WInv_WInvR. unfold WInvR, writer_new; cbn.
  repeat split; constructor.
Qed.
Print Assumptions WInv_new.

Theorem WInv_write_video : forall w pts dts data key w',
  WInv w -> write_video_sample_with_dts w pts dts data key = inl w' -> WInv w'.
Proof.
  intros w pts dts data key w' Hinv Hw.
  apply WInv_WInvR in Hinv. apply WInv_WInvR.
  destruct w as [cd vr vp vl vc au ar ap al fi bwr sk].
  unfold WInvR in *.
  cbn [w_vrev w_arev w_vprev w_aprev w_vlast_delta w_alast_delta] in Hinv.
  destruct Hinv as (Hv & Ha & Hlv & Hla & Hhv & Hha & Hfa).
  unfold write_video_sample_with_dts, push_video in Hw.
  cbn [w_codec w_vrev w_arev w_vprev w_aprev w_vlast_delta w_alast_delta w_finalized w_vconfig
       w_audio w_bytes_written w_sink] in Hw.
  destruct fi; [discriminate|].
  destruct (negb (cts_fits pts dts)); [discriminate|].
  destruct vp as [prev|].
  - destruct (dts <=? prev) eqn:E1; [discriminate|].
    destruct (U32MAX <? dts - prev) eqn:E2; [discriminate|].
    destruct (U32MAX <? len (convert_video cd data)) eqn:E3; [discriminate|].
    inversion Hw; subst w'; clear Hw.
    cbn [w_vrev w_arev w_vprev w_aprev w_vlast_delta w_alast_delta].
    destruct vr as [|s t].
    { destruct Hhv as [Hp _]; discriminate. }
    assert (Hprev : prev = s_dts s).
    { destruct t as [|p t']; destruct Hhv as [Hp _]; congruence. }
    subst prev. cbn [set_last_dur].
    inversion Hv as [|s0 t0 Hvt Hvf]; subst s0 t0.
    repeat split; try assumption.
    constructor.
    + constructor; [exact Hvt|]. exact Hvf.
    + constructor; [cbn [s_dts]; lia|].
      eapply Forall_impl; [|exact Hvf]. cbn beta. intros y Hy. cbn [s_dts]. lia.
  - destruct (negb key); [discriminate|].
    destruct (extract_config cd data) as [c|]; [|discriminate].
    destruct (U32MAX <? len (convert_video cd data)) eqn:E3; [discriminate|].
    inversion Hw; subst w'; clear Hw.
    cbn [w_vrev w_arev w_vprev w_aprev w_vlast_delta w_alast_delta].
    destruct vr as [|s t].
    2:{ destruct t as [|p t']; destruct Hhv as [Hp _]; discriminate. }
    destruct Hhv as [_ Hvl]. subst vl.
    repeat split; try assumption.
    constructor; constructor.
Qed.
Print Assumptions WInv_write_video.

Theorem WInv_write_audio : forall w pts data w',
  WInv w -> write_audio_sample w pts data = inl w' -> WInv w'.
Proof.
  intros w pts data w' Hinv Hw.
  apply WInv_WInvR in Hinv. apply WInv_WInvR.
  destruct w as [cd vr vp vl vc au ar ap al fi bwr sk].
  unfold WInvR in *.
  cbn [w_vrev w_arev w_vprev w_aprev w_vlast_delta w_alast_delta] in Hinv.
  destruct Hinv as (Hv & Ha & Hlv & Hla & Hhv & Hha & Hfa).
  unfold write_audio_sample in Hw.
  cbn [w_codec w_vrev w_arev w_vprev w_aprev w_vlast_delta w_alast_delta w_finalized w_vconfig
       w_audio w_bytes_written w_sink] in Hw.
  destruct fi; [discriminate|].
  destruct au as [track|]; [|discriminate].
  destruct ap as [prev|].
  - destruct (pts <? prev) eqn:E1; [discriminate|].
    destruct (U32MAX <? pts - prev) eqn:E2; [discriminate|].
    match type of Hw with match ?p with inl _ => _ | inr _ => _ end = _ =>
      destruct p as [sd|e] end; [|discriminate].
    destruct (U32MAX <? len sd) eqn:E3; [discriminate|].
    inversion Hw; subst w'; clear Hw.
    cbn [w_vrev w_arev w_vprev w_aprev w_vlast_delta w_alast_delta].
    destruct ar as [|s t].
    { destruct Hha as [Hp _]; discriminate. }
    assert (Hprev : prev = s_pts s).
    { destruct t as [|p t']; destruct Hha as [Hp _]; congruence. }
    subst prev. cbn [set_last_dur].
    inversion Ha as [|s0 t0 Hat Haf]; subst s0 t0.
    inversion Hfa as [|s0 t0 Hfs Hft]; subst s0 t0.
    repeat split; try assumption.
    + constructor.
      * constructor; [exact Hat|]. exact Haf.
      * constructor; [cbn [s_pts]; lia|].
        eapply Forall_impl; [|exact Haf]. cbn beta. intros y Hy. cbn [s_pts]. lia.
    + constructor; [reflexivity|]. constructor; [exact Hfs|exact Hft].
  - match type of Hw with match ?p with inl _ => _ | inr _ => _ end = _ =>
      destruct p as [sd|e] end; [|discriminate].
    destruct (U32MAX <? len sd) eqn:E3; [discriminate|].
    inversion Hw; subst w'; clear Hw.
    cbn [w_vrev w_arev w_vprev w_aprev w_vlast_delta w_alast_delta].
    destruct ar as [|s t].
    2:{ destruct t as [|p t']; destruct Hha as [Hp _]; discriminate. }
    destruct Hha as [_ Hal]. subst al.
    repeat split; try assumption.
    + constructor; constructor.
    + constructor; [reflexivity|constructor].
Qed.
Print Assumptions WInv_write_audio.

Lemma WInv_with_sink w fin bw s : WInv w -> WInv (with_sink w fin bw s).
Proof. intros H. exact H. Qed.

Theorem WInv_finalize : forall w v m fs, WInv w -> WInv (fst (finalize w v m fs)).
Proof.
  intros w v m fs H. unfold finalize.
  destruct (w_finalized w); [exact H|].
  destruct ((U16MAX <? vt_width v) || (U16MAX <? vt_height v)); [exact H|].
  destruct (param_sets_too_long (w_vconfig w)); [exact H|].
  destruct (if fs then finalize_fast_start w v m (effective_config w)
            else finalize_standard w v m (effective_config w)) as [bufs term].
  destruct (run_plan bufs (w_bytes_written w) (w_sink w)) as [[bw s] e].
  destruct e as [k|]; [apply WInv_with_sink; exact H|].
  destruct term as [t|]; apply WInv_with_sink; exact H.
Qed.
Print Assumptions WInv_finalize.

(** * Lifting a writer invariant through the public API *)
Lemma write_video_ok_writer m p d k m' :
  write_video m p d k = (m', None) ->
  exists pts dts, write_video_sample_with_dts (m_writer m) pts dts d k = inl (m_writer m').
Proof.
  unfold write_video, write_video_sample. intros H.
  repeat (break_match; try discriminate).
  inversion H; subst. cbn [set_video_ok m_writer]. eauto.
Qed.

Lemma write_video_with_dts_ok_writer m p t d k m' :
  write_video_with_dts m p t d k = (m', None) ->
  exists pts dts, write_video_sample_with_dts (m_writer m) pts dts d k = inl (m_writer m').
Proof.
  unfold write_video_with_dts. intros H.
  repeat (break_match; try discriminate).
  inversion H; subst. cbn [set_video_ok m_writer]. eauto.
Qed.

Lemma write_audio_ok_writer m p d m' :
  write_audio m p d = (m', None) ->
  exists pts, write_audio_sample (m_writer m) pts d = inl (m_writer m').
Proof.
  unfold write_audio. intros H.
  repeat (break_match; try discriminate).
  inversion H; subst. cbn [m_writer]. eauto.
Qed.

Section Lift.
  Variable P : writer -> Prop.
  Hypothesis P_video : forall w pts dts data key w',
    P w -> write_video_sample_with_dts w pts dts data key = inl w' -> P w'.
  Hypothesis P_audio : forall w pts data w',
    P w -> write_audio_sample w pts data = inl w' -> P w'.
  Hypothesis P_fin : forall w v m fs, P w -> P (fst (finalize w v m fs)).

  Lemma P_write_video m p d k : P (m_writer m) -> P (m_writer (fst (write_video m p d k))).
  Proof.
    intros H. destruct (write_video m p d k) as [m1 [e|]] eqn:W; cbn [fst].
    - apply write_video_err_unchanged in W. subst m1. exact H.
    - apply write_video_ok_writer in W. destruct W as (pts & dts & W). eapply P_video; eauto.
  Qed.

  Lemma P_write_video_with_dts m p t d k :
    P (m_writer m) -> P (m_writer (fst (write_video_with_dts m p t d k))).
  Proof.
    intros H. destruct (write_video_with_dts m p t d k) as [m1 [e|]] eqn:W; cbn [fst].
    - apply write_video_with_dts_err_unchanged in W. subst m1. exact H.
    - apply write_video_with_dts_ok_writer in W. destruct W as (pts & dts & W). eapply P_video; eauto.
  Qed.

  Lemma P_write_audio m p d : P (m_writer m) -> P (m_writer (fst (write_audio m p d))).
  Proof.
    intros H. destruct (write_audio m p d) as [m1 [e|]] eqn:W; cbn [fst].
    - apply write_audio_err_unchanged in W. subst m1. exact H.
    - apply write_audio_ok_writer in W. destruct W as (pts & W). eapply P_audio; eauto.
  Qed.

  Lemma P_encode_video m d ms : P (m_writer m) -> P (m_writer (fst (encode_video m d ms))).
  Proof.
    intros H. unfold encode_video.
    pose proof (P_write_video m (m_cur_vpts m) d (api_is_keyframe m d) H) as HW.
    destruct (write_video m (m_cur_vpts m) d (api_is_keyframe m d)) as [m1 [e|]]; cbn [fst] in *.
    - exact HW.
    - cbn [set_cur m_writer]. exact HW.
  Qed.

  Lemma P_encode_audio m d s : P (m_writer m) -> P (m_writer (fst (encode_audio m d s))).
  Proof.
    intros H. unfold encode_audio.
    destruct (m_audio m) as [a|]; [|exact H].
    pose proof (P_write_audio m (m_cur_apts m) d H) as HW.
    destruct (write_audio m (m_cur_apts m) d) as [m1 [e|]]; cbn [fst] in *.
    - exact HW.
    - cbn [set_cur m_writer]. exact HW.
  Qed.

  Lemma P_finish m : P (m_writer m) -> P (m_writer (fst (finish_in_place_with_stats m))).
  Proof.
    intros H. unfold finish_in_place_with_stats.
    destruct (m_finished m); [exact H|].
    pose proof (P_fin (m_writer m) (m_video m) (m_meta m) (m_fast m) H) as HF.
    destruct (finalize (m_writer m) (m_video m) (m_meta m) (m_fast m)) as [w r]. cbn [fst] in HF.
    destruct r as [|[k|p]]; cbn [fst m_writer]; exact HF.
  Qed.

  Lemma P_step m o : P (m_writer m) -> P (m_writer (fst (step m o))).
  Proof.
    intros H. destruct o as [p d k|p t d k|p d|d ms|d s|]; cbn [step].
    - pose proof (P_write_video m (decode64 p) d k H) as HW.
      destruct (write_video m (decode64 p) d k) as [m1 [e|]]; exact HW.
    - pose proof (P_write_video_with_dts m (decode64 p) (decode64 t) d k H) as HW.
      destruct (write_video_with_dts m (decode64 p) (decode64 t) d k) as [m1 [e|]]; exact HW.
    - pose proof (P_write_audio m (decode64 p) d H) as HW.
      destruct (write_audio m (decode64 p) d) as [m1 [e|]]; exact HW.
    - pose proof (P_encode_video m d ms H) as HW.
      destruct (encode_video m d ms) as [m1 [e|]]; exact HW.
    - pose proof (P_encode_audio m d s H) as HW.
      destruct (encode_audio m d s) as [m1 [e|]]; exact HW.
    - pose proof (P_finish m H) as HW.
      destruct (finish_in_place_with_stats m) as [m1 [st|e|p]]; exact HW.
  Qed.

  Lemma P_run : forall ops m, P (m_writer m) -> P (m_writer (fst (run m ops))).
  Proof.
    induction ops as [|o t IH]; intros m H; cbn [run].
    - exact H.
    - pose proof (P_step m o H) as HS.
      destruct (step m o) as [m' r]. cbn [fst] in HS.
      destruct r as [|st|e|p]; try exact HS;
        (specialize (IH m' HS); destruct (run m' t) as [m'' rs]; exact IH).
  Qed.

  Lemma P_reachable b script m0 ops :
    (forall snk codec audio, P (writer_new snk codec audio)) ->
    build b script = inl m0 -> P (m_writer (fst (run m0 ops))).
  Proof.
    intros Hnew Hb. apply P_run. unfold build in Hb.
    destruct (b_video b) as [[[codec w] h]|]; [|discriminate].
    inversion Hb; subst m0. cbn [m_writer]. apply Hnew.
  Qed.
End Lift.

Theorem WInv_reachable : forall b script m0 ops,
  build b script = inl m0 -> WInv (m_writer (fst (run m0 ops))).
Proof.
  intros b script m0 ops Hb.
  apply (P_reachable WInv WInv_write_video WInv_write_audio WInv_finalize b script m0 ops WInv_new Hb).
Qed.
Print Assumptions WInv_reachable.

(** * Durations *)
Fixpoint diffs (l : list N) : list N :=
  match l with a :: ((b :: _) as t) => (b - a) :: diffs t | _ => [] end.

Lemma diffs_cons2 a b t : diffs (a :: b :: t) = (b - a) :: diffs (b :: t).
Proof. reflexivity. Qed.

Lemma durations_spec_diffs l : (2 <= length l)%nat ->
  durations_spec l = diffs l ++ [last (diffs l) 1].
Proof.
  intros H. destruct l as [|a [|b t]]; cbn [length] in H; try lia. reflexivity.
Qed.

Lemma diffs_snoc l a b : diffs (l ++ [a; b]) = diffs (l ++ [a]) ++ [b - a].
Proof.
  induction l as [|x l IH].
  - reflexivity.
  - destruct l as [|y l'].
    + reflexivity.
    + cbn [app] in *. rewrite !diffs_cons2. rewrite IH. reflexivity.
Qed.

Definition dur1 (s : sample) : N := match s_dur s with Some d => d | None => 1 end.
Definition dur_last (s : sample) (fb : option N) : N :=
  match s_dur s with Some d => d | None => match fb with Some d => d | None => 1 end end.

Lemma durations_of_cons2 a b t fb :
  durations_of (a :: b :: t) fb = dur1 a :: durations_of (b :: t) fb.
Proof. reflexivity. Qed.

Lemma durations_of_snoc l s fb :
  durations_of (l ++ [s]) fb = map dur1 l ++ [dur_last s fb].
Proof.
  induction l as [|x l IH].
  - reflexivity.
  - destruct l as [|y l'].
    + reflexivity.
    + cbn [app map] in *. rewrite durations_of_cons2. rewrite IH. reflexivity.
Qed.

(* all samples but the newest carry the distance to their successor *)
Lemma linked_durs_are_diffs key : forall t p,
  durs_linked (p :: t) key -> map dur1 (rev t) = diffs (map key (rev (p :: t))).
Proof.
  induction t as [|q t IH]; intros p H.
  - reflexivity.
  - cbn [durs_linked] in H. destruct H as [Hq Hl].
    specialize (IH q Hl).
    cbn [rev] in *. rewrite !map_app in *. cbn [map] in *.
    rewrite <- app_assoc. cbn [app]. rewrite diffs_snoc. rewrite <- IH.
    unfold dur1 at 2. rewrite Hq. reflexivity.
Qed.

Lemma durations_linked_spec key l fb :
  durs_linked l key ->
  match l with
  | [] => True
  | [s] => fb = None /\ s_dur s = None
  | s :: p :: _ => fb = Some (key s - key p) /\ s_dur s = None
  end ->
  durations_of (rev l) fb = durations_spec (map key (rev l)).
Proof.
  intros Hl Hh. destruct l as [|s [|p t]].
  - reflexivity.
  - destruct Hh as [Hfb Hs]. cbn. rewrite Hs, Hfb. reflexivity.
  - destruct Hh as [Hfb Hs].
    rewrite durations_spec_diffs.
    2:{ rewrite map_length, rev_length. cbn [length]. lia. }
    rewrite <- (linked_durs_are_diffs key (p :: t) s Hl).
    change (rev (s :: p :: t)) with (rev (p :: t) ++ [s]).
    rewrite durations_of_snoc. f_equal.
    unfold dur_last. rewrite Hs, Hfb.
    cbn [rev]. rewrite map_app. cbn [map]. rewrite last_last.
    cbn [durs_linked] in Hl. destruct Hl as [Hp _]. unfold dur1. rewrite Hp. reflexivity.
Qed.

Theorem video_durations_are_dts_differences : forall w,
  WInv w -> durations_of (vsamples w) (w_vlast_delta w) = durations_spec (map s_dts (vsamples w)).
Proof.
  intros w (_ & _ & Hlv & _ & Hhv & _). unfold vsamples.
  apply durations_linked_spec; [exact Hlv|].
  destruct (w_vrev w) as [|s [|p t]]; [exact I| |]; destruct Hhv as (_ & H1 & H2); split; assumption.
Qed.
Print Assumptions video_durations_are_dts_differences.

Theorem audio_durations_are_pts_differences : forall w,
  WInv w -> durations_of (asamples w) (w_alast_delta w) = durations_spec (map s_pts (asamples w)).
Proof.
  intros w (_ & _ & _ & Hla & _ & Hha & _). unfold asamples.
  apply durations_linked_spec; [exact Hla|].
  destruct (w_arev w) as [|s [|p t]]; [exact I| |]; destruct Hha as (_ & H1 & H2); split; assumption.
Qed.
Print Assumptions audio_durations_are_pts_differences.

(** * Telescoping *)
Lemma sorted_head_le_nth a l k :
  StronglySorted (fun a b => a <= b) (a :: l) -> (k < length (a :: l))%nat -> a <= nth k (a :: l) 0.
Proof.
  intros Hs Hk. destruct k as [|k]; cbn [nth]; [lia|].
  inversion Hs as [|a0 l0 _ Hf]; subst. rewrite Forall_forall in Hf.
  apply Hf. apply nth_In. cbn [length] in Hk. lia.
Qed.

Lemma diffs_length l : length (diffs l) = (length l - 1)%nat.
Proof.
  induction l as [|a l IH]; [reflexivity|].
  destruct l as [|b t]; [reflexivity|].
  rewrite diffs_cons2. cbn [length] in *. lia.
Qed.

Lemma diffs_telescope : forall l k,
  StronglySorted (fun a b => a <= b) l -> (k < length l)%nat ->
  sumN (firstn k (diffs l)) = nth k l 0 - nth 0 l 0.
Proof.
  induction l as [|a l IH]; intros k Hs Hk; cbn [length] in Hk; [lia|].
  destruct k as [|k].
  - cbn [firstn sumN nth]. lia.
  - destruct l as [|b t]; [cbn [length] in Hk; lia|].
    rewrite diffs_cons2. cbn [firstn sumN].
    inversion Hs as [|a0 l0 Hs' Hf]; subst.
    rewrite (IH k Hs') by (cbn [length] in *; lia).
    pose proof (sorted_head_le_nth b t k Hs' ltac:(cbn [length] in *; lia)) as Hb.
    inversion Hf as [|b0 t0 Hab _]; subst.
    change (nth (S k) (a :: b :: t) 0) with (nth k (b :: t) 0).
    change (nth 0 (a :: b :: t) 0) with a. change (nth 0 (b :: t) 0) with b. lia.
Qed.

Theorem durations_telescope : forall (dts : list N) (k : nat),
  StronglySorted (fun a b => a <= b) dts -> (k < length dts)%nat ->
  sumN (firstn k (durations_spec dts)) = nth k dts 0 - nth 0 dts 0.
Proof.
  intros dts k Hs Hk.
  destruct dts as [|a [|b t]].
  - cbn [length] in Hk. lia.
  - cbn [length] in Hk. assert (k = 0%nat) by lia. subst k. cbn. lia.
  - rewrite durations_spec_diffs by (cbn [length]; lia).
    rewrite firstn_app.
    replace (k - length (diffs (a :: b :: t)))%nat with 0%nat
      by (rewrite diffs_length; cbn [length] in *; lia).
    cbn [firstn]. rewrite app_nil_r. apply diffs_telescope; assumption.
Qed.
Print Assumptions durations_telescope.

(** * Composition offsets *)
Definition cts_all_fit (w : writer) : Prop :=
  Forall (fun s => (-2147483648 <= Z.of_N (s_pts s) - Z.of_N (s_dts s) <= 2147483647)%Z) (w_vrev w).

Lemma cts_fit_new snk codec audio : cts_all_fit (writer_new snk codec audio).
Proof. constructor. Qed.

Lemma cts_fit_set_last_dur l d :
  Forall (fun s => (-2147483648 <= Z.of_N (s_pts s) - Z.of_N (s_dts s) <= 2147483647)%Z) l ->
  Forall (fun s => (-2147483648 <= Z.of_N (s_pts s) - Z.of_N (s_dts s) <= 2147483647)%Z) (set_last_dur l d).
Proof.
  intros H. destruct l as [|s t]; [exact H|]. cbn [set_last_dur].
  inversion H as [|s0 t0 Hs Ht]; subst. constructor; [exact Hs|exact Ht].
Qed.

Lemma cts_fit_write_video w pts dts data key w' :
  cts_all_fit w -> write_video_sample_with_dts w pts dts data key = inl w' -> cts_all_fit w'.
Proof.
  intros H Hw. unfold cts_all_fit in *.
  destruct w as [cd vr vp vl vc au ar ap al fi bwr sk]. cbn [w_vrev] in H.
  unfold write_video_sample_with_dts, push_video in Hw.
  cbn [w_codec w_vrev w_arev w_vprev w_aprev w_vlast_delta w_alast_delta w_finalized w_vconfig
       w_audio w_bytes_written w_sink] in Hw.
  destruct fi; [discriminate|].
  destruct (cts_fits pts dts) eqn:Hfit; cbn [negb] in Hw; [|discriminate].
  assert (Hnew : (-2147483648 <= Z.of_N pts - Z.of_N dts <= 2147483647)%Z).
  { unfold cts_fits in Hfit. lia. }
  destruct vp as [prev|].
  - destruct (dts <=? prev) eqn:E1; [discriminate|].
    destruct (U32MAX <? dts - prev) eqn:E2; [discriminate|].
    destruct (U32MAX <? len (convert_video cd data)) eqn:E3; [discriminate|].
    inversion Hw; subst w'; clear Hw. cbn [w_vrev].
    constructor; [cbn [s_pts s_dts]; exact Hnew|]. apply cts_fit_set_last_dur. exact H.
  - destruct (negb key); [discriminate|].
    destruct (extract_config cd data) as [c|]; [|discriminate].
    destruct (U32MAX <? len (convert_video cd data)) eqn:E3; [discriminate|].
    inversion Hw; subst w'; clear Hw. cbn [w_vrev].
    constructor; [cbn [s_pts s_dts]; exact Hnew|exact H].
Qed.

Lemma cts_fit_write_audio w pts data w' :
  cts_all_fit w -> write_audio_sample w pts data = inl w' -> cts_all_fit w'.
Proof.
  intros H Hw. unfold cts_all_fit in *. unfold write_audio_sample in Hw.
  repeat (break_match; try discriminate); inversion Hw; subst w'; cbn [w_vrev]; exact H.
Qed.

Lemma cts_fit_finalize w v m fs : cts_all_fit w -> cts_all_fit (fst (finalize w v m fs)).
Proof.
  intros H. unfold finalize.
  destruct (w_finalized w); [exact H|].
  destruct ((U16MAX <? vt_width v) || (U16MAX <? vt_height v)); [exact H|].
  destruct (param_sets_too_long (w_vconfig w)); [exact H|].
  destruct (if fs then finalize_fast_start w v m (effective_config w)
            else finalize_standard w v m (effective_config w)) as [bufs term].
  destruct (run_plan bufs (w_bytes_written w) (w_sink w)) as [[bw s] e].
  destruct e as [k|]; [exact H|]. destruct term as [t|]; exact H.
Qed.

Theorem cts_fit_reachable : forall b script m0 ops,
  build b script = inl m0 -> cts_all_fit (m_writer (fst (run m0 ops))).
Proof.
  intros b script m0 ops Hb.
  apply (P_reachable cts_all_fit cts_fit_write_video cts_fit_write_audio cts_fit_finalize
           b script m0 ops cts_fit_new Hb).
Qed.
Print Assumptions cts_fit_reachable.

Theorem cts_of_exact : forall s,
  (-2147483648 <= Z.of_N (s_pts s) - Z.of_N (s_dts s) <= 2147483647)%Z ->
  cts_of s = (Z.of_N (s_pts s) - Z.of_N (s_dts s))%Z.
Proof.
  intros s H. unfold cts_of, i32_of_bits, i32_bits, I32MOD.
  set (d := (Z.of_N (s_pts s) - Z.of_N (s_dts s))%Z) in *.
  destruct (Z.to_N (d mod 4294967296) <? 2147483648) eqn:E; lia.
Qed.
Print Assumptions cts_of_exact.
