(** C07 end to end for AV1 and VP9: the sample description read back from a finished file
    carries the configuration of the first accepted keyframe (av01/av1C, vp09/vpcC). *)
From Coq Require Import Lia ZifyN ZifyNat ZifyBool.
From Muxide Require Import Model.Base Model.Annexb Model.Adts Model.Codec Model.Boxes Model.F64 Model.Writer Model.Api
  Spec.Bmff Spec.Reader Spec.NalSplit Spec.Layout Spec.Contract Spec.Checks Spec.Headers Spec.HeaderChecks
  Proofs.BaseProofs Proofs.TableProofs Proofs.ApiProofs Proofs.AnnexbProofs Proofs.AdtsProofs
  Proofs.SinkProofs Proofs.MoovProofs Proofs.FinishProofs
  Proofs.LayoutProofs Proofs.TimingProofs Proofs.FieldProofs Proofs.ContractProofs Proofs.StructureProofs
  Proofs.EndToEndProofs Proofs.HeaderProofs Proofs.Av1Proofs Proofs.SyncProofs.
Open Scope N_scope.
Ltac Zify.zify_post_hook ::= Z.div_mod_to_equations.

Local Arguments N.add : simpl never.
Local Arguments N.sub : simpl never.
Local Arguments N.mul : simpl never.
Local Arguments N.div : simpl never.
Local Arguments N.modulo : simpl never.
Local Arguments N.eqb : simpl never.
Local Arguments N.ltb : simpl never.
Local Arguments N.leb : simpl never.
Local Arguments N.pow : simpl never.

(** * Part 1: the fields parsed from an AV1 sequence header fit their av1C bit fields *)

Lemma opt_bind_some {A B} (o : option A) (f : A -> option B) y :
  opt_bind o f = Some y -> exists a, o = Some a /\ f a = Some y.
Proof. destruct o as [a|]; cbn [opt_bind]; intros H; [eauto|discriminate H]. Qed.

(* peel one [let?] of hypothesis H: the bound value is named x, its equation E *)
Ltac ob H x E :=
  apply opt_bind_some in H; destruct H as (x & E & H); cbv beta in H.

Lemma read_bits_acc_bound : forall n acc r v r',
  read_bits_acc n acc r = Some (v, r') -> v < (acc + 1) * 2 ^ N.of_nat n.
Proof.
  induction n as [|n IH]; intros acc r v r' H; cbn [read_bits_acc] in H.
  - inversion H; subst. change (2 ^ N.of_nat 0) with 1. lia.
  - destruct r as [|b t]; [discriminate H|].
    apply IH in H.
    replace (N.of_nat (S n)) with (N.succ (N.of_nat n)) by lia.
    rewrite N.pow_succ_r by lia.
    destruct b; nia.
Qed.

Lemma read_bits_bound n r v r' : read_bits n r = Some (v, r') -> v < 2 ^ N.of_nat n.
Proof.
  unfold read_bits. destruct (64 <? n)%nat; [discriminate|].
  intros H. apply read_bits_acc_bound in H. lia.
Qed.

Lemma b2n_bound b : b2n b < 2.
Proof. destruct b; cbn [b2n]; lia. Qed.

Lemma op_tier_bound l r t r' : op_tier l r = Some (t, r') -> t < 2.
Proof.
  unfold op_tier. destruct (7 <? l).
  - intros H. ob H x E. destruct x as [b r1]. inversion H; subst. apply b2n_bound.
  - intros H. inversion H; subst. lia.
Qed.

Lemma op_points_bound : forall cnt first dmi bdl iddp lvl tier r l t r',
  lvl < 32 -> tier < 2 ->
  op_points cnt first dmi bdl iddp lvl tier r = Some (l, t, r') -> l < 32 /\ t < 2.
Proof.
  induction cnt as [|k IH]; intros first dmi bdl iddp lvl tier r l t r' Hl Ht H.
  - cbn [op_points] in H. inversion H; subst. split; assumption.
  - rewrite op_points_S in H.
    ob H r1 E1. ob H x2 E2. destruct x2 as [li r2]. ob H x3 E3. destruct x3 as [ti r3].
    ob H r4 E4. ob H r5 E5.
    apply read_bits_bound in E2. change (2 ^ N.of_nat 5) with 32 in E2.
    apply op_tier_bound in E3.
    apply IH in H; [exact H| |]; destruct first; assumption.
Qed.

Lemma ps_level_bound reduced r l t r' : ps_level reduced r = Some (l, t, r') -> l < 32 /\ t < 2.
Proof.
  unfold ps_level. destruct reduced; intros H.
  - ob H x E. destruct x as [l0 r0]. inversion H; subst.
    apply read_bits_bound in E. change (2 ^ N.of_nat 5) with 32 in E. lia.
  - ob H x1 E1. destruct x1 as [tip r1]. ob H r2 E2. ob H x3 E3. destruct x3 as [dmi r3].
    ob H x4 E4. destruct x4 as [bdl r4]. ob H x5 E5. destruct x5 as [iddp r5].
    ob H x6 E6. destruct x6 as [opc r6].
    apply op_points_bound in H; [exact H|lia|lia].
Qed.

Lemma pc_csp_bound sx sy r c r' : pc_csp sx sy r = Some (c, r') -> c < 4.
Proof.
  unfold pc_csp. destruct (sx && sy); intros H.
  - apply read_bits_bound in H. exact H.
  - inversion H; subst. lia.
Qed.

Lemma parse_color_config_bound r p hb tb mono sx sy csp r' :
  parse_color_config r p = Some (hb, tb, mono, sx, sy, csp, r') -> csp < 4.
Proof.
  rewrite parse_color_config_eq. intros H.
  ob H x1 E1. destruct x1 as [hb1 r1]. ob H x2 E2. destruct x2 as [tb2 r2].
  ob H x3 E3. destruct x3 as [mono3 r3]. ob H x4 E4. destruct x4 as [cdp r4].
  ob H x5 E5. destruct x5 as [[[cp tc] mc] r5]. ob H x6 E6. destruct x6 as [[sx6 sy6] r6].
  ob H x7 E7. destruct x7 as [csp7 r7]. ob H r8 E8.
  inversion H; subst. eapply pc_csp_bound; exact E7.
Qed.

Definition av1_fields_fit (c : av1_config) : Prop :=
  av1_seq_profile c < 8 /\ av1_seq_level_idx c < 32 /\ av1_seq_tier c < 2 /\ av1_chroma_sample_position c < 4.

Lemma ps_bits_bound obu r c : ps_bits obu r = Some c -> av1_fields_fit c.
Proof.
  unfold ps_bits. intros H.
  ob H x1 E1. destruct x1 as [prof r1].
  destruct (3 <? prof) eqn:EP; [discriminate H|].
  ob H x2 E2. destruct x2 as [u2 r2]. ob H x3 E3. destruct x3 as [reduced r3].
  ob H x4 E4. destruct x4 as [[lvl tier] r4].
  ob H x5 E5. destruct x5 as [fwb r5]. ob H x6 E6. destruct x6 as [fhb r6].
  ob H x7 E7. destruct x7 as [u7 r7]. ob H x8 E8. destruct x8 as [u8' r8].
  ob H r9 E9.
  ob H x10 E10. destruct x10 as [u10 r10]. ob H x11 E11. destruct x11 as [u11 r11].
  ob H x12 E12. destruct x12 as [u12 r12].
  ob H r13 E13.
  ob H x14 E14. destruct x14 as [u14 r14]. ob H x15 E15. destruct x15 as [u15 r15].
  ob H x16 E16. destruct x16 as [u16' r16].
  ob H x17 E17. destruct x17 as [[[[[[hb tb] mono] sx] sy] csp] r17].
  ob H x18 E18. destruct x18 as [u18 r18].
  inversion H; subst c. unfold av1_fields_fit.
  cbn [av1_seq_profile av1_seq_level_idx av1_seq_tier av1_chroma_sample_position].
  apply ps_level_bound in E4. apply parse_color_config_bound in E17.
  repeat split; lia.
Qed.

Theorem extract_av1_config_fields_fit : forall d c, extract_av1_config d = Some c -> av1_fields_fit c.
Proof.
  intros d c H. rewrite extract_av1_config_eq in H.
  destruct (find (fun io => obu_ty (fst io) =? 1) (obu_iter d)) as [[info obu]|]; [|discriminate H].
  rewrite parse_sequence_header_eq in H.
  destruct (skipn (obu_header_size info) obu); [discriminate H|].
  eapply ps_bits_bound; exact H.
Qed.
Print Assumptions extract_av1_config_fields_fit.

(** * Part 2: the av01 / vp09 sample entries pass the check *)

Lemma bool_eqb_refl b : Bool.eqb b b = true.
Proof. destruct b; reflexivity. Qed.

Lemma av1_entry_ok v c d :
  vt_width v < 65536 -> vt_height v < 65536 ->
  extract_config Av1 d = Some c ->
  check_video_entry Av1 (vt_width v) (vt_height v) (Some d) (ventry_tree v c) = true.
Proof.
  intros Hw Hh Hc. cbn [extract_config] in Hc.
  destruct (extract_av1_config d) as [a|] eqn:EA; [|discriminate Hc].
  cbn [opt_map] in Hc. injection Hc as <-.
  destruct (extract_av1_config_fields_fit d a EA) as (B1 & B2 & B3 & B4).
  unfold check_video_entry, ventry_tree, entry_config.
  cbn [node b_payload b_children b_typ].
  rewrite (visual_entry_strict v _ Hw Hh). rewrite !N.eqb_refl. cbn [andb].
  change (bytes_eqb T_av01 (TY 97 118 48 49)) with true.
  change (b_typ (leafb T_av1C (build_av1c_box a))) with T_av1C.
  change (bytes_eqb T_av1C (TY 97 118 49 67)) with true. cbn [andb].
  change (b_payload (leafb T_av1C (build_av1c_box a))) with (body (build_av1c_box a)).
  assert (E : body (build_av1c_box a) = payload_of (build_av1c_box a)).
  { unfold build_av1c_box. cbv zeta. apply body_is_payload_of. reflexivity. }
  rewrite E, (av1c_strict a B1 B2 B3 B4), EA.
  cbn [a1_obus a1_profile a1_level a1_tier a1_high_bitdepth a1_twelve_bit a1_mono a1_sx a1_sy a1_csp].
  rewrite bytes_eqb_refl, !N.eqb_refl, !bool_eqb_refl. reflexivity.
Qed.

(* the vpcC payload of the model, byte for byte *)
Lemma vpcc_payload c :
  payload_of (build_vpcc_box c) =
  [1; vp9_profile c; vp9_level c; vp9_bit_depth c; vp9_color_space c;
   vp9_transfer_function c; vp9_matrix_coefficients c; vp9_full_range_flag c].
Proof. reflexivity. Qed.

Lemma vp9_entry_ok v c d :
  vt_width v < 65536 -> vt_height v < 65536 ->
  extract_config Vp9 d = Some c ->
  check_video_entry Vp9 (vt_width v) (vt_height v) (Some d) (ventry_tree v c) = true.
Proof.
  intros Hw Hh Hc. cbn [extract_config] in Hc.
  destruct (extract_vp9_config d) as [p|] eqn:EP; [|discriminate Hc].
  cbn [opt_map] in Hc. injection Hc as <-.
  unfold check_video_entry, ventry_tree, entry_config.
  cbn [node b_payload b_children b_typ].
  rewrite (visual_entry_strict v _ Hw Hh). rewrite !N.eqb_refl. cbn [andb].
  change (bytes_eqb T_vp09 (TY 118 112 48 57)) with true.
  change (b_typ (leafb T_vpcC (build_vpcc_box p))) with T_vpcC.
  change (bytes_eqb T_vpcC (TY 118 112 99 67)) with true. cbn [andb].
  change (b_payload (leafb T_vpcC (build_vpcc_box p))) with (body (build_vpcc_box p)).
  assert (E : body (build_vpcc_box p) = payload_of (build_vpcc_box p)).
  { unfold build_vpcc_box. apply body_is_payload_of. reflexivity. }
  rewrite E, vpcc_payload, EP. rewrite !N.eqb_refl. reflexivity.
Qed.

(** * Part 3: end to end *)

(* the C07 check of a finished run, reduced to the check of the video sample entry built from
   the configuration of the first accepted video frame (any codec) *)
Lemma finished_file_c07_reduction b m0 ops m rs s :
  build b [] = inl m0 -> run m0 ops = (m, rs) -> In (RStats s) rs ->
  Forall op_payload_ok ops -> len (sink_of m) < 4294967296 ->
  (match cfg_audio b with Some a => at_channels a < 65536 | None => True end) ->
  (forall v c d, vt_width v < 65536 -> vt_height v < 65536 ->
     extract_config (cfg_codec b) d = Some c ->
     first_key_of (accepted b ops (map class_of rs)) = Some d ->
     check_video_entry (cfg_codec b) (vt_width v) (vt_height v) (Some d) (ventry_tree v c) = true) ->
  check_C07 b ops (map class_of rs) (sink_of m) = true.
Proof.
  intros Hb HR HIn Hok Hlen Hch Hentry.
  pose proof (final_state b m0 ops m rs s Hb HR HIn Hok) as F.
  destruct (finished_file_tracks_v b m0 ops m rs s Hb HR HIn Hok Hlen)
    as (v & md & voffs & vspc & aoffs & top & Edims & Dw & Dh & Hread).
  unfold check_C07. rewrite (fin_hist _ _ _ _ F). cbn [negb]. rewrite Hread, Edims.
  rewrite track_of_video, track_of_audio.
  apply andb_true_iff. split.
  - unfold first_key_of in *.
    destruct (h_v (accepted b ops (map class_of rs))) as [|f tl] eqn:EHV; [reflexivity|].
    destruct (final_config b m0 ops m rs f tl Hb HR Hok EHV) as (c & Ec & ->).
    change (tr_entry (vtrack v (from_samples (vsamples (m_writer m)) voffs vspc (w_vlast_delta (m_writer m))) c md))
      with (ventry_tree v c).
    apply Hentry; [exact Dw|exact Dh|exact Ec|reflexivity].
  - unfold aud_of. rewrite (sim_waudio _ _ _ (fin_sim _ _ _ _ F)).
    destruct (cfg_audio b) as [a|]; [|reflexivity].
    change (tr_entry (atrack a (from_samples (asamples (m_writer m)) aoffs 1 (w_alast_delta (m_writer m))) md))
      with (aentry_tree a).
    apply audio_entry_ok. exact Hch.
Qed.

Theorem finished_file_carries_av1_configuration : forall b m0 ops m rs s,
  build b [] = inl m0 -> run m0 ops = (m, rs) -> In (RStats s) rs ->
  Forall op_payload_ok ops -> len (sink_of m) < 4294967296 ->
  cfg_codec b = Av1 ->
  (match cfg_audio b with Some a => at_channels a < 65536 | None => True end) ->
  check_C07 b ops (map class_of rs) (sink_of m) = true.
Proof.
  intros b m0 ops m rs s Hb HR HIn Hok Hlen Hcodec Hch.
  eapply finished_file_c07_reduction; try eassumption.
  rewrite Hcodec. intros v c d Hw Hh Hc _. apply av1_entry_ok; assumption.
Qed.
Print Assumptions finished_file_carries_av1_configuration.

Theorem finished_file_carries_vp9_configuration : forall b m0 ops m rs s,
  build b [] = inl m0 -> run m0 ops = (m, rs) -> In (RStats s) rs ->
  Forall op_payload_ok ops -> len (sink_of m) < 4294967296 ->
  cfg_codec b = Vp9 ->
  (match cfg_audio b with Some a => at_channels a < 65536 | None => True end) ->
  check_C07 b ops (map class_of rs) (sink_of m) = true.
Proof.
  intros b m0 ops m rs s Hb HR HIn Hok Hlen Hcodec Hch.
  eapply finished_file_c07_reduction; try eassumption.
  rewrite Hcodec. intros v c d Hw Hh Hc _. apply vp9_entry_ok; assumption.
Qed.
Print Assumptions finished_file_carries_vp9_configuration.
