(** No reachable call of the model panics (under explicit size bounds), and the
    bounds are necessary. *)
From Coq Require Import Sorting.Sorted Sorting.Permutation.
From Coq Require Import Lia ZifyN ZifyNat ZifyBool.
From Muxide Require Import Model.Base Model.Annexb Model.Adts Model.Codec Model.Boxes Model.F64 Model.Writer Model.Api Model.Frag
  Spec.Layout Proofs.BaseProofs Proofs.ApiProofs Proofs.FinishProofs Proofs.TimingProofs Proofs.LayoutProofs.
Open Scope N_scope.
Ltac Zify.zify_post_hook ::= Z.div_mod_to_equations.

(** * N2: only FIN can panic *)
Lemma lift_not_panic r m' p : lift r <> (m', RPanic p).
Proof. destruct r as [m1 [e|]]; cbn [lift]; intros H; discriminate. Qed.

Theorem only_finish_can_panic : forall m o m' p, step m o = (m', RPanic p) -> o = FIN.
Proof.
  intros m o m' p H.
  destruct o as [pt d k|pt t d k|pt d|d ms|d s|]; cbn [step] in H;
    try (exfalso; eapply lift_not_panic; exact H).
  reflexivity.
Qed.
Print Assumptions only_finish_can_panic.

(** * N5: the fragmented muxer never panics *)
Theorem fragmented_never_panics : forall m o, snd (fstep m o) <> FrPanic.
Proof.
  intros m o. destruct o as [p d b s| | | |]; cbn [fstep].
  - unfold f_write. destruct (fm_last_dts m) as [last|].
    + destruct (d <? last); cbn [snd]; discriminate.
    + cbn [snd]; discriminate.
  - unfold f_flush. destruct (rev (fm_samples_rev m)) as [|s0 t]; cbn [snd]; discriminate.
  - cbn [snd]; discriminate.
  - cbn [snd]; discriminate.
  - destruct (f_init m) as [m' b]. cbn [snd]; discriminate.
Qed.
Print Assumptions fragmented_never_panics.

(** * N6: necessity of the bounds at the [moov_of] level *)
Theorem movie_duration_overflow_panics : forall v vt audio c m,
  18446744073709551615 < total_duration vt * 1000 ->
  moov_of v vt audio c m = inr PanicMovieDurationOverflow.
Proof.
  intros v vt audio c m H. unfold moov_of, MOVIE_TIMESCALE, U64MAX.
  destruct (18446744073709551615 <? total_duration vt * 1000) eqn:E; [reflexivity|lia].
Qed.
Print Assumptions movie_duration_overflow_panics.

Theorem zero_size_sample_panics : forall v vt c m,
  total_duration vt * 1000 <= 18446744073709551615 -> has_zero_size vt = true ->
  moov_of v vt None c m = inr PanicStszZeroSize.
Proof.
  intros v vt c m H Hz. unfold moov_of, MOVIE_TIMESCALE, U64MAX.
  destruct (18446744073709551615 <? total_duration vt * 1000) eqn:E; [lia|].
  rewrite Hz. reflexivity.
Qed.
Print Assumptions zero_size_sample_panics.
(** * N1: every queued sample is non-empty and shorter than 4 GiB *)
Lemma len_pos {A} (l : list A) : l <> [] -> 0 < len l.
Proof. destruct l as [|x t]; [congruence|]. intros _. rewrite len_cons. lia. Qed.

Lemma samples_ok_set_last_dur l d : samples_ok l -> samples_ok (set_last_dur l d).
Proof.
  intros H. destruct l as [|s t]; [exact H|]. cbn [set_last_dur].
  inversion H as [|s0 t0 Hs Ht]; subst. constructor; [exact Hs|exact Ht].
Qed.

Lemma annexb_nonempty d : d <> [] -> annexb_to_avcc d <> [].
Proof.
  intros Hd. unfold annexb_to_avcc.
  destruct (len_prefixed (filter nonempty (nal_iter d))) as [|x out].
  - destruct d as [|a t]; [congruence|]. unfold be32. cbn [app]. discriminate.
  - discriminate.
Qed.

Lemma convert_video_nonempty codec d : d <> [] -> convert_video codec d <> [].
Proof.
  intros Hd. destruct codec; cbn [convert_video]; try exact Hd.
  - apply annexb_nonempty; exact Hd.
  - unfold hevc_annexb_to_hvcc. apply annexb_nonempty; exact Hd.
Qed.

Lemma NonEmpty_push_video w vrev vlast cfg pts dts data key w' :
  samples_ok vrev -> samples_ok (w_arev w) -> data <> [] ->
  push_video w vrev vlast cfg pts dts data key = inl w' -> NonEmptyInv w'.
Proof.
  intros Hv Ha Hd Hp. unfold push_video in Hp.
  destruct (U32MAX <? len (convert_video (w_codec w) data)) eqn:E; [discriminate|].
  inversion Hp; subst w'; clear Hp. unfold NonEmptyInv. cbn [w_vrev w_arev].
  split; [|exact Ha].
  constructor; [|exact Hv]. cbn [s_data].
  pose proof (len_pos _ (convert_video_nonempty (w_codec w) data Hd)) as Hpos.
  unfold U32MAX in E. lia.
Qed.

Theorem NonEmptyInv_write_video : forall w pts dts data key w',
  data <> [] -> NonEmptyInv w -> write_video_sample_with_dts w pts dts data key = inl w' -> NonEmptyInv w'.
Proof.
  intros w pts dts data key w' Hd [Hv Ha] Hw.
  unfold write_video_sample_with_dts in Hw.
  destruct (w_finalized w); [discriminate|].
  destruct (negb (cts_fits pts dts)); [discriminate|].
  destruct (w_vprev w) as [prev|].
  - destruct (dts <=? prev); [discriminate|].
    destruct (U32MAX <? dts - prev); [discriminate|].
    eapply NonEmpty_push_video; [| | |exact Hw]; try assumption.
    apply samples_ok_set_last_dur; exact Hv.
  - destruct (negb key); [discriminate|].
    destruct (extract_config (w_codec w) data) as [c|]; [|discriminate].
    eapply NonEmpty_push_video; [| | |exact Hw]; assumption.
Qed.

Lemma adts_raw_nonempty f raw : adts_to_raw f = AdtsOk raw -> raw <> [].
Proof.
  unfold adts_to_raw.
  destruct f as [|b0 [|b1 [|b2 [|b3 [|b4 [|b5 [|b6 r]]]]]]]; try discriminate.
  set (frame := b0 :: b1 :: b2 :: b3 :: b4 :: b5 :: b6 :: r).
  set (hl := adts_header_len b1). set (fl := adts_frame_length b3 b4 b5).
  intros H.
  destruct (negb (N.lor (N.shiftl b0 4) (shr b1 4) =? 4095)); [discriminate|].
  destruct (negb (band (shr b1 3) 1 =? 0)); [discriminate|].
  destruct (negb (band (shr b1 1) 3 =? 0)); [discriminate|].
  destruct (len frame <? hl) eqn:E1; [discriminate|].
  destruct (12 <? band (shr b2 2) 15); [discriminate|].
  destruct ((N.lor (N.shiftl (band b2 1) 2) (band (shr b3 6) 3) =? 0)
            || (7 <? N.lor (N.shiftl (band b2 1) 2) (band (shr b3 6) 3))); [discriminate|].
  destruct (fl <=? hl) eqn:E2; [discriminate|].
  destruct (len frame <? fl) eqn:E3; [discriminate|].
  inversion H as [Hr]. intros E.
  apply (f_equal (@length _)) in E. rewrite firstn_length, skipn_length in E.
  cbn [length] in E. unfold len in E1, E3. lia.
Qed.

Lemma opus_valid_nonempty d : is_valid_opus_packet d = true -> d <> [].
Proof. intros H E. subst d. discriminate. Qed.

Theorem NonEmptyInv_write_audio : forall w pts data w',
  NonEmptyInv w -> write_audio_sample w pts data = inl w' -> NonEmptyInv w'.
Proof.
  intros w pts data w' [Hv Ha] Hw. unfold write_audio_sample in Hw.
  destruct (w_finalized w); [discriminate|].
  destruct (w_audio w) as [track|]; [|discriminate].
  match type of Hw with match ?t with inl _ => _ | inr _ => _ end = _ =>
    destruct t as [pending|e] end; [|discriminate].
  match type of Hw with match ?p with inl _ => _ | inr _ => _ end = _ =>
    destruct p as [sd|e] eqn:Ep end; [|discriminate].
  assert (Hsd : sd <> []).
  { destruct (at_codec track) as [pr| |].
    - destruct (adts_to_raw data) as [raw|e] eqn:Ea; [|discriminate].
      inversion Ep; subst sd. eapply adts_raw_nonempty; exact Ea.
    - destruct (is_valid_opus_packet data) eqn:Eo; [|discriminate].
      inversion Ep; subst sd. apply opus_valid_nonempty; exact Eo.
    - discriminate. }
  destruct (U32MAX <? len sd) eqn:E3; [discriminate|].
  inversion Hw; subst w'; clear Hw. unfold NonEmptyInv. cbn [w_vrev w_arev].
  split; [exact Hv|].
  constructor.
  - cbn [s_data]. pose proof (len_pos _ Hsd). unfold U32MAX in E3. lia.
  - destruct pending as [d|]; [apply samples_ok_set_last_dur|]; exact Ha.
Qed.

Theorem NonEmptyInv_finalize : forall w v m fs, NonEmptyInv w -> NonEmptyInv (fst (finalize w v m fs)).
Proof.
  intros w v m fs H. unfold finalize.
  destruct (w_finalized w); [exact H|].
  destruct ((U16MAX <? vt_width v) || (U16MAX <? vt_height v)); [exact H|].
  destruct (param_sets_too_long (w_vconfig w)) eqn:Gps; [exact H|].
  destruct (if fs then finalize_fast_start w v m (effective_config w)
            else finalize_standard w v m (effective_config w)) as [bufs term].
  destruct (run_plan bufs (w_bytes_written w) (w_sink w)) as [[bw s] e].
  destruct e as [k|]; [exact H|]. destruct term as [t|]; exact H.
Qed.

Lemma NonEmptyInv_new snk codec audio : NonEmptyInv (writer_new snk codec audio).
Proof. split; constructor. Qed.

(** lifting through the API: as [TimingProofs.Lift], but the video step may use
    that the API rejected an empty frame *)
Lemma write_video_ok_nonempty m p d k m' : write_video m p d k = (m', None) -> d <> [].
Proof. intros H E. subst d. cbn in H. discriminate. Qed.

Lemma write_video_with_dts_ok_nonempty m p t d k m' :
  write_video_with_dts m p t d k = (m', None) -> d <> [].
Proof.
  intros H E. subst d. unfold write_video_with_dts in H.
  destruct (m_finished m); discriminate.
Qed.

Lemma NE_write_video m p d k :
  NonEmptyInv (m_writer m) -> NonEmptyInv (m_writer (fst (write_video m p d k))).
Proof.
  intros H. destruct (write_video m p d k) as [m1 [e|]] eqn:W; cbn [fst].
  - apply write_video_err_unchanged in W. subst m1. exact H.
  - pose proof (write_video_ok_nonempty _ _ _ _ _ W) as Hd.
    apply write_video_ok_writer in W. destruct W as (pts & dts & W).
    eapply NonEmptyInv_write_video; eauto.
Qed.

Lemma NE_write_video_with_dts m p t d k :
  NonEmptyInv (m_writer m) -> NonEmptyInv (m_writer (fst (write_video_with_dts m p t d k))).
Proof.
  intros H. destruct (write_video_with_dts m p t d k) as [m1 [e|]] eqn:W; cbn [fst].
  - apply write_video_with_dts_err_unchanged in W. subst m1. exact H.
  - pose proof (write_video_with_dts_ok_nonempty _ _ _ _ _ _ W) as Hd.
    apply write_video_with_dts_ok_writer in W. destruct W as (pts & dts & W).
    eapply NonEmptyInv_write_video; eauto.
Qed.

Lemma NE_write_audio m p d :
  NonEmptyInv (m_writer m) -> NonEmptyInv (m_writer (fst (write_audio m p d))).
Proof.
  intros H. destruct (write_audio m p d) as [m1 [e|]] eqn:W; cbn [fst].
  - apply write_audio_err_unchanged in W. subst m1. exact H.
  - apply write_audio_ok_writer in W. destruct W as (pts & W).
    eapply NonEmptyInv_write_audio; eauto.
Qed.

Lemma NE_encode_video m d ms :
  NonEmptyInv (m_writer m) -> NonEmptyInv (m_writer (fst (encode_video m d ms))).
Proof.
  intros H. unfold encode_video.
  pose proof (NE_write_video m (m_cur_vpts m) d (api_is_keyframe m d) H) as HW.
  destruct (write_video m (m_cur_vpts m) d (api_is_keyframe m d)) as [m1 [e|]]; cbn [fst] in *.
  - exact HW.
  - cbn [set_cur m_writer]. exact HW.
Qed.

Lemma NE_encode_audio m d s :
  NonEmptyInv (m_writer m) -> NonEmptyInv (m_writer (fst (encode_audio m d s))).
Proof.
  intros H. unfold encode_audio.
  destruct (m_audio m) as [a|]; [|exact H].
  pose proof (NE_write_audio m (m_cur_apts m) d H) as HW.
  destruct (write_audio m (m_cur_apts m) d) as [m1 [e|]]; cbn [fst] in *.
  - exact HW.
  - cbn [set_cur m_writer]. exact HW.
Qed.

Lemma NE_finish m :
  NonEmptyInv (m_writer m) -> NonEmptyInv (m_writer (fst (finish_in_place_with_stats m))).
Proof.
  intros H. unfold finish_in_place_with_stats.
  destruct (m_finished m); [exact H|].
  pose proof (NonEmptyInv_finalize (m_writer m) (m_video m) (m_meta m) (m_fast m) H) as HF.
  destruct (finalize (m_writer m) (m_video m) (m_meta m) (m_fast m)) as [w r]. cbn [fst] in HF.
  destruct r as [|[k|p]]; cbn [fst m_writer]; exact HF.
Qed.

Lemma NonEmptyInv_step m o :
  NonEmptyInv (m_writer m) -> NonEmptyInv (m_writer (fst (step m o))).
Proof.
  intros H. destruct o as [p d k|p t d k|p d|d ms|d s|]; cbn [step].
  - pose proof (NE_write_video m (decode64 p) d k H) as HW.
    destruct (write_video m (decode64 p) d k) as [m1 [e|]]; exact HW.
  - pose proof (NE_write_video_with_dts m (decode64 p) (decode64 t) d k H) as HW.
    destruct (write_video_with_dts m (decode64 p) (decode64 t) d k) as [m1 [e|]]; exact HW.
  - pose proof (NE_write_audio m (decode64 p) d H) as HW.
    destruct (write_audio m (decode64 p) d) as [m1 [e|]]; exact HW.
  - pose proof (NE_encode_video m d ms H) as HW.
    destruct (encode_video m d ms) as [m1 [e|]]; exact HW.
  - pose proof (NE_encode_audio m d s H) as HW.
    destruct (encode_audio m d s) as [m1 [e|]]; exact HW.
  - pose proof (NE_finish m H) as HW.
    destruct (finish_in_place_with_stats m) as [m1 [st|e|p]]; exact HW.
Qed.

Lemma NonEmptyInv_run : forall ops m,
  NonEmptyInv (m_writer m) -> NonEmptyInv (m_writer (fst (run m ops))).
Proof.
  induction ops as [|o t IH]; intros m H; cbn [run].
  - exact H.
  - pose proof (NonEmptyInv_step m o H) as HS.
    destruct (step m o) as [m' r]. cbn [fst] in HS.
    destruct r as [|st|e|p]; try exact HS;
      (specialize (IH m' HS); destruct (run m' t) as [m'' rs]; exact IH).
Qed.

Lemma build_writer_new b script m0 :
  build b script = inl m0 -> exists snk codec audio, m_writer m0 = writer_new snk codec audio.
Proof.
  unfold build. intros Hb. destruct (b_video b) as [[[codec w] h]|]; [|discriminate].
  inversion Hb; subst m0. cbn [m_writer]. eauto.
Qed.

Theorem NonEmptyInv_reachable : forall b script m0 ops,
  build b script = inl m0 -> NonEmptyInv (m_writer (fst (run m0 ops))).
Proof.
  intros b script m0 ops Hb. apply NonEmptyInv_run.
  destruct (build_writer_new _ _ _ Hb) as (snk & codec & audio & E). rewrite E.
  apply NonEmptyInv_new.
Qed.
Print Assumptions NonEmptyInv_reachable.
(** * N3: finalize does not panic on small-enough writers *)
Definition payload_total (w : writer) : N := payload_sum (vsamples w) + payload_sum (asamples w).
Definition small_enough (w : writer) : Prop :=
  payload_total w + 40 < 4294967296 /\
  sumN (durations_of (vsamples w) (w_vlast_delta w)) * 1000 <= 18446744073709551615.

Lemma samples_ok_rev l : samples_ok l -> samples_ok (rev l).
Proof. unfold samples_ok. apply Forall_rev. Qed.

Lemma samples_ok_small l : samples_ok l -> Forall (fun s => len (s_data s) < 4294967296) l.
Proof. unfold samples_ok. apply Forall_impl. intros s [_ H]. exact H. Qed.

Lemma no_zero_size l co spc fb : samples_ok l -> has_zero_size (from_samples l co spc fb) = false.
Proof.
  unfold has_zero_size, from_samples. cbn [st_sizes].
  induction 1 as [|s t [Hs1 Hs2] Ht IH]; cbn [map existsb]; [reflexivity|].
  rewrite IH. unfold u32. rewrite N.mod_small by exact Hs2.
  destruct (len (s_data s) =? 0) eqn:E; [lia|reflexivity].
Qed.

Lemma moov_of_video_ok v l co spc fb c m :
  samples_ok l -> sumN (durations_of l fb) * 1000 <= 18446744073709551615 ->
  moov_of v (from_samples l co spc fb) None c m
  = inl (build_moov_box v (from_samples l co spc fb) None c m).
Proof.
  intros Hl Hd. unfold moov_of. rewrite (no_zero_size l co spc fb Hl).
  unfold total_duration, MOVIE_TIMESCALE, U64MAX. cbn [from_samples st_durations].
  destruct (18446744073709551615 <? sumN (durations_of l fb) * 1000) eqn:E; [lia|reflexivity].
Qed.

Lemma moov_of_av_ok v l co spc fb tr la cao spca fba c m :
  samples_ok l -> samples_ok la -> sumN (durations_of l fb) * 1000 <= 18446744073709551615 ->
  moov_of v (from_samples l co spc fb) (Some (tr, from_samples la cao spca fba)) c m
  = inl (build_moov_box v (from_samples l co spc fb) (Some (tr, from_samples la cao spca fba)) c m).
Proof.
  intros Hl Hla Hd. unfold moov_of.
  rewrite (no_zero_size l co spc fb Hl), (no_zero_size la cao spca fba Hla).
  unfold total_duration, MOVIE_TIMESCALE, U64MAX. cbn [from_samples st_durations].
  destruct (18446744073709551615 <? sumN (durations_of l fb) * 1000) eqn:E; [lia|reflexivity].
Qed.

(** the u32 cursor of the interleaved standard layout *)
Definition sched_total (vs as_ : list sample) (sc : list sched_entry) : N :=
  sumN (map (fun e => len (sched_data vs as_ e)) sc).

Lemma walk_std_ok vs as_ :
  (forall e, len (sched_data vs as_ e) < 4294967296) ->
  forall sc cursor acc vo ao,
  cursor + sched_total vs as_ sc <= 4294967295 ->
  snd (walk_std vs as_ sc cursor acc vo ao) = true.
Proof.
  intros Hsmall. unfold sched_total.
  induction sc as [|e t IH]; intros cursor acc vo ao H; cbn [walk_std].
  - reflexivity.
  - cbn [map sumN] in H.
    assert (Hu : u32 (len (sched_data vs as_ e)) = len (sched_data vs as_ e))
      by (unfold u32; apply N.mod_small; apply Hsmall).
    rewrite Hu. unfold U32MAX.
    destruct (4294967295 <? cursor + len (sched_data vs as_ e)) eqn:E; [lia|].
    apply IH. lia.
Qed.

Lemma sumN_app a b : sumN (a ++ b) = sumN a + sumN b.
Proof. induction a as [|x a IH]; cbn [app sumN]; [reflexivity|]. rewrite IH. lia. Qed.

Lemma sumN_perm l l' : Permutation l l' -> sumN l = sumN l'.
Proof. induction 1; cbn [sumN]; lia. Qed.

Lemma sum_video_entries_from vs as_ : forall l pre k,
  vs = pre ++ l -> k = length pre ->
  sumN (map (fun e => len (sched_data vs as_ e))
            (map (fun p => (s_dts (snd p), KVideo, fst p)) (index_from k l))) = payload_sum l.
Proof.
  induction l as [|x t IH]; intros pre k Hvs Hk; cbn [index_from map sumN].
  - reflexivity.
  - unfold payload_sum. cbn [map sumN fst snd]. fold (payload_sum t).
    rewrite (IH (pre ++ [x]) (S k)).
    + f_equal. unfold sched_data, sample_at. subst vs k.
      rewrite nth_error_app2 by lia. rewrite Nat.sub_diag. reflexivity.
    + rewrite <- app_assoc. exact Hvs.
    + rewrite app_length. cbn [length]. lia.
Qed.

Lemma sum_audio_entries_from vs as_ : forall l pre k,
  as_ = pre ++ l -> k = length pre ->
  sumN (map (fun e => len (sched_data vs as_ e))
            (map (fun p => (s_pts (snd p), KAudio, fst p)) (index_from k l))) = payload_sum l.
Proof.
  induction l as [|x t IH]; intros pre k Has Hk; cbn [index_from map sumN].
  - reflexivity.
  - unfold payload_sum. cbn [map sumN fst snd]. fold (payload_sum t).
    rewrite (IH (pre ++ [x]) (S k)).
    + f_equal. unfold sched_data, sample_at. subst as_ k.
      rewrite nth_error_app2 by lia. rewrite Nat.sub_diag. reflexivity.
    + rewrite <- app_assoc. exact Has.
    + rewrite app_length. cbn [length]. lia.
Qed.

Lemma sched_total_schedule vs as_ :
  sched_total vs as_ (compute_interleave_schedule vs as_) = payload_sum vs + payload_sum as_.
Proof.
  unfold sched_total.
  rewrite (sumN_perm _ _ (Permutation_map _ (schedule_perm vs as_))).
  rewrite map_app, sumN_app. unfold video_entries, audio_entries.
  rewrite (sum_video_entries_from vs as_ vs [] 0%nat eq_refl eq_refl).
  rewrite (sum_audio_entries_from vs as_ as_ [] 0%nat eq_refl eq_refl).
  reflexivity.
Qed.

Lemma ftyp_len : len build_ftyp_box = 24.
Proof. reflexivity. Qed.

Lemma finalize_standard_no_panic w v m c p :
  NonEmptyInv w -> small_enough w -> snd (finalize_standard w v m c) <> Some (FinPanic p).
Proof.
  intros [Hv Ha] [Hpay Hdur]. unfold payload_total in Hpay.
  apply samples_ok_rev in Hv. apply samples_ok_rev in Ha.
  fold (vsamples w) in Hv. fold (asamples w) in Ha.
  unfold finalize_standard.
  set (vs := vsamples w) in *. set (as_ := asamples w) in *. clearbody vs as_.
  destruct (w_audio w) as [track|].
  - destruct (U32MAX <? 8 + payload_sum vs + payload_sum as_); [cbn; discriminate|].
    pose proof (walk_std_ok vs as_ (data_small vs as_ (samples_ok_small _ Hv) (samples_ok_small _ Ha))
                  (compute_interleave_schedule vs as_) (len build_ftyp_box + 8) [] [] []) as Hw.
    rewrite sched_total_schedule, ftyp_len in Hw. specialize (Hw ltac:(lia)).
    rewrite ftyp_len.
    destruct (walk_std vs as_ (compute_interleave_schedule vs as_) (24 + 8) [] [] [])
      as [[[bufs vo] ao] ok].
    cbn [snd] in Hw. subst ok. cbn [negb].
    rewrite moov_of_av_ok by assumption. cbn [snd]. discriminate.
  - destruct vs as [|s0 vs'].
    + rewrite moov_of_video_ok by assumption. cbn [snd]. discriminate.
    + destruct (U32MAX <? 8 + payload_sum (s0 :: vs')); [cbn; discriminate|].
      rewrite moov_of_video_ok by assumption. cbn [snd]. discriminate.
Qed.

Lemma finalize_fast_start_no_panic w v m c p :
  NonEmptyInv w -> small_enough w -> snd (finalize_fast_start w v m c) <> Some (FinPanic p).
Proof.
  intros [Hv Ha] [Hpay Hdur].
  apply samples_ok_rev in Hv. apply samples_ok_rev in Ha.
  fold (vsamples w) in Hv. fold (asamples w) in Ha.
  unfold finalize_fast_start.
  set (vs := vsamples w) in *. set (as_ := asamples w) in *. clearbody vs as_.
  destruct (U32MAX <? 8 + payload_sum vs + payload_sum as_); [cbn; discriminate|].
  destruct (w_audio w) as [track|].
  - destruct (placeholder_offsets (compute_interleave_schedule vs as_) 0) as [pvo pao].
    rewrite moov_of_av_ok by assumption.
    destruct (walk_offsets vs as_ (compute_interleave_schedule vs as_) _) as [vo ao|];
      [|cbn; discriminate].
    rewrite moov_of_av_ok by assumption. cbn [snd]. discriminate.
  - rewrite moov_of_video_ok by assumption.
    destruct vs as [|s0 vs'].
    + rewrite moov_of_video_ok by assumption. cbn [snd]. discriminate.
    + destruct (U32MAX <? _); [cbn; discriminate|].
      rewrite moov_of_video_ok by assumption. cbn [snd]. discriminate.
Qed.

Lemma finalize_plan_no_panic w p (pl : plan) :
  snd pl <> Some (FinPanic p) ->
  snd (let '(bufs, term) := pl in
       let '(bw, s, e) := run_plan bufs (w_bytes_written w) (w_sink w) in
       let w' := with_sink w true bw s in
       match e with
       | Some k => (w', FinErr (FinIo k))
       | None => match term with
                 | Some t => (w', FinErr t)
                 | None => (w', FinOk)
                 end
       end) <> FinErr (FinPanic p).
Proof.
  destruct pl as [bufs term]. cbn [snd]. intros Hplan.
  destruct (run_plan bufs (w_bytes_written w) (w_sink w)) as [[bw s] e].
  destruct e as [k|]; [cbn [snd]; discriminate|].
  destruct term as [t|]; cbn [snd]; [|discriminate].
  intros E. apply Hplan. inversion E. reflexivity.
Qed.

Theorem finalize_does_not_panic : forall w v m fs p,
  NonEmptyInv w -> small_enough w -> snd (finalize w v m fs) <> FinErr (FinPanic p).
Proof.
  intros w v m fs p Hne Hsm. unfold finalize.
  destruct (w_finalized w); [cbn [snd]; discriminate|].
  destruct ((U16MAX <? vt_width v) || (U16MAX <? vt_height v)); [cbn [snd]; discriminate|].
  destruct (param_sets_too_long (w_vconfig w)) eqn:Gps; [cbn [snd]; discriminate|].
  cbv zeta. apply finalize_plan_no_panic.
  destruct fs; [apply finalize_fast_start_no_panic|apply finalize_standard_no_panic]; assumption.
Qed.
Print Assumptions finalize_does_not_panic.
(** * N4: API level *)
Lemma finish_panic_finalize m m' p :
  finish_in_place_with_stats m = (m', FPanic p) ->
  snd (finalize (m_writer m) (m_video m) (m_meta m) (m_fast m)) = FinErr (FinPanic p).
Proof.
  unfold finish_in_place_with_stats. destruct (m_finished m); [discriminate|].
  destruct (finalize (m_writer m) (m_video m) (m_meta m) (m_fast m)) as [w r].
  destruct r as [|[k|q]]; intros H; inversion H. reflexivity.
Qed.

Lemma step_no_panic m o m' p :
  NonEmptyInv (m_writer m) -> small_enough (m_writer m) -> step m o <> (m', RPanic p).
Proof.
  intros Hne Hsm H. pose proof (only_finish_can_panic _ _ _ _ H) as Ho. subst o.
  cbn [step] in H.
  destruct (finish_in_place_with_stats m) as [m1 [st|e|q]] eqn:F; try discriminate.
  inversion H; subst m1 q. apply finish_panic_finalize in F.
  eapply finalize_does_not_panic; eauto.
Qed.

Lemma no_call_panics_gen : forall ops m,
  NonEmptyInv (m_writer m) ->
  (forall k, small_enough (m_writer (fst (run m (firstn k ops))))) ->
  Forall (fun r => forall p, r <> RPanic p) (snd (run m ops)).
Proof.
  induction ops as [|o t IH]; intros m Hne Hsm; cbn [run].
  - constructor.
  - pose proof (Hsm 0%nat) as H0. cbn [firstn run fst] in H0.
    pose proof (NonEmptyInv_step m o Hne) as Hne'.
    destruct (step m o) as [m' r] eqn:St. cbn [fst] in Hne'.
    assert (Hr : forall p, r <> RPanic p).
    { intros p E. subst r. exact (step_no_panic m o m' p Hne H0 St). }
    assert (IH' : Forall (fun r => forall p, r <> RPanic p) (snd (run m' t))).
    { apply IH; [exact Hne'|]. intros k. specialize (Hsm (S k)).
      cbn [firstn run] in Hsm. rewrite St in Hsm.
      destruct r as [|st|e|q]; [| | |exfalso; eapply Hr; reflexivity];
        destruct (run m' (firstn k t)) as [m'' rs]; exact Hsm. }
    destruct r as [|st|e|q]; [| | |exfalso; eapply Hr; reflexivity];
      destruct (run m' t) as [m'' rs]; cbn [snd] in *;
      (constructor; [exact Hr|exact IH']).
Qed.

Theorem no_call_panics : forall b script m0 ops,
  build b script = inl m0 ->
  (forall k, small_enough (m_writer (fst (run m0 (firstn k ops))))) ->
  Forall (fun r => forall p, r <> RPanic p) (snd (run m0 ops)).
Proof.
  intros b script m0 ops Hb Hsm. apply no_call_panics_gen; [|exact Hsm].
  exact (NonEmptyInv_reachable b script m0 [] Hb).
Qed.
Print Assumptions no_call_panics.
(** * N6 (continued): necessity at the [finalize] level *)

(* the cursor bound: with every sample below 4 GiB, the flag of [walk_std] is
   [true] exactly when the last cursor value fits u32 *)
Lemma walk_std_overflow vs as_ :
  (forall e, len (sched_data vs as_ e) < 4294967296) ->
  forall sc cursor acc vo ao,
  cursor <= 4294967295 -> 4294967295 < cursor + sched_total vs as_ sc ->
  snd (walk_std vs as_ sc cursor acc vo ao) = false.
Proof.
  intros Hsmall. unfold sched_total.
  induction sc as [|e t IH]; intros cursor acc vo ao Hc H; cbn [map sumN] in H.
  - lia.
  - cbn [walk_std].
    assert (Hu : u32 (len (sched_data vs as_ e)) = len (sched_data vs as_ e))
      by (unfold u32; apply N.mod_small; apply Hsmall).
    rewrite Hu. unfold U32MAX.
    destruct (4294967295 <? cursor + len (sched_data vs as_ e)) eqn:E; [reflexivity|].
    apply IH; lia.
Qed.

Lemma finalize_with_plan_panics w (pl : plan) p :
  sk_script (w_sink w) = [] -> snd pl = Some (FinPanic p) ->
  snd (let '(bufs, term) := pl in
       let '(bw, s, e) := run_plan bufs (w_bytes_written w) (w_sink w) in
       let w' := with_sink w true bw s in
       match e with
       | Some k => (w', FinErr (FinIo k))
       | None => match term with
                 | Some t => (w', FinErr t)
                 | None => (w', FinOk)
                 end
       end) = FinErr (FinPanic p).
Proof.
  destruct pl as [bufs term]. cbn [snd]. intros Hs Ht. subst term.
  destruct (run_plan bufs (w_bytes_written w) (w_sink w)) as [[bw s] e] eqn:R.
  destruct (run_plan_nil_script _ _ _ _ _ _ Hs R) as [He _]. subst e.
  reflexivity.
Qed.

Lemma dims_ok v : vt_width v <= 65535 -> vt_height v <= 65535 ->
  (U16MAX <? vt_width v) || (U16MAX <? vt_height v) = false.
Proof.
  intros Hw Hh. unfold U16MAX.
  destruct (65535 <? vt_width v) eqn:E1; [lia|].
  destruct (65535 <? vt_height v) eqn:E2; [lia|]. reflexivity.
Qed.

(* payload bound: an interleaved standard-layout file whose mdat still fits the
   32-bit size field but whose last sample ends beyond u32::MAX panics *)
Theorem cursor_overflow_plan_panics : forall w v m c track,
  NonEmptyInv w -> w_audio w = Some track ->
  8 + payload_total w <= 4294967295 -> 4294967295 < 32 + payload_total w ->
  snd (finalize_standard w v m c) = Some (FinPanic PanicCursorOverflow).
Proof.
  intros w v m c track [Hv Ha] Hau Hlo Hhi. unfold payload_total in Hlo, Hhi.
  apply samples_ok_rev in Hv. apply samples_ok_rev in Ha.
  fold (vsamples w) in Hv. fold (asamples w) in Ha.
  unfold finalize_standard. rewrite Hau.
  set (vs := vsamples w) in *. set (as_ := asamples w) in *. clearbody vs as_.
  unfold U32MAX.
  destruct (4294967295 <? 8 + payload_sum vs + payload_sum as_) eqn:E; [lia|].
  pose proof (walk_std_overflow vs as_ (data_small vs as_ (samples_ok_small _ Hv) (samples_ok_small _ Ha))
                (compute_interleave_schedule vs as_) (len build_ftyp_box + 8) [] [] []) as Hw.
  rewrite sched_total_schedule, ftyp_len in Hw. specialize (Hw ltac:(lia) ltac:(lia)).
  rewrite ftyp_len.
  destruct (walk_std vs as_ (compute_interleave_schedule vs as_) (24 + 8) [] [] [])
    as [[[bufs vo] ao] ok].
  cbn [snd] in Hw. subst ok. reflexivity.
Qed.
Print Assumptions cursor_overflow_plan_panics.

Theorem cursor_overflow_panics : forall w v m track,
  NonEmptyInv w -> w_audio w = Some track ->
  w_finalized w = false -> vt_width v <= 65535 -> vt_height v <= 65535 ->
  param_sets_too_long (w_vconfig w) = false ->
  sk_script (w_sink w) = [] ->
  8 + payload_total w <= 4294967295 -> 4294967295 < 32 + payload_total w ->
  snd (finalize w v m false) = FinErr (FinPanic PanicCursorOverflow).
Proof.
  intros w v m track Hne Hau Hfin Hvw Hvh Hps Hs Hlo Hhi.
  unfold finalize. rewrite Hfin, (dims_ok v Hvw Hvh), Hps. cbv zeta.
  apply finalize_with_plan_panics; [exact Hs|].
  eapply cursor_overflow_plan_panics; eauto.
Qed.
Print Assumptions cursor_overflow_panics.

(* duration bound (fast-start layout: nothing is written before the panic) *)
Theorem duration_overflow_plan_panics : forall w v m c,
  8 + payload_total w <= 4294967295 ->
  18446744073709551615 < sumN (durations_of (vsamples w) (w_vlast_delta w)) * 1000 ->
  finalize_fast_start w v m c = ([], Some (FinPanic PanicMovieDurationOverflow)).
Proof.
  intros w v m c Hlo Hd. unfold payload_total in Hlo. unfold finalize_fast_start, U32MAX.
  destruct (4294967295 <? 8 + payload_sum (vsamples w) + payload_sum (asamples w)) eqn:E; [lia|].
  destruct (w_audio w) as [track|].
  - destruct (placeholder_offsets (compute_interleave_schedule (vsamples w) (asamples w)) 0) as [pvo pao].
    rewrite movie_duration_overflow_panics by exact Hd. reflexivity.
  - rewrite movie_duration_overflow_panics by exact Hd. reflexivity.
Qed.
Print Assumptions duration_overflow_plan_panics.

Theorem duration_overflow_panics : forall w v m,
  w_finalized w = false -> vt_width v <= 65535 -> vt_height v <= 65535 ->
  param_sets_too_long (w_vconfig w) = false ->
  sk_script (w_sink w) = [] ->
  8 + payload_total w <= 4294967295 ->
  18446744073709551615 < sumN (durations_of (vsamples w) (w_vlast_delta w)) * 1000 ->
  snd (finalize w v m true) = FinErr (FinPanic PanicMovieDurationOverflow).
Proof.
  intros w v m Hfin Hvw Hvh Hps Hs Hlo Hd.
  unfold finalize. rewrite Hfin, (dims_ok v Hvw Hvh), Hps. cbv zeta.
  apply finalize_with_plan_panics; [exact Hs|].
  rewrite (duration_overflow_plan_panics w v m (effective_config w) Hlo Hd). reflexivity.
Qed.
Print Assumptions duration_overflow_panics.

(* the [NonEmptyInv] hypothesis of N3: a queued empty video sample panics *)
Lemma zero_size_from_samples l co spc fb :
  (exists s, In s l /\ s_data s = []) -> has_zero_size (from_samples l co spc fb) = true.
Proof.
  intros (s & Hin & Hs). unfold has_zero_size, from_samples. cbn [st_sizes].
  apply existsb_exists. exists 0. split; [|reflexivity].
  apply in_map_iff. exists s. split; [rewrite Hs; reflexivity|exact Hin].
Qed.

Theorem empty_sample_panics : forall w v m,
  w_finalized w = false -> vt_width v <= 65535 -> vt_height v <= 65535 ->
  param_sets_too_long (w_vconfig w) = false ->
  sk_script (w_sink w) = [] -> w_audio w = None ->
  8 + payload_total w <= 4294967295 ->
  sumN (durations_of (vsamples w) (w_vlast_delta w)) * 1000 <= 18446744073709551615 ->
  (exists s, In s (vsamples w) /\ s_data s = []) ->
  snd (finalize w v m true) = FinErr (FinPanic PanicStszZeroSize).
Proof.
  intros w v m Hfin Hvw Hvh Hps Hs Hau Hlo Hd Hz. unfold payload_total in Hlo.
  unfold finalize. rewrite Hfin, (dims_ok v Hvw Hvh), Hps. cbv zeta.
  apply finalize_with_plan_panics; [exact Hs|].
  unfold finalize_fast_start, U32MAX. rewrite Hau.
  destruct (4294967295 <? 8 + payload_sum (vsamples w) + payload_sum (asamples w)) eqn:E; [lia|].
  rewrite zero_size_sample_panics; [reflexivity| |].
  - unfold total_duration. cbn [from_samples st_durations]. exact Hd.
  - apply zero_size_from_samples. exact Hz.
Qed.
Print Assumptions empty_sample_panics.

(** concrete witnesses (built symbolically: the huge payload is [repeat 0 n]
    and is never computed) *)
Lemma len_repeat {A} (x : A) n : len (repeat x n) = N.of_nat n.
Proof. unfold len. rewrite repeat_length. reflexivity. Qed.

Definition wit_sample (d : bytes) (dur : option N) : sample :=
  {| s_pts := 0; s_dts := 0; s_data := d; s_key := true; s_dur := dur |}.

Definition wit_writer (vdata : bytes) (vdur : option N) (audio : option audio_track) (adata : list sample) : writer :=
  {| w_codec := Av1; w_vrev := [wit_sample vdata vdur]; w_vprev := Some 0; w_vlast_delta := None;
     w_vconfig := None; w_audio := audio; w_arev := adata; w_aprev := None; w_alast_delta := None;
     w_finalized := false; w_bytes_written := 0;
     w_sink := {| sk_rev_chunks := []; sk_script := [] |} |}.

Definition wit_track : audio_track := {| at_sample_rate := 48000; at_channels := 2; at_codec := Opus |}.
Definition wit_video : video_track := {| vt_width := 16; vt_height := 16 |}.

(* 4 GiB - 33 bytes of video + 1 byte of audio: satisfies everything in
   [NonEmptyInv]/[small_enough] except the payload bound, and panics *)
Theorem cursor_overflow_witness :
  exists w, NonEmptyInv w /\
    sumN (durations_of (vsamples w) (w_vlast_delta w)) * 1000 <= 18446744073709551615 /\
    payload_total w = 4294967264 /\
    snd (finalize w wit_video None false) = FinErr (FinPanic PanicCursorOverflow).
Proof.
  assert (G : forall n, N.of_nat n = 4294967263 ->
    let w := wit_writer (repeat 0 n) None (Some wit_track) [wit_sample [0] None] in
    NonEmptyInv w /\
    sumN (durations_of (vsamples w) (w_vlast_delta w)) * 1000 <= 18446744073709551615 /\
    payload_total w = 4294967264 /\
    snd (finalize w wit_video None false) = FinErr (FinPanic PanicCursorOverflow)).
  { intros n Hn w.
    assert (Hne : NonEmptyInv w).
    { split; (constructor; [|constructor]); cbn [wit_sample s_data].
      - rewrite len_repeat. lia.
      - unfold len. cbn [length]. lia. }
    assert (Hp : payload_total w = 4294967264).
    { unfold payload_total, payload_sum, vsamples, asamples, w, wit_writer.
      cbn [w_vrev w_arev rev app map sumN wit_sample s_data].
      rewrite len_repeat. unfold len. cbn [length]. lia. }
    split; [exact Hne|]. split; [|split; [exact Hp|]].
    - unfold vsamples, w, wit_writer. cbn [w_vrev w_vlast_delta rev app durations_of wit_sample s_dur sumN]. lia.
    - apply (cursor_overflow_panics w wit_video None wit_track Hne); try reflexivity;
        try (cbn [wit_video vt_width vt_height]; lia); rewrite Hp; lia. }
  exists (wit_writer (repeat 0 (N.to_nat 4294967263)) None (Some wit_track) [wit_sample [0] None]).
  exact (G (N.to_nat 4294967263) (N2Nat.id 4294967263)).
Qed.
Print Assumptions cursor_overflow_witness.

(* one tiny sample carrying a 2^64-tick duration: satisfies everything except
   the duration bound, and panics *)
Theorem duration_overflow_witness :
  exists w, NonEmptyInv w /\ payload_total w + 40 < 4294967296 /\
    snd (finalize w wit_video None true) = FinErr (FinPanic PanicMovieDurationOverflow).
Proof.
  exists (wit_writer [0] (Some 18446744073709551616) None []).
  split; [|split].
  - split; [|constructor]. constructor; [|constructor]. cbn [wit_sample s_data].
    unfold len. cbn [length]. lia.
  - vm_compute. reflexivity.
  - apply duration_overflow_panics; try reflexivity;
      try (cbn [wit_video vt_width vt_height]; lia);
      try (vm_compute; discriminate); try (vm_compute; reflexivity).
Qed.
Print Assumptions duration_overflow_witness.

(* an empty queued sample (excluded by N1 for reachable writers) panics although
   [small_enough] holds: the [NonEmptyInv] hypothesis of N3 is necessary *)
Theorem empty_sample_witness :
  exists w, small_enough w /\
    snd (finalize w wit_video None true) = FinErr (FinPanic PanicStszZeroSize).
Proof.
  exists (wit_writer [] None None []).
  split.
  - split; vm_compute; [reflexivity|discriminate].
  - apply empty_sample_panics; try reflexivity;
      try (cbn [wit_video vt_width vt_height]; lia);
      try (vm_compute; discriminate).
    exists (wit_sample [] None). split; [left; reflexivity|reflexivity].
Qed.
Print Assumptions empty_sample_witness.
