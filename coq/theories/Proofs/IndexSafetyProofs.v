(** IndexSafetyProofs: property C12 at the index level.

    Model/Indexed.v mirrors the Rust byte parsers access by access ([data[i]],
    [&data[a..b]], usize subtraction, run-time shifts are checked operations that
    return [IxPanic] where Rust would panic).  For every mirrored function [foo_ix]
    this file proves
      - [foo_ix_refines : foo_ix args = IxOk (foo args)]   (foo = list-level model)
      - [foo_ix_safe    : foo_ix args <> IxPanic]
    so no input makes the code as indexed panic (nor exhausts the loop fuel of the
    model), and everything proved about the list-level model applies to it. *)
From Coq Require Import Lia ZifyN ZifyNat ZifyBool.
From Muxide Require Import Model.Base Model.Annexb Model.Adts Model.Codec Model.Boxes Model.Indexed.
Ltac Zify.zify_post_hook ::= Z.div_mod_to_equations.
Open Scope N_scope.

(** * Generic facts about the checked primitives *)
Lemma ix_ok_not_panic {A} (e : ix A) (a : A) : e = IxOk a -> e <> IxPanic.
Proof. intros -> ; discriminate. Qed.

Lemma nth_error_skipn' {A} (l : list A) : forall i k, nth_error (skipn i l) k = nth_error l (i + k).
Proof.
  induction l as [|x l IH]; intros i k.
  - rewrite skipn_nil. destruct k, i; reflexivity.
  - destruct i as [|i]; [reflexivity|]. cbn [skipn Nat.add nth_error]. apply IH.
Qed.

Lemma skipn_get (d : bytes) (i : nat) : (i < length d)%nat ->
  exists a, get d i = IxOk a /\ skipn i d = a :: skipn (S i) d.
Proof.
  revert i. induction d as [|x d IH]; intros i Hi; cbn [length] in Hi; [lia|].
  destruct i as [|i].
  - exists x. split; reflexivity.
  - destruct (IH i ltac:(lia)) as (a & Hg & Hs). exists a. split.
    + unfold get in *. cbn [nth_error]. exact Hg.
    + cbn [skipn]. exact Hs.
Qed.

Lemma get_ok (d : bytes) (i : nat) : (i < length d)%nat -> exists a, get d i = IxOk a /\ nth_error d i = Some a.
Proof.
  intros Hi. unfold get. destruct (nth_error d i) as [a|] eqn:E.
  - exists a. split; reflexivity.
  - apply nth_error_None in E. lia.
Qed.

Lemma slice_ok (d : bytes) (a b : nat) : (a <= b)%nat -> (b <= length d)%nat ->
  slice d a b = IxOk (firstn (b - a) (skipn a d)).
Proof.
  intros Ha Hb. unfold slice.
  destruct (a <=? b)%nat eqn:E1; [|lia]. destruct (b <=? length d)%nat eqn:E2; [|lia]. reflexivity.
Qed.

Lemma band_ones_lt (x : N) (k : N) : band x (N.ones k) < 2 ^ k.
Proof. unfold band. rewrite N.land_ones. apply N.mod_lt. apply N.pow_nonzero. discriminate. Qed.
Lemma band3 x : band x 3 < 4.       Proof. exact (band_ones_lt x 2). Qed.
Lemma band31 x : band x 31 < 32.    Proof. exact (band_ones_lt x 5). Qed.
Lemma band63 x : band x 63 < 64.    Proof. exact (band_ones_lt x 6). Qed.
Lemma band127 x : band x 127 < 128. Proof. exact (band_ones_lt x 7). Qed.
Lemma is_empty_nonempty (b : bytes) : is_empty b = negb (nonempty b).
Proof. destruct b; reflexivity. Qed.

(** * G1: find_start_code *)
Lemma fsc_short (l : bytes) (pos : nat) : (length l < 3)%nat -> fsc l pos = None.
Proof.
  revert pos. induction l as [|a l IH]; intros pos Hl; [reflexivity|].
  cbn [fsc]. 
  assert (H4 : is_sc4 (a :: l) = false).
  { destruct l as [|b [|c [|e l']]]; try reflexivity. cbn [length] in Hl. lia. }
  assert (H3 : is_sc3 (a :: l) = false).
  { destruct l as [|b [|c l']]; try reflexivity. cbn [length] in Hl. lia. }
  rewrite H4, H3. apply IH. cbn [length] in Hl. lia.
Qed.

Lemma fsc_cons' a t pos :
  fsc (a :: t) pos = if is_sc4 (a :: t) then Some (pos, 4%nat)
                     else if is_sc3 (a :: t) then Some (pos, 3%nat) else fsc t (S pos).
Proof. reflexivity. Qed.

Ltac ixs := cbn [ix_bind andb_ix orb_ix assert_ix andb orb negb].

Lemma fsc_loop_refines : forall fuel (d : bytes) (i : nat),
  (length d - i < fuel)%nat -> fsc_loop_ix fuel d i = IxOk (fsc (skipn i d) i).
Proof.
  induction fuel as [|f IH]; intros d i Hf; [lia|].
  cbn [fsc_loop_ix].
  destruct (i + 3 <=? length d)%nat eqn:E3.
  - destruct (skipn_get d i ltac:(lia)) as (a & Ga & Sa).
    destruct (skipn_get d (S i) ltac:(lia)) as (b & Gb & Sb).
    destruct (skipn_get d (S (S i)) ltac:(lia)) as (c & Gc & Sc).
    replace (i + 1)%nat with (S i) by lia.
    replace (i + 2)%nat with (S (S i)) by lia.
    replace (i + 3)%nat with (S (S (S i))) in * by lia.
    assert (IH' : fsc_loop_ix f d (S i) = IxOk (fsc (skipn (S i) d) (S i))).
    { apply IH. lia. }
    rewrite Sa, fsc_cons'. rewrite Sb in *. rewrite Sc in *.
    unfold get_eq. rewrite Ga, Gb, Gc.
    destruct (i + 4 <=? length d)%nat eqn:E4.
    + destruct (skipn_get d (S (S (S i))) ltac:(lia)) as (e & Ge & Se).
      rewrite Ge. rewrite Se in *.
      cbn [is_sc4 is_sc3]. ixs.
      destruct (a =? 0); ixs; [|exact IH'].
      destruct (b =? 0); ixs; [|exact IH'].
      destruct (c =? 0); ixs.
      * destruct (e =? 1); ixs; [reflexivity|].
        destruct (c =? 1); [reflexivity|exact IH'].
      * destruct (c =? 1); [reflexivity|exact IH'].
    + assert (Hn : skipn (S (S (S i))) d = []).
      { apply skipn_all2. lia. }
      rewrite Hn in *.
      cbn [is_sc4 is_sc3]. ixs.
      destruct (a =? 0); ixs; [|exact IH'].
      destruct (b =? 0); ixs; [|exact IH'].
      destruct (c =? 1); [reflexivity|exact IH'].
  - rewrite fsc_short; [reflexivity|]. rewrite skipn_length. lia.
Qed.

Theorem find_start_code_ix_refines : forall (d : bytes) (from : nat),
  find_start_code_ix d from = IxOk (find_start_code d from).
Proof.
  intros d from. unfold find_start_code_ix, find_start_code.
  destruct (length d <? 3)%nat eqn:E1; cbn [orb].
  - rewrite fsc_short; [reflexivity|]. rewrite skipn_length. lia.
  - destruct (length d <=? from)%nat eqn:E2.
    + rewrite skipn_all2 by lia. reflexivity.
    + apply fsc_loop_refines. lia.
Qed.
Print Assumptions find_start_code_ix_refines.

Theorem find_start_code_ix_safe : forall (d : bytes) (from : nat),
  find_start_code_ix d from <> IxPanic.
Proof. intros. eapply ix_ok_not_panic, find_start_code_ix_refines. Qed.
Print Assumptions find_start_code_ix_safe.

(** bounds of the positions returned by the list-level find_start_code *)
Lemma is_sc4_length l : is_sc4 l = true -> (4 <= length l)%nat.
Proof. destruct l as [|a [|b [|c [|e l']]]]; cbn [is_sc4 length]; try discriminate. lia. Qed.
Lemma is_sc3_length l : is_sc3 l = true -> (3 <= length l)%nat.
Proof. destruct l as [|a [|b [|c l']]]; cbn [is_sc3 length]; try discriminate. lia. Qed.

Lemma fsc_bounds (l : bytes) : forall pos p k, fsc l pos = Some (p, k) ->
  (pos <= p)%nat /\ (p + k <= pos + length l)%nat /\ (3 <= k)%nat.
Proof.
  induction l as [|a l IH]; intros pos p k H; [discriminate|].
  rewrite fsc_cons' in H.
  destruct (is_sc4 (a :: l)) eqn:E4.
  - apply is_sc4_length in E4. injection H as <- <-. lia.
  - destruct (is_sc3 (a :: l)) eqn:E3.
    + apply is_sc3_length in E3. injection H as <- <-. lia.
    + apply IH in H. cbn [length]. lia.
Qed.

Lemma find_start_code_bounds (d : bytes) c p k : find_start_code d c = Some (p, k) ->
  (c <= p)%nat /\ (p + k <= length d)%nat /\ (3 <= k)%nat.
Proof.
  unfold find_start_code. intros H.
  destruct (Nat.le_gt_cases (length d) c) as [Hc|Hc].
  - rewrite skipn_all2 in H by lia. discriminate.
  - apply fsc_bounds in H. rewrite skipn_length in H. lia.
Qed.

Theorem nal_next_ix_refines : forall (d : bytes) (cursor : nat),
  nal_next_ix d cursor = IxOk (nal_next d cursor).
Proof.
  intros d c. unfold nal_next_ix, nal_next.
  rewrite find_start_code_ix_refines. ixs.
  destruct (find_start_code d c) as [[p l]|] eqn:E1; [|reflexivity].
  apply find_start_code_bounds in E1.
  rewrite find_start_code_ix_refines. ixs.
  destruct (find_start_code d (p + l)) as [[np nl]|] eqn:E2.
  - apply find_start_code_bounds in E2. rewrite slice_ok by lia. reflexivity.
  - rewrite slice_ok by lia. reflexivity.
Qed.
Print Assumptions nal_next_ix_refines.

Theorem nal_next_ix_safe : forall (d : bytes) (cursor : nat), nal_next_ix d cursor <> IxPanic.
Proof. intros. eapply ix_ok_not_panic, nal_next_ix_refines. Qed.
Print Assumptions nal_next_ix_safe.

Lemma nal_next_progress (d : bytes) c nal c' : nal_next d c = Some (nal, c') ->
  (c + 3 <= c')%nat /\ (c' <= length d)%nat.
Proof.
  unfold nal_next. intros H.
  destruct (find_start_code d c) as [[p l]|] eqn:E1; [|discriminate].
  apply find_start_code_bounds in E1.
  destruct (find_start_code d (p + l)) as [[np nl]|] eqn:E2.
  - apply find_start_code_bounds in E2. injection H as _ <-. lia.
  - injection H as _ <-. lia.
Qed.

(** the [for nal in AnnexBNalIter::new(data)] loop against a fold over the
    list-level [nal_iter] *)
Fixpoint fold_brk {St A} (f : St -> A -> St * bool) (s : St) (l : list A) : St :=
  match l with
  | [] => s
  | x :: t => let '(s', brk) := f s x in if brk then s' else fold_brk f s' t
  end.

Lemma nal_for_ix_refines {St} (body : St -> bytes -> ix (St * bool)) (pure : St -> bytes -> St * bool)
  (Hb : forall s nal, body s nal = IxOk (pure s nal)) :
  forall fuel (d : bytes) c s, (length d - c < fuel)%nat ->
    nal_for_ix fuel d c body s = IxOk (fold_brk pure s (nal_iter_f fuel d c)).
Proof.
  induction fuel as [|f IH]; intros d c s Hf; [lia|].
  cbn [nal_for_ix nal_iter_f]. rewrite nal_next_ix_refines. ixs.
  destruct (nal_next d c) as [[nal c']|] eqn:E; [|reflexivity].
  apply nal_next_progress in E.
  rewrite Hb. ixs. cbn [fold_brk].
  destruct (pure s nal) as [s' brk]. destruct brk; [reflexivity|].
  apply IH. lia.
Qed.

Lemma nal_loop_ix_refines {St} (body : St -> bytes -> ix (St * bool)) (pure : St -> bytes -> St * bool)
  (Hb : forall s nal, body s nal = IxOk (pure s nal)) (d : bytes) (s : St) :
  nal_loop_ix d body s = IxOk (fold_brk pure s (nal_iter d)).
Proof. unfold nal_loop_ix, nal_iter. apply nal_for_ix_refines; [exact Hb|lia]. Qed.

Theorem nal_iter_ix_refines : forall d : bytes, nal_iter_ix d = IxOk (nal_iter d).
Proof.
  intros d. unfold nal_iter_ix.
  rewrite (nal_loop_ix_refines _ (fun acc nal => (acc ++ [nal], false))) by reflexivity.
  f_equal. generalize (nal_iter d) as l. 
  assert (G : forall (l acc : list bytes), fold_brk (fun acc nal => (acc ++ [nal], false)) acc l = acc ++ l).
  { induction l as [|x l IH]; intros acc; cbn [fold_brk]; [now rewrite app_nil_r|].
    rewrite IH, <- app_assoc. reflexivity. }
  intros l. apply (G l []).
Qed.
Print Assumptions nal_iter_ix_refines.

Theorem nal_iter_ix_safe : forall d : bytes, nal_iter_ix d <> IxPanic.
Proof. intros. eapply ix_ok_not_panic, nal_iter_ix_refines. Qed.
Print Assumptions nal_iter_ix_safe.

Definition avcc_step (out nal : bytes) : bytes * bool :=
  (if is_empty nal then out else out ++ be32 (len nal) ++ nal, false).

Lemma fold_avcc_step (l : list bytes) : forall out,
  fold_brk avcc_step out l = out ++ len_prefixed (filter nonempty l).
Proof.
  induction l as [|x l IH]; intros out; cbn [fold_brk avcc_step filter].
  - unfold len_prefixed. cbn [map concat]. now rewrite app_nil_r.
  - rewrite IH. destruct x as [|b x]; cbn [is_empty nonempty]; [reflexivity|].
    unfold len_prefixed. cbn [map concat]. now rewrite <- !app_assoc.
Qed.

Theorem annexb_to_avcc_ix_refines : forall d : bytes, annexb_to_avcc_ix d = IxOk (annexb_to_avcc d).
Proof.
  intros d. unfold annexb_to_avcc_ix, annexb_to_avcc.
  rewrite (nal_loop_ix_refines _ avcc_step).
  2:{ intros s nal. unfold avcc_step. destruct (is_empty nal); reflexivity. }
  ixs. rewrite fold_avcc_step. cbn [app].
  destruct (len_prefixed (filter nonempty (nal_iter d))) as [|o out]; destruct d as [|b d]; reflexivity.
Qed.
Print Assumptions annexb_to_avcc_ix_refines.

Theorem annexb_to_avcc_ix_safe : forall d : bytes, annexb_to_avcc_ix d <> IxPanic.
Proof. intros. eapply ix_ok_not_panic, annexb_to_avcc_ix_refines. Qed.
Print Assumptions annexb_to_avcc_ix_safe.

Theorem hevc_annexb_to_hvcc_ix_refines : forall d : bytes,
  hevc_annexb_to_hvcc_ix d = IxOk (hevc_annexb_to_hvcc d).
Proof. exact annexb_to_avcc_ix_refines. Qed.
Print Assumptions hevc_annexb_to_hvcc_ix_refines.

Theorem hevc_annexb_to_hvcc_ix_safe : forall d : bytes, hevc_annexb_to_hvcc_ix d <> IxPanic.
Proof. intros. eapply ix_ok_not_panic, hevc_annexb_to_hvcc_ix_refines. Qed.
Print Assumptions hevc_annexb_to_hvcc_ix_safe.

(** * G2: ADTS *)
Theorem create_hex_dump_ix_refines : forall (frame : bytes) (offset len : nat),
  create_hex_dump_ix frame offset len =
  IxOk (let start := Nat.min (offset - 8) (length frame) in
        let end_ := Nat.min (offset + len + 8) (length frame) in
        firstn (end_ - start) (skipn start frame)).
Proof. intros. unfold create_hex_dump_ix. cbv zeta. apply slice_ok; lia. Qed.
Print Assumptions create_hex_dump_ix_refines.

Theorem create_hex_dump_ix_safe : forall (frame : bytes) (offset len : nat),
  create_hex_dump_ix frame offset len <> IxPanic.
Proof. intros. eapply ix_ok_not_panic, create_hex_dump_ix_refines. Qed.
Print Assumptions create_hex_dump_ix_safe.

Lemma adts_fail_ok frame o l e : adts_fail frame o l e = IxOk (AdtsErr e).
Proof. unfold adts_fail. rewrite create_hex_dump_ix_refines. reflexivity. Qed.

Theorem adts_to_raw_ix_refines : forall frame : bytes, adts_to_raw_ix frame = IxOk (adts_to_raw frame).
Proof.
  intros frame. unfold adts_to_raw_ix.
  destruct (length frame <? 7)%nat eqn:E7.
  - rewrite adts_fail_ok. f_equal.
    destruct frame as [|b0 [|b1 [|b2 [|b3 [|b4 [|b5 [|b6 r]]]]]]]; try reflexivity.
    cbn [length] in E7. lia.
  - destruct frame as [|b0 [|b1 [|b2 [|b3 [|b4 [|b5 [|b6 r]]]]]]]; try (cbn [length] in E7; lia).
    unfold adts_to_raw, get. cbn [nth_error]. ixs.
    set (F := b0 :: b1 :: b2 :: b3 :: b4 :: b5 :: b6 :: r) in *.
    clear E7. assert (HF : (7 <= length F)%nat) by (subst F; cbn [length]; lia).
    clearbody F.
    destruct (negb (N.lor (N.shiftl b0 4) (shr b1 4) =? 4095)); [apply adts_fail_ok|].
    destruct (negb (band (shr b1 3) 1 =? 0)); [apply adts_fail_ok|].
    destruct (negb (band (shr b1 1) 3 =? 0)); [apply adts_fail_ok|].
    unfold adts_header_len, len.
    set (FL := adts_frame_length b3 b4 b5).
    destruct (band b1 1 =? 0); cbn [negb].
    + (* header_len = 9, CRC present *)
      destruct (length F <? 9)%nat eqn:E9.
      * rewrite adts_fail_ok. destruct (N.of_nat (length F) <? 9) eqn:E9'; [reflexivity|lia].
      * destruct (N.of_nat (length F) <? 9) eqn:E9'; [lia|].
        destruct (12 <? band (shr b2 2) 15); [apply adts_fail_ok|].
        destruct ((N.lor (N.shiftl (band b2 1) 2) (band (shr b3 6) 3) =? 0)
                  || (7 <? N.lor (N.shiftl (band b2 1) 2) (band (shr b3 6) 3))); [apply adts_fail_ok|].
        destruct (N.to_nat FL <=? 9)%nat eqn:EL.
        { rewrite adts_fail_ok. destruct (FL <=? 9) eqn:EL'; [reflexivity|lia]. }
        destruct (FL <=? 9) eqn:EL'; [lia|].
        destruct (length F <? N.to_nat FL)%nat eqn:EG.
        { rewrite adts_fail_ok. destruct (N.of_nat (length F) <? FL) eqn:EG'; [reflexivity|lia]. }
        destruct (N.of_nat (length F) <? FL) eqn:EG'; [lia|].
        destruct (9 + 2 <=? length F)%nat eqn:EC; ixs.
        { unfold csub. cbn [Nat.leb Nat.sub]. ixs.
          destruct (length F <? 7 + 2)%nat eqn:EC2; [lia|]. ixs.
          rewrite slice_ok by lia. ixs. do 2 f_equal.
          change (N.to_nat 9) with 9%nat. f_equal. lia. }
        rewrite slice_ok by lia. ixs. do 2 f_equal.
        change (N.to_nat 9) with 9%nat. f_equal. lia.
    + (* header_len = 7 *)
      destruct (length F <? 7)%nat eqn:E9; [lia|].
      destruct (N.of_nat (length F) <? 7) eqn:E9'; [lia|].
      destruct (12 <? band (shr b2 2) 15); [apply adts_fail_ok|].
      destruct ((N.lor (N.shiftl (band b2 1) 2) (band (shr b3 6) 3) =? 0)
                || (7 <? N.lor (N.shiftl (band b2 1) 2) (band (shr b3 6) 3))); [apply adts_fail_ok|].
      destruct (N.to_nat FL <=? 7)%nat eqn:EL.
      { rewrite adts_fail_ok. destruct (FL <=? 7) eqn:EL'; [reflexivity|lia]. }
      destruct (FL <=? 7) eqn:EL'; [lia|].
      destruct (length F <? N.to_nat FL)%nat eqn:EG.
      { rewrite adts_fail_ok. destruct (N.of_nat (length F) <? FL) eqn:EG'; [reflexivity|lia]. }
      destruct (N.of_nat (length F) <? FL) eqn:EG'; [lia|].
      ixs. rewrite slice_ok by lia. ixs. do 2 f_equal.
      change (N.to_nat 7) with 7%nat. f_equal. lia.
Qed.
Print Assumptions adts_to_raw_ix_refines.

Theorem adts_to_raw_ix_safe : forall frame : bytes, adts_to_raw_ix frame <> IxPanic.
Proof. intros. eapply ix_ok_not_panic, adts_to_raw_ix_refines. Qed.
Print Assumptions adts_to_raw_ix_safe.

(** * G3 *)
Theorem build_avcc_box_ix_refines : forall c : avc_config, build_avcc_box_ix c = IxOk (build_avcc_box c).
Proof.
  intros c. unfold build_avcc_box_ix, build_avcc_box, avcc_profile_bytes_ix.
  destruct (avc_sps c) as [|s0 [|s1 [|s2 [|s3 r]]]]; reflexivity.
Qed.
Print Assumptions build_avcc_box_ix_refines.
Theorem build_avcc_box_ix_safe : forall c : avc_config, build_avcc_box_ix c <> IxPanic.
Proof. intros. eapply ix_ok_not_panic, build_avcc_box_ix_refines. Qed.
Print Assumptions build_avcc_box_ix_safe.

Theorem avcc_profile_bytes_ix_safe : forall sps : bytes, avcc_profile_bytes_ix sps <> IxPanic.
Proof. intros sps. unfold avcc_profile_bytes_ix. destruct sps as [|s0 [|s1 [|s2 [|s3 r]]]]; discriminate. Qed.
Print Assumptions avcc_profile_bytes_ix_safe.

Theorem hevc_nal_type_ix_refines : forall nal : bytes, hevc_nal_type_ix nal = IxOk (hevc_nal_type nal).
Proof. intros [|b nal]; reflexivity. Qed.
Print Assumptions hevc_nal_type_ix_refines.
Theorem hevc_nal_type_ix_safe : forall nal : bytes, hevc_nal_type_ix nal <> IxPanic.
Proof. intros. eapply ix_ok_not_panic, hevc_nal_type_ix_refines. Qed.
Print Assumptions hevc_nal_type_ix_safe.

Lemma hevc_nal_type_le (nal : bytes) : (hevc_nal_type nal <=? 63) = true.
Proof. destruct nal as [|b nal]; cbn [hevc_nal_type]; [reflexivity|]. pose proof (band63 (shr b 1)). lia. Qed.

Definition kf_step (p : bytes -> bool) (_ : bool) (nal : bytes) : bool * bool :=
  if is_empty nal then (false, false) else if p nal then (true, true) else (false, false).

Lemma fold_kf_step p (l : list bytes) :
  fold_brk (kf_step p) false l = existsb p (filter nonempty l).
Proof.
  induction l as [|x l IH]; cbn [fold_brk filter]; [reflexivity|].
  unfold kf_step at 1.
  destruct x as [|b x]; cbn [is_empty nonempty existsb]; [exact IH|].
  destruct (p (b :: x)); cbn [orb]; [reflexivity|exact IH].
Qed.

Theorem is_h264_keyframe_ix_refines : forall d : bytes, is_h264_keyframe_ix d = IxOk (is_h264_keyframe d).
Proof.
  intros d. unfold is_h264_keyframe_ix, is_h264_keyframe.
  rewrite (nal_loop_ix_refines _ (kf_step (fun n => h264_nal_type n =? 5))).
  - now rewrite fold_kf_step.
  - intros s [|b nal]; [reflexivity|]. unfold kf_step. cbn [is_empty get nth_error h264_nal_type]. ixs.
    destruct (band b 31 =? 5); reflexivity.
Qed.
Print Assumptions is_h264_keyframe_ix_refines.
Theorem is_h264_keyframe_ix_safe : forall d : bytes, is_h264_keyframe_ix d <> IxPanic.
Proof. intros. eapply ix_ok_not_panic, is_h264_keyframe_ix_refines. Qed.
Print Assumptions is_h264_keyframe_ix_safe.

Theorem is_hevc_keyframe_ix_refines : forall d : bytes, is_hevc_keyframe_ix d = IxOk (is_hevc_keyframe d).
Proof.
  intros d. unfold is_hevc_keyframe_ix, is_hevc_keyframe.
  destruct d as [|b0 d]; [reflexivity|]. cbn [is_empty]. ixs.
  rewrite (nal_loop_ix_refines _ (kf_step (fun n => is_hevc_keyframe_nal_type (hevc_nal_type n)))).
  - now rewrite fold_kf_step.
  - intros s nal. unfold kf_step. rewrite hevc_nal_type_ix_refines. ixs.
    destruct (is_empty nal); [reflexivity|].
    rewrite hevc_nal_type_le. ixs.
    destruct (is_hevc_keyframe_nal_type (hevc_nal_type nal)); reflexivity.
Qed.
Print Assumptions is_hevc_keyframe_ix_refines.
Theorem is_hevc_keyframe_ix_safe : forall d : bytes, is_hevc_keyframe_ix d <> IxPanic.
Proof. intros. eapply ix_ok_not_panic, is_hevc_keyframe_ix_refines. Qed.
Print Assumptions is_hevc_keyframe_ix_safe.

Definition or_else {A} (a b : option A) : option A := match a with Some _ => a | None => b end.

Lemma find_nonempty (p : bytes -> bool) (l : list bytes) (x : bytes) :
  find p (filter nonempty l) = Some x -> is_empty x = false.
Proof.
  intros H. apply find_some in H. destruct H as [H _]. apply filter_In in H.
  rewrite is_empty_nonempty. destruct H as [_ ->]. reflexivity.
Qed.

Definition avc_step (st : option bytes * option bytes) (nal : bytes) : (option bytes * option bytes) * bool :=
  let '(sps, pps) := st in
  if is_empty nal then (st, false)
  else
    let t := h264_nal_type nal in
    let st' := if (t =? 7) && negb (is_some sps) then (Some nal, pps)
               else if (t =? 8) && negb (is_some pps) then (sps, Some nal)
               else st in
    (st', is_some (fst st') && is_some (snd st')).

Lemma fold_avc_step (l : list bytes) : forall sps pps,
  fold_brk avc_step (sps, pps) l =
  (or_else sps (find (fun n => h264_nal_type n =? 7) (filter nonempty l)),
   or_else pps (find (fun n => h264_nal_type n =? 8) (filter nonempty l))).
Proof.
  induction l as [|x l IH]; intros sps pps; [destruct sps, pps; reflexivity|].
  cbn [fold_brk filter]. unfold avc_step at 1.
  destruct x as [|b x]; cbn [is_empty nonempty]; [apply IH|].
  cbn [find]. cbv zeta. 
  destruct (h264_nal_type (b :: x) =? 7) eqn:E7.
  - assert (E8 : (h264_nal_type (b :: x) =? 8) = false) by lia. rewrite E8.
    destruct sps as [s|], pps as [p|]; cbn [andb negb is_some fst snd or_else]; try rewrite IH; reflexivity.
  - destruct (h264_nal_type (b :: x) =? 8) eqn:E8;
    destruct sps as [s|], pps as [p|]; cbn [andb negb is_some fst snd or_else]; try rewrite IH; reflexivity.
Qed.

Theorem extract_avc_config_ix_refines : forall d : bytes,
  extract_avc_config_ix d = IxOk (extract_avc_config d).
Proof.
  intros d. unfold extract_avc_config_ix, extract_avc_config.
  destruct d as [|b0 d]; [reflexivity|]. cbn [is_empty].
  rewrite (nal_loop_ix_refines _ avc_step).
  - rewrite fold_avc_step. ixs. cbn [or_else]. unfold first_of.
    destruct (find (fun n => h264_nal_type n =? 7) _) as [s|] eqn:Es; [|reflexivity].
    destruct (find (fun n => h264_nal_type n =? 8) _) as [p|] eqn:Ep; [|reflexivity].
    apply find_nonempty in Es. apply find_nonempty in Ep. rewrite Es, Ep. reflexivity.
  - intros [sps pps] [|b nal]; [reflexivity|].
    unfold avc_step. cbn [is_empty get nth_error h264_nal_type]. ixs.
    assert (H : (band b 31 <=? 31) = true) by (pose proof (band31 b); lia).
    rewrite H. ixs. reflexivity.
Qed.
Print Assumptions extract_avc_config_ix_refines.
Theorem extract_avc_config_ix_safe : forall d : bytes, extract_avc_config_ix d <> IxPanic.
Proof. intros. eapply ix_ok_not_panic, extract_avc_config_ix_refines. Qed.
Print Assumptions extract_avc_config_ix_safe.

Definition hevc_step (st : option bytes * option bytes * option bytes) (nal : bytes)
  : (option bytes * option bytes * option bytes) * bool :=
  let '(vps, sps, pps) := st in
  if is_empty nal then (st, false)
  else
    let t := hevc_nal_type nal in
    let st' := if (t =? 32) && negb (is_some vps) then (Some nal, sps, pps)
               else if (t =? 33) && negb (is_some sps) then (vps, Some nal, pps)
               else if (t =? 34) && negb (is_some pps) then (vps, sps, Some nal)
               else st in
    let '(v', s', p') := st' in
    (st', is_some v' && is_some s' && is_some p').

Lemma fold_hevc_step (l : list bytes) : forall vps sps pps,
  fold_brk hevc_step (vps, sps, pps) l =
  (or_else vps (find (fun n => hevc_nal_type n =? 32) (filter nonempty l)),
   or_else sps (find (fun n => hevc_nal_type n =? 33) (filter nonempty l)),
   or_else pps (find (fun n => hevc_nal_type n =? 34) (filter nonempty l))).
Proof.
  induction l as [|x l IH]; intros vps sps pps; [destruct vps, sps, pps; reflexivity|].
  cbn [fold_brk filter]. unfold hevc_step at 1.
  destruct x as [|b x]; cbn [is_empty nonempty]; [apply IH|].
  cbn [find]. cbv zeta.
  destruct (hevc_nal_type (b :: x) =? 32) eqn:E2.
  - assert (E3 : (hevc_nal_type (b :: x) =? 33) = false) by lia.
    assert (E4 : (hevc_nal_type (b :: x) =? 34) = false) by lia. rewrite E3, E4.
    destruct vps as [v|], sps as [s|], pps as [p|]; cbn [andb negb is_some or_else]; try rewrite IH; reflexivity.
  - destruct (hevc_nal_type (b :: x) =? 33) eqn:E3.
    + assert (E4 : (hevc_nal_type (b :: x) =? 34) = false) by lia. rewrite E4.
      destruct vps as [v|], sps as [s|], pps as [p|]; cbn [andb negb is_some or_else]; try rewrite IH; reflexivity.
    + destruct (hevc_nal_type (b :: x) =? 34) eqn:E4;
      destruct vps as [v|], sps as [s|], pps as [p|]; cbn [andb negb is_some or_else]; try rewrite IH; reflexivity.
Qed.

Theorem extract_hevc_config_ix_refines : forall d : bytes,
  extract_hevc_config_ix d = IxOk (extract_hevc_config d).
Proof.
  intros d. unfold extract_hevc_config_ix, extract_hevc_config.
  destruct d as [|b0 d]; [reflexivity|]. cbn [is_empty].
  rewrite (nal_loop_ix_refines _ hevc_step).
  - rewrite fold_hevc_step. ixs. cbn [or_else]. unfold first_of.
    destruct (find (fun n => hevc_nal_type n =? 32) _) as [v|] eqn:Ev; [|reflexivity].
    destruct (find (fun n => hevc_nal_type n =? 33) _) as [s|] eqn:Es; [|reflexivity].
    destruct (find (fun n => hevc_nal_type n =? 34) _) as [p|] eqn:Ep; [|reflexivity].
    apply find_nonempty in Ev. apply find_nonempty in Es. apply find_nonempty in Ep.
    rewrite Ev, Es, Ep. reflexivity.
  - intros [[vps sps] pps] nal. unfold hevc_step. rewrite hevc_nal_type_ix_refines.
    destruct (is_empty nal); [reflexivity|]. ixs. rewrite hevc_nal_type_le. ixs. cbv zeta.
    destruct (if _ : bool then _ else _) as [[v' s'] p']. reflexivity.
Qed.
Print Assumptions extract_hevc_config_ix_refines.
Theorem extract_hevc_config_ix_safe : forall d : bytes, extract_hevc_config_ix d <> IxPanic.
Proof. intros. eapply ix_ok_not_panic, extract_hevc_config_ix_refines. Qed.
Print Assumptions extract_hevc_config_ix_safe.

(** * G4: Opus *)
Theorem opus_frame_count_ix_refines : forall packet : bytes,
  opus_frame_count_ix packet = IxOk (opus_frame_count packet).
Proof.
  intros [|toc rest]; [reflexivity|].
  unfold opus_frame_count_ix, opus_frame_count. cbn [is_empty get nth_error]. ixs.
  pose proof (band3 toc) as H3.
  destruct (3 <? band toc 3) eqn:E; [lia|].
  destruct (band toc 3 =? 0) eqn:E0; [reflexivity|].
  destruct (band toc 3 =? 1) eqn:E1; [reflexivity|].
  destruct (band toc 3 =? 2) eqn:E2; [reflexivity|].
  destruct (band toc 3 =? 3) eqn:E3'; [|lia].
  destruct rest as [|fc rest]; [reflexivity|].
  cbn [length Nat.ltb Nat.leb]. unfold get. cbn [nth_error]. ixs.
  destruct (band fc 63 =? 0); reflexivity.
Qed.
Print Assumptions opus_frame_count_ix_refines.
Theorem opus_frame_count_ix_safe : forall packet : bytes, opus_frame_count_ix packet <> IxPanic.
Proof. intros. eapply ix_ok_not_panic, opus_frame_count_ix_refines. Qed.
Print Assumptions opus_frame_count_ix_safe.

Lemma opus_duration_le toc d : opus_frame_duration_from_toc toc = Some d -> d <= 2880.
Proof.
  unfold opus_frame_duration_from_toc.
  repeat match goal with |- context [if ?c then _ else _] => destruct c end;
  intros H; inversion H; lia.
Qed.

Theorem opus_packet_samples_ix_refines : forall packet : bytes,
  opus_packet_samples_ix packet = IxOk (opus_packet_samples packet).
Proof.
  intros packet. unfold opus_packet_samples_ix, opus_packet_samples.
  rewrite opus_frame_count_ix_refines.
  destruct packet as [|toc rest]; [reflexivity|].
  cbn [is_empty get nth_error]. ixs.
  destruct (opus_frame_duration_from_toc toc) as [d|] eqn:Ed; [|reflexivity].
  apply opus_duration_le in Ed.
  destruct (opus_frame_count (toc :: rest)) as [[c vbr]|]; [|reflexivity].
  destruct ((c <? 1) || (63 <? c)) eqn:Ec; [reflexivity|].
  unfold cmul, U32_MOD.
  assert (Hm : d * c <= 2880 * 63) by (apply N.mul_le_mono; lia).
  destruct (d * c <? 4294967296) eqn:Em; [|lia]. ixs. destruct (d * c =? 0); reflexivity.
Qed.
Print Assumptions opus_packet_samples_ix_refines.
Theorem opus_packet_samples_ix_safe : forall packet : bytes, opus_packet_samples_ix packet <> IxPanic.
Proof. intros. eapply ix_ok_not_panic, opus_packet_samples_ix_refines. Qed.
Print Assumptions opus_packet_samples_ix_safe.

Theorem is_valid_opus_packet_ix_refines : forall packet : bytes,
  is_valid_opus_packet_ix packet = IxOk (is_valid_opus_packet packet).
Proof.
  intros packet. unfold is_valid_opus_packet_ix, is_valid_opus_packet.
  rewrite opus_packet_samples_ix_refines.
  destruct packet as [|toc rest]; [reflexivity|]. cbn [is_empty]. ixs.
  destruct (opus_packet_samples (toc :: rest)); reflexivity.
Qed.
Print Assumptions is_valid_opus_packet_ix_refines.
Theorem is_valid_opus_packet_ix_safe : forall packet : bytes, is_valid_opus_packet_ix packet <> IxPanic.
Proof. intros. eapply ix_ok_not_panic, is_valid_opus_packet_ix_refines. Qed.
Print Assumptions is_valid_opus_packet_ix_safe.

(** * G5: VP9 *)
Theorem is_vp9_keyframe_ix_refines : forall f : bytes, is_vp9_keyframe_ix f = IxOk (is_vp9_keyframe f).
Proof.
  intros f. unfold is_vp9_keyframe_ix, is_vp9_keyframe.
  destruct f as [|a [|b [|c rest]]]; try reflexivity.
  cbn [length Nat.ltb Nat.leb]. unfold get_ne, get. cbn [nth_error vp9_marker_ok]. ixs.
  destruct (a =? 73); ixs; [|reflexivity].
  destruct (b =? 131); ixs; [|reflexivity].
  destruct (c =? 66); ixs; [|reflexivity].
  destruct rest as [|b3 rest]; [reflexivity|]. ixs.
  assert (H : (band (shr b3 6) 3 <=? 3) = true) by (pose proof (band3 (shr b3 6)); lia).
  rewrite H. ixs.
  destruct (negb (band (shr b3 5) 1 =? 0)); reflexivity.
Qed.
Print Assumptions is_vp9_keyframe_ix_refines.
Theorem is_vp9_keyframe_ix_safe : forall f : bytes, is_vp9_keyframe_ix f <> IxPanic.
Proof. intros. eapply ix_ok_not_panic, is_vp9_keyframe_ix_refines. Qed.
Print Assumptions is_vp9_keyframe_ix_safe.

Theorem is_valid_vp9_frame_ix_refines : forall f : bytes,
  is_valid_vp9_frame_ix f = IxOk (is_valid_vp9_frame f).
Proof.
  intros f. unfold is_valid_vp9_frame_ix, is_valid_vp9_frame.
  destruct f as [|a [|b [|c rest]]]; try reflexivity.
  cbn [length Nat.ltb Nat.leb]. unfold get_eq, get. cbn [nth_error vp9_marker_ok]. ixs.
  destruct (a =? 73); ixs; [|reflexivity].
  destruct (b =? 131); ixs; reflexivity.
Qed.
Print Assumptions is_valid_vp9_frame_ix_refines.
Theorem is_valid_vp9_frame_ix_safe : forall f : bytes, is_valid_vp9_frame_ix f <> IxPanic.
Proof. intros. eapply ix_ok_not_panic, is_valid_vp9_frame_ix_refines. Qed.
Print Assumptions is_valid_vp9_frame_ix_safe.

(* the shift amount stays below 32: on entry shift < 32, and the loop is re-entered
   only after the [shift >= 32] test failed; 6 rounds of fuel are never exhausted *)
Lemma vp9_var_uint_loop_refines : forall fuel (data : bytes) offset value shift,
  shift < 32 -> 32 <= shift + 7 * N.of_nat fuel ->
  vp9_var_uint_loop_ix fuel data offset value shift = IxOk (vp9_var_uint_f fuel data offset value shift).
Proof.
  induction fuel as [|f IH]; intros data offset value shift Hs Hf; [lia|].
  cbn [vp9_var_uint_loop_ix vp9_var_uint_f]. unfold nth_byte.
  destruct (length data <=? offset)%nat eqn:E.
  - assert (Hn : nth_error data offset = None) by (apply nth_error_None; lia).
    rewrite Hn. reflexivity.
  - destruct (get_ok data offset ltac:(lia)) as (a & Ga & Na). rewrite Ga, Na. ixs.
    unfold cshl. destruct (shift <? 32) eqn:E32; [|lia]. ixs.
    change (2 ^ 32) with 4294967296. unfold u32.
    replace (offset + 1)%nat with (S offset) by lia.
    destruct (band a 128 =? 0); [reflexivity|].
    destruct (32 <=? shift + 7) eqn:E2; [reflexivity|].
    apply IH; lia.
Qed.

Theorem parse_vp9_var_uint_ix_refines : forall (data : bytes) (offset : nat),
  parse_vp9_var_uint_ix data offset = IxOk (parse_vp9_var_uint data offset).
Proof. intros. apply vp9_var_uint_loop_refines; cbn; lia. Qed.
Print Assumptions parse_vp9_var_uint_ix_refines.
Theorem parse_vp9_var_uint_ix_safe : forall (data : bytes) (offset : nat),
  parse_vp9_var_uint_ix data offset <> IxPanic.
Proof. intros. eapply ix_ok_not_panic, parse_vp9_var_uint_ix_refines. Qed.
Print Assumptions parse_vp9_var_uint_ix_safe.

Theorem parse_vp9_color_config_ix_refines : forall (data : bytes) (offset : nat),
  parse_vp9_color_config_ix data offset = IxOk (Some (parse_vp9_color_config data offset)).
Proof.
  intros data offset. unfold parse_vp9_color_config_ix, parse_vp9_color_config, nth_byte.
  destruct (length data <=? offset)%nat eqn:E.
  - assert (Hn : nth_error data offset = None) by (apply nth_error_None; lia).
    rewrite Hn. reflexivity.
  - destruct (get_ok data offset ltac:(lia)) as (a & Ga & Na). rewrite Ga, Na. ixs.
    replace (offset + 1)%nat with (S offset) by lia.
    destruct (band (shr a 1) 7 =? 0) eqn:Ecs; ixs.
    + destruct (band a 1 =? 0); reflexivity.
    + destruct (length data <=? S offset)%nat eqn:E2.
      * assert (Hn : nth_error data (S offset) = None) by (apply nth_error_None; lia).
        rewrite Hn. ixs. destruct (band a 1 =? 0); reflexivity.
      * destruct (get_ok data (S offset) ltac:(lia)) as (a' & Ga' & Na'). rewrite Ga', Na'. ixs.
        destruct (band a 1 =? 0); reflexivity.
Qed.
Print Assumptions parse_vp9_color_config_ix_refines.
Theorem parse_vp9_color_config_ix_safe : forall (data : bytes) (offset : nat),
  parse_vp9_color_config_ix data offset <> IxPanic.
Proof. intros. eapply ix_ok_not_panic, parse_vp9_color_config_ix_refines. Qed.
Print Assumptions parse_vp9_color_config_ix_safe.

Theorem extract_vp9_config_ix_refines : forall k : bytes,
  extract_vp9_config_ix k = IxOk (extract_vp9_config k).
Proof.
  intros k. unfold extract_vp9_config_ix, extract_vp9_config.
  destruct k as [|a [|b [|c rest]]]; try reflexivity.
  set (K := a :: b :: c :: rest).
  assert (HK3 : (length K <? 3)%nat = false) by (subst K; cbn [length]; lia). rewrite HK3.
  assert (G0 : get K 0 = IxOk a) by reflexivity.
  assert (G1 : get K 1 = IxOk b) by reflexivity.
  assert (G2 : get K 2 = IxOk c) by reflexivity.
  assert (HM : vp9_marker_ok K = (a =? 73) && (b =? 131) && (c =? 66)) by reflexivity.
  unfold get_ne, get_eq. rewrite G0, G1, G2, HM. clearbody K. ixs.
  destruct (a =? 73); ixs; [|reflexivity].
  destruct (b =? 131); ixs; [|reflexivity].
  destruct (c =? 66); ixs; [|reflexivity].
  destruct (length K <? 6)%nat eqn:E6.
  { assert (HL : (len K <? 6) = true) by (unfold len; lia). rewrite HL. reflexivity. }
  assert (HL : (len K <? 6) = false) by (unfold len; lia). rewrite HL.
  destruct (get_ok K 3 ltac:(lia)) as (b3 & G3 & N3). unfold nth_byte. rewrite G3, N3. ixs.
  assert (H : (band (shr b3 6) 3 <=? 3) = true) by (pose proof (band3 (shr b3 6)); lia).
  rewrite H. ixs.
  destruct (negb (band (shr b3 5) 1 =? 0) || negb (band (shr b3 4) 1 =? 0)); [reflexivity|].
  cbn [Nat.add].
  assert (G : forall off1 : nat,
    (let* r1 := parse_vp9_var_uint_ix K off1 in
     match r1 with
     | None => IxOk None
     | Some (width, offset) =>
         let* r2 := parse_vp9_var_uint_ix K offset in
         match r2 with
         | None => IxOk None
         | Some (height, offset0) =>
             let* render :=
               (if (offset0 + 1 <? length K)%nat then
                  let* b := get K offset0 in
                  if negb (band b 12 =? 0) then
                    let* r3 := parse_vp9_var_uint_ix K (offset0 + 1) in
                    match r3 with
                    | None => IxOk None
                    | Some (rw, offset1) =>
                        let* r4 := parse_vp9_var_uint_ix K offset1 in
                        match r4 with
                        | None => IxOk None
                        | Some (rh, offset2) => IxOk (Some (rw, rh, offset2))
                        end
                    end
                  else IxOk (Some (width, height, offset0))
                else IxOk (Some (width, height, offset0))) in
             match render with
             | None => IxOk None
             | Some (rw, rh, offset1) =>
                 let* cc := parse_vp9_color_config_ix K offset1 in
                 match cc with
                 | None => IxOk None
                 | Some (bd, cs, tf, mc, fr) =>
                     IxOk (Some {| vp9_width := rw; vp9_height := rh; vp9_profile := band (shr b3 6) 3;
                                   vp9_bit_depth := bd; vp9_color_space := cs;
                                   vp9_transfer_function := tf; vp9_matrix_coefficients := mc;
                                   vp9_level := 0; vp9_full_range_flag := fr |})
                 end
             end
         end
     end) =
    IxOk (let? (w, o2) := parse_vp9_var_uint K off1 in
          let? (h, o3) := parse_vp9_var_uint K o2 in
          let render :=
            if (S o3 <? length K)%nat then
              match nth_error K o3 with
              | Some b => if negb (band b 12 =? 0) then
                            let? (rw, o4) := parse_vp9_var_uint K (S o3) in
                            let? (rh, o5) := parse_vp9_var_uint K o4 in
                            Some (rw, rh, o5)
                          else Some (w, h, o3)
              | None => Some (w, h, o3)
              end
            else Some (w, h, o3) in
          let? (rw, rh, o) := render in
          let '(bd, cs, tf, mc, fr) := parse_vp9_color_config K o in
          Some {| vp9_width := rw; vp9_height := rh; vp9_profile := band (shr b3 6) 3; vp9_bit_depth := bd;
                  vp9_color_space := cs; vp9_transfer_function := tf;
                  vp9_matrix_coefficients := mc; vp9_level := 0; vp9_full_range_flag := fr |})).
  { intros off1.
    assert (CC : forall rw rh o,
      (let* cc := parse_vp9_color_config_ix K o in
       match cc with
       | None => IxOk None
       | Some (bd, cs, tf, mc, fr) =>
           IxOk (Some {| vp9_width := rw; vp9_height := rh; vp9_profile := band (shr b3 6) 3;
                         vp9_bit_depth := bd; vp9_color_space := cs;
                         vp9_transfer_function := tf; vp9_matrix_coefficients := mc;
                         vp9_level := 0; vp9_full_range_flag := fr |})
       end) =
      IxOk (let '(bd, cs, tf, mc, fr) := parse_vp9_color_config K o in
            Some {| vp9_width := rw; vp9_height := rh; vp9_profile := band (shr b3 6) 3; vp9_bit_depth := bd;
                    vp9_color_space := cs; vp9_transfer_function := tf;
                    vp9_matrix_coefficients := mc; vp9_level := 0; vp9_full_range_flag := fr |})).
    { intros rw rh o. rewrite parse_vp9_color_config_ix_refines. ixs.
      destruct (parse_vp9_color_config K o) as [[[[bd cs] tf] mc] fr]. reflexivity. }
    rewrite parse_vp9_var_uint_ix_refines. ixs.
    destruct (parse_vp9_var_uint K off1) as [[w o2]|]; cbn [opt_bind]; [|reflexivity].
    rewrite parse_vp9_var_uint_ix_refines. ixs.
    destruct (parse_vp9_var_uint K o2) as [[h o3]|]; cbn [opt_bind]; [|reflexivity].
    replace (o3 + 1)%nat with (S o3) by lia.
    destruct (S o3 <? length K)%nat eqn:E3.
    - destruct (get_ok K o3 ltac:(lia)) as (x & Gx & Nx). rewrite Gx, Nx. ixs.
      destruct (negb (band x 12 =? 0)).
      + rewrite parse_vp9_var_uint_ix_refines. ixs.
        destruct (parse_vp9_var_uint K (S o3)) as [[rw o4]|]; cbn [opt_bind]; [|reflexivity].
        rewrite parse_vp9_var_uint_ix_refines. ixs.
        destruct (parse_vp9_var_uint K o4) as [[rh o5]|]; cbn [opt_bind]; [|reflexivity].
        apply CC.
      + ixs. cbn [opt_bind]. apply CC.
    - ixs. cbn [opt_bind]. apply CC. }
  destruct (2 <=? band (shr b3 6) 3); cbn [andb].
  - destruct (length K <=? 6)%nat; ixs; [reflexivity|]. apply G.
  - ixs. apply G.
Qed.
Print Assumptions extract_vp9_config_ix_refines.
Theorem extract_vp9_config_ix_safe : forall k : bytes, extract_vp9_config_ix k <> IxPanic.
Proof. intros. eapply ix_ok_not_panic, extract_vp9_config_ix_refines. Qed.
Print Assumptions extract_vp9_config_ix_safe.

(** * G6: AV1 *)
Lemma lor_lt_pow2 a b k : a < 2 ^ k -> b < 2 ^ k -> N.lor a b < 2 ^ k.
Proof.
  intros Ha Hb.
  destruct (N.eq_dec (N.lor a b) 0) as [E|E]; [rewrite E; apply N.neq_0_lt_0, N.pow_nonzero; discriminate|].
  apply N.log2_lt_pow2; [lia|]. rewrite N.log2_lor.
  destruct (N.eq_dec a 0) as [Ea|Ea]; destruct (N.eq_dec b 0) as [Eb|Eb]; subst;
    try (rewrite N.lor_0_l in E); try (rewrite N.lor_0_r in E); try lia.
  - cbn [N.log2]. rewrite N.max_0_l. apply N.log2_lt_pow2; lia.
  - cbn [N.log2]. rewrite N.max_0_r. apply N.log2_lt_pow2; lia.
  - apply N.max_lub_lt; apply N.log2_lt_pow2; lia.
Qed.

Lemma leb_chunk_lt b shift : shift <= 49 -> N.shiftl (band b 127) shift < 2 ^ 56.
Proof.
  intros Hs. rewrite N.shiftl_mul_pow2. pose proof (band127 b) as Hb.
  assert (Hp : 2 ^ shift <= 2 ^ 49) by (apply N.pow_le_mono_r; lia).
  change (2 ^ 49) with 562949953421312 in Hp. change (2 ^ 56) with 72057594037927936.
  nia.
Qed.

(* the shift amount is 7 * (number of bytes consumed) <= 49 < 64, and nothing is
   shifted out of the u64 *)
Lemma leb128_loop_refines : forall fuel (data : bytes) i value shift,
  shift + 7 * N.of_nat fuel <= 56 ->
  leb128_loop_ix (firstn fuel data) i value shift = IxOk (leb128_f fuel data value shift i).
Proof.
  induction fuel as [|f IH]; intros data i value shift Hs; [reflexivity|].
  destruct data as [|b t]; [reflexivity|].
  cbn [firstn leb128_loop_ix leb128_f]. unfold cshl.
  destruct (shift <? 64) eqn:E; [|lia]. ixs.
  pose proof (leb_chunk_lt b shift ltac:(lia)) as Hc.
  rewrite N.mod_small by (change (2 ^ 64) with 18446744073709551616; change (2 ^ 56) with 72057594037927936 in Hc; lia).
  replace (i + 1)%nat with (S i) by lia.
  destruct (band b 128 =? 0); [reflexivity|].
  apply IH. lia.
Qed.

Theorem read_leb128_ix_refines : forall data : bytes, read_leb128_ix data = IxOk (read_leb128 data).
Proof. intros. apply leb128_loop_refines. cbn. lia. Qed.
Print Assumptions read_leb128_ix_refines.
Theorem read_leb128_ix_safe : forall data : bytes, read_leb128_ix data <> IxPanic.
Proof. intros. eapply ix_ok_not_panic, read_leb128_ix_refines. Qed.
Print Assumptions read_leb128_ix_safe.

Lemma leb128_f_bounds : forall fuel (data : bytes) value shift i v n,
  shift + 7 * N.of_nat fuel <= 56 -> value < 2 ^ 56 ->
  leb128_f fuel data value shift i = Some (v, n) ->
  v < 2 ^ 56 /\ (i < n)%nat /\ (n <= i + fuel)%nat /\ (n <= i + length data)%nat.
Proof.
  induction fuel as [|f IH]; intros data value shift i v n Hs Hv H; [discriminate|].
  destruct data as [|b t]; [discriminate|]. cbn [leb128_f] in H.
  pose proof (leb_chunk_lt b shift ltac:(lia)) as Hc.
  pose proof (lor_lt_pow2 _ _ _ Hv Hc) as Hl.
  destruct (band b 128 =? 0).
  - injection H as <- <-. cbn [length]. repeat split; first [exact Hl | lia].
  - apply IH in H; [|lia|exact Hl]. cbn [length]. lia.
Qed.

Lemma read_leb128_bounds (data : bytes) v n : read_leb128 data = Some (v, n) ->
  v < 2 ^ 56 /\ (1 <= n <= 8)%nat /\ (n <= length data)%nat.
Proof.
  unfold read_leb128. intros H. apply leb128_f_bounds in H; [lia|cbn; lia|].
  apply N.neq_0_lt_0, N.pow_nonzero. discriminate.
Qed.

Theorem parse_obu_header_ix_refines : forall data : bytes,
  parse_obu_header_ix data = IxOk (parse_obu_header data).
Proof.
  intros data. unfold parse_obu_header_ix, parse_obu_header.
  destruct data as [|h t]; [reflexivity|].
  cbn [is_empty]. unfold get. cbn [nth_error]. ixs.
  set (D := h :: t).
  assert (HD : (1 <= length D)%nat) by (subst D; cbn [length]; lia).
  clearbody D.
  destruct (negb (band h 128 =? 0)); [reflexivity|].
  assert (G : forall hs : nat, (hs <= 2)%nat -> (hs <= length D)%nat ->
    (if obu_has_size h then
       if (length D <=? hs)%nat then IxOk None
       else
         let* rest := slice_from D hs in
         let* r := read_leb128_ix rest in
         match r with
         | None => IxOk None
         | Some (size, leb_len) =>
             let* total := cadd USIZE_MOD (N.of_nat (hs + leb_len)) size in
             IxOk (Some {| obu_ty := obu_type h; obu_ext := obu_has_extension h;
                           obu_header_size := (hs + leb_len)%nat;
                           obu_payload_size := size; obu_total_size := total |})
         end
     else
       IxOk (Some {| obu_ty := obu_type h; obu_ext := obu_has_extension h; obu_header_size := hs;
                     obu_payload_size := N.of_nat (length D - hs);
                     obu_total_size := N.of_nat hs + N.of_nat (length D - hs) |})) =
    IxOk (if obu_has_size h then
            if (length D <=? hs)%nat then None
            else
              let? (size, leb) := read_leb128 (skipn hs D) in
              Some {| obu_ty := obu_type h; obu_ext := obu_has_extension h;
                      obu_header_size := (hs + leb)%nat;
                      obu_payload_size := size; obu_total_size := N.of_nat (hs + leb) + size |}
          else
            Some {| obu_ty := obu_type h; obu_ext := obu_has_extension h; obu_header_size := hs;
                    obu_payload_size := N.of_nat (length D - hs);
                    obu_total_size := N.of_nat hs + N.of_nat (length D - hs) |})).
  { intros hs Hhs Hl. destruct (obu_has_size h); [|reflexivity].
    destruct (length D <=? hs)%nat eqn:E; [reflexivity|].
    unfold slice_from. destruct (hs <=? length D)%nat eqn:E2; [|lia]. ixs.
    rewrite read_leb128_ix_refines. ixs.
    destruct (read_leb128 (skipn hs D)) as [[size leb]|] eqn:ER; cbn [opt_bind]; [|reflexivity].
    apply read_leb128_bounds in ER. change (2 ^ 56) with 72057594037927936 in ER.
    unfold cadd, USIZE_MOD.
    destruct (N.of_nat (hs + leb) + size <? 18446744073709551616) eqn:EA; [|lia].
    reflexivity. }
  destruct (obu_has_extension h) eqn:Eext; cbn [andb].
  - destruct (length D <? 2)%nat eqn:E2; ixs; [reflexivity|]. apply G; lia.
  - ixs. apply G; lia.
Qed.
Print Assumptions parse_obu_header_ix_refines.
Theorem parse_obu_header_ix_safe : forall data : bytes, parse_obu_header_ix data <> IxPanic.
Proof. intros. eapply ix_ok_not_panic, parse_obu_header_ix_refines. Qed.
Print Assumptions parse_obu_header_ix_safe.

(** ObuIter::next.  The list-level model iterates on the remaining suffix
    ([obu_iter_f]); [obu_next] is one step of it, phrased with a position. *)
Definition obu_next (data : bytes) (pos : nat) : option (obu_info * bytes * nat) :=
  let rest := skipn pos data in
  match rest with
  | [] => None
  | _ =>
      match parse_obu_header rest with
      | None => None
      | Some info =>
          if len rest <? obu_total_size info then None
          else Some (info, take (obu_total_size info) rest, (pos + N.to_nat (obu_total_size info))%nat)
      end
  end.

Lemma skipn_skipn_add {A} (l : list A) : forall a b, skipn a (skipn b l) = skipn (b + a) l.
Proof.
  induction l as [|x l IH]; intros a b; [now rewrite !skipn_nil|].
  destruct b as [|b]; [reflexivity|]. cbn [skipn Nat.add]. apply IH.
Qed.

Lemma obu_iter_f_next f (data : bytes) pos :
  obu_iter_f (S f) (skipn pos data) =
  match obu_next data pos with
  | None => []
  | Some (info, obu, pos') => (info, obu) :: obu_iter_f f (skipn pos' data)
  end.
Proof.
  cbn [obu_iter_f]. unfold obu_next.
  destruct (skipn pos data) as [|x r] eqn:E; [reflexivity|]. rewrite <- E.
  destruct (parse_obu_header (skipn pos data)) as [info|]; [|reflexivity].
  destruct (len (skipn pos data) <? obu_total_size info); [reflexivity|].
  unfold drop. rewrite skipn_skipn_add. reflexivity.
Qed.

Lemma parse_obu_header_props (data : bytes) info : parse_obu_header data = Some info ->
  1 <= obu_total_size info /\
  N.of_nat (obu_header_size info) <= obu_total_size info /\
  (obu_total_size info < 2 ^ 57 \/ obu_total_size info = len data).
Proof.
  unfold parse_obu_header. destruct data as [|h t]; [discriminate|].
  set (D := h :: t). assert (HD : (1 <= length D)%nat) by (subst D; cbn [length]; lia). clearbody D.
  destruct (negb (band h 128 =? 0)); [discriminate|].
  destruct (obu_has_extension h && (length D <? 2)%nat) eqn:E1; [discriminate|].
  change (2 ^ 57) with 144115188075855872.
  destruct (obu_has_size h).
  - destruct (length D <=? (if obu_has_extension h then 2 else 1))%nat; [discriminate|].
    destruct (read_leb128 _) as [[sz lb]|] eqn:ER; cbn [opt_bind]; [|discriminate].
    apply read_leb128_bounds in ER. change (2 ^ 56) with 72057594037927936 in ER.
    intros H. inversion H. cbn [obu_total_size obu_header_size]. destruct (obu_has_extension h); lia.
  - intros H. inversion H. cbn [obu_total_size obu_header_size]. unfold len.
    destruct (obu_has_extension h); cbn [andb] in E1; lia.
Qed.

Theorem obu_next_ix_refines : forall (data : bytes) (pos : nat), len data <= ISIZE_MAX ->
  obu_next_ix data pos = IxOk (obu_next data pos).
Proof.
  intros data pos Hlen. unfold ISIZE_MAX, len in Hlen. unfold obu_next_ix, obu_next.
  destruct (length data <=? pos)%nat eqn:E.
  - rewrite skipn_all2 by lia. reflexivity.
  - unfold slice_from. destruct (pos <=? length data)%nat eqn:E2; [|lia]. ixs.
    assert (HR : length (skipn pos data) = (length data - pos)%nat) by apply skipn_length.
    destruct (skipn pos data) as [|x r] eqn:ES; [cbn [length] in HR; lia|]. rewrite <- ES in *.
    set (R := skipn pos data) in *. clearbody R. clear ES x r.
    rewrite parse_obu_header_ix_refines. ixs.
    destruct (parse_obu_header R) as [info|] eqn:EP; [|reflexivity].
    apply parse_obu_header_props in EP. destruct EP as (H1 & Hhs & Hb).
    change (2 ^ 57) with 144115188075855872 in Hb. unfold len in *.
    unfold cadd, USIZE_MOD.
    destruct (N.of_nat pos + obu_total_size info <? 18446744073709551616) eqn:EA; [|lia]. ixs.
    destruct (N.of_nat (length data) <? N.of_nat pos + obu_total_size info) eqn:EB.
    + destruct (N.of_nat (length R) <? obu_total_size info) eqn:EC; [reflexivity|lia].
    + destruct (N.of_nat (length R) <? obu_total_size info) eqn:EC; [lia|].
      unfold slice_to. destruct (N.to_nat (obu_total_size info) <=? length R)%nat eqn:ED; [|lia]. ixs.
      unfold take. do 3 f_equal. lia.
Qed.
Print Assumptions obu_next_ix_refines.
Theorem obu_next_ix_safe : forall (data : bytes) (pos : nat), len data <= ISIZE_MAX ->
  obu_next_ix data pos <> IxPanic.
Proof. intros. eapply ix_ok_not_panic, obu_next_ix_refines; assumption. Qed.
Print Assumptions obu_next_ix_safe.

Lemma obu_next_props (data : bytes) pos info obu pos' : obu_next data pos = Some (info, obu, pos') ->
  (pos < pos')%nat /\ (pos' <= length data)%nat /\ (obu_header_size info <= length obu)%nat.
Proof.
  unfold obu_next. intros H.
  assert (HR : length (skipn pos data) = (length data - pos)%nat) by apply skipn_length.
  destruct (skipn pos data) as [|x r] eqn:ES; [discriminate|]. rewrite <- ES in *.
  set (R := skipn pos data) in *. clearbody R. clear ES x r.
  destruct (parse_obu_header R) as [i|] eqn:EP; [|discriminate].
  apply parse_obu_header_props in EP. destruct EP as (H1 & Hhs & _).
  destruct (len R <? obu_total_size i) eqn:EC; [discriminate|].
  injection H as <- <- <-. unfold take, len in *. rewrite firstn_length. lia.
Qed.

(* the [for (info, obu_data) in ObuIter::new(data)] loop; the body may rely on
   [header_size <= obu_data.len()], which holds for every item yielded *)
Lemma obu_for_ix_refines {St} (body : St -> obu_info * bytes -> ix (St * bool))
  (pure : St -> obu_info * bytes -> St * bool)
  (Hb : forall s io, (obu_header_size (fst io) <= length (snd io))%nat -> body s io = IxOk (pure s io)) :
  forall fuel (data : bytes) pos s, len data <= ISIZE_MAX -> (length data - pos < fuel)%nat ->
    obu_for_ix fuel data pos body s = IxOk (fold_brk pure s (obu_iter_f fuel (skipn pos data))).
Proof.
  induction fuel as [|f IH]; intros data pos s Hlen Hf; [lia|].
  rewrite obu_iter_f_next. cbn [obu_for_ix]. rewrite obu_next_ix_refines by exact Hlen. ixs.
  destruct (obu_next data pos) as [[[info obu] pos']|] eqn:E; [|reflexivity].
  apply obu_next_props in E.
  rewrite Hb by (cbn [fst snd]; lia). ixs. cbn [fold_brk].
  destruct (pure s (info, obu)) as [s' brk]. destruct brk; [reflexivity|].
  apply IH; [exact Hlen|lia].
Qed.

Lemma obu_loop_ix_refines {St} (body : St -> obu_info * bytes -> ix (St * bool))
  (pure : St -> obu_info * bytes -> St * bool)
  (Hb : forall s io, (obu_header_size (fst io) <= length (snd io))%nat -> body s io = IxOk (pure s io))
  (data : bytes) (s : St) : len data <= ISIZE_MAX ->
  obu_loop_ix data body s = IxOk (fold_brk pure s (obu_iter data)).
Proof.
  intros Hlen. unfold obu_loop_ix, obu_iter.
  rewrite (obu_for_ix_refines body pure Hb) by (try exact Hlen; lia). reflexivity.
Qed.

Theorem obu_iter_ix_refines : forall data : bytes, len data <= ISIZE_MAX ->
  obu_iter_ix data = IxOk (obu_iter data).
Proof.
  intros data Hlen. unfold obu_iter_ix.
  rewrite (obu_loop_ix_refines _ (fun acc io => (acc ++ [io], false))) by (try exact Hlen; reflexivity).
  f_equal.
  assert (G : forall (l acc : list (obu_info * bytes)),
             fold_brk (fun acc io => (acc ++ [io], false)) acc l = acc ++ l).
  { induction l as [|x l IH]; intros acc; cbn [fold_brk]; [now rewrite app_nil_r|].
    rewrite IH, <- app_assoc. reflexivity. }
  apply (G _ []).
Qed.
Print Assumptions obu_iter_ix_refines.
Theorem obu_iter_ix_safe : forall data : bytes, len data <= ISIZE_MAX -> obu_iter_ix data <> IxPanic.
Proof. intros. eapply ix_ok_not_panic, obu_iter_ix_refines; assumption. Qed.
Print Assumptions obu_iter_ix_safe.

(* the payload slices taken by the consumers (INV-202 and [&obu_data[header_size..]]) *)
Theorem obu_payload_ix_refines : forall (data : bytes) (info : obu_info) (obu : bytes),
  In (info, obu) (obu_iter data) ->
  obu_payload_ix obu (obu_header_size info) = IxOk (skipn (obu_header_size info) obu).
Proof.
  intros data info obu Hin. unfold obu_iter in Hin.
  assert (G : forall fuel pos, In (info, obu) (obu_iter_f fuel (skipn pos data)) ->
                               (obu_header_size info <= length obu)%nat).
  { induction fuel as [|f IH]; intros pos H; [destruct H|].
    rewrite obu_iter_f_next in H.
    destruct (obu_next data pos) as [[[i o] pos']|] eqn:E; [|destruct H].
    destruct H as [H|H].
    - injection H as -> ->. apply obu_next_props in E. lia.
    - apply IH in H. exact H. }
  specialize (G _ 0%nat Hin).
  unfold obu_payload_ix, slice_from. destruct (obu_header_size info <=? length obu)%nat eqn:E; [|lia].
  reflexivity.
Qed.
Print Assumptions obu_payload_ix_refines.
Theorem obu_payload_ix_safe : forall (data : bytes) (info : obu_info) (obu : bytes),
  In (info, obu) (obu_iter data) -> obu_payload_ix obu (obu_header_size info) <> IxPanic.
Proof. intros. eapply ix_ok_not_panic, obu_payload_ix_refines; eassumption. Qed.
Print Assumptions obu_payload_ix_safe.

(** BitReader.  The list-level model reads from a list of bits; the index-level
    reader state (byte_pos, bit_pos) is related to it by [br_rel]: bit_pos < 8 and
    the bit list is the suffix at bit offset 8 * byte_pos + bit_pos. *)
Definition br_rel (data : bytes) (st : br_state) (r : bitrd) : Prop :=
  (snd st < 8)%nat /\ r = skipn (8 * fst st + snd st) (bits_of_bytes data).
Definition br_next (st : br_state) : br_state :=
  let '(bp, bi) := st in if (bi + 1 =? 8)%nat then ((bp + 1)%nat, 0%nat) else (bp, (bi + 1)%nat).

Lemma br_rel_new (data : bytes) : br_rel data br_new (bits_of_bytes data).
Proof. split; [cbn; lia|reflexivity]. Qed.

Lemma bits_of_bytes_cons x t : bits_of_bytes (x :: t) = bits_of_byte x ++ bits_of_bytes t.
Proof. reflexivity. Qed.

Lemma bits_nth (data : bytes) : forall bp bi, (bi < 8)%nat ->
  nth_error (bits_of_bytes data) (8 * bp + bi) =
  match nth_error data bp with
  | None => None
  | Some b => Some (N.testbit b (N.of_nat (7 - bi)))
  end.
Proof.
  induction data as [|x t IH]; intros bp bi Hbi.
  - destruct bp; cbn [nth_error]; destruct (8 * _ + bi)%nat; reflexivity.
  - rewrite bits_of_bytes_cons. destruct bp as [|bp].
    + cbn [Nat.mul Nat.add nth_error]. unfold bits_of_byte.
      destruct bi as [|[|[|[|[|[|[|[|bi]]]]]]]]; try lia; reflexivity.
    + replace (8 * S bp + bi)%nat with (8 + (8 * bp + bi))%nat by lia.
      rewrite nth_error_app2 by (cbn [bits_of_byte length]; lia).
      replace (8 + (8 * bp + bi) - length (bits_of_byte x))%nat with (8 * bp + bi)%nat
        by (cbn [bits_of_byte length]; lia).
      cbn [nth_error]. apply IH. exact Hbi.
Qed.

Lemma testbit_shr b k : negb (band (N.shiftr b k) 1 =? 0) = N.testbit b k.
Proof.
  unfold band. change 1 with (N.ones 1). rewrite N.land_ones. change (2 ^ 1) with 2.
  replace (N.testbit b k) with (N.testbit (N.shiftr b k) 0) by (rewrite N.shiftr_spec'; f_equal; lia).
  rewrite N.bit0_eqb.
  pose proof (N.mod_lt (N.shiftr b k) 2 ltac:(discriminate)) as H.
  destruct (N.shiftr b k mod 2 =? 0) eqn:E0; destruct (N.shiftr b k mod 2 =? 1) eqn:E1; cbn [negb]; lia.
Qed.

Lemma read_bit_skipn (l : bitrd) : forall p,
  read_bit (skipn p l) = match nth_error l p with Some b => Some (b, skipn (S p) l) | None => None end.
Proof.
  induction l as [|x l IH]; intros p; [destruct p; reflexivity|].
  destruct p as [|p]; [reflexivity|]. cbn [skipn nth_error]. apply IH.
Qed.

Theorem br_read_bit_ix_refines : forall (data : bytes) (st : br_state) (r : bitrd), br_rel data st r ->
  match read_bit r with
  | None => br_read_bit_ix data st = IxOk None
  | Some (b, r') => br_read_bit_ix data st = IxOk (Some (b, br_next st)) /\ br_rel data (br_next st) r'
  end.
Proof.
  intros data [bp bi] r [Hbi ->]. cbn [fst snd] in *.
  rewrite read_bit_skipn, bits_nth by lia. unfold br_read_bit_ix.
  destruct (length data <=? bp)%nat eqn:E.
  - assert (Hn : nth_error data bp = None) by (apply nth_error_None; lia). rewrite Hn. reflexivity.
  - destruct (get_ok data bp ltac:(lia)) as (a & Ga & Na). rewrite Ga, Na. ixs.
    unfold csub. destruct (bi <=? 7)%nat eqn:E7; [|lia]. ixs.
    unfold cshr. destruct (N.of_nat (7 - bi) <? 8) eqn:E8; [|lia]. ixs.
    rewrite testbit_shr. split; [reflexivity|].
    unfold br_rel, br_next. destruct (bi + 1 =? 8)%nat eqn:EN; cbn [fst snd]; (split; [lia|f_equal; lia]).
Qed.
Print Assumptions br_read_bit_ix_refines.
Theorem br_read_bit_ix_safe : forall (data : bytes) (st : br_state) (r : bitrd), br_rel data st r ->
  br_read_bit_ix data st <> IxPanic.
Proof.
  intros data st r H. apply br_read_bit_ix_refines in H.
  destruct (read_bit r) as [[b r']|]; [destruct H as [H _]|]; rewrite H; discriminate.
Qed.
Print Assumptions br_read_bit_ix_safe.

Lemma acc_step acc m (b : bool) : m + 1 <= 64 -> acc < 2 ^ m ->
  N.lor (N.shiftl acc 1 mod 2 ^ 64) (if b then 1 else 0) = 2 * acc + (if b then 1 else 0) /\
  2 * acc + (if b then 1 else 0) < 2 ^ (m + 1).
Proof.
  intros Hm Ha.
  assert (Hp : 2 ^ (m + 1) = 2 * 2 ^ m) by (rewrite N.pow_add_r; change (2 ^ 1) with 2; lia).
  assert (Hq : 2 ^ (m + 1) <= 2 ^ 64) by (apply N.pow_le_mono_r; lia).
  rewrite N.shiftl_mul_pow2. change (2 ^ 1) with 2.
  rewrite N.mod_small by lia. split; [|destruct b; lia].
  replace (acc * 2) with (2 * acc) by lia.
  destruct b; [|rewrite N.lor_0_r; lia].
  destruct acc as [|p]; reflexivity.
Qed.

Lemma br_read_bits_loop_sim : forall n (data : bytes) m acc st r,
  m + N.of_nat n <= 64 -> acc < 2 ^ m -> br_rel data st r ->
  match read_bits_acc n acc r with
  | None => br_read_bits_loop_ix n data acc st = IxOk None
  | Some (v, r') => exists st', br_read_bits_loop_ix n data acc st = IxOk (Some (v, st')) /\ br_rel data st' r'
  end.
Proof.
  induction n as [|k IH]; intros data m acc st r Hm Ha Hr.
  - cbn [read_bits_acc br_read_bits_loop_ix]. exists st. split; [reflexivity|exact Hr].
  - cbn [read_bits_acc br_read_bits_loop_ix].
    pose proof (br_read_bit_ix_refines data st r Hr) as Hs.
    destruct r as [|b t]; cbn [read_bit] in Hs.
    + rewrite Hs. reflexivity.
    + destruct Hs as [Hs Hr']. rewrite Hs. ixs.
      destruct (acc_step acc m b ltac:(lia) Ha) as [-> Hlt].
      apply (IH data (m + 1)); [lia|exact Hlt|exact Hr'].
Qed.

Theorem br_read_bits_ix_refines : forall (data : bytes) (count : nat) (st : br_state) (r : bitrd),
  br_rel data st r ->
  match read_bits count r with
  | None => br_read_bits_ix data count st = IxOk None
  | Some (v, r') => exists st', br_read_bits_ix data count st = IxOk (Some (v, st')) /\ br_rel data st' r'
  end.
Proof.
  intros data count st r Hr. unfold read_bits, br_read_bits_ix.
  destruct (64 <? count)%nat eqn:E; [reflexivity|].
  apply (br_read_bits_loop_sim count data (64 - N.of_nat count)); [lia| |exact Hr].
  apply N.neq_0_lt_0, N.pow_nonzero. discriminate.
Qed.
Print Assumptions br_read_bits_ix_refines.
Theorem br_read_bits_ix_safe : forall (data : bytes) (count : nat) (st : br_state) (r : bitrd),
  br_rel data st r -> br_read_bits_ix data count st <> IxPanic.
Proof.
  intros data count st r H. apply (br_read_bits_ix_refines data count) in H.
  destruct (read_bits count r) as [[v r']|]; [destruct H as (st' & H & _)|]; rewrite H; discriminate.
Qed.
Print Assumptions br_read_bits_ix_safe.

Lemma skip_bits_cons n b (t : bitrd) : skip_bits (S n) (b :: t) = skip_bits n t.
Proof. reflexivity. Qed.

Theorem br_skip_bits_ix_refines : forall (count : nat) (data : bytes) (st : br_state) (r : bitrd),
  br_rel data st r ->
  match skip_bits count r with
  | None => br_skip_bits_ix data count st = IxOk None
  | Some r' => exists st', br_skip_bits_ix data count st = IxOk (Some st') /\ br_rel data st' r'
  end.
Proof.
  induction count as [|k IH]; intros data st r Hr.
  - unfold skip_bits. cbn [Nat.ltb Nat.leb skipn br_skip_bits_ix]. exists st. split; [reflexivity|exact Hr].
  - cbn [br_skip_bits_ix].
    pose proof (br_read_bit_ix_refines data st r Hr) as Hs.
    destruct r as [|b t]; cbn [read_bit] in Hs.
    + rewrite Hs. reflexivity.
    + destruct Hs as [Hs Hr']. rewrite Hs, skip_bits_cons. ixs. apply IH. exact Hr'.
Qed.
Print Assumptions br_skip_bits_ix_refines.
Theorem br_skip_bits_ix_safe : forall (count : nat) (data : bytes) (st : br_state) (r : bitrd),
  br_rel data st r -> br_skip_bits_ix data count st <> IxPanic.
Proof.
  intros count data st r H. apply (br_skip_bits_ix_refines count) in H.
  destruct (skip_bits count r) as [r'|]; [destruct H as (st' & H & _)|]; rewrite H; discriminate.
Qed.
Print Assumptions br_skip_bits_ix_safe.

(** is_av1_keyframe *)
Lemma fold_exists {A} (p : A -> bool) (l : list A) :
  fold_brk (fun (_ : bool) x => if p x then (true, true) else (false, false)) false l = existsb p l.
Proof.
  induction l as [|x l IH]; cbn [fold_brk existsb]; [reflexivity|].
  destruct (p x); cbn [orb]; [reflexivity|exact IH].
Qed.

Definition av1_kf_pred (io : obu_info * bytes) : bool :=
  let '(info, obu) := io in
  if (obu_ty info =? 6) || (obu_ty info =? 3) then
    match bits_of_bytes (skipn (obu_header_size info) obu) with
    | false :: a :: b :: _ => negb a && negb b
    | _ => false
    end
  else false.

Theorem is_av1_keyframe_ix_refines : forall data : bytes, len data <= ISIZE_MAX ->
  is_av1_keyframe_ix data = IxOk (is_av1_keyframe data).
Proof.
  intros data Hlen. unfold is_av1_keyframe_ix.
  rewrite (obu_loop_ix_refines _ (fun _ io => if av1_kf_pred io then (true, true) else (false, false)));
    [|clear Hlen|exact Hlen].
  - rewrite fold_exists. reflexivity.
  - intros s0 io Hhs. destruct io as [info obu]. cbn [fst snd] in Hhs. unfold av1_kf_pred.
    destruct ((obu_ty info =? 6) || (obu_ty info =? 3)); [|reflexivity].
    unfold slice_from. destruct (obu_header_size info <=? length obu)%nat eqn:E; [|lia]. ixs.
    destruct (skipn (obu_header_size info) obu) as [|x p] eqn:EP; [reflexivity|].
    cbn [is_empty negb]. set (P := x :: p).
    pose proof (br_read_bit_ix_refines P br_new _ (br_rel_new P)) as H1.
    destruct (bits_of_bytes P) as [|s bits]; cbn [read_bit] in H1; [rewrite H1; reflexivity|].
    destruct H1 as [H1 R1]. rewrite H1. ixs.
    destruct s; [reflexivity|].
    pose proof (br_read_bits_ix_refines P 2 _ _ R1) as H2.
    destruct bits as [|a [|b t]]; unfold read_bits in H2; cbn [Nat.ltb Nat.leb read_bits_acc] in H2;
      try (rewrite H2; reflexivity).
    destruct H2 as (st' & H2 & _). rewrite H2. ixs.
    destruct a, b; reflexivity.
Qed.
Print Assumptions is_av1_keyframe_ix_refines.
Theorem is_av1_keyframe_ix_safe : forall data : bytes, len data <= ISIZE_MAX ->
  is_av1_keyframe_ix data <> IxPanic.
Proof. intros. eapply ix_ok_not_panic, is_av1_keyframe_ix_refines; assumption. Qed.
Print Assumptions is_av1_keyframe_ix_safe.
