(** IEEE-754 binary64 accuracy facts about the model's float operations
    (Model/F64.v), proved through Flocq's BinarySingleNaN correctness theorems.

    - [duration_roundtrip_holds] (A1): for n < 2^51,
      tick (fdiv (of_N n) f_90000) = n.
    - [tick_accuracy] (A3): for a canonical finite non-negative x with
      x * 90000 <= 2^63, tick x is within 1/2 of RN64(x * 90000), and within
      1/2 + 2^-53 * (x * 90000) of the real product.

    This file uses Coq's classical real numbers (through Flocq); the only
    axioms are the four standard-library ones listed by [Print Assumptions]. *)
From Coq Require Import ZArith Reals Lia Lra ZifyN ZifyNat ZifyBool Floats.SpecFloat.
From Flocq Require Import Core.Core IEEE754.BinarySingleNaN Relative.
From Muxide Require Import Model.Base Model.F64.
Ltac Zify.zify_post_hook ::= Z.div_mod_to_equations.

(** * Bridge: stdlib SpecFloat operations = Flocq operations (mode_NE) *)
Lemma Hprec64 : FLX.Prec_gt_0 prec. Proof. reflexivity. Qed.
Lemma Hmax64 : (prec < emax)%Z. Proof. reflexivity. Qed.

Notation bf64 := (binary_float prec emax).
Notation Bdiv64 := (@Bdiv prec emax Hprec64 Hmax64 mode_NE).
Notation Bmult64 := (@Bmult prec emax Hprec64 Hmax64 mode_NE).
Notation Bnorm64 := (@binary_normalize prec emax Hprec64 Hmax64 mode_NE).

Lemma round_nearest_even_equiv s m l :
  round_nearest_even m l = choice_mode mode_NE s m l.
Proof.
case l; [reflexivity|intro c].
case c; [ | reflexivity..].
now simpl; unfold Round.cond_incr; case Z.even.
Qed.

Lemma binary_round_aux_equiv sx mx ex lx :
  SpecFloat.binary_round_aux prec emax sx mx ex lx
  = BinarySingleNaN.binary_round_aux prec emax mode_NE sx mx ex lx.
Proof.
unfold SpecFloat.binary_round_aux, binary_round_aux.
set (mrse' := shr_fexp _ _ _).
case mrse'; intros mrs' e'; simpl.
now rewrite (round_nearest_even_equiv sx).
Qed.

Lemma binary_round_equiv s m e :
  SpecFloat.binary_round prec emax s m e =
  BinarySingleNaN.binary_round prec emax mode_NE s m e.
Proof.
unfold SpecFloat.binary_round, binary_round, shl_align_fexp.
set (mez := shl_align _ _ _); case mez as [mz ez].
apply binary_round_aux_equiv.
Qed.

Lemma binary_normalize_equiv m e szero :
  SpecFloat.binary_normalize prec emax m e szero
  = B2SF (Bnorm64 m e szero).
Proof.
case m as [ | p | p].
- now simpl.
- simpl; rewrite B2SF_SF2B; apply binary_round_equiv.
- simpl; rewrite B2SF_SF2B; apply binary_round_equiv.
Qed.

Lemma fmul_equiv (x y : bf64) : fmul (B2SF x) (B2SF y) = B2SF (Bmult64 x y).
Proof.
unfold fmul.
case x as [sx|sx| |sx mx ex Bx];
  case y as [sy|sy| |sy my ey By]; [now trivial.. | ].
simpl.
rewrite B2SF_SF2B.
apply binary_round_aux_equiv.
Qed.

Lemma fdiv_equiv (x y : bf64) : fdiv (B2SF x) (B2SF y) = B2SF (Bdiv64 x y).
Proof.
unfold fdiv.
case x as [sx|sx| |sx mx ex Bx];
  case y as [sy|sy| |sy my ey By]; [now trivial.. | ].
simpl.
rewrite B2SF_SF2B.
set (melz := SFdiv_core_binary _ _ _ _ _ _).
case melz as [[mz ez] lz].
apply binary_round_aux_equiv.
Qed.
Lemma half_away_Z : forall m d n, 0 < d -> 0 <= n -> Z.abs (2*m - 2*n*d) < d ->
  (if d <=? 2 * (m mod d) then m / d + 1 else m / d) = n.
Proof.
  intros m d n Hd Hn Habs.
  pose proof (Z.div_mod m d ltac:(lia)) as Hdm.
  pose proof (Z.mod_pos_bound m d Hd) as Hr.
  set (q := m / d) in *. set (r := m mod d) in *.
  assert (Hq : q = n - 1 \/ q = n).
  { assert (q < n + 1) by nia. assert (n - 2 < q) by nia. lia. }
  destruct (d <=? 2 * r) eqn:E.
  - apply Z.leb_le in E. destruct Hq as [->| ->]; [lia|]. nia.
  - apply Z.leb_gt in E. destruct Hq as [->| ->]; [|lia]. nia.
Qed.

Lemma round_to_u64_near : forall m e (n : N),
  (n <= U64MAX)%N ->
  (Rabs (F2R (Float radix2 (Zpos m) e) - IZR (Z.of_N n)) < /2)%R ->
  round_to_u64 (S754_finite false m e) = n.
Proof.
  intros m e n Hn Hr.
  cbn [round_to_u64].
  assert (Hv : (if 0 <=? e then Z.pos m * 2 ^ e
       else if 2 ^ (- e) <=? 2 * (Z.pos m mod 2 ^ (- e)) then Z.pos m / 2 ^ (- e) + 1 else Z.pos m / 2 ^ (- e)) = Z.of_N n).
  { destruct (0 <=? e) eqn:He.
    - apply Z.leb_le in He.
      unfold F2R in Hr. cbn [Fnum Fexp] in Hr.
      rewrite <- (IZR_Zpower radix2 e He), <- mult_IZR, <- minus_IZR in Hr.
      rewrite <- abs_IZR in Hr.
      change (radix2 ^ e) with (2 ^ e) in Hr.
      assert (IZR (Z.abs (Z.pos m * 2 ^ e - Z.of_N n)) < 1)%R as H1 by lra.
      apply lt_IZR in H1. lia.
    - apply Z.leb_gt in He.
      apply half_away_Z.
      + apply Z.pow_pos_nonneg; lia.
      + lia.
      + unfold F2R in Hr. cbn [Fnum Fexp] in Hr.
        replace e with (- - e) in Hr by lia.
        rewrite bpow_opp in Hr.
        rewrite <- (IZR_Zpower radix2 (-e)) in Hr by lia.
        change (radix2 ^ (- e)) with (2 ^ (-e)) in Hr.
        assert (Hd : 0 < 2 ^ (-e)) by (apply Z.pow_pos_nonneg; lia).
        set (d := 2 ^ (- e)) in *.
        apply lt_IZR. rewrite abs_IZR, minus_IZR, !mult_IZR.
        assert (HdR : (0 < IZR d)%R) by (apply IZR_lt; lia).
        replace (2 * IZR (Z.pos m) - 2 * IZR (Z.of_N n) * IZR d)%R
          with ((IZR (Z.pos m) * / IZR d - IZR (Z.of_N n)) * (2 * IZR d))%R
          by (field; lra).
        rewrite Rabs_mult, (Rabs_pos_eq (2 * IZR d)) by lra.
        nra. }
  cbv zeta. rewrite Hv. lia.
Qed.
Close Scope Z_scope.

(** * Format facts *)
Definition emin64 := (3 - emax - prec)%Z.
Notation fexp64 := (FLT_exp emin64 prec).
Notation RN64 := (round radix2 fexp64 ZnearestE).

Lemma format_F2R : forall m e, (Z.abs m < 2 ^ 53)%Z -> (-1074 <= e)%Z ->
  generic_format radix2 fexp64 (F2R (Float radix2 m e)).
Proof.
  intros m e Hm He. apply generic_format_FLT.
  exists (Float radix2 m e); [reflexivity| exact Hm | exact He].
Qed.

Lemma format_int : forall z, (Z.abs z < 2 ^ 53)%Z -> generic_format radix2 fexp64 (IZR z).
Proof.
  intros z Hz. replace (IZR z) with (F2R (Float radix2 z 0)).
  - apply format_F2R; [exact Hz | lia].
  - unfold F2R; cbn [Fnum Fexp bpow]. lra.
Qed.

Lemma format_quarters : forall z, (Z.abs z < 2 ^ 53)%Z -> generic_format radix2 fexp64 (IZR z / 4).
Proof.
  intros z Hz. replace (IZR z / 4)%R with (F2R (Float radix2 z (-2))).
  - apply format_F2R; [exact Hz | lia].
  - unfold F2R; cbn [Fnum Fexp]. simpl bpow. lra.
Qed.

Definition C90000 : bf64 := @B754_finite prec emax false 6184752906240000 (-36) eq_refl.

Lemma f_90000_eq : f_90000 = B2SF C90000.
Proof. vm_compute. reflexivity. Qed.

Lemma B2R_C90000 : B2R C90000 = 90000%R.
Proof.
  unfold C90000, B2R, F2R. cbn [Fnum Fexp cond_Zopp].
  change (bpow radix2 (-36)) with (/ IZR (Z.pow_pos radix2 36))%R.
  replace (Z.pow_pos radix2 36) with 68719476736%Z by (vm_compute; reflexivity).
  lra.
Qed.

Lemma bpow_1024_big : (IZR (2 ^ 53) < bpow radix2 emax)%R.
Proof.
  change (2 ^ 53)%Z with (radix2 ^ 53)%Z.
  rewrite IZR_Zpower by lia. apply bpow_lt. reflexivity.
Qed.

(* of_N on a small integer is exact *)
Lemma of_N_exact : forall n : N, (n < 2 ^ 53)%N ->
  exists X : bf64, of_N n = B2SF X /\ B2R X = IZR (Z.of_N n) /\ BinarySingleNaN.is_finite X = true.
Proof.
  intros n Hn.
  exists (Bnorm64 (Z.of_N n) 0 false).
  split; [apply binary_normalize_equiv|].
  pose proof (binary_normalize_correct prec emax Hprec64 Hmax64 mode_NE (Z.of_N n) 0 false) as H.
  cbv zeta in H.
  assert (HF : F2R (Float radix2 (Z.of_N n) 0) = IZR (Z.of_N n)).
  { unfold F2R; cbn [Fnum Fexp bpow]. lra. }
  rewrite HF in H.
  rewrite round_generic in H; [| apply valid_rnd_round_mode | apply format_int; lia].
  rewrite Rlt_bool_true in H.
  - destruct H as (H1 & H2 & _). split; assumption.
  - rewrite <- abs_IZR. eapply Rlt_trans; [| apply bpow_1024_big].
    apply IZR_lt. lia.
Qed.

(** * A1: round trip *)
Open Scope N_scope.

Lemma finite_pos_shape : forall T : bf64, BinarySingleNaN.is_finite T = true -> (0 < B2R T)%R ->
  exists m e, B2SF T = S754_finite false m e /\ B2R T = F2R (Float radix2 (Zpos m) e).
Proof.
  intros [s|s| |s m e Hb] Hf Hp; cbn in Hf, Hp; try discriminate; try lra.
  destruct s.
  - exfalso. cbn [cond_Zopp] in Hp.
    assert (F2R (Float radix2 (Z.opp (Z.pos m)) e) < 0)%R by (apply F2R_lt_0; cbn; lia).
    cbn in *. lra.
  - exists m, e. split; reflexivity.
Qed.

Theorem duration_roundtrip_holds :
  forall n, n < 2251799813685248 -> tick (fdiv (of_N n) f_90000) = n.
Proof.
  intros n Hn.
  destruct (N.eq_dec n 0) as [->|Hn0]; [vm_compute; reflexivity|].
  destruct (of_N_exact n ltac:(lia)) as (X & HX & HXR & HXf).
  unfold tick. rewrite HX, f_90000_eq, fdiv_equiv, fmul_equiv.
  set (nr := IZR (Z.of_N n)) in *.
  assert (Hn1 : (1 <= nr)%R) by (apply IZR_le; lia).
  assert (Hn2 : (nr <= 2251799813685247)%R) by (apply IZR_le; lia).
  (* division *)
  pose proof (Bdiv_correct prec emax Hprec64 Hmax64 mode_NE X C90000) as HD.
  rewrite B2R_C90000, HXR in HD. specialize (HD ltac:(lra)).
  change (round_mode mode_NE) with ZnearestE in HD.
  change (SpecFloat.fexp prec emax) with (FLT_exp emin64 prec) in HD.
  set (q := RN64 (nr / 90000)) in *.
  assert (Hq : (Rabs (q - nr / 90000) <= / 9007199254740992 * (nr / 90000))%R).
  { pose proof (relative_error_N_FLT radix2 emin64 prec Hprec64 (fun x => negb (Z.even x)) (nr / 90000)) as HE.
    rewrite (Rabs_pos_eq (nr / 90000)) in HE by lra.
    assert (Hlow : (bpow radix2 (emin64 + prec - 1) <= nr / 90000)%R).
    { apply Rle_trans with (bpow radix2 (-17)).
      - apply bpow_le. vm_compute. discriminate.
      - change (bpow radix2 (-17)) with (/ IZR (Z.pow_pos radix2 17))%R.
        replace (Z.pow_pos radix2 17) with 131072%Z by (vm_compute; reflexivity).
        lra. }
    specialize (HE Hlow).
    change (bpow radix2 (- prec + 1)) with (/ IZR (Z.pow_pos radix2 52))%R in HE.
    replace (Z.pow_pos radix2 52) with 4503599627370496%Z in HE by (vm_compute; reflexivity).
    fold q in HE. lra. }
  assert (Hqc : (Rabs (q * 90000 - nr) <= /4)%R).
  { replace (q * 90000 - nr)%R with ((q - nr / 90000) * 90000)%R by (field).
    rewrite Rabs_mult, (Rabs_pos_eq 90000) by lra.
    assert (nr / 90000 * 90000 = nr)%R by (field).
    nra. }
  assert (Hqabs : (Rabs q < bpow radix2 emax)%R).
  { eapply Rle_lt_trans; [| apply bpow_1024_big].
    apply Rle_trans with nr; [| apply IZR_le; lia].
    apply abs_round_le_generic; [apply FLT_exp_valid; exact Hprec64 | apply valid_rnd_N | apply format_int; lia |].
    rewrite Rabs_pos_eq by lra. lra. }
  rewrite Rlt_bool_true in HD by exact Hqabs.
  destruct HD as (HQR & HQf & _).
  set (Q := Bdiv64 X C90000) in *.
  (* multiplication *)
  pose proof (Bmult_correct prec emax Hprec64 Hmax64 mode_NE Q C90000) as HM.
  rewrite B2R_C90000, HQR in HM.
  change (round_mode mode_NE) with ZnearestE in HM.
  change (SpecFloat.fexp prec emax) with (FLT_exp emin64 prec) in HM.
  set (t := RN64 (q * 90000)) in *.
  apply Rabs_le_inv in Hqc.
  assert (Hlo : (nr - /4 <= t)%R).
  { apply round_ge_generic; [apply FLT_exp_valid; exact Hprec64 | apply valid_rnd_N | | lra].
    replace (nr - /4)%R with (IZR (4 * Z.of_N n - 1) / 4)%R by (rewrite minus_IZR, mult_IZR; fold nr; lra).
    apply format_quarters. lia. }
  assert (Hhi : (t <= nr + /4)%R).
  { apply round_le_generic; [apply FLT_exp_valid; exact Hprec64 | apply valid_rnd_N | | lra].
    replace (nr + /4)%R with (IZR (4 * Z.of_N n + 1) / 4)%R by (rewrite plus_IZR, mult_IZR; fold nr; lra).
    apply format_quarters. lia. }
  rewrite Rlt_bool_true in HM.
  2:{ apply Rlt_trans with (IZR (2^53)); [| apply bpow_1024_big].
      assert (0 <= t)%R as Ht0 by lra.
      rewrite (Rabs_pos_eq t Ht0).
      apply Rle_lt_trans with (nr + /4)%R; [exact Hhi|].
      apply Rle_lt_trans with (2251799813685248)%R; [lra|]. apply IZR_lt. lia. }
  destruct HM as (HTR & HTf & _).
  rewrite HQf, HXf in HTf.
  destruct (finite_pos_shape _ HTf ltac:(rewrite HTR; lra)) as (m & e & HTs & HTv).
  rewrite HTs.
  apply round_to_u64_near.
  - unfold U64MAX. lia.
  - rewrite <- HTv, HTR. fold nr. apply Rabs_def1; lra.
Qed.
Print Assumptions duration_roundtrip_holds.
Close Scope N_scope.

(** * A3: accuracy of [tick] *)
Open Scope Z_scope.

Lemma half_away_Z_err : forall m d, 0 < d -> 0 <= m ->
  let r := (if d <=? 2 * (m mod d) then m / d + 1 else m / d) in
  0 <= r /\ Z.abs (2 * r * d - 2 * m) <= d.
Proof.
  intros m d Hd Hm.
  pose proof (Z.div_mod m d ltac:(lia)) as Hdm.
  pose proof (Z.mod_pos_bound m d Hd) as Hr.
  assert (0 <= m / d) by (apply Z.div_pos; lia).
  set (q := m / d) in *. set (r := m mod d) in *.
  destruct (d <=? 2 * r) eqn:E; cbv zeta.
  - apply Z.leb_le in E. split; [lia|]. nia.
  - apply Z.leb_gt in E. split; [lia|]. nia.
Qed.

(* round_to_u64 on a positive finite float is within 1/2 of its real value (no saturation below 2^63) *)
Lemma round_to_u64_err : forall m e,
  (F2R (Float radix2 (Zpos m) e) <= IZR (2 ^ 63))%R ->
  (Rabs (IZR (Z.of_N (round_to_u64 (S754_finite false m e))) - F2R (Float radix2 (Zpos m) e)) <= /2)%R.
Proof.
  intros m e Hle.
  cbn [round_to_u64]. cbv zeta.
  destruct (0 <=? e) eqn:He.
  - apply Z.leb_le in He.
    unfold F2R in *. cbn [Fnum Fexp] in *.
    rewrite <- (IZR_Zpower radix2 e He), <- mult_IZR in *.
    change (radix2 ^ e) with (2 ^ e) in *.
    apply le_IZR in Hle.
    assert (0 <= 2 ^ e) by (apply Z.pow_nonneg; lia).
    rewrite N.min_l by (unfold U64MAX; nia).
    rewrite Z2N.id by nia.
    rewrite Rminus_diag_eq by reflexivity. rewrite Rabs_R0. lra.
  - apply Z.leb_gt in He.
    assert (Hd : 0 < 2 ^ (-e)) by (apply Z.pow_pos_nonneg; lia).
    unfold F2R in *. cbn [Fnum Fexp] in *.
    assert (Hb : bpow radix2 e = (/ IZR (2 ^ (- e)))%R).
    { replace e with (- - e) at 1 by lia.
      rewrite bpow_opp, <- (IZR_Zpower radix2 (-e)) by lia; reflexivity. }
    rewrite Hb in *. clear Hb.
    set (d := 2 ^ (- e)) in *.
    pose proof (half_away_Z_err (Z.pos m) d Hd ltac:(lia)) as (Hr0 & Hr).
    cbv zeta in Hr0, Hr.
    set (r := if d <=? 2 * (Z.pos m mod d) then Z.pos m / d + 1 else Z.pos m / d) in *.
    assert (HdR : (0 < IZR d)%R) by (apply IZR_lt; lia).
    apply IZR_le in Hr. rewrite abs_IZR, minus_IZR, !mult_IZR in Hr.
    assert (Hrd : (Rabs (IZR r - IZR (Z.pos m) * / IZR d) <= /2)%R).
    { replace (2 * IZR r * IZR d - 2 * IZR (Z.pos m))%R
        with ((IZR r - IZR (Z.pos m) * / IZR d) * (2 * IZR d))%R in Hr by (field; lra).
      rewrite Rabs_mult, (Rabs_pos_eq (2 * IZR d)) in Hr by lra.
      apply Rmult_le_reg_r with (2 * IZR d)%R; [lra|].
      replace (/ 2 * (2 * IZR d))%R with (IZR d) by field. exact Hr. }
    assert (Hrle : r <= 9223372036854775809).
    { apply Rabs_le_inv in Hrd.
      change (2 ^ 63) with 9223372036854775808 in *.
      assert (IZR r < IZR (9223372036854775808 + 2))%R as H1.
      { rewrite plus_IZR. clear Hr. generalize dependent (IZR (Z.pos m) * / IZR d)%R. intros; lra. }
      apply lt_IZR in H1. lia. }
    clearbody r d.
    rewrite N.min_l by (unfold U64MAX; lia).
    rewrite Z2N.id by lia. exact Hrd.
Qed.
Close Scope Z_scope.

Lemma bounded_exp_ge_emin : forall m e, SpecFloat.bounded prec emax m e = true -> (emin64 <= e)%Z.
Proof.
  intros m e Hb. unfold SpecFloat.bounded in Hb.
  apply andb_prop in Hb. destruct Hb as [Hc _].
  unfold canonical_mantissa in Hc. apply Zeq_bool_eq in Hc.
  unfold SpecFloat.fexp, SpecFloat.emin in Hc. unfold emin64. lia.
Qed.

Theorem tick_accuracy : forall x : f64,
  valid_binary prec emax x = true -> is_finite x = true ->
  (0 <= SF2R radix2 x)%R -> (SF2R radix2 x * 90000 <= IZR (2 ^ 63))%R ->
  let y := (SF2R radix2 x * 90000)%R in
  (Rabs (IZR (Z.of_N (tick x)) - RN64 y) <= /2)%R /\
  (Rabs (RN64 y - y) <= / IZR (2 ^ 53) * y)%R /\
  (Rabs (IZR (Z.of_N (tick x)) - y) <= /2 + / IZR (2 ^ 53) * y)%R.
Proof.
  intros x Hv Hf H0 H63 y.
  assert (Hy0 : (0 <= y)%R) by (unfold y; lra).
  assert (Hfmt63 : generic_format radix2 fexp64 (IZR (2 ^ 63))).
  { replace (IZR (2 ^ 63)) with (F2R (Float radix2 1 63)).
    - apply format_F2R; lia.
    - unfold F2R; cbn [Fnum Fexp]. rewrite <- IZR_Zpower by lia. change (radix2 ^ 63)%Z with (2 ^ 63)%Z. lra. }
  assert (Ht0 : (0 <= RN64 y)%R).
  { apply round_ge_generic; [apply FLT_exp_valid; exact Hprec64 | apply valid_rnd_N | apply generic_format_0 | exact Hy0]. }
  assert (Ht63 : (RN64 y <= IZR (2 ^ 63))%R).
  { apply round_le_generic; [apply FLT_exp_valid; exact Hprec64 | apply valid_rnd_N | exact Hfmt63 | exact H63]. }
  (* relative error: y is a multiple of 2^emin64 *)
  assert (Hrel : (Rabs (RN64 y - y) <= / IZR (2 ^ 53) * y)%R).
  { assert (Hex : exists M, y = F2R (Float radix2 M emin64)).
    { destruct x as [s|s| |s m e]; cbn [SF2R] in y; try (exists 0%Z; unfold y, F2R; cbn [Fnum]; lra).
      pose proof (bounded_exp_ge_emin m e Hv) as He.
      exists (cond_Zopp s (Z.pos m) * 90000 * 2 ^ (e - emin64))%Z.
      unfold y, F2R. cbn [Fnum Fexp].
      rewrite !mult_IZR, (IZR_Zpower radix2) by lia.
      replace e with ((e - emin64) + emin64)%Z at 1 by lia. rewrite bpow_plus. ring. }
    destruct Hex as (M & HM).
    pose proof (relative_error_N_FLT_F2R_emin radix2 emin64 prec Hprec64 (fun z => negb (Z.even z)) M) as HE.
    cbv zeta in HE. rewrite <- HM in HE.
    rewrite (Rabs_pos_eq y Hy0) in HE.
    change (bpow radix2 (- prec + 1)) with (/ IZR (Z.pow_pos radix2 52))%R in HE.
    replace (Z.pow_pos radix2 52) with 4503599627370496%Z in HE by (vm_compute; reflexivity).
    replace (2 ^ 53)%Z with 9007199254740992%Z by (vm_compute; reflexivity).
    lra. }
  assert (Hmain : (Rabs (IZR (Z.of_N (tick x)) - RN64 y) <= /2)%R).
  { set (X := SF2B x Hv).
    assert (HXs : B2SF X = x) by apply B2SF_SF2B.
    assert (HXR : B2R X = SF2R radix2 x) by apply B2R_SF2B.
    assert (HXf : BinarySingleNaN.is_finite X = true).
    { unfold X. rewrite is_finite_SF2B. destruct x; try discriminate; reflexivity. }
    unfold tick. rewrite <- HXs, f_90000_eq, fmul_equiv.
    pose proof (Bmult_correct prec emax Hprec64 Hmax64 mode_NE X C90000) as HM.
    rewrite B2R_C90000, HXR in HM. fold y in HM.
    change (round_mode mode_NE) with ZnearestE in HM.
    change (SpecFloat.fexp prec emax) with (FLT_exp emin64 prec) in HM.
    rewrite Rlt_bool_true in HM.
    2:{ rewrite Rabs_pos_eq by exact Ht0.
        eapply Rle_lt_trans; [exact Ht63|].
        change (2 ^ 63)%Z with (radix2 ^ 63)%Z. rewrite IZR_Zpower by lia.
        apply bpow_lt. reflexivity. }
    destruct HM as (HTR & HTf & _). rewrite HXf in HTf. cbn in HTf.
    set (T := Bmult64 X C90000) in *.
    destruct (Req_dec (RN64 y) 0) as [Hz|Hnz].
    - (* product rounds to zero *)
      rewrite Hz in *.
      destruct T as [s|s| |s m e Hb]; cbn in HTf, HTR |- *; try discriminate.
      + rewrite Rminus_0_r, Rabs_R0. lra.
      + exfalso. apply eq_0_F2R in HTR. destruct s; cbn in HTR; lia.
    - destruct (finite_pos_shape T HTf ltac:(rewrite HTR; lra)) as (m & e & HTs & HTv).
      rewrite HTs, <- HTR, HTv. apply round_to_u64_err.
      rewrite <- HTv, HTR. exact Ht63. }
  split; [exact Hmain|]. split; [exact Hrel|].
  replace (IZR (Z.of_N (tick x)) - y)%R with ((IZR (Z.of_N (tick x)) - RN64 y) + (RN64 y - y))%R by ring.
  eapply Rle_trans; [apply Rabs_triang|]. lra.
Qed.
Print Assumptions tick_accuracy.
