(** Sink proofs: [write_all] over a fault script, [run_plan], and the
    C13 core (bytes accepted by a faulty sink are a prefix of the fault-free
    output of [finalize]). *)
From Coq Require Import Lia ZifyN ZifyNat ZifyBool.
From Muxide Require Import Model.Base Model.Boxes Model.Writer Proofs.BaseProofs.
Open Scope N_scope.
Ltac Zify.zify_post_hook ::= Z.div_mod_to_equations.

(* a script that only shortens or interrupts writes, never fails *)
Definition benign (script : list sink_ev) : Prop :=
  Forall (fun e => match e with SFail _ => False | SAcc n => n <> 0 | SIntr => True end) script.

(** * write_all *)

Theorem write_all_prefix : forall script buf s' acc e,
  write_all script buf = (s', acc, e) -> exists rest, buf = acc ++ rest /\ (e = None -> rest = []).
Proof.
  induction script as [|ev script IH]; intros buf s' acc e H.
  - destruct buf as [|b buf]; cbn [write_all] in H; inversion H; subst;
      exists []; rewrite ?app_nil_r; auto.
  - destruct buf as [|b buf].
    + cbn [write_all] in H. inversion H; subst. exists []. auto.
    + destruct ev as [n| |k]; cbn [write_all] in H.
      * destruct (n =? 0) eqn:En.
        -- inversion H; subst. exists (b :: buf). split; [reflexivity|discriminate].
        -- remember (N.to_nat (N.min n (len (b :: buf)))) as k eqn:Hk.
           destruct (write_all script (skipn k (b :: buf))) as [[s'' acc'] e'] eqn:Hw.
           inversion H; subst s'' acc e'. clear H.
           apply IH in Hw. destruct Hw as [rest [Hr He]].
           exists rest. split; [|exact He].
           rewrite <- app_assoc, <- Hr. symmetry. apply firstn_skipn.
      * eapply IH; exact H.
      * inversion H; subst. exists (b :: buf). split; [reflexivity|discriminate].
Qed.
Print Assumptions write_all_prefix.

Theorem write_all_benign : forall script buf, benign script ->
  exists s', write_all script buf = (s', buf, None) /\ benign s'.
Proof.
  induction script as [|ev script IH]; intros buf Hb.
  - exists []. split; [|exact Hb]. destruct buf; reflexivity.
  - destruct buf as [|b buf].
    + exists (ev :: script). split; [reflexivity|exact Hb].
    + inversion Hb as [|ev' scr' Hev Hscr]; subst.
      destruct ev as [n| |k]; cbn [write_all].
      * destruct (n =? 0) eqn:En; [apply N.eqb_eq in En; contradiction|].
        remember (N.to_nat (N.min n (len (b :: buf)))) as k eqn:Hk.
        destruct (IH (skipn k (b :: buf)) Hscr) as [s' [Hw Hs']].
        exists s'. rewrite Hw. split; [|exact Hs'].
        rewrite firstn_skipn. reflexivity.
      * apply IH; exact Hscr.
      * contradiction.
Qed.
Print Assumptions write_all_benign.

Theorem write_all_error_iff_fault : forall script buf s' acc e,
  write_all script buf = (s', acc, e) -> e <> None -> ~ benign script.
Proof.
  intros script buf s' acc e H He Hb.
  destruct (write_all_benign script buf Hb) as [s'' [Hw _]].
  rewrite Hw in H. inversion H; subst. apply He; reflexivity.
Qed.
Print Assumptions write_all_error_iff_fault.

(** * sink_write_all *)

Lemma sink_bytes_push acc chunks scr :
  sink_bytes {| sk_rev_chunks := acc :: chunks; sk_script := scr |} = concat (rev chunks) ++ acc.
Proof.
  unfold sink_bytes. cbn [sk_rev_chunks rev]. rewrite concat_app. cbn [concat].
  rewrite app_nil_r. reflexivity.
Qed.

Lemma sink_write_all_prefix s b s' e :
  sink_write_all s b = (s', e) ->
  exists acc rest, sink_bytes s' = sink_bytes s ++ acc /\ b = acc ++ rest /\ (e = None -> rest = []).
Proof.
  unfold sink_write_all. intros H.
  destruct (write_all (sk_script s) b) as [[scr acc] e'] eqn:Hw.
  inversion H; subst s' e'. clear H.
  destruct (write_all_prefix _ _ _ _ _ Hw) as [rest [Hr He]].
  exists acc, rest. split; [|split; assumption].
  apply sink_bytes_push.
Qed.

Lemma sink_write_all_benign s b : benign (sk_script s) ->
  exists s', sink_write_all s b = (s', None) /\ sink_bytes s' = sink_bytes s ++ b /\ benign (sk_script s').
Proof.
  intros Hb. unfold sink_write_all.
  destruct (write_all_benign _ b Hb) as [scr [Hw Hscr]]. rewrite Hw.
  eexists. split; [reflexivity|]. split; [apply sink_bytes_push|exact Hscr].
Qed.

(** * run_plan *)

Theorem run_plan_prefix : forall bufs bw s bw' s' e,
  run_plan bufs bw s = (bw', s', e) ->
  exists acc rest, sink_bytes s' = sink_bytes s ++ acc /\ concat bufs = acc ++ rest /\ (e = None -> rest = []).
Proof.
  induction bufs as [|b t IH]; intros bw s bw' s' e H.
  - cbn [run_plan] in H. inversion H; subst. exists [], []. rewrite app_nil_r. auto.
  - cbn [run_plan] in H.
    destruct (sink_write_all s b) as [s1 e1] eqn:Hs.
    destruct (sink_write_all_prefix _ _ _ _ Hs) as [acc1 [rest1 [Hb1 [Hr1 He1]]]].
    destruct e1 as [k|].
    + injection H as Hbw Hs1 He. subst s' e. clear Hbw.
      exists acc1, (rest1 ++ concat t).
      split; [exact Hb1|]. split; [|discriminate].
      cbn [concat]. rewrite Hr1, app_assoc. reflexivity.
    + specialize (He1 eq_refl). subst rest1. rewrite app_nil_r in Hr1. subst acc1.
      apply IH in H. destruct H as [acc [rest [Hb2 [Hr2 He2]]]].
      exists (b ++ acc), rest. split; [|split; [|exact He2]].
      * rewrite Hb2, Hb1, app_assoc. reflexivity.
      * cbn [concat]. rewrite Hr2, app_assoc. reflexivity.
Qed.
Print Assumptions run_plan_prefix.

Theorem run_plan_benign : forall bufs bw s, benign (sk_script s) ->
  exists s', run_plan bufs bw s = (fold_left (fun a b => N.min (a + len b) U64MAX) bufs bw, s', None) /\
             sink_bytes s' = sink_bytes s ++ concat bufs /\ benign (sk_script s').
Proof.
  induction bufs as [|b t IH]; intros bw s Hb.
  - exists s. cbn [run_plan fold_left concat]. rewrite app_nil_r. auto.
  - cbn [run_plan fold_left concat].
    destruct (sink_write_all_benign s b Hb) as [s1 [Hs [Hb1 Hben1]]]. rewrite Hs.
    destruct (IH (N.min (bw + len b) U64MAX) s1 Hben1) as [s' [Hr [Hb2 Hben2]]].
    exists s'. split; [exact Hr|]. split; [|exact Hben2].
    rewrite Hb2, Hb1, app_assoc. reflexivity.
Qed.
Print Assumptions run_plan_benign.

(** * finalize *)

(* the write plan does not look at the sink *)
Definition plan_of (w : writer) (v : video_track) (m : option metadata) (fs : bool) : plan :=
  if fs then finalize_fast_start w v m (effective_config w) else finalize_standard w v m (effective_config w).

Theorem plan_independent_of_sink : forall w fin bw s v m fs,
  plan_of (with_sink w fin bw s) v m fs = plan_of w v m fs.
Proof.
  intros w fin bw s v m fs. destruct w as [cd vr vp vl vc au ar ap al fi bwr sk].
  unfold plan_of, finalize_fast_start, finalize_standard, effective_config, vsamples, asamples.
  cbn [with_sink w_codec w_vrev w_vprev w_vlast_delta w_vconfig w_audio w_arev w_aprev
       w_alast_delta w_finalized w_bytes_written w_sink].
  reflexivity.
Qed.
Print Assumptions plan_independent_of_sink.

Definition fin_tail (w : writer) (term : option fin_err) (r : N * sink * option io_kind)
  : writer * fin_res :=
  let '(bw, s, e) := r in
  match e with
  | Some k => (with_sink w true bw s, FinErr (FinIo k))
  | None => match term with
            | Some t => (with_sink w true bw s, FinErr t)
            | None => (with_sink w true bw s, FinOk)
            end
  end.

Lemma finalize_with_sink w v m fs fin bw s :
  finalize (with_sink w fin bw s) v m fs =
  if fin then (with_sink w fin bw s, FinErr (FinIo IoOther))
  else if (U16MAX <? vt_width v) || (U16MAX <? vt_height v)
       then (with_sink w fin bw s, FinErr (FinIo IoInvalidInput))
       else if param_sets_too_long (w_vconfig w)
       then (with_sink w fin bw s, FinErr (FinIo IoInvalidInput))
       else fin_tail w (snd (plan_of w v m fs)) (run_plan (fst (plan_of w v m fs)) bw s).
Proof.
  rewrite <- (plan_independent_of_sink w fin bw s v m fs).
  unfold finalize, plan_of, fin_tail.
  replace (w_finalized (with_sink w fin bw s)) with fin by reflexivity.
  destruct fin; [reflexivity|].
  destruct (_ || _); [reflexivity|].
  replace (w_vconfig (with_sink w false bw s)) with (w_vconfig w) by reflexivity.
  destruct (param_sets_too_long (w_vconfig w)); [reflexivity|].
  replace (w_bytes_written (with_sink w false bw s)) with bw by reflexivity.
  replace (w_sink (with_sink w false bw s)) with s by reflexivity.
  match goal with |- context [if fs then ?a else ?b] => destruct (if fs then a else b) as [bufs term] end.
  cbn [fst snd].
  destruct (run_plan bufs bw s) as [[bw' s'] e].
  destruct w as [cd vr vp vl vc au ar ap al fi bwr sk]; reflexivity.
Qed.

(* since the fix "finish returns an error for parameter sets that do not fit avcC/hvcC's 16-bit length
   fields": a successful finalisation implies that every stored parameter set is shorter than 65536 bytes *)
Lemma finalize_ok_params_fit w v m fs w' :
  finalize w v m fs = (w', FinOk) -> param_sets_too_long (w_vconfig w) = false.
Proof.
  unfold finalize. intros H.
  destruct (w_finalized w); [discriminate|].
  destruct (_ || _); [discriminate|].
  destruct (param_sets_too_long (w_vconfig w)); [discriminate|reflexivity].
Qed.

Lemma finalize_vconfig w v m fs : w_vconfig (fst (finalize w v m fs)) = w_vconfig w.
Proof.
  unfold finalize.
  destruct (w_finalized w); [reflexivity|].
  destruct (_ || _); [reflexivity|].
  destruct (param_sets_too_long (w_vconfig w)); [reflexivity|].
  match goal with |- context [if fs then ?a else ?b] => destruct (if fs then a else b) as [bufs term] end.
  destruct (run_plan bufs (w_bytes_written w) (w_sink w)) as [[bw' s'] e].
  destruct e; [|destruct term]; reflexivity.
Qed.

Lemma fin_tail_sink w term bw s e : w_sink (fst (fin_tail w term (bw, s, e))) = s.
Proof. unfold fin_tail. destruct e; [|destruct term]; reflexivity. Qed.

Lemma fin_tail_bw w term bw s e : w_bytes_written (fst (fin_tail w term (bw, s, e))) = bw.
Proof. unfold fin_tail. destruct e; [|destruct term]; reflexivity. Qed.

(* C13 core *)
Theorem finalize_accepted_is_prefix_of_fault_free : forall w v m fs chunks script,
  let w_faulty := with_sink w (w_finalized w) (w_bytes_written w) {| sk_rev_chunks := chunks; sk_script := script |} in
  let w_clean  := with_sink w (w_finalized w) (w_bytes_written w) {| sk_rev_chunks := chunks; sk_script := [] |} in
  exists rest, sink_bytes (w_sink (fst (finalize w_clean v m fs))) =
               sink_bytes (w_sink (fst (finalize w_faulty v m fs))) ++ rest.
Proof.
  intros w v m fs chunks script w_faulty w_clean. subst w_faulty w_clean.
  rewrite !finalize_with_sink.
  destruct (w_finalized w).
  { exists []. rewrite app_nil_r. reflexivity. }
  destruct (_ || _).
  { exists []. rewrite app_nil_r. reflexivity. }
  destruct (param_sets_too_long (w_vconfig w)).
  { exists []. rewrite app_nil_r. reflexivity. }
  set (bufs := fst (plan_of w v m fs)). set (term := snd (plan_of w v m fs)).
  set (sc := {| sk_rev_chunks := chunks; sk_script := [] |}).
  set (sf := {| sk_rev_chunks := chunks; sk_script := script |}).
  destruct (run_plan_benign bufs (w_bytes_written w) sc (Forall_nil _)) as [s1 [Hc [Hbc _]]].
  rewrite Hc, fin_tail_sink.
  destruct (run_plan bufs (w_bytes_written w) sf) as [[bwf s2] ef] eqn:Hf.
  rewrite fin_tail_sink.
  destruct (run_plan_prefix _ _ _ _ _ _ Hf) as [acc [rest [Hbf [Hcat _]]]].
  exists rest. rewrite Hbc, Hbf, Hcat, app_assoc. reflexivity.
Qed.
Print Assumptions finalize_accepted_is_prefix_of_fault_free.

Theorem finalize_benign_same_as_fault_free : forall w v m fs chunks script, benign script ->
  let w_faulty := with_sink w (w_finalized w) (w_bytes_written w) {| sk_rev_chunks := chunks; sk_script := script |} in
  let w_clean  := with_sink w (w_finalized w) (w_bytes_written w) {| sk_rev_chunks := chunks; sk_script := [] |} in
  sink_bytes (w_sink (fst (finalize w_faulty v m fs))) = sink_bytes (w_sink (fst (finalize w_clean v m fs))) /\
  snd (finalize w_faulty v m fs) = snd (finalize w_clean v m fs) /\
  w_bytes_written (fst (finalize w_faulty v m fs)) = w_bytes_written (fst (finalize w_clean v m fs)).
Proof.
  intros w v m fs chunks script Hben w_faulty w_clean. subst w_faulty w_clean.
  rewrite !finalize_with_sink.
  destruct (w_finalized w).
  { repeat split; reflexivity. }
  destruct (_ || _).
  { repeat split; reflexivity. }
  destruct (param_sets_too_long (w_vconfig w)).
  { repeat split; reflexivity. }
  set (bufs := fst (plan_of w v m fs)). set (term := snd (plan_of w v m fs)).
  set (sc := {| sk_rev_chunks := chunks; sk_script := [] |}).
  set (sf := {| sk_rev_chunks := chunks; sk_script := script |}).
  destruct (run_plan_benign bufs (w_bytes_written w) sc (Forall_nil _)) as [s1 [Hc [Hbc _]]].
  destruct (run_plan_benign bufs (w_bytes_written w) sf Hben) as [s2 [Hf [Hbf _]]].
  rewrite Hc, Hf, !fin_tail_sink, !fin_tail_bw.
  split; [|split; [|reflexivity]].
  - rewrite Hbc, Hbf. reflexivity.
  - unfold fin_tail. destruct term; reflexivity.
Qed.
Print Assumptions finalize_benign_same_as_fault_free.

Theorem finalize_second_call_writes_nothing : forall w v m fs,
  w_finalized w = true -> finalize w v m fs = (w, FinErr (FinIo IoOther)).
Proof.
  intros w v m fs H. unfold finalize. rewrite H. reflexivity.
Qed.
Print Assumptions finalize_second_call_writes_nothing.
