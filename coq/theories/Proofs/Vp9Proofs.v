(** The crate's VP9 frame parser against the VP9 uncompressed-header syntax. *)
From Coq Require Import Lia ZifyN ZifyNat ZifyBool.
From Muxide Require Import Model.Base Model.Codec Spec.Av1Syntax Spec.Vp9Syntax.
Open Scope N_scope.

(* the first byte of every conforming key frame is 1 0 p0 p1 ...: between 128 and 191 *)
Lemma first_byte_of_key_frame h rest :
  exists b0 t, vp9_key_frame h rest = b0 :: t /\ 128 <= b0 < 192.
Proof.
  unfold vp9_key_frame, enc_vp9_key_header.
  change (f 2 2) with [true; false].
  set (p0 := N.testbit (vk_profile h) 0). set (p1 := N.testbit (vk_profile h) 1).
  set (tail := (if vk_profile h =? 3 then f1 false else []) ++ f1 false ++ f1 false ++ f1 (vk_show_frame h) ++
               f1 (vk_error_resilient h) ++ f 8 73 ++ f 8 131 ++ f 8 66 ++ enc_color_config_vp9 h ++
               f 16 (vk_width_minus_1 h) ++ f 16 (vk_height_minus_1 h) ++
               match vk_render_size h with None => f1 false | Some (w, hh) => f1 true ++ f 16 w ++ f 16 hh end).
  assert (Hlen : (4 <= length tail)%nat).
  { unfold tail. rewrite !app_length. unfold f1. cbn [length]. lia. }
  clearbody tail.
  destruct tail as [|t0 [|t1 [|t2 [|t3 tail]]]]; cbn [length] in Hlen; try lia.
  unfold f1. cbn [app]. unfold pack. cbn [length pack_f].
  cbn [byte_of_bits].
  eexists. eexists. split; [reflexivity|].
  destruct p0, p1, t0, t1, t2, t3; cbn; lia.
Qed.

(* FINDING: the parser expects the frame to BEGIN with the sync code 0x49 0x83 0x42, which in the VP9
   syntax follows the first header byte; hence it accepts no conforming key frame at all *)
Theorem vp9_parser_rejects_every_conforming_key_frame : forall h rest,
  is_valid_vp9_frame (vp9_key_frame h rest) = false /\
  extract_vp9_config (vp9_key_frame h rest) = None /\
  is_vp9_keyframe (vp9_key_frame h rest) <> Vp9Key true.
Proof.
  intros h rest. destruct (first_byte_of_key_frame h rest) as (b0 & t & E & Hb). rewrite E.
  assert (Hm : vp9_marker_ok (b0 :: t) = false).
  { unfold vp9_marker_ok. destruct t as [|b1 [|b2 t]]; [reflexivity|reflexivity|].
    replace (b0 =? 73) with false by (symmetry; apply N.eqb_neq; lia). reflexivity. }
  split; [exact Hm|]. split.
  - unfold extract_vp9_config. rewrite Hm. reflexivity.
  - unfold is_vp9_keyframe. destruct t as [|b1 [|b2 t]]; try discriminate.
    rewrite Hm. cbn [negb]. discriminate.
Qed.
Print Assumptions vp9_parser_rejects_every_conforming_key_frame.

(* non-vacuity: a concrete conforming 640x480 profile-0 key frame header and its first bytes *)
Definition vk_example : vp9_key_hdr :=
  {| vk_profile := 0; vk_show_frame := true; vk_error_resilient := false; vk_twelve_bit := false;
     vk_color_space := 1; vk_color_range := false; vk_subsampling_x := true; vk_subsampling_y := true;
     vk_width_minus_1 := 639; vk_height_minus_1 := 479; vk_render_size := None |}.
Example vk_example_valid : valid_vp9_key_hdr vk_example = true. Proof. reflexivity. Qed.
Example vk_example_bytes : firstn 4 (vp9_key_frame vk_example []) = [130; 73; 131; 66].
Proof. vm_compute. reflexivity. Qed.
