(** C20: "the CLI writes what the library writes and fails loudly otherwise".
    A complete characterisation of [mux_command] (Model/Cli.v): success happens in
    exactly two situations (a dry run with consistent options and existing inputs, or
    a real run in which every check and every library call succeeds) and in both the
    outcome is fully determined. *)
From Coq Require Import Lia ZifyN ZifyNat ZifyBool.
From Muxide Require Import Model.Base Model.Boxes Model.F64 Model.Writer Model.Api Model.Cli
  Proofs.BaseProofs Proofs.CliProofs.
Open Scope N_scope.
Ltac Zify.zify_post_hook ::= Z.div_mod_to_equations.

(** * The declarative specification *)

Definition input_named (o : mux_opts) : Prop := mo_video o <> None \/ mo_audio o <> None.

Definition video_given_ok (o : mux_opts) : Prop :=
  match mo_video o with
  | Some _ => mo_width o <> None /\ mo_height o <> None /\ mo_fps_ok o <> None
  | None => True
  end.

Definition audio_given_ok (o : mux_opts) : Prop :=
  match mo_audio o with
  | Some _ => mo_rate o <> None /\ mo_channels o <> None
  | None => True
  end.

(* the video track handed to the builder: none without --video; otherwise the given
   dimensions, inside the CLI's ranges, with a frame rate in range, codec defaulting to H.264 *)
Definition cli_video_config (o : mux_opts) (v : option (video_codec * N * N)) : Prop :=
  match mo_video o with
  | None => v = None
  | Some _ =>
      exists w h, mo_width o = Some w /\ mo_height o = Some h /\ mo_fps_ok o = Some true /\
        320 <= w /\ w <= 4096 /\ 240 <= h /\ h <= 2160 /\
        v = Some (match mo_vcodec o with Some c => c | None => H264 end, w, h)
  end.

(* the audio track handed to the builder: none without --audio; otherwise rate and channel
   count inside the CLI's ranges, codec defaulting to AAC-LC and not 'none' *)
Definition cli_audio_config (o : mux_opts) (a : option (audio_codec * N * N)) : Prop :=
  match mo_audio o with
  | None => a = None
  | Some _ =>
      exists r ch, mo_rate o = Some r /\ mo_channels o = Some ch /\
        let codec := match mo_acodec o with Some c => c | None => Aac Lc end in
        codec <> NoAudio /\ 0 < r /\ r <= 192000 /\ 0 < ch /\ ch <= 8 /\
        a = Some (codec, r, ch)
  end.

(* the builder calls the CLI makes, in order *)
Definition cli_builder_ops (o : mux_opts) (v : option (video_codec * N * N))
    (a : option (audio_codec * N * N)) : list bop :=
  (match v with Some (c, w, h) => [BVideo c w h] | None => [] end) ++
  (match a with Some (c, r, ch) => [BAudio c r ch] | None => [] end) ++
  (match mo_title o with
   | Some t => [BWithMetadata {| md_title := Some t; md_creation_time := None; md_language := None |}]
   | None => [] end) ++
  (match mo_language o with Some l => [BSetLanguage l] | None => [] end).

Definition cli_builder (o : mux_opts) (v : option (video_codec * N * N))
    (a : option (audio_codec * N * N)) : builder := run_builder (cli_builder_ops o v a).

(* a named input file exists, is ASCII text and decodes as hex to [d] *)
Definition input_decodes (i : input) (d : bytes) : Prop :=
  exists text, i = Present text /\ ascii text = true /\ read_hex_bytes text = Some d.

(* the video part of the run: nothing without --video; otherwise the decoded file is
   submitted as one keyframe at time 0 and the library accepts it *)
Definition video_written (o : mux_opts) (m0 m1 : muxer) (nv : N) : Prop :=
  match mo_video o with
  | None => m1 = m0 /\ nv = 0
  | Some i => exists d, input_decodes i d /\ write_video m0 f_zero d true = (m1, None) /\ nv = 1
  end.

Definition audio_written (o : mux_opts) (m1 m2 : muxer) (na : N) : Prop :=
  match mo_audio o with
  | None => m2 = m1 /\ na = 0
  | Some i => exists d, input_decodes i d /\ write_audio m1 f_zero d = (m2, None) /\ na = 1
  end.

(* NOTE on the first clause.  The CLI's own first check is only [input_named o] (a video OR
   an audio input), but the library's [build] refuses a builder without a video track
   (MissingVideoConfig), so an audio-only real run always fails: a VIDEO input is necessary.
   The spec states that truth; [real_run_spec_as_listed] below shows that writing
   [input_named o] instead gives an equivalent (but misleading) specification. *)
Definition real_run_spec (o : mux_opts) (file : bytes) (nv na : N) : Prop :=
  (* option checks, in the order the binary performs them *)
  mo_video o <> None /\ video_given_ok o /\ audio_given_ok o /\
  mo_output_creatable o = true /\ mo_fragmented o = false /\
  exists v a m0 m1 m2 m3 st,
    (* range assertions *)
    cli_video_config o v /\ cli_audio_config o a /\
    (* the library accepts everything *)
    build (cli_builder o v a) [] = inl m0 /\
    video_written o m0 m1 nv /\
    audio_written o m1 m2 na /\
    finish_in_place_with_stats m2 = (m3, FOk st) /\
    (* and the file is the library's output *)
    file = sink_of m3.

(** * Pieces *)

Lemma cli_builder_eq o v a : cli_builder o v a = builder_of o v a.
Proof.
  unfold cli_builder, cli_builder_ops, builder_of, run_builder.
  destruct v as [[[vc w] h]|]; destruct a as [[[ac r] ch]|];
    destruct (mo_title o); destruct (mo_language o); reflexivity.
Qed.

Lemma vcfg_of_spec o v : vcfg_of o = Some v -> video_given_ok o -> cli_video_config o v.
Proof.
  unfold vcfg_of, video_given_ok, cli_video_config. intros H Hg.
  destruct (mo_video o) as [vi|]; [|congruence].
  destruct Hg as [Hw [Hh Hf]].
  destruct (mo_width o) as [w|]; [|congruence].
  destruct (mo_height o) as [h|]; [|congruence].
  destruct (mo_fps_ok o) as [fps|]; [|congruence].
  destruct ((320 <=? w) && (240 <=? h) && (w <=? 4096) && (h <=? 2160) && fps) eqn:E; [|discriminate H].
  exists w, h. injection H as H. subst v.
  rewrite !andb_true_iff in E. destruct E as [[[[E1 E2] E3] E4] E5]. subst fps.
  repeat split; lia.
Qed.

Lemma cli_video_config_vcfg o v : cli_video_config o v -> vcfg_of o = Some v.
Proof.
  unfold vcfg_of, cli_video_config. intros H.
  destruct (mo_video o) as [vi|].
  - destruct H as [w [h [Hw [Hh [Hf [H1 [H2 [H3 [H4 Hv]]]]]]]]].
    rewrite Hw, Hh, Hf.
    replace ((320 <=? w) && (240 <=? h) && (w <=? 4096) && (h <=? 2160) && true) with true by lia.
    congruence.
  - subst v. reflexivity.
Qed.

Lemma cli_video_config_given o v : cli_video_config o v -> video_given_ok o.
Proof.
  unfold video_given_ok, cli_video_config. intros H.
  destruct (mo_video o) as [vi|]; [|exact I].
  destruct H as [w [h [Hw [Hh [Hf _]]]]]. rewrite Hw, Hh, Hf. repeat split; discriminate.
Qed.

Lemma acfg_of_spec o a : acfg_of o = Some a -> audio_given_ok o -> cli_audio_config o a.
Proof.
  unfold acfg_of, audio_given_ok, cli_audio_config. intros H Hg.
  destruct (mo_audio o) as [ai|]; [|congruence].
  destruct Hg as [Hr Hc].
  destruct (mo_rate o) as [r|]; [|congruence].
  destruct (mo_channels o) as [ch|]; [|congruence].
  cbv zeta in *.
  set (codec := match mo_acodec o with Some c => c | None => Aac Lc end) in *.
  destruct ((match codec with NoAudio => false | _ => true end) &&
            (0 <? r) && (r <=? 192000) && (0 <? ch) && (ch <=? 8)) eqn:E; [|discriminate H].
  exists r, ch. injection H as H. subst a.
  rewrite !andb_true_iff in E. destruct E as [[[[E1 E2] E3] E4] E5].
  split; [reflexivity|]. split; [reflexivity|].
  split; [intros Hc'; rewrite Hc' in E1; discriminate E1|].
  repeat split; lia.
Qed.

Lemma cli_audio_config_acfg o a : cli_audio_config o a -> acfg_of o = Some a.
Proof.
  unfold acfg_of, cli_audio_config. intros H.
  destruct (mo_audio o) as [ai|].
  - destruct H as [r [ch [Hr [Hc H]]]]. cbv zeta in *.
    set (codec := match mo_acodec o with Some c => c | None => Aac Lc end) in *.
    destruct H as [Hn [H1 [H2 [H3 [H4 Ha]]]]].
    rewrite Hr, Hc.
    assert (Hcb : (match codec with NoAudio => false | _ => true end) = true)
      by (destruct codec; [reflexivity | reflexivity | congruence]).
    rewrite Hcb.
    replace (true && (0 <? r) && (r <=? 192000) && (0 <? ch) && (ch <=? 8)) with true by lia.
    congruence.
  - subst a. reflexivity.
Qed.

Lemma cli_audio_config_given o a : cli_audio_config o a -> audio_given_ok o.
Proof.
  unfold audio_given_ok, cli_audio_config. intros H.
  destruct (mo_audio o) as [ai|]; [|exact I].
  destruct H as [r [ch [Hr [Hc _]]]]. rewrite Hr, Hc. split; discriminate.
Qed.

Lemma vstep_of_iff o m0 m1 nv :
  vstep_of m0 (mo_video o) = Some (m1, nv) <-> video_written o m0 m1 nv.
Proof.
  unfold vstep_of, video_written, input_decodes.
  destruct (mo_video o) as [[|text]|].
  - split; [discriminate|]. intros [d [[text [H _]] _]]. discriminate H.
  - split.
    + intros H.
      destruct (negb (ascii text)) eqn:Ea; [discriminate H|].
      destruct (read_hex_bytes text) as [d|] eqn:Ed; [|discriminate H].
      destruct (write_video m0 f_zero d true) as [m1' [e|]] eqn:Hw; [discriminate H|].
      injection H as Hm Hn. subst m1' nv.
      exists d. split; [|split; [exact Hw | reflexivity]].
      exists text. split; [reflexivity|]. split; [|exact Ed].
      destruct (ascii text); [reflexivity | discriminate Ea].
    + intros [d [[text' [Heq [Ha Hd]]] [Hw Hn]]]. injection Heq as Heq. subst text' nv.
      rewrite Ha, Hd, Hw. reflexivity.
  - split.
    + intros H. injection H as Hm Hn. split; congruence.
    + intros [Hm Hn]. subst. reflexivity.
Qed.

Lemma astep_of_iff o m1 m2 na :
  astep_of m1 (mo_audio o) = Some (m2, na) <-> audio_written o m1 m2 na.
Proof.
  unfold astep_of, audio_written, input_decodes.
  destruct (mo_audio o) as [[|text]|].
  - split; [discriminate|]. intros [d [[text [H _]] _]]. discriminate H.
  - split.
    + intros H.
      destruct (negb (ascii text)) eqn:Ea; [discriminate H|].
      destruct (read_hex_bytes text) as [d|] eqn:Ed; [|discriminate H].
      destruct (write_audio m1 f_zero d) as [m2' [e|]] eqn:Hw; [discriminate H|].
      injection H as Hm Hn. subst m2' na.
      exists d. split; [|split; [exact Hw | reflexivity]].
      exists text. split; [reflexivity|]. split; [|exact Ed].
      destruct (ascii text); [reflexivity | discriminate Ea].
    + intros [d [[text' [Heq [Ha Hd]]] [Hw Hn]]]. injection Heq as Heq. subst text' na.
      rewrite Ha, Hd, Hw. reflexivity.
  - split.
    + intros H. injection H as Hm Hn. split; congruence.
    + intros [Hm Hn]. subst. reflexivity.
Qed.

Lemma mux_tail_iff o m0 file nv na :
  mux_tail m0 (mo_video o) (mo_audio o) = CliOk (Some file) nv na <->
  exists m1 m2 m3 st,
    video_written o m0 m1 nv /\ audio_written o m1 m2 na /\
    finish_in_place_with_stats m2 = (m3, FOk st) /\ file = sink_of m3.
Proof.
  unfold mux_tail. split.
  - intros H.
    destruct (vstep_of m0 (mo_video o)) as [[m1 nv']|] eqn:Hv; [|discriminate H].
    destruct (astep_of m1 (mo_audio o)) as [[m2 na']|] eqn:Ha; [|discriminate H].
    destruct (finish_in_place_with_stats m2) as [m3 [s|e|p]] eqn:Hf; try discriminate H.
    injection H as Hfile Hnv Hna. subst file nv' na'.
    exists m1, m2, m3, s.
    apply vstep_of_iff in Hv. apply astep_of_iff in Ha.
    repeat split; assumption.
  - intros [m1 [m2 [m3 [st [Hv [Ha [Hf Hfile]]]]]]].
    apply vstep_of_iff in Hv. apply astep_of_iff in Ha.
    rewrite Hv, Ha, Hf. subst file. reflexivity.
Qed.

(* the option checks in front of [mux_exec], as one boolean *)
Definition video_params_b (o : mux_opts) : bool :=
  match mo_video o with Some _ => all_some3 (mo_width o) (mo_height o) (mo_fps_ok o) | None => true end.
Definition audio_params_b (o : mux_opts) : bool :=
  match mo_audio o with
  | Some _ => match mo_rate o, mo_channels o with Some _, Some _ => true | _, _ => false end
  | None => true
  end.
Definition named_b (o : mux_opts) : bool :=
  match mo_video o, mo_audio o with None, None => false | _, _ => true end.

Lemma mux_command_flat (o : mux_opts) :
  mux_command o =
  if negb (named_b o && video_params_b o && audio_params_b o) then CliFail
  else if mo_dry_run o then
    (if (match mo_video o with Some Missing => true | _ => false end) ||
        (match mo_audio o with Some Missing => true | _ => false end) then CliFail
     else CliOk None 0 0)
  else if negb (mo_output_creatable o) then CliFail
  else if mo_fragmented o then CliFail
  else mux_exec o.
Proof.
  rewrite mux_command_eq. unfold named_b, video_params_b, audio_params_b.
  destruct (mo_video o) as [vi|]; destruct (mo_audio o) as [ai|]; cbv iota; cbn [andb negb];
    try reflexivity.
  all: destruct (all_some3 (mo_width o) (mo_height o) (mo_fps_ok o)); cbn [andb negb];
    try reflexivity.
Qed.

Lemma named_b_spec o : named_b o = true <-> input_named o.
Proof.
  unfold named_b, input_named.
  destruct (mo_video o); destruct (mo_audio o); split; intros H;
    try reflexivity; try discriminate H;
    try (left; discriminate); try (right; discriminate).
  destruct H as [H|H]; congruence.
Qed.

Lemma video_params_b_spec o : video_params_b o = true <-> video_given_ok o.
Proof.
  unfold video_params_b, video_given_ok, all_some3.
  destruct (mo_video o); [|tauto].
  destruct (mo_width o); destruct (mo_height o); destruct (mo_fps_ok o); split;
    try discriminate; try reflexivity;
    try (intros _; repeat split; discriminate);
    intros [H1 [H2 H3]]; congruence.
Qed.

Lemma audio_params_b_spec o : audio_params_b o = true <-> audio_given_ok o.
Proof.
  unfold audio_params_b, audio_given_ok.
  destruct (mo_audio o); [|tauto].
  destruct (mo_rate o); destruct (mo_channels o); split;
    try discriminate; try reflexivity;
    try (intros _; split; discriminate);
    intros [H1 H2]; congruence.
Qed.

Lemma checks_b_spec o :
  named_b o && video_params_b o && audio_params_b o = true <->
  input_named o /\ video_given_ok o /\ audio_given_ok o.
Proof.
  rewrite !andb_true_iff, named_b_spec, video_params_b_spec, audio_params_b_spec. tauto.
Qed.

Lemma missing_b_spec o :
  (match mo_video o with Some Missing => true | _ => false end) ||
  (match mo_audio o with Some Missing => true | _ => false end) = false <->
  mo_video o <> Some Missing /\ mo_audio o <> Some Missing.
Proof.
  rewrite orb_false_iff.
  destruct (mo_video o) as [[|tv]|]; destruct (mo_audio o) as [[|ta]|]; split;
    try (intros [H1 H2]; try discriminate H1; try discriminate H2; congruence);
    intros _; split; try reflexivity; discriminate.
Qed.

(** * L1: the dry run *)
Theorem dry_run_complete : forall o, mo_dry_run o = true ->
  (mux_command o = CliOk None 0 0 <->
     (mo_video o <> None \/ mo_audio o <> None) /\ video_given_ok o /\ audio_given_ok o /\
     mo_video o <> Some Missing /\ mo_audio o <> Some Missing) /\
  (mux_command o = CliOk None 0 0 \/ mux_command o = CliFail).
Proof.
  intros o Hdry. rewrite mux_command_flat, Hdry.
  pose proof (checks_b_spec o) as Hc. pose proof (missing_b_spec o) as Hm.
  fold (input_named o).
  destruct (named_b o && video_params_b o && audio_params_b o); cbn [negb].
  - destruct ((match mo_video o with Some Missing => true | _ => false end) ||
              (match mo_audio o with Some Missing => true | _ => false end)).
    + split; [|right; reflexivity].
      split; [discriminate|]. intros [_ [_ [_ H]]]. apply Hm in H. discriminate H.
    + split; [|left; reflexivity].
      split; [|reflexivity]. intros _.
      destruct Hc as [Hc _]. destruct (Hc eq_refl) as [H1 [H2 H3]].
      destruct Hm as [Hm _]. destruct (Hm eq_refl) as [H4 H5].
      repeat split; assumption.
  - split; [|right; reflexivity].
    split; [discriminate|]. intros [H1 [H2 [H3 _]]].
    destruct Hc as [_ Hc]. discriminate Hc. repeat split; assumption.
Qed.
Print Assumptions dry_run_complete.

(** * L2: the real run *)

Lemma mux_exec_iff o file nv na :
  video_given_ok o -> audio_given_ok o ->
  (mux_exec o = CliOk (Some file) nv na <->
   exists v a m0 m1 m2 m3 st,
     cli_video_config o v /\ cli_audio_config o a /\
     build (cli_builder o v a) [] = inl m0 /\
     video_written o m0 m1 nv /\ audio_written o m1 m2 na /\
     finish_in_place_with_stats m2 = (m3, FOk st) /\ file = sink_of m3).
Proof.
  intros Hvg Hag. unfold mux_exec. split.
  - intros H.
    destruct (vcfg_of o) as [v|] eqn:Ev; [|discriminate H].
    destruct (acfg_of o) as [a|] eqn:Ea; [|discriminate H].
    destruct (build (builder_of o v a) []) as [m0|e] eqn:Hb; [|discriminate H].
    apply mux_tail_iff in H. destruct H as [m1 [m2 [m3 [st [Hv [Ha [Hf Hfile]]]]]]].
    exists v, a, m0, m1, m2, m3, st.
    rewrite cli_builder_eq.
    split; [apply vcfg_of_spec; assumption|].
    split; [apply acfg_of_spec; assumption|].
    repeat split; assumption.
  - intros [v [a [m0 [m1 [m2 [m3 [st [Hv [Ha [Hb Hrest]]]]]]]]]].
    rewrite (cli_video_config_vcfg o v Hv), (cli_audio_config_acfg o a Ha).
    rewrite cli_builder_eq in Hb. rewrite Hb.
    apply mux_tail_iff. exists m1, m2, m3, st. exact Hrest.
Qed.

(* the library cannot be built without a video track *)
Lemma cli_build_needs_video o v a m0 :
  cli_video_config o v -> build (cli_builder o v a) [] = inl m0 -> mo_video o <> None.
Proof.
  intros Hv Hb Hnone. unfold cli_video_config in Hv. rewrite Hnone in Hv. subst v.
  rewrite cli_builder_eq in Hb. unfold build in Hb.
  replace (b_video (builder_of o None a)) with (@None (video_codec * N * N)) in Hb; [discriminate Hb|].
  unfold builder_of. destruct (mo_title o); destruct (mo_language o); reflexivity.
Qed.

Theorem real_run_complete : forall o file nv na, mo_dry_run o = false ->
  (mux_command o = CliOk (Some file) nv na <-> real_run_spec o file nv na).
Proof.
  intros o file nv na Hdry. rewrite mux_command_flat, Hdry. unfold real_run_spec.
  pose proof (checks_b_spec o) as Hc.
  destruct (named_b o && video_params_b o && audio_params_b o); cbn [negb].
  - destruct Hc as [Hc _]. destruct (Hc eq_refl) as [H1 [H2 H3]].
    destruct (mo_output_creatable o); cbn [negb].
    + destruct (mo_fragmented o).
      * split; [discriminate|]. intros [_ [_ [_ [_ [H _]]]]]. discriminate H.
      * rewrite (mux_exec_iff o file nv na H2 H3).
        split.
        -- intros H. repeat split; try assumption; try reflexivity.
           destruct H as [v [a [m0 [m1 [m2 [m3 [st [Hv [Ha [Hb _]]]]]]]]]].
           exact (cli_build_needs_video o v a m0 Hv Hb).
        -- intros [_ [_ [_ [_ [_ H]]]]]. exact H.
    + split; [discriminate|]. intros [_ [_ [_ [H _]]]]. discriminate H.
  - split; [discriminate|]. intros [H1 [H2 [H3 _]]].
    destruct Hc as [_ Hc]. discriminate Hc. repeat split; try assumption. left. exact H1.
Qed.
Print Assumptions real_run_complete.

(* the specification exactly as listed in the task (first clause: "an input is named") is
   equivalent, because [build] succeeding already forces a video input *)
Theorem real_run_spec_as_listed : forall o file nv na,
  real_run_spec o file nv na <->
  (input_named o /\ video_given_ok o /\ audio_given_ok o /\
   mo_output_creatable o = true /\ mo_fragmented o = false /\
   exists v a m0 m1 m2 m3 st,
     cli_video_config o v /\ cli_audio_config o a /\
     build (cli_builder o v a) [] = inl m0 /\
     video_written o m0 m1 nv /\ audio_written o m1 m2 na /\
     finish_in_place_with_stats m2 = (m3, FOk st) /\ file = sink_of m3).
Proof.
  intros o file nv na. unfold real_run_spec. split.
  - intros [H1 H]. split; [left; exact H1 | exact H].
  - intros [_ [H2 [H3 [H4 [H5 H]]]]].
    split; [|repeat split; assumption].
    destruct H as [v [a [m0 [m1 [m2 [m3 [st [Hv [Ha [Hb _]]]]]]]]]].
    exact (cli_build_needs_video o v a m0 Hv Hb).
Qed.
Print Assumptions real_run_spec_as_listed.

(* finding: an audio-only real run always fails, although the same options pass a dry run *)
Theorem audio_only_real_run_fails : forall o,
  mo_dry_run o = false -> mo_video o = None -> mux_command o = CliFail.
Proof.
  intros o Hdry Hnone.
  destruct (mux_command o) as [[file|] nv na|] eqn:E; [| |reflexivity].
  - apply (real_run_complete o file nv na Hdry) in E. destruct E as [H _]. congruence.
  - rewrite mux_command_flat, Hdry in E.
    destruct (negb (named_b o && video_params_b o && audio_params_b o)); [discriminate E|].
    destruct (negb (mo_output_creatable o)); [discriminate E|].
    destruct (mo_fragmented o); [discriminate E|].
    unfold mux_exec, mux_tail in E.
    destruct (vcfg_of o) as [v|]; [|discriminate E].
    destruct (acfg_of o) as [a|]; [|discriminate E].
    destruct (build (builder_of o v a) []) as [m0|e]; [|discriminate E].
    destruct (vstep_of m0 (mo_video o)) as [[m1 nv']|]; [|discriminate E].
    destruct (astep_of m1 (mo_audio o)) as [[m2 na']|]; [|discriminate E].
    destruct (finish_in_place_with_stats m2) as [m3 [s|e|p]]; discriminate E.
Qed.
Print Assumptions audio_only_real_run_fails.

(* the frame counts of a successful real run are determined by which inputs are named:
   exactly one video frame, and one audio frame iff an audio input is named *)
Corollary real_run_counts : forall o file nv na, real_run_spec o file nv na ->
  nv = 1 /\ na = (match mo_audio o with Some _ => 1 | None => 0 end).
Proof.
  intros o file nv na [Hvid [_ [_ [_ [_ [v [a [m0 [m1 [m2 [m3 [st [_ [_ [_ [Hv [Ha _]]]]]]]]]]]]]]]]].
  unfold video_written in Hv. unfold audio_written in Ha.
  split.
  - destruct (mo_video o); [destruct Hv as [d [_ [_ H]]]; exact H | congruence].
  - destruct (mo_audio o); [destruct Ha as [d [_ [_ H]]]; exact H | destruct Ha as [_ H]; exact H].
Qed.
Print Assumptions real_run_counts.

(* the parameter-presence clauses are implied by the range clauses *)
Lemma config_implies_given o v a :
  cli_video_config o v -> cli_audio_config o a -> video_given_ok o /\ audio_given_ok o.
Proof.
  intros Hv Ha. split; [eapply cli_video_config_given | eapply cli_audio_config_given]; eassumption.
Qed.

(* the specification is functional: at most one (file, nv, na) satisfies it *)
Corollary real_run_spec_deterministic : forall o f1 nv1 na1 f2 nv2 na2,
  mo_dry_run o = false ->
  real_run_spec o f1 nv1 na1 -> real_run_spec o f2 nv2 na2 -> f1 = f2 /\ nv1 = nv2 /\ na1 = na2.
Proof.
  intros o f1 nv1 na1 f2 nv2 na2 Hdry H1 H2.
  apply (real_run_complete o f1 nv1 na1 Hdry) in H1.
  apply (real_run_complete o f2 nv2 na2 Hdry) in H2.
  rewrite H1 in H2. injection H2 as Hf Hv Ha. repeat split; assumption.
Qed.
Print Assumptions real_run_spec_deterministic.

(** * L3: outcome shapes *)
Theorem outcome_shapes : forall o,
  match mux_command o with
  | CliOk None nv na => mo_dry_run o = true /\ nv = 0 /\ na = 0
  | CliOk (Some _) nv na => mo_dry_run o = false /\ nv <= 1 /\ na <= 1
  | CliFail => True
  end.
Proof.
  intros o. destruct (mux_command o) as [[file|] nv na|] eqn:E; [| |exact I].
  - destruct (mo_dry_run o) eqn:Hdry.
    + destruct (dry_run_complete o Hdry) as [_ [H|H]]; rewrite H in E; discriminate E.
    + split; [reflexivity|].
      apply (real_run_complete o file nv na Hdry) in E.
      apply real_run_counts in E. destruct E as [Hv Ha]. subst nv na.
      destruct (mo_audio o); lia.
  - rewrite mux_command_flat in E.
    destruct (negb (named_b o && video_params_b o && audio_params_b o)); [discriminate E|].
    destruct (mo_dry_run o) eqn:Hdry.
    + destruct ((match mo_video o with Some Missing => true | _ => false end) ||
                (match mo_audio o with Some Missing => true | _ => false end)); [discriminate E|].
      injection E as Hv Ha. subst. repeat split; reflexivity.
    + destruct (negb (mo_output_creatable o)); [discriminate E|].
      destruct (mo_fragmented o); [discriminate E|].
      unfold mux_exec, mux_tail in E.
      destruct (vcfg_of o) as [v|]; [|discriminate E].
      destruct (acfg_of o) as [a|]; [|discriminate E].
      destruct (build (builder_of o v a) []) as [m0|e]; [|discriminate E].
      destruct (vstep_of m0 (mo_video o)) as [[m1 nv']|]; [|discriminate E].
      destruct (astep_of m1 (mo_audio o)) as [[m2 na']|]; [|discriminate E].
      destruct (finish_in_place_with_stats m2) as [m3 [s|e|p]]; discriminate E.
Qed.
Print Assumptions outcome_shapes.

(** * Concrete witnesses of the findings *)

(* an audio-only invocation passes the dry run ... *)
Definition audio_only_opts (dry : bool) : mux_opts :=
  {| mo_video := None; mo_audio := Some (Present [102; 102]); mo_vcodec := None;
     mo_width := None; mo_height := None; mo_fps_ok := None;
     mo_acodec := None; mo_rate := Some 44100; mo_channels := Some 2;
     mo_fragmented := false; mo_title := None; mo_language := None;
     mo_dry_run := dry; mo_output_creatable := true |}.
Example audio_only_dry_run_ok : mux_command (audio_only_opts true) = CliOk None 0 0.
Proof. reflexivity. Qed.
(* ... but fails for real (the library needs a video track) *)
Example audio_only_real_run_fail : mux_command (audio_only_opts false) = CliFail.
Proof. reflexivity. Qed.

(* the dry run checks neither ranges, nor the output, nor --fragmented, nor the file contents *)
Example dry_run_checks_little :
  mux_command {| mo_video := Some (Present [200; 1]); mo_audio := None; mo_vcodec := None;
                 mo_width := Some 1; mo_height := Some 1; mo_fps_ok := Some false;
                 mo_acodec := None; mo_rate := None; mo_channels := None;
                 mo_fragmented := true; mo_title := None; mo_language := None;
                 mo_dry_run := true; mo_output_creatable := false |} = CliOk None 0 0.
Proof. reflexivity. Qed.
