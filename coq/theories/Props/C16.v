(** C16 - no numeric field is silently truncated.  Field-by-field: either the field is proved
    exact under the guards the code enforces (and the guard returns an error), or the wrap is
    exhibited (recorded findings KF-C16-1..4). *)
From Muxide Require Export Model.Base Model.Codec Model.Boxes Model.Writer Model.Api Model.Frag Spec.Layout
  Proofs.FieldProofs Proofs.TimingProofs.
Open Scope N_scope.

Theorem C16_be32_field_holds_value_mod_2_32 : forall x r, rd32 (be32 x ++ r) = Some (x mod 4294967296, r).
Proof. exact be32_field. Qed.
Print Assumptions C16_be32_field_holds_value_mod_2_32.

(* sample durations always fit (larger gaps are rejected with an error, nothing is queued) *)
Theorem C16_durations_fit_in_every_reachable_state : forall b script m0 ops,
  build b script = inl m0 -> durs_fit (m_writer (fst (run m0 ops))).
Proof. exact durations_fit_reachable. Qed.
Print Assumptions C16_durations_fit_in_every_reachable_state.

Theorem C16_gap_too_large_is_rejected : forall w pts dts data key prev,
  w_finalized w = false -> cts_fits pts dts = true -> w_vprev w = Some prev -> prev < dts ->
  4294967295 < dts - prev ->
  write_video_sample_with_dts w pts dts data key = inr DurationOverflow.
Proof. exact video_gap_too_large_is_rejected. Qed.
Print Assumptions C16_gap_too_large_is_rejected.

Theorem C16_composition_offset_too_large_is_rejected : forall w pts dts data key,
  w_finalized w = false -> cts_fits pts dts = false ->
  write_video_sample_with_dts w pts dts data key = inr DurationOverflow.
Proof. exact cts_too_large_is_rejected. Qed.
Print Assumptions C16_composition_offset_too_large_is_rejected.

Theorem C16_composition_offsets_exact : forall s,
  (-2147483648 <= Z.of_N (s_pts s) - Z.of_N (s_dts s) <= 2147483647)%Z ->
  cts_of s = (Z.of_N (s_pts s) - Z.of_N (s_dts s))%Z.
Proof. exact cts_of_exact. Qed.
Print Assumptions C16_composition_offsets_exact.

Theorem C16_sample_sizes_exact : forall samples offs spc fb, samples_ok samples ->
  st_sizes (from_samples samples offs spc fb) = map (fun s => len (s_data s)) samples.
Proof. exact sizes_exact. Qed.
Print Assumptions C16_sample_sizes_exact.

Theorem C16_chunk_offsets_fit : forall vs as_ sc start vo ao,
  walk_offsets vs as_ sc start = WalkOk vo ao ->
  Forall (fun o => o <= 4294967295) vo /\ Forall (fun o => o <= 4294967295) ao.
Proof. exact walk_offsets_fit. Qed.
Print Assumptions C16_chunk_offsets_fit.

Theorem C16_oversized_dimensions_are_rejected : forall w v m fs,
  w_finalized w = false -> (65535 < vt_width v \/ 65535 < vt_height v) ->
  finalize w v m fs = (w, FinErr (FinIo IoInvalidInput)).
Proof. exact oversized_dimensions_are_rejected. Qed.
Print Assumptions C16_oversized_dimensions_are_rejected.

Theorem C16_oversized_mdat_is_rejected : forall w v m c,
  4294967295 < 8 + payload_sum (vsamples w) + payload_sum (asamples w) ->
  finalize_fast_start w v m c = ([], Some (FinIo IoInvalidData)).
Proof. exact oversized_mdat_is_rejected_fast_start. Qed.
Print Assumptions C16_oversized_mdat_is_rejected.

(* ---- recorded findings: the wraps, exhibited ---- *)
Theorem C16_mdhd_duration_wraps_refuted : forall ts dur lang, 4294967296 <= dur ->
  rd32 (skipn 24 (build_mdhd_box ts dur lang)) = Some (dur mod 4294967296, skipn 28 (build_mdhd_box ts dur lang)) /\
  dur mod 4294967296 <> dur.
Proof. exact mdhd_duration_wraps. Qed.
Print Assumptions C16_mdhd_duration_wraps_refuted.

(* unreachable through the API since commit 3b9bdbd: finish rejects such a configuration (next theorem) *)
Theorem C16_parameter_set_length_wraps_refuted : forall c, 65536 <= len (avc_sps c) ->
  rd16 (skipn 14 (build_avcc_box c)) = Some (len (avc_sps c) mod 65536, skipn 16 (build_avcc_box c)) /\
  len (avc_sps c) mod 65536 <> len (avc_sps c).
Proof. exact avcc_sps_length_wraps. Qed.
Print Assumptions C16_parameter_set_length_wraps_refuted.

Theorem C16_oversized_parameter_sets_are_rejected : forall w v m fs,
  w_finalized w = false ->
  match w_vconfig w with
  | Some (CfgAvc a) => 65535 < len (avc_sps a) \/ 65535 < len (avc_pps a)
  | Some (CfgHevc h) => 65535 < len (hevc_vps h) \/ 65535 < len (hevc_sps h) \/ 65535 < len (hevc_pps h)
  | _ => False
  end ->
  finalize w v m fs = (w, FinErr (FinIo IoInvalidInput)).
Proof. exact oversized_parameter_sets_are_rejected. Qed.
Print Assumptions C16_oversized_parameter_sets_are_rejected.

Theorem C16_audio_rate_field_wraps_refuted : forall ch rate rest, 65536 <= rate ->
  rd16 (skipn 24 (audio_entry_prefix ch rate ++ rest)) = Some (rate mod 65536, skipn 26 (audio_entry_prefix ch rate ++ rest)).
Proof. exact audio_rate_field_wraps. Qed.
Print Assumptions C16_audio_rate_field_wraps_refuted.

Theorem C16_fragment_duration_wraps_refuted : forall s n, 4294967296 <= n - fs_dts s ->
  firstn 4 (trun_entry None (Some n) s) = be32 ((n - fs_dts s) mod 4294967296).
Proof. exact trun_duration_wraps. Qed.
Print Assumptions C16_fragment_duration_wraps_refuted.

From Muxide Require Export Spec.Checks Spec.HeaderChecks Proofs.EndToEndProofs Proofs.FieldEndToEndProofs.
(* END TO END: outside the recorded wrap classes (32-bit durations, 16.16 rate) no numeric field
   of any finished file differs from the mathematical value implied by the input *)
Theorem C16_finished_file_fields_are_exact : forall b m0 ops m rs s,
  build b [] = inl m0 -> run m0 ops = (m, rs) -> In (RStats s) rs ->
  Forall op_payload_ok ops -> len (sink_of m) < 4294967296 ->
  sumN (durations_of (vsamples (m_writer m)) (w_vlast_delta (m_writer m))) < 4294967296 ->
  sumN (durations_of (asamples (m_writer m)) (w_alast_delta (m_writer m))) < 4294967296 ->
  (match cfg_audio b with Some a => at_sample_rate a < 65536 /\ at_channels a < 65536 | None => True end) ->
  failed_C16_mux b ops (map class_of rs) (sink_of m) = [].
Proof. exact finished_file_fields_are_exact. Qed.
Print Assumptions C16_finished_file_fields_are_exact.

(* and the recorded finding KF-C16-1 end to end: a two-frame history 47 000 s apart *)
Theorem C16_duration_wrap_witness_refuted :
  exists b ops, match build b [] with
                | inl m0 => let '(m, rs) := run m0 ops in
                            In 4 (failed_C16_mux b ops (map class_of rs) (sink_of m))
                | inr _ => False end.
Proof. exact duration_wrap_witness. Qed.
Print Assumptions C16_duration_wrap_witness_refuted.

From Muxide Require Export Spec.Checks Spec.HeaderChecks Proofs.EndToEndProofs Proofs.FieldEndToEndProofs.
(* clause 7 (the configuration record decodes strictly to the configuration of the first accepted key frame:
   parameter-set lengths and bytes, av1C / vpcC fields) is never reported on a finished file, for any codec,
   with no hypothesis on durations or audio *)
Theorem C16_parameter_set_clause_never_fails : forall b m0 ops m rs s,
  build b [] = inl m0 -> run m0 ops = (m, rs) -> In (RStats s) rs ->
  Forall op_payload_ok ops -> len (sink_of m) < 4294967296 ->
  ~ In 7 (failed_C16_mux b ops (map class_of rs) (sink_of m)).
Proof. exact parameter_set_clause_never_fails. Qed.
Print Assumptions C16_parameter_set_clause_never_fails.
