(** C06 - finalisation happens exactly once and accounts for every byte and frame. *)
From Muxide Require Export Model.Base Model.Writer Model.Api Proofs.FinishProofs.
Open Scope N_scope.

Theorem C06_only_finish_touches_the_sink : forall m o, o <> FIN ->
  w_sink (m_writer (fst (step m o))) = w_sink (m_writer m) /\
  w_bytes_written (m_writer (fst (step m o))) = w_bytes_written (m_writer m) /\
  w_finalized (m_writer (fst (step m o))) = w_finalized (m_writer m) /\
  m_finished (fst (step m o)) = m_finished m.
Proof. exact non_fin_ops_keep_sink. Qed.
Print Assumptions C06_only_finish_touches_the_sink.

Theorem C06_nothing_written_before_finish : forall b m0 ops,
  build b [] = inl m0 -> Forall (fun o => o <> FIN) ops ->
  sink_bytes (w_sink (m_writer (fst (run m0 ops)))) = [].
Proof. exact sink_empty_before_any_finish. Qed.
Print Assumptions C06_nothing_written_before_finish.

Theorem C06_successful_finish_finishes : forall m s m',
  step m FIN = (m', RStats s) -> m_finished m' = true /\ w_finalized (m_writer m') = true.
Proof. exact successful_finish_finishes. Qed.
Print Assumptions C06_successful_finish_finishes.

Theorem C06_after_finish_every_call_is_rejected_and_changes_nothing : forall m,
  m_finished m = true -> w_finalized (m_writer m) = true ->
  forall o, exists e, step m o = (m, RErr e).
Proof. exact finished_muxer_rejects_everything. Qed.
Print Assumptions C06_after_finish_every_call_is_rejected_and_changes_nothing.

Theorem C06_stats_count_frames_and_bytes : forall m s m',
  step m FIN = (m', RStats s) ->
  st_video_frames s = len (w_vrev (m_writer m)) /\
  st_audio_frames s = len (w_arev (m_writer m)) /\
  st_bytes s = w_bytes_written (m_writer m') /\
  w_vrev (m_writer m') = w_vrev (m_writer m) /\ w_arev (m_writer m') = w_arev (m_writer m).
Proof. exact stats_account_for_frames_and_bytes. Qed.
Print Assumptions C06_stats_count_frames_and_bytes.

Theorem C06_reported_bytes_are_the_delivered_bytes : forall b m0 ops,
  build b [] = inl m0 ->
  len (sink_bytes (w_sink (m_writer (fst (run m0 ops))))) < 18446744073709551616 ->
  w_bytes_written (m_writer (fst (run m0 ops))) = len (sink_bytes (w_sink (m_writer (fst (run m0 ops))))).
Proof. exact bytes_written_equals_sink_length. Qed.
Print Assumptions C06_reported_bytes_are_the_delivered_bytes.

From Muxide Require Export Model.F64 Proofs.HistoryProofs.
(* duration clause, integer level: the tick count that finish divides by 90000 is the largest
   presentation end (pts + duration) over all queued samples *)
Theorem C06_duration_ticks_are_the_largest_presentation_end : forall w,
  max_end_pts w =
    match map (sample_end (w_vlast_delta w)) (w_vrev w) ++ map (sample_end (w_alast_delta w)) (w_arev w) with
    | [] => None
    | l => Some (fold_right N.max 0 l)
    end.
Proof. exact max_end_pts_is_largest_presentation_end. Qed.
Print Assumptions C06_duration_ticks_are_the_largest_presentation_end.

Theorem C06_reported_duration_is_that_tick_count_over_90000 : forall m s m',
  step m FIN = (m', RStats s) ->
  st_duration s = fdiv (of_N (match max_end_pts (m_writer m) with Some t => t | None => 0 end)) f_90000.
Proof. exact reported_duration_is_max_end_over_90000. Qed.
Print Assumptions C06_reported_duration_is_that_tick_count_over_90000.

Theorem C06_nothing_is_written_after_finalization : forall m ops,
  w_finalized (m_writer m) = true -> sink_of (fst (run m ops)) = sink_of m.
Proof. exact nothing_is_written_after_finalization. Qed.
Print Assumptions C06_nothing_is_written_after_finalization.
