(** C06 - finalisation happens exactly once and accounts for every byte and frame. *)
From Muxide Require Export Model.Base Model.Writer Model.Api Proofs.FinishProofs.
Open Scope N_scope.

Theorem C06_only_finish_touches_the_sink : forall m o, o <> FIN ->
  w_sink (m_writer (fst (step m o))) = w_sink (m_writer m) /\
  w_bytes_written (m_writer (fst (step m o))) = w_bytes_written (m_writer m) /\
  w_finalized (m_writer (fst (step m o))) = w_finalized (m_writer m) /\
  m_finished (fst (step m o)) = m_finished m.
Proof. exact non_fin_ops_keep_sink. Qed.
Print Assumptions C06_only_finish_touches_the_sink.

Theorem C06_nothing_written_before_finish : forall b m0 ops,
  build b [] = inl m0 -> Forall (fun o => o <> FIN) ops ->
  sink_bytes (w_sink (m_writer (fst (run m0 ops)))) = [].
Proof. exact sink_empty_before_any_finish. Qed.
Print Assumptions C06_nothing_written_before_finish.

Theorem C06_successful_finish_finishes : forall m s m',
  step m FIN = (m', RStats s) -> m_finished m' = true /\ w_finalized (m_writer m') = true.
Proof. exact successful_finish_finishes. Qed.
Print Assumptions C06_successful_finish_finishes.

Theorem C06_after_finish_every_call_is_rejected_and_changes_nothing : forall m,
  m_finished m = true -> w_finalized (m_writer m) = true ->
  forall o, exists e, step m o = (m, RErr e).
Proof. exact finished_muxer_rejects_everything. Qed.
Print Assumptions C06_after_finish_every_call_is_rejected_and_changes_nothing.

Theorem C06_stats_count_frames_and_bytes : forall m s m',
  step m FIN = (m', RStats s) ->
  st_video_frames s = len (w_vrev (m_writer m)) /\
  st_audio_frames s = len (w_arev (m_writer m)) /\
  st_bytes s = w_bytes_written (m_writer m') /\
  w_vrev (m_writer m') = w_vrev (m_writer m) /\ w_arev (m_writer m') = w_arev (m_writer m).
Proof. exact stats_account_for_frames_and_bytes. Qed.
Print Assumptions C06_stats_count_frames_and_bytes.

Theorem C06_reported_bytes_are_the_delivered_bytes : forall b m0 ops,
  build b [] = inl m0 ->
  len (sink_bytes (w_sink (m_writer (fst (run m0 ops))))) < 18446744073709551616 ->
  w_bytes_written (m_writer (fst (run m0 ops))) = len (sink_bytes (w_sink (m_writer (fst (run m0 ops))))).
Proof. exact bytes_written_equals_sink_length. Qed.
Print Assumptions C06_reported_bytes_are_the_delivered_bytes.

From Muxide Require Export Model.F64 Proofs.HistoryProofs.
(* duration clause, integer level: the tick count that finish divides by 90000 is the largest
   presentation end (pts + duration) over all queued samples *)
Theorem C06_duration_ticks_are_the_largest_presentation_end : forall w,
  max_end_pts w =
    match map (sample_end (w_vlast_delta w)) (w_vrev w) ++ map (sample_end (w_alast_delta w)) (w_arev w) with
    | [] => None
    | l => Some (fold_right N.max 0 l)
    end.
Proof. exact max_end_pts_is_largest_presentation_end. Qed.
Print Assumptions C06_duration_ticks_are_the_largest_presentation_end.

Theorem C06_reported_duration_is_that_tick_count_over_90000 : forall m s m',
  step m FIN = (m', RStats s) ->
  st_duration s = fdiv (of_N (match max_end_pts (m_writer m) with Some t => t | None => 0 end)) f_90000.
Proof. exact reported_duration_is_max_end_over_90000. Qed.
Print Assumptions C06_reported_duration_is_that_tick_count_over_90000.

Theorem C06_nothing_is_written_after_finalization : forall m ops,
  w_finalized (m_writer m) = true -> sink_of (fst (run m ops)) = sink_of m.
Proof. exact nothing_is_written_after_finalization. Qed.
Print Assumptions C06_nothing_is_written_after_finalization.

From Muxide Require Export Model.Api Spec.Checks Proofs.EndToEndProofs Proofs.StatsEndToEndProofs Proofs.F64Accuracy.
Open Scope N_scope.
(* binary64 fact (Flocq; depends on the standard library's classical real-number axioms, listed by
   Print Assumptions below and allowlisted by name for this theorem and the next two only): dividing a
   tick count below 2^51 by 90000.0 and multiplying back recovers it exactly *)
Theorem C06_duration_roundtrip : forall n : N, n < 2251799813685248 -> tick (fdiv (of_N n) f_90000) = n.
Proof. exact duration_roundtrip_holds. Qed.
Print Assumptions C06_duration_roundtrip.

(* WHOLE HISTORIES, fault-free sink: nothing is written before finish, the file is written once, every
   later call is rejected and writes nothing, and the statistics equal the accepted frame counts, the
   delivered byte count and (within one tick) the largest presentation end, provided that end is below
   2^51 ticks (793 years; beyond that a binary64 number of seconds cannot resolve one tick: see
   C06_duration_clause_unsatisfiable_beyond_2p51_refuted) *)
Theorem C06_history_accounts_for_everything : forall b m0 ops m rs,
  build b [] = inl m0 -> run m0 ops = (m, rs) ->
  Forall op_payload_ok ops ->
  len (sink_of m) < 18446744073709551616 ->
  (first_stats rs <> None -> expected_max_end (accepted b ops (map class_of rs)) < 2251799813685248) ->
  check_C06 b ops (map class_of rs) (run_lens m0 ops) (first_stats rs) true = true.
Proof. exact (history_accounts_for_everything_variant duration_roundtrip_holds). Qed.
Print Assumptions C06_history_accounts_for_everything.

(* the same for ANY sink script (the byte-count clause then belongs to C13) *)
Theorem C06_history_accounts_for_everything_any_sink : forall b script m0 ops m rs,
  build b script = inl m0 -> run m0 ops = (m, rs) ->
  Forall op_payload_ok ops ->
  (first_stats rs <> None -> expected_max_end (accepted b ops (map class_of rs)) < 2251799813685248) ->
  check_C06 b ops (map class_of rs) (run_lens m0 ops) (first_stats rs) false = true.
Proof. exact (history_accounts_for_everything_any_sink duration_roundtrip_holds). Qed.
Print Assumptions C06_history_accounts_for_everything_any_sink.

Theorem C06_duration_clause_unsatisfiable_beyond_2p51_refuted :
  exists b m0 ops m rs,
    build b [] = inl m0 /\ run m0 ops = (m, rs) /\ Forall op_payload_ok ops /\
    (forall p, ~ In (RPanic p) rs) /\ len (sink_of m) < 4294967296 /\
    check_C06 b ops (map class_of rs) (run_lens m0 ops) (first_stats rs) true = false.
Proof. exact original_statement_fails_beyond_2p51. Qed.
Print Assumptions C06_duration_clause_unsatisfiable_beyond_2p51_refuted.
