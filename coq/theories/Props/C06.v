(** C06 - finalisation happens exactly once and accounts for every byte and frame. *)
From Muxide Require Export Model.Base Model.Writer Model.Api Proofs.FinishProofs.
Open Scope N_scope.

Theorem C06_only_finish_touches_the_sink : forall m o, o <> FIN ->
  w_sink (m_writer (fst (step m o))) = w_sink (m_writer m) /\
  w_bytes_written (m_writer (fst (step m o))) = w_bytes_written (m_writer m) /\
  w_finalized (m_writer (fst (step m o))) = w_finalized (m_writer m) /\
  m_finished (fst (step m o)) = m_finished m.
Proof. exact non_fin_ops_keep_sink. Qed.
Print Assumptions C06_only_finish_touches_the_sink.

Theorem C06_nothing_written_before_finish : forall b m0 ops,
  build b [] = inl m0 -> Forall (fun o => o <> FIN) ops ->
  sink_bytes (w_sink (m_writer (fst (run m0 ops)))) = [].
Proof. exact sink_empty_before_any_finish. Qed.
Print Assumptions C06_nothing_written_before_finish.

Theorem C06_successful_finish_finishes : forall m s m',
  step m FIN = (m', RStats s) -> m_finished m' = true /\ w_finalized (m_writer m') = true.
Proof. exact successful_finish_finishes. Qed.
Print Assumptions C06_successful_finish_finishes.

Theorem C06_after_finish_every_call_is_rejected_and_changes_nothing : forall m,
  m_finished m = true -> w_finalized (m_writer m) = true ->
  forall o, exists e, step m o = (m, RErr e).
Proof. exact finished_muxer_rejects_everything. Qed.
Print Assumptions C06_after_finish_every_call_is_rejected_and_changes_nothing.

Theorem C06_stats_count_frames_and_bytes : forall m s m',
  step m FIN = (m', RStats s) ->
  st_video_frames s = len (w_vrev (m_writer m)) /\
  st_audio_frames s = len (w_arev (m_writer m)) /\
  st_bytes s = w_bytes_written (m_writer m') /\
  w_vrev (m_writer m') = w_vrev (m_writer m) /\ w_arev (m_writer m') = w_arev (m_writer m).
Proof. exact stats_account_for_frames_and_bytes. Qed.
Print Assumptions C06_stats_count_frames_and_bytes.

Theorem C06_reported_bytes_are_the_delivered_bytes : forall b m0 ops,
  build b [] = inl m0 ->
  len (sink_bytes (w_sink (m_writer (fst (run m0 ops))))) < 18446744073709551616 ->
  w_bytes_written (m_writer (fst (run m0 ops))) = len (sink_bytes (w_sink (m_writer (fst (run m0 ops))))).
Proof. exact bytes_written_equals_sink_length. Qed.
Print Assumptions C06_reported_bytes_are_the_delivered_bytes.
