(** C13 - sink failures and partial writes never corrupt, duplicate or hide data. *)
From Muxide Require Export Model.Base Model.Writer Proofs.SinkProofs.
Open Scope N_scope.

Theorem C13_write_all_accepts_a_prefix : forall script buf s' acc e,
  write_all script buf = (s', acc, e) -> exists rest, buf = acc ++ rest /\ (e = None -> rest = []).
Proof. exact write_all_prefix. Qed.
Print Assumptions C13_write_all_accepts_a_prefix.

Theorem C13_error_only_if_the_sink_failed : forall script buf s' acc e,
  write_all script buf = (s', acc, e) -> e <> None -> ~ benign script.
Proof. exact write_all_error_iff_fault. Qed.
Print Assumptions C13_error_only_if_the_sink_failed.

Theorem C13_plan_accepts_a_prefix : forall bufs bw s bw' s' e,
  run_plan bufs bw s = (bw', s', e) ->
  exists acc rest, sink_bytes s' = sink_bytes s ++ acc /\ concat bufs = acc ++ rest /\ (e = None -> rest = []).
Proof. exact run_plan_prefix. Qed.
Print Assumptions C13_plan_accepts_a_prefix.

(* whatever the sink does, what it accepted is a prefix of the fault-free file *)
Theorem C13_accepted_bytes_are_a_prefix_of_the_fault_free_file : forall w v m fs chunks script,
  let w_faulty := with_sink w (w_finalized w) (w_bytes_written w) {| sk_rev_chunks := chunks; sk_script := script |} in
  let w_clean  := with_sink w (w_finalized w) (w_bytes_written w) {| sk_rev_chunks := chunks; sk_script := [] |} in
  exists rest, sink_bytes (w_sink (fst (finalize w_clean v m fs))) =
               sink_bytes (w_sink (fst (finalize w_faulty v m fs))) ++ rest.
Proof. exact finalize_accepted_is_prefix_of_fault_free. Qed.
Print Assumptions C13_accepted_bytes_are_a_prefix_of_the_fault_free_file.

(* short writes and interruptions alone change nothing: same bytes, same result, same count *)
Theorem C13_benign_sink_same_as_fault_free : forall w v m fs chunks script, benign script ->
  let w_faulty := with_sink w (w_finalized w) (w_bytes_written w) {| sk_rev_chunks := chunks; sk_script := script |} in
  let w_clean  := with_sink w (w_finalized w) (w_bytes_written w) {| sk_rev_chunks := chunks; sk_script := [] |} in
  sink_bytes (w_sink (fst (finalize w_faulty v m fs))) = sink_bytes (w_sink (fst (finalize w_clean v m fs))) /\
  snd (finalize w_faulty v m fs) = snd (finalize w_clean v m fs) /\
  w_bytes_written (fst (finalize w_faulty v m fs)) = w_bytes_written (fst (finalize w_clean v m fs)).
Proof. exact finalize_benign_same_as_fault_free. Qed.
Print Assumptions C13_benign_sink_same_as_fault_free.

(* after any finalize attempt past the guards, later attempts write nothing *)
Theorem C13_no_write_after_finalize : forall w v m fs,
  w_finalized w = true -> finalize w v m fs = (w, FinErr (FinIo IoOther)).
Proof. exact finalize_second_call_writes_nothing. Qed.
Print Assumptions C13_no_write_after_finalize.

Example C13_nonvacuous_faulty_script :
  write_all [SAcc 2; SIntr; SAcc 1; SFail 3; SAcc 9] [1; 2; 3; 4; 5] = ([SAcc 9], [1; 2; 3], Some (IoInjected 3)) /\
  benign [SAcc 2; SIntr; SAcc 1] /\ ~ benign [SAcc 0].
Proof.
  split; [reflexivity|]. split.
  - repeat constructor; discriminate.
  - intro H. inversion H as [|? ? H1 H2]. apply H1. reflexivity.
Qed.

From Muxide Require Export Model.Api Model.Frag Proofs.SinkProofs Proofs.HistoryProofs.
(* WHOLE HISTORIES: whatever the sink script does, after any call history the accepted bytes are a
   prefix of what the fault-free sink holds after the same history *)
Theorem C13_faulty_history_is_prefix_of_fault_free : forall b script m0 m0' ops,
  build b script = inl m0 -> build b [] = inl m0' ->
  exists rest, sink_of (fst (run m0' ops)) = sink_of (fst (run m0 ops)) ++ rest.
Proof. exact faulty_history_is_prefix_of_fault_free. Qed.
Print Assumptions C13_faulty_history_is_prefix_of_fault_free.

(* a sink that only shortens / interrupts writes gives the same results, statistics and bytes *)
Theorem C13_benign_history_same_as_fault_free : forall b script m0 m0' ops,
  benign script -> build b script = inl m0 -> build b [] = inl m0' ->
  snd (run m0 ops) = snd (run m0' ops) /\ sink_of (fst (run m0 ops)) = sink_of (fst (run m0' ops)).
Proof. exact benign_history_same_as_fault_free. Qed.
Print Assumptions C13_benign_history_same_as_fault_free.

(* after a finish attempt got past its argument checks, no later call writes anything *)
Theorem C13_nothing_is_written_after_finalization : forall m ops,
  w_finalized (m_writer m) = true -> sink_of (fst (run m ops)) = sink_of m.
Proof. exact nothing_is_written_after_finalization. Qed.
Print Assumptions C13_nothing_is_written_after_finalization.
