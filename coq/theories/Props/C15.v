(** C15 - audio and video samples are interleaved in timestamp order in the media data. *)
From Muxide Require Export Model.Base Model.Writer Spec.Layout Proofs.LayoutProofs.
Open Scope N_scope.

Theorem C15_storage_order : forall vs as_ start vo ao,
  dts_increasing vs -> pts_nondecreasing as_ ->
  walk_offsets vs as_ (compute_interleave_schedule vs as_) start = WalkOk vo ao ->
  (forall i j oi oj si, (i < j)%nat -> nth_error vo i = Some oi -> nth_error vo j = Some oj ->
        nth_error vs i = Some si -> oi + len (s_data si) <= oj) /\
  (forall i j oi oj si, (i < j)%nat -> nth_error ao i = Some oi -> nth_error ao j = Some oj ->
        nth_error as_ i = Some si -> oi + len (s_data si) <= oj) /\
  (forall i j sv sa ov oa, nth_error vs i = Some sv -> nth_error as_ j = Some sa ->
        nth_error vo i = Some ov -> nth_error ao j = Some oa ->
        (s_dts sv <= s_pts sa -> ov + len (s_data sv) <= oa) /\
        (s_pts sa < s_dts sv -> oa + len (s_data sa) <= ov)).
Proof. exact walk_offsets_storage_order. Qed.
Print Assumptions C15_storage_order.

Theorem C15_each_track_in_sample_order : forall vs as_,
  dts_increasing vs -> pts_nondecreasing as_ ->
  filter is_video_entry (compute_interleave_schedule vs as_) = video_entries vs /\
  filter is_audio_entry (compute_interleave_schedule vs as_) = audio_entries as_.
Proof. intros vs as_ Hv Ha. split; [apply schedule_keeps_video_in_sample_order | apply schedule_keeps_audio_in_sample_order]; assumption. Qed.
Print Assumptions C15_each_track_in_sample_order.

From Muxide Require Export Model.Api Spec.Checks Proofs.EndToEndProofs.
(* END TO END: storage order read back from every finished file *)
Theorem C15_finished_file_storage_order : forall b m0 ops m rs s,
  build b [] = inl m0 -> run m0 ops = (m, rs) -> In (RStats s) rs ->
  Forall op_payload_ok ops -> len (sink_of m) < 4294967296 ->
  check_C15 b ops (map class_of rs) (sink_of m) = true.
Proof. exact finished_file_storage_order. Qed.
Print Assumptions C15_finished_file_storage_order.
