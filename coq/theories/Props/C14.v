(** C14 - re-framing is exact. *)
From Muxide Require Export Model.Base Model.Annexb Spec.NalSplit Proofs.TableProofs.
Open Scope N_scope.

Theorem C14_length_prefixed_units_parse_back :
  forall nals, Forall (fun n => len n < 4294967296) nals -> parse_len4 (len_prefixed nals) = Some nals.
Proof. exact parse_len4_len_prefixed. Qed.
Print Assumptions C14_length_prefixed_units_parse_back.
