(** C14 - re-framing (Annex B -> length-prefixed NALs, ADTS -> raw AAC) is exact.
    Statements only; proofs live in Proofs/. *)
From Muxide Require Export Model.Base Model.Annexb Model.Adts Spec.NalSplit
  Proofs.TableProofs Proofs.AnnexbProofs Proofs.AdtsProofs.
Open Scope N_scope.

(* the scanner's iterator yields exactly the declaratively defined units, for every byte string *)
Theorem C14_iterator_is_declarative_split : forall d : bytes, nal_iter d = spec_units d.
Proof. exact nal_iter_is_spec_units. Qed.
Print Assumptions C14_iterator_is_declarative_split.

(* the converted sample parses exactly to its end as 4-byte length-prefixed units whose
   payloads are the non-empty declarative units (whole input when there is none) *)
Theorem C14_annexb_to_avcc_exact :
  forall d : bytes, len d < 4294967296 -> check_reframe d (annexb_to_avcc d) = true.
Proof. exact annexb_to_avcc_is_spec. Qed.
Print Assumptions C14_annexb_to_avcc_exact.

Theorem C14_hevc_annexb_to_hvcc_exact :
  forall d : bytes, len d < 4294967296 -> check_reframe d (hevc_annexb_to_hvcc d) = true.
Proof. exact hevc_annexb_to_hvcc_is_spec. Qed.
Print Assumptions C14_hevc_annexb_to_hvcc_exact.

Theorem C14_length_prefixed_units_parse_back :
  forall nals, Forall (fun n => len n < 4294967296) nals -> parse_len4 (len_prefixed nals) = Some nals.
Proof. exact parse_len4_len_prefixed. Qed.
Print Assumptions C14_length_prefixed_units_parse_back.

(* ADTS: accept/reject decision = declarative header validity; accepted payload = declared slice *)
Theorem C14_adts_decision_and_payload : forall f : bytes, bytes_ok f = true ->
  match adts_to_raw f with
  | AdtsOk raw => spec_adts_payload f = Some raw
  | AdtsErr _ => spec_adts_payload f = None
  end.
Proof. exact adts_to_raw_is_spec. Qed.
Print Assumptions C14_adts_decision_and_payload.

Theorem C14_adts_payload_is_the_declared_slice : forall f raw, bytes_ok f = true ->
  adts_to_raw f = AdtsOk raw ->
  exists hdr fl, adts_valid_header f = Some (hdr, fl) /\
                 (hdr = 7 \/ hdr = 9) /\ hdr < fl /\ fl <= len f /\
                 raw = take (fl - hdr) (drop hdr f) /\ len raw = fl - hdr.
Proof. exact adts_payload_is_the_declared_slice. Qed.
Print Assumptions C14_adts_payload_is_the_declared_slice.

(* non-vacuity: a concrete access unit with 3- and 4-byte start codes, leading junk,
   an empty unit and trailing zeros meets the hypotheses and is split as expected *)
Example C14_nonvacuous :
  let d := [9; 0; 0; 0; 1; 103; 66; 0; 0; 1; 0; 0; 1; 101; 136; 0; 0; 0] in
  len d < 4294967296 /\
  spec_payloads d = [[103; 66]; [101; 136; 0; 0; 0]] /\
  annexb_to_avcc d = [0; 0; 0; 2; 103; 66; 0; 0; 0; 5; 101; 136; 0; 0; 0].
Proof. vm_compute. repeat split; reflexivity. Qed.

Example C14_adts_nonvacuous :
  let f := [255; 241; 76; 128; 1; 63; 252; 170; 187] in
  bytes_ok f = true /\ adts_to_raw f = AdtsOk [170; 187].
Proof. vm_compute. split; reflexivity. Qed.
