(** C02 - every emitted byte stream is a well-formed box tree. *)
From Muxide Require Export Model.Base Model.Boxes Model.Frag Spec.Bmff Spec.FragSpec Spec.Checks Proofs.BaseProofs Proofs.FragStructureProofs Proofs.StructureProofs.
From Muxide Require Export Model.Writer Model.Api.
Open Scope N_scope.

Theorem C02_reader_recovers_every_built_box :
  forall t0 t1 t2 t3 p r, 8 + len p < 4294967296 ->
    parse_box (build_box [t0; t1; t2; t3] p ++ r) = Some ([t0; t1; t2; t3], p, r).
Proof. exact parse_box_build_box. Qed.
Print Assumptions C02_reader_recovers_every_built_box.

(* every fragmented init segment is a well-formed tree: ftyp, moov(mvhd, mvex/trex for track 1,
   one complete trak with consistent (empty) tables), for all four codec configurations *)
Theorem C02_init_segment_is_wellformed : forall c : frag_config,
  len (init_segment_bytes c) < 4294967296 -> check_init_structure (init_segment_bytes c) = true.
Proof. exact init_segment_is_wellformed. Qed.
Print Assumptions C02_init_segment_is_wellformed.

(* every media segment is exactly moof(mfhd, traf(tfhd, tfdt, trun)) + mdat with consistent sizes *)
Theorem C02_media_segment_is_wellformed : forall (l : list frag_sample) (seq base : N),
  seg_fits l -> 96 + 16 * len l < 2147483648 -> seq < 4294967296 -> base < 18446744073709551616 ->
  check_segment_structure (build_media_segment l seq base) = true.
Proof. exact media_segment_is_wellformed. Qed.
Print Assumptions C02_media_segment_is_wellformed.

(* the movie box parses, through all containers, with exact tiling *)
Theorem C02_moov_parses : forall v vt audio c m,
  len (build_moov_box v vt audio c m) < 4294967296 ->
  exists kids p, parse_forest 11 (build_moov_box v vt audio c m) = Some [Box T_moov p kids].
Proof. exact moov_parses. Qed.
Print Assumptions C02_moov_parses.

(* END TO END: every progressive file the API can produce (any configuration, any history, both
   layouts, fault-free sink, below 4 GiB) is a well-formed tree: ftyp first, one moov, at most one
   mdat, one complete trak per configured stream, mutually consistent table counts *)
Theorem C02_finished_file_is_wellformed : forall b m0 ops m rs s,
  build b [] = inl m0 -> run m0 ops = (m, rs) -> In (RStats s) rs ->
  len (sink_of m) < 4294967296 ->
  check_file_structure (match m_audio m0 with Some _ => true | None => false end) (sink_of m) = true.
Proof. exact finished_file_is_wellformed. Qed.
Print Assumptions C02_finished_file_is_wellformed.
