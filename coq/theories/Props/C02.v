(** C02 - every emitted byte stream is a well-formed box tree. *)
From Muxide Require Export Model.Base Model.Boxes Spec.Bmff Proofs.BaseProofs.
Open Scope N_scope.

Theorem C02_reader_recovers_every_built_box :
  forall t0 t1 t2 t3 p r, 8 + len p < 4294967296 ->
    parse_box (build_box [t0; t1; t2; t3] p ++ r) = Some ([t0; t1; t2; t3], p, r).
Proof. exact parse_box_build_box. Qed.
Print Assumptions C02_reader_recovers_every_built_box.
