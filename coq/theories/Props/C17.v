(** C17 - output is a pure function of the call sequence; equivalent API paths agree.
    The model is a Gallina function of the call sequence, so determinism holds of it by
    construction; what carries it to the crate is the byte-exact correspondence plus the
    thread / sink-type / re-run tests of the check (labelled as tests).  The theorems here are
    the path equivalences. *)
From Muxide Require Export Model.Base Model.Boxes Model.Writer Model.Api Model.Frag.
Open Scope N_scope.

Theorem C17_set_video_track_is_video : forall b c w h, bstep b (BSetVideoTrack c w h) = bstep b (BVideo c w h).
Proof. reflexivity. Qed.
Print Assumptions C17_set_video_track_is_video.

Theorem C17_set_audio_track_is_audio : forall b c r ch, bstep b (BSetAudioTrack c r ch) = bstep b (BAudio c r ch).
Proof. reflexivity. Qed.
Print Assumptions C17_set_audio_track_is_audio.

(* set_create_time / set_language on a builder without metadata = with_metadata of the same fields *)
Theorem C17_setters_equal_with_metadata : forall b t l, b_meta b = None ->
  bstep (bstep b (BSetCreateTime t)) (BSetLanguage l) =
  bstep b (BWithMetadata {| md_title := None; md_creation_time := Some t; md_language := Some l |}).
Proof. intros b t l H. destruct b; cbn in *; subst. reflexivity. Qed.
Print Assumptions C17_setters_equal_with_metadata.

(* audio codec 'none' builds exactly the muxer built without any audio configuration *)
Theorem C17_audio_none_is_no_audio : forall b r ch script,
  build (upd_audio b (Some (NoAudio, r, ch))) script = build (upd_audio b None) script.
Proof. intros b r ch script. unfold build. destruct b as [v a m f s p vp av vc]; cbn. destruct v as [[[c w] h]|]; reflexivity. Qed.
Print Assumptions C17_audio_none_is_no_audio.

(* the automatic-timestamp convenience write is the explicit write at the accumulated time *)
Theorem C17_encode_video_is_write_video_at_accumulated_time : forall m d ms,
  snd (encode_video m d ms) = snd (write_video m (m_cur_vpts m) d (api_is_keyframe m d)) /\
  m_writer (fst (encode_video m d ms)) = m_writer (fst (write_video m (m_cur_vpts m) d (api_is_keyframe m d))).
Proof.
  intros m d ms. unfold encode_video.
  destruct (write_video m (m_cur_vpts m) d (api_is_keyframe m d)) as [m' [e|]]; split; reflexivity.
Qed.
Print Assumptions C17_encode_video_is_write_video_at_accumulated_time.

Theorem C17_encode_audio_is_write_audio_at_accumulated_time : forall m d n a,
  m_audio m = Some a ->
  snd (encode_audio m d n) = snd (write_audio m (m_cur_apts m) d) /\
  m_writer (fst (encode_audio m d n)) = m_writer (fst (write_audio m (m_cur_apts m) d)).
Proof.
  intros m d n a H. unfold encode_audio. rewrite H.
  destruct (write_audio m (m_cur_apts m) d) as [m' [e|]]; split; reflexivity.
Qed.
Print Assumptions C17_encode_audio_is_write_audio_at_accumulated_time.

(* the file depends on a video timestamp only through its 90 kHz tick *)
Theorem C17_writer_sees_only_ticks : forall m p p' d k w w',
  F64.tick p = F64.tick p' ->
  write_video_sample (m_writer m) (F64.tick p) d k = inl w ->
  write_video_sample (m_writer m) (F64.tick p') d k = inl w' -> w = w'.
Proof. intros m p p' d k w w' H A B. rewrite H in A. rewrite A in B. inversion B. reflexivity. Qed.
Print Assumptions C17_writer_sees_only_ticks.

From Muxide Require Export Proofs.HistoryProofs.
(* two timestamps with the same tick and the same accept/reject decision give the same writer *)
Theorem C17_equal_ticks_equal_writer : forall m p p' d k,
  F64.tick p = F64.tick p' ->
  (forall e, snd (write_video m p d k) = Some e <-> snd (write_video m p' d k) = Some e) ->
  snd (write_video m p d k) = None ->
  m_writer (fst (write_video m p d k)) = m_writer (fst (write_video m p' d k)).
Proof. exact equal_ticks_equal_writer. Qed.
Print Assumptions C17_equal_ticks_equal_writer.

From Muxide Require Export Model.F64 Model.Writer Model.Api Spec.Paths Proofs.PathProofs.
(* WHOLE HISTORIES: replacing every automatic-timestamp convenience call of a history by the
   explicit-timestamp call with the clock value and keyframe flag it would have used (Paths.explicit_of,
   the translation the check also runs on the real crate) changes no result and no byte of the file *)
Theorem C17_explicit_path_equivalent : forall b script m0 ops,
  build b script = inl m0 ->
  snd (run m0 (explicit_of m0 ops)) = snd (run m0 ops) /\
  m_writer (fst (run m0 (explicit_of m0 ops))) = m_writer (fst (run m0 ops)).
Proof. exact explicit_path_equivalent. Qed.
Print Assumptions C17_explicit_path_equivalent.

Theorem C17_explicit_path_same_file : forall b script m0 ops,
  build b script = inl m0 -> sink_of (fst (run m0 (explicit_of m0 ops))) = sink_of (fst (run m0 ops)).
Proof. exact explicit_path_same_file. Qed.
Print Assumptions C17_explicit_path_same_file.

(* the automatic clocks always hold values that survive the bit-pattern round trip *)
Theorem C17_clocks_round_trip : forall b script m0 ops, build b script = inl m0 ->
  decode64 (encode64 (m_cur_vpts (fst (run m0 ops)))) = m_cur_vpts (fst (run m0 ops)) /\
  decode64 (encode64 (m_cur_apts (fst (run m0 ops)))) = m_cur_apts (fst (run m0 ops)).
Proof. exact reachable_clocks_round_trip. Qed.
Print Assumptions C17_clocks_round_trip.

(* builder aliases over whole builder scripts *)
Theorem C17_alias_script_same_builder : forall l, run_builder (map alias_bop l) = run_builder l.
Proof. exact alias_script_same_builder. Qed.
Print Assumptions C17_alias_script_same_builder.

From Muxide Require Export Model.Writer Model.Api Proofs.SinkProofs Proofs.HistoryProofs Proofs.SinkTypeProofs.
(* SINK-TYPE independence, as far as a model can say it: any two sinks that never fail (whatever sequence of
   short writes and Interrupted results they produce: Vec, Cursor, File, BufWriter, a socket-like trickle
   sink are all instances of the Write contract modelled by sink scripts) receive the same bytes and the
   caller sees the same results and statistics *)
Theorem C17_any_two_benign_sinks_agree : forall b script1 script2 m1 m2 ops,
  benign script1 -> benign script2 -> build b script1 = inl m1 -> build b script2 = inl m2 ->
  snd (run m1 ops) = snd (run m2 ops) /\ sink_of (fst (run m1 ops)) = sink_of (fst (run m2 ops)).
Proof. exact any_two_benign_sinks_agree. Qed.
Print Assumptions C17_any_two_benign_sinks_agree.
