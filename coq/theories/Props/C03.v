(** C03 - decode and composition timing in the file equals the submitted timestamps. *)
From Coq Require Export Sorting.Sorted.
From Muxide Require Export Model.Base Model.Boxes Model.Writer Model.Api Spec.Reader Spec.Layout
  Proofs.TableProofs Proofs.TimingProofs.
Open Scope N_scope.

(* in every reachable state the duration table is exactly the consecutive decode-time
   differences, the final sample repeating the preceding interval *)
Theorem C03_video_durations_are_dts_differences : forall w,
  WInv w -> durations_of (vsamples w) (w_vlast_delta w) = durations_spec (map s_dts (vsamples w)).
Proof. exact video_durations_are_dts_differences. Qed.
Print Assumptions C03_video_durations_are_dts_differences.

Theorem C03_audio_durations_are_pts_differences : forall w,
  WInv w -> durations_of (asamples w) (w_alast_delta w) = durations_spec (map s_pts (asamples w)).
Proof. exact audio_durations_are_pts_differences. Qed.
Print Assumptions C03_audio_durations_are_pts_differences.

Theorem C03_invariant_holds_in_every_reachable_state : forall b script m0 ops,
  build b script = inl m0 -> WInv (m_writer (fst (run m0 ops))).
Proof. exact WInv_reachable. Qed.
Print Assumptions C03_invariant_holds_in_every_reachable_state.

(* no drift, for any number of frames: the first k durations sum to the difference of the
   absolute (rounded) timestamps *)
Theorem C03_no_accumulated_drift : forall (dts : list N) (k : nat),
  StronglySorted (fun a b => a <= b) dts -> (k < length dts)%nat ->
  sumN (firstn k (durations_spec dts)) = nth k dts 0 - nth 0 dts 0.
Proof. exact durations_telescope. Qed.
Print Assumptions C03_no_accumulated_drift.

(* composition offsets: accepted samples always fit, and the stored offset is exactly pts - dts *)
Theorem C03_composition_offsets_fit_in_every_reachable_state : forall b script m0 ops,
  build b script = inl m0 -> cts_all_fit (m_writer (fst (run m0 ops))).
Proof. exact cts_fit_reachable. Qed.
Print Assumptions C03_composition_offsets_fit_in_every_reachable_state.

Theorem C03_composition_offset_exact : forall s,
  (-2147483648 <= Z.of_N (s_pts s) - Z.of_N (s_dts s) <= 2147483647)%Z ->
  cts_of s = (Z.of_N (s_pts s) - Z.of_N (s_dts s))%Z.
Proof. exact cts_of_exact. Qed.
Print Assumptions C03_composition_offset_exact.

Theorem C03_stts_runs_are_lossless : forall l : list N, expand_runs (rle N.eqb l) = l.
Proof. intro l. apply expand_runs_rle. intros x y H. apply N.eqb_eq. exact H. Qed.
Print Assumptions C03_stts_runs_are_lossless.

Theorem C03_ctts_runs_are_lossless : forall l : list Z, expand_runs (rle Z.eqb l) = l.
Proof. intro l. apply expand_runs_rle. intros x y H. apply Z.eqb_eq. exact H. Qed.
Print Assumptions C03_ctts_runs_are_lossless.

From Muxide Require Export Spec.Checks Proofs.EndToEndProofs.
(* END TO END: timing tables read back from every finished file equal the submitted timestamps
   (the 32-bit media-duration bound is the class of recorded finding KF-C03-1 / KF-C16-1) *)
Theorem C03_finished_file_timing_is_exact : forall b m0 ops m rs s,
  build b [] = inl m0 -> run m0 ops = (m, rs) -> In (RStats s) rs ->
  Forall op_payload_ok ops -> len (sink_of m) < 4294967296 ->
  sumN (durations_of (vsamples (m_writer m)) (w_vlast_delta (m_writer m))) < 4294967296 ->
  sumN (durations_of (asamples (m_writer m)) (w_alast_delta (m_writer m))) < 4294967296 ->
  check_C03 b ops (map class_of rs) (sink_of m) = true.
Proof. exact finished_file_timing_is_exact. Qed.
Print Assumptions C03_finished_file_timing_is_exact.

From Coq Require Export ZArith Reals Floats.SpecFloat.
From Flocq Require Export Core.Core IEEE754.BinarySingleNaN.
From Muxide Require Export Model.F64 Proofs.F64Accuracy.
(* "rounded to the 90 kHz media clock": the tick the model (and the crate) computes for a submitted
   binary64 time x is the real product x * 90000 rounded to binary64 and then to the nearest integer; it is
   within 1/2 + 2^-53 * (x * 90000) of the real product, for every finite non-negative x below 2^63 ticks
   (Flocq; depends on the standard library's classical real-number axioms, allowlisted for this theorem) *)
Theorem C03_tick_is_the_rounded_real_product : forall x : f64,
  valid_binary prec emax x = true -> is_finite x = true ->
  (0 <= SF2R radix2 x)%R -> (SF2R radix2 x * 90000 <= IZR (2 ^ 63))%R ->
  let y := (SF2R radix2 x * 90000)%R in
  (Rabs (IZR (Z.of_N (tick x)) - RN64 y) <= /2)%R /\
  (Rabs (RN64 y - y) <= / IZR (2 ^ 53) * y)%R /\
  (Rabs (IZR (Z.of_N (tick x)) - y) <= /2 + / IZR (2 ^ 53) * y)%R.
Proof. exact tick_accuracy. Qed.
Print Assumptions C03_tick_is_the_rounded_real_product.
