(** C03 - timing tables equal the submitted timestamps. *)
From Muxide Require Export Model.Base Model.Boxes Spec.Reader Proofs.TableProofs.
Open Scope N_scope.

Theorem C03_stts_runs_are_lossless :
  forall l : list N, expand_runs (rle N.eqb l) = l.
Proof. intro l. apply expand_runs_rle. intros x y H. apply N.eqb_eq. exact H. Qed.
Print Assumptions C03_stts_runs_are_lossless.

Theorem C03_ctts_runs_are_lossless :
  forall l : list Z, expand_runs (rle Z.eqb l) = l.
Proof. intro l. apply expand_runs_rle. intros x y H. apply Z.eqb_eq. exact H. Qed.
Print Assumptions C03_ctts_runs_are_lossless.
