(** C09 - audio/video synchronisation of the input is preserved.
    The property is FALSE of the faithful model (and of the code): both timelines are rebuilt
    from zero and no edit list is written.  The witness below is the recorded finding KF-C09-1;
    the check reports any violation outside that class. *)
From Muxide Require Export Model.Base Model.F64 Model.Boxes Model.Writer Model.Api Spec.Checks.
Open Scope N_scope.

Definition key264 : bytes := [0;0;0;1;103;66;0;30; 0;0;0;1;104;206;56;128; 0;0;0;1;101;136;132].
Definition adts1 : bytes := [255;241;76;128;1;63;252;170;187].

Definition c09_builder : builder :=
  run_builder [BVideo H264 640 480; BAudio (Aac Lc) 48000 2; BFastStart false].

(* video at 0 s, audio at 1 s and 1.5 s *)
Definition c09_ops : list op :=
  [WV 0 key264 true; WA 4607182418800017408 adts1; WA 4609434218613702656 adts1; FIN].

Definition c09_run :=
  match build c09_builder [] with
  | inl m0 => let '(m, rs) := run m0 c09_ops in
              Some (sink_of m, map (fun r => match r with RErr _ => CErr | RPanic _ => CPanic | _ => COk end) rs)
  | inr _ => None
  end.

Theorem C09_refuted_on_the_model :
  exists file cls, c09_run = Some (file, cls) /\
                   cls = [COk; COk; COk; COk] /\
                   check_C09 c09_builder c09_ops cls file = false.
Proof.
  destruct c09_run as [[file cls]|] eqn:E; [|vm_compute in E; discriminate].
  exists file, cls. split; [reflexivity|].
  vm_compute in E. inversion E; subst. split; vm_compute; reflexivity.
Qed.
Print Assumptions C09_refuted_on_the_model.

(* the same history with the audio starting together with the video satisfies the predicate *)
Definition c09_ops_aligned : list op :=
  [WV 0 key264 true; WA 0 adts1; WA 4602678819172646912 adts1; FIN].

Theorem C09_holds_when_starts_coincide_example :
  match build c09_builder [] with
  | inl m0 => let '(m, rs) := run m0 c09_ops_aligned in
              check_C09 c09_builder c09_ops_aligned [COk; COk; COk; COk] (sink_of m) = true
  | inr _ => False
  end.
Proof. vm_compute. reflexivity. Qed.
Print Assumptions C09_holds_when_starts_coincide_example.

From Muxide Require Export Model.Writer Spec.Layout Proofs.EndToEndProofs Proofs.SyncProofs.
(* the class in which the property HOLDS, for all histories: when the first accepted audio frame
   has the tick of the first accepted video frame's decode time (or there is no audio), every audio
   sample's presentation time relative to the first video sample, read back from the file, is
   within one tick of the submitted difference *)
Theorem C09_sync_preserved_when_starts_coincide : forall b m0 ops m rs s,
  build b [] = inl m0 -> run m0 ops = (m, rs) -> In (RStats s) rs ->
  Forall op_payload_ok ops -> len (sink_of m) < 4294967296 ->
  sumN (durations_of (asamples (m_writer m)) (w_alast_delta (m_writer m))) < 4294967296 ->
  starts_aligned (accepted b ops (map class_of rs)) ->
  check_C09 b ops (map class_of rs) (sink_of m) = true.
Proof. exact sync_preserved_when_starts_coincide. Qed.
Print Assumptions C09_sync_preserved_when_starts_coincide.
