(** C08 - fast start changes only the layout. *)
From Muxide Require Export Model.Base Model.Boxes Proofs.MoovProofs.
Open Scope N_scope.

(* the size of the movie box does not depend on the VALUES of the chunk offsets, so the
   second pass of the fast-start layout lands exactly where the first pass measured *)
Theorem C08_moov_length_independent_of_offsets : forall v vt vt' c m,
  same_shape vt vt' ->
  length (build_moov_box v vt None c m) = length (build_moov_box v vt' None c m).
Proof. exact moov_length_independent_of_offsets. Qed.
Print Assumptions C08_moov_length_independent_of_offsets.

Theorem C08_moov_length_independent_of_offsets_av : forall v vt vt' a at_ at_' c m,
  same_shape vt vt' -> same_shape at_ at_' ->
  length (build_moov_box v vt (Some (a, at_)) c m) = length (build_moov_box v vt' (Some (a, at_')) c m).
Proof. exact moov_length_independent_of_offsets_av. Qed.
Print Assumptions C08_moov_length_independent_of_offsets_av.

(* tables that differ only in chunk-offset values give sample tables that differ only in stco *)
Theorem C08_layouts_differ_only_in_stco : forall v vt vt' c,
  same_shape vt vt' ->
  exists pre post,
    build_stbl_box v vt c  = be32 (8 + len (pre ++ build_stco_box (st_chunk_offsets vt)  ++ post)) ++ T_stbl ++ pre ++ build_stco_box (st_chunk_offsets vt)  ++ post /\
    build_stbl_box v vt' c = be32 (8 + len (pre ++ build_stco_box (st_chunk_offsets vt') ++ post)) ++ T_stbl ++ pre ++ build_stco_box (st_chunk_offsets vt') ++ post.
Proof. exact stbl_differs_only_in_stco. Qed.
Print Assumptions C08_layouts_differ_only_in_stco.

From Muxide Require Export Model.Writer Model.Api Spec.Checks Proofs.EndToEndProofs Proofs.FastStartProofs.
(* END TO END: for every configuration and history, the files obtained with fast start on and off
   have the prescribed top-level order and describe identical tracks, sample entries, timing, sample
   bytes and sync flags through the independent reader (everything but chunk offsets) *)
Theorem C08_fast_start_changes_only_the_layout : forall b m_on m_off ops s_on s_off,
  build (with_fast b true) [] = inl m_on -> build (with_fast b false) [] = inl m_off ->
  In (RStats s_on) (snd (run m_on ops)) -> In (RStats s_off) (snd (run m_off ops)) ->
  Forall op_payload_ok ops ->
  len (sink_of (fst (run m_on ops))) < 4294967296 -> len (sink_of (fst (run m_off ops))) < 4294967296 ->
  check_C08 (negb (match vsamples (m_writer (fst (run m_on ops))) ++ asamples (m_writer (fst (run m_on ops))) with [] => true | _ => false end))
            (sink_of (fst (run m_on ops))) (sink_of (fst (run m_off ops))) = true.
Proof. exact fast_start_changes_only_the_layout. Qed.
Print Assumptions C08_fast_start_changes_only_the_layout.

Theorem C08_fast_start_does_not_change_queues : forall b m_on m_off ops,
  build (with_fast b true) [] = inl m_on -> build (with_fast b false) [] = inl m_off ->
  vsamples (m_writer (fst (run m_on ops))) = vsamples (m_writer (fst (run m_off ops))) /\
  asamples (m_writer (fst (run m_on ops))) = asamples (m_writer (fst (run m_off ops))).
Proof. exact fast_start_does_not_change_queues. Qed.
Print Assumptions C08_fast_start_does_not_change_queues.

Theorem C08_fast_start_does_not_change_results_before_finish : forall b m_on m_off ops,
  build (with_fast b true) [] = inl m_on -> build (with_fast b false) [] = inl m_off ->
  Forall (fun o => o <> FIN) ops ->
  snd (run m_on ops) = snd (run m_off ops).
Proof. exact fast_start_does_not_change_results_before_finish. Qed.
Print Assumptions C08_fast_start_does_not_change_results_before_finish.

(* model-level finding: within 40 bytes of the 4 GiB limit the outcome of finish itself depends on
   the layout (u32 cursor panic in the standard layout only) *)
Theorem C08_finish_outcome_depends_on_layout_near_4GiB_refuted :
  exists b m_on m_off ops,
    build (with_fast b true) [] = inl m_on /\ build (with_fast b false) [] = inl m_off /\
    map class_of (snd (run m_on ops)) <> map class_of (snd (run m_off ops)).
Proof. exact fast_start_does_not_change_results_counterexample. Qed.
Print Assumptions C08_finish_outcome_depends_on_layout_near_4GiB_refuted.
