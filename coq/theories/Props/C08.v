(** C08 - fast start changes only the layout. *)
From Muxide Require Export Model.Base Model.Boxes Proofs.MoovProofs.
Open Scope N_scope.

(* the size of the movie box does not depend on the VALUES of the chunk offsets, so the
   second pass of the fast-start layout lands exactly where the first pass measured *)
Theorem C08_moov_length_independent_of_offsets : forall v vt vt' c m,
  same_shape vt vt' ->
  length (build_moov_box v vt None c m) = length (build_moov_box v vt' None c m).
Proof. exact moov_length_independent_of_offsets. Qed.
Print Assumptions C08_moov_length_independent_of_offsets.

Theorem C08_moov_length_independent_of_offsets_av : forall v vt vt' a at_ at_' c m,
  same_shape vt vt' -> same_shape at_ at_' ->
  length (build_moov_box v vt (Some (a, at_)) c m) = length (build_moov_box v vt' (Some (a, at_')) c m).
Proof. exact moov_length_independent_of_offsets_av. Qed.
Print Assumptions C08_moov_length_independent_of_offsets_av.

(* tables that differ only in chunk-offset values give sample tables that differ only in stco *)
Theorem C08_layouts_differ_only_in_stco : forall v vt vt' c,
  same_shape vt vt' ->
  exists pre post,
    build_stbl_box v vt c  = be32 (8 + len (pre ++ build_stco_box (st_chunk_offsets vt)  ++ post)) ++ T_stbl ++ pre ++ build_stco_box (st_chunk_offsets vt)  ++ post /\
    build_stbl_box v vt' c = be32 (8 + len (pre ++ build_stco_box (st_chunk_offsets vt') ++ post)) ++ T_stbl ++ pre ++ build_stco_box (st_chunk_offsets vt') ++ post.
Proof. exact stbl_differs_only_in_stco. Qed.
Print Assumptions C08_layouts_differ_only_in_stco.
