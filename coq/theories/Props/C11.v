(** C11 - fragmented segments carry a consistent timeline and a stable init segment. *)
From Coq Require Export Sorting.Sorted.
From Muxide Require Export Model.Base Model.Frag Spec.FragSpec Proofs.FragProofs Proofs.FragStructureProofs.
Open Scope N_scope.

(* what a flush emits: a segment whose base decode time is its first sample's decode time
   (the stream-wide constant of the constant-interval clause is 0, for every input) *)
Theorem C11_flush_emits_segment_based_at_first_dts : forall (m : fmuxer) (b : bytes),
  snd (f_flush m) = FrSeg (Some b) ->
  exists s0 rest, rev (fm_samples_rev m) = s0 :: rest /\
                  b = build_media_segment (s0 :: rest) (fm_seq m) (fs_dts s0).
Proof. exact flush_emits_segment_based_at_first_dts. Qed.
Print Assumptions C11_flush_emits_segment_based_at_first_dts.

(* read back from the bytes: durations = consecutive decode-time differences, composition
   offsets = pts - dts, sync flag = submitted flag, tfdt = first decode time *)
Theorem C11_segment_timing_reads_back : forall (l : list frag_sample) (s0 : frag_sample) (rest : list frag_sample) (seq : N),
  l = s0 :: rest -> seg_fits l -> 96 + 16 * len l < 2147483648 -> seq < 4294967296 ->
  exists v, segment_read (build_media_segment l seq (fs_dts s0)) = Some v /\
            sv_tfdt v = fs_dts s0 /\
            map ss_duration (sv_samples v) = spec_durations None l /\
            map ss_cts (sv_samples v) = map (fun s => (Z.of_N (fs_pts s) - Z.of_N (fs_dts s))%Z) l /\
            map ss_sync (sv_samples v) = map fs_sync l /\
            map ss_data (sv_samples v) = map fs_data l.
Proof. exact segment_timing_reads_back. Qed.
Print Assumptions C11_segment_timing_reads_back.

(* across segments decode times never go back: a base decode time equal to the first decode
   time of each segment never moves backwards and is never earlier than the previous segment's
   last sample *)
Theorem C11_emitted_decode_times_never_go_back : forall (ops : list fop),
  StronglySorted (fun a b => a <= b) (all_dts (aq_run aq_init ops)).
Proof. exact emitted_decode_times_never_go_back. Qed.
Print Assumptions C11_emitted_decode_times_never_go_back.

(* the init segment is byte-identical no matter when or how often it is requested *)
Theorem C11_init_segment_is_stable : forall (c : frag_config) (ops : list fop) (b : bytes),
  In (FrBytes b) (snd (frun (fmuxer_new c) ops)) -> b = init_segment_bytes c.
Proof. exact init_segment_is_stable. Qed.
Print Assumptions C11_init_segment_is_stable.

From Muxide Require Export Spec.Checks Proofs.FragHistoryProofs.
(* WHOLE HISTORIES: per-segment timing, base decode times across segments (never backwards, never
   before the previous segment's last sample, stream constant 0) and the stable init segment *)
Theorem C11_fragmented_history_timeline_is_consistent : forall (c : frag_config) (ops : list fop),
  all_segments_fit ops ->
  check_C11 ops (map fout_of (snd (frun (fmuxer_new c) ops))) = true.
Proof. exact fragmented_history_timeline_is_consistent. Qed.
Print Assumptions C11_fragmented_history_timeline_is_consistent.
