(** C18 - title, creation date and language are stored faithfully. *)
From Muxide Require Export Model.Base Model.Boxes Spec.Bmff Spec.Headers Spec.HeaderChecks Proofs.MetaProofs.
Open Scope N_scope.

(* the closed-form calendar = plain counting, for every day 1970-01-01 .. 9999-12-31 *)
Theorem C18_calendar_agrees_with_counting : forall d, d < 2932897 -> days_to_ymd d = civil_of_days d.
Proof. exact calendar_agrees_with_counting. Qed.
Print Assumptions C18_calendar_agrees_with_counting.

Theorem C18_creation_time_is_iso8601 : forall t, t < 253402300800 -> format_unix_timestamp t = iso8601 t.
Proof. exact timestamp_format_is_iso8601. Qed.
Print Assumptions C18_creation_time_is_iso8601.

(* all 26^3 lower-case codes are recoverable *)
Theorem C18_language_code_roundtrip : forall a b c,
  97 <= a <= 122 -> 97 <= b <= 122 -> 97 <= c <= 122 ->
  exists x, encode_language_code [a; b; c] = be16 x /\ x < 32768 /\ unpack_lang x = [a; b; c].
Proof. exact language_code_roundtrip. Qed.
Print Assumptions C18_language_code_roundtrip.

Theorem C18_mdhd_language_recoverable : forall ts dur a b c,
  ts < 4294967296 -> dur < 4294967296 ->
  97 <= a <= 122 -> 97 <= b <= 122 -> 97 <= c <= 122 ->
  strict_mdhd (payload_of (build_mdhd_box ts dur (Some [a; b; c]))) =
    Some {| md_timescale := ts; md_duration := dur; md_lang := [a; b; c] |}.
Proof. exact mdhd_language_recoverable. Qed.
Print Assumptions C18_mdhd_language_recoverable.

Theorem C18_language_defaults_to_und : forall ts dur,
  ts < 4294967296 -> dur < 4294967296 ->
  strict_mdhd (payload_of (build_mdhd_box ts dur None)) =
    Some {| md_timescale := ts; md_duration := dur; md_lang := UND |}.
Proof. exact mdhd_language_defaults_to_und. Qed.
Print Assumptions C18_language_defaults_to_und.

(* the title is stored as its exact bytes in one name item (type 1, locale 0) *)
Theorem C18_title_item_roundtrip : forall title : bytes,
  len title < 4294967000 ->
  exists p kids, parse_forest 3 (build_ilst_string_item T_cnam title) = Some [Box T_cnam p kids] /\
                 item_text (Box T_cnam p kids) = Some title.
Proof. exact title_item_roundtrip. Qed.
Print Assumptions C18_title_item_roundtrip.

Theorem C18_no_user_data_iff_neither_title_nor_time : forall m,
  build_udta_box m = [] <-> (md_title m = None /\ md_creation_time m = None).
Proof. exact udta_absent_iff. Qed.
Print Assumptions C18_no_user_data_iff_neither_title_nor_time.

From Muxide Require Export Model.Writer Model.Api Spec.Checks Spec.HeaderChecks Proofs.EndToEndProofs Proofs.MetaEndToEndProofs.
(* END TO END: for every configuration and history, the finished file stores the configured title,
   creation date (ISO-8601 of the supplied Unix time) and language faithfully, has exactly one user-data
   box iff a title or creation time was set, and every track's media header carries the language
   (or "und"); no side condition on language, time or durations is needed *)
Theorem C18_finished_file_metadata_is_faithful : forall b m0 ops m rs s,
  build b [] = inl m0 -> run m0 ops = (m, rs) -> In (RStats s) rs ->
  Forall op_payload_ok ops -> len (sink_of m) < 4294967296 ->
  check_C18 b ops (map class_of rs) (sink_of m) = true.
Proof. exact finished_file_metadata_general. Qed.
Print Assumptions C18_finished_file_metadata_is_faithful.
