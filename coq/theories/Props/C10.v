(** C10 - fragmented muxing conserves samples across any write/flush interleaving. *)
From Muxide Require Export Model.Base Model.Frag Spec.FragSpec Proofs.FragProofs.
Open Scope N_scope.

(* every emitted media segment reads back, through the independent reader and the run's data
   offset relative to the movie fragment, as exactly the queued samples *)
Theorem C10_segment_reads_back_as_queued : forall (l : list frag_sample) (seq base : N),
  l <> [] -> seg_fits l -> 96 + 16 * len l < 2147483648 ->
  seq < 4294967296 -> base < 18446744073709551616 ->
  segment_read (build_media_segment l seq base) =
    Some {| sv_seq := seq; sv_tfdt := base; sv_samples := spec_seg_samples l |}.
Proof. exact segment_roundtrip. Qed.
Print Assumptions C10_segment_reads_back_as_queued.

(* the muxer refines the abstract queue, for every operation in every state *)
Theorem C10_muxer_refines_queue : forall (m : fmuxer) (o : fop),
  abs (fst (fstep m o)) = fst (aq_step (abs m) o) /\
  (match snd (fstep m o) with
   | FrSeg (Some b) => exists s0 rest, snd (aq_step (abs m) o) = [(fm_seq m, s0 :: rest)] /\
                        b = build_media_segment (s0 :: rest) (fm_seq m) (fs_dts s0)
   | _ => snd (aq_step (abs m) o) = []
   end).
Proof. exact fstep_refines_queue. Qed.
Print Assumptions C10_muxer_refines_queue.

(* flushed samples followed by the still-pending ones are exactly the accepted writes, in order *)
Theorem C10_no_sample_lost_duplicated_or_reordered : forall (ops : list fop),
  concat (map snd (aq_run aq_init ops)) ++
    aq_pending (fold_left (fun q o => fst (aq_step q o)) ops aq_init)
  = accepted_writes None ops.
Proof. exact queue_conserves_samples. Qed.
Print Assumptions C10_no_sample_lost_duplicated_or_reordered.

Theorem C10_sequence_numbers_count_from_one : forall (ops : list fop),
  map fst (aq_run aq_init ops) = map N.of_nat (seq 1 (length (aq_run aq_init ops))).
Proof. exact queue_sequence_numbers. Qed.
Print Assumptions C10_sequence_numbers_count_from_one.

Theorem C10_write_rejected_iff_dts_decreases : forall m p d b s,
  (exists a c, snd (f_write m p d b s) = FrErrNonMonotonic a c) <->
  (exists l, fm_last_dts m = Some l /\ d < l).
Proof. exact write_rejected_iff. Qed.
Print Assumptions C10_write_rejected_iff_dts_decreases.

(* the i32 bound on the run's data offset is necessary (a refuted stronger statement) *)
Theorem C10_roundtrip_needs_the_i32_offset_bound :
  ~ (forall l seq base, l <> [] -> seg_fits l -> seq < 4294967296 -> base < 18446744073709551616 ->
       segment_read (build_media_segment l seq base) =
         Some {| sv_seq := seq; sv_tfdt := base; sv_samples := spec_seg_samples l |}).
Proof. exact segment_roundtrip_needs_offset_bound. Qed.
Print Assumptions C10_roundtrip_needs_the_i32_offset_bound.

From Muxide Require Export Spec.Checks Proofs.FragHistoryProofs.
(* WHOLE HISTORIES: for every configuration and every sequence of writes, flushes, readiness /
   duration queries and init requests whose emitted segments stay inside the 32-bit bounds, the
   executable conservation predicate (judging only the emitted bytes) holds of the model's outputs *)
Theorem C10_fragmented_history_conserves_samples : forall (c : frag_config) (ops : list fop),
  all_segments_fit ops ->
  check_C10 ops (map fout_of (snd (frun (fmuxer_new c) ops))) = true.
Proof. exact fragmented_history_conserves_samples. Qed.
Print Assumptions C10_fragmented_history_conserves_samples.

Theorem C10_fragmented_muxer_never_panics : forall ops m, ~ In FrPanic (snd (frun m ops)).
Proof. exact frun_never_panics. Qed.
Print Assumptions C10_fragmented_muxer_never_panics.
