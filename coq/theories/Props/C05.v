(** C05 - rejected calls leave no trace.  Statements only; proofs live in Proofs/. *)
From Muxide Require Export Model.Base Model.Api Model.Frag Proofs.ApiProofs.

Theorem C05_step_rejected_unchanged :
  forall m o m' e, o <> FIN -> step m o = (m', RErr e) -> m' = m.
Proof. exact step_rejected_unchanged. Qed.
Print Assumptions C05_step_rejected_unchanged.

Theorem C05_history_without_rejected :
  forall ops m, run m (kept_ops m ops) = (fst (run m ops), kept_results m ops).
Proof. exact rejected_calls_leave_no_trace. Qed.
Print Assumptions C05_history_without_rejected.

Theorem C05_results_are_the_originals_minus_rejected :
  forall ops m, kept_results m ops = drop_rejected m ops (snd (run m ops)).
Proof. exact kept_results_spec. Qed.
Print Assumptions C05_results_are_the_originals_minus_rejected.

Theorem C05_fragmented_rejected_unchanged :
  forall m p d b s m' a c, f_write m p d b s = (m', FrErrNonMonotonic a c) -> m' = m.
Proof.
  intros m p d b s m' a c H. unfold f_write in H.
  destruct (fm_last_dts m); [destruct (d <? n)%N|]; inversion H; reflexivity.
Qed.
Print Assumptions C05_fragmented_rejected_unchanged.

From Muxide Require Export Proofs.HistoryProofs.
(* fragmented muxer, whole histories: removing the rejected writes changes neither the final
   muxer nor any other result *)
Theorem C05_fragmented_rejected_writes_leave_no_trace : forall ops m,
  fst (frun m (f_kept m ops)) = fst (frun m ops) /\
  snd (frun m (f_kept m ops)) = filter (fun r => match r with FrErrNonMonotonic _ _ => false | _ => true end) (snd (frun m ops)).
Proof. exact fragmented_rejected_writes_leave_no_trace. Qed.
Print Assumptions C05_fragmented_rejected_writes_leave_no_trace.
