(** C04 - calls succeed iff the documented input contract holds; errors name the violation.
    (The refinement theorem against Spec/Contract.v is added when its proof file lands.) *)
From Muxide Require Export Model.Base Model.Writer Model.Api Spec.Contract.
Open Scope N_scope.

Theorem C04_build_succeeds_iff_video_configured : forall b script,
  (exists m, build b script = inl m) <-> b_video b <> None.
Proof.
  intros b script. unfold build. destruct (b_video b) as [[[c w] h]|]; split; intro H.
  - discriminate.
  - eexists. reflexivity.
  - destruct H as [m H]. discriminate.
  - congruence.
Qed.
Print Assumptions C04_build_succeeds_iff_video_configured.
