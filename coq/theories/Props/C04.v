(** C04 - calls succeed iff the documented input contract holds; errors name the violation. *)
From Muxide Require Export Model.Base Model.F64 Model.Writer Model.Api Spec.Contract Proofs.ContractProofs.
Open Scope N_scope.

Theorem C04_build_succeeds_iff_video_configured : forall b script,
  (exists m, build b script = inl m) <-> b_video b <> None.
Proof. exact build_succeeds_iff_video_configured. Qed.
Print Assumptions C04_build_succeeds_iff_video_configured.

(* one call, any state satisfying the representation invariant: the call succeeds iff it violates
   no documented precondition, a failure names a precondition this call violates, and the muxer
   state stands for the updated summary of the accepted history *)
Theorem C04_step_obeys_contract : forall b m o m' r,
  Rep b m -> op_ok o -> step m o = (m', r) -> (forall p, r <> RPanic p) ->
  call_ok b (abs_csum m) o (outcome_of r) = true /\
  abs_csum m' = csum_next b (abs_csum m) o (outcome_of r) /\ Rep b m'.
Proof. exact step_obeys_contract. Qed.
Print Assumptions C04_step_obeys_contract.

(* every history, every sink script *)
Theorem C04_model_obeys_contract : forall b script m0 ops,
  build b script = inl m0 -> Forall op_ok ops ->
  Forall (fun r => forall p, r <> RPanic p) (snd (run m0 ops)) ->
  check_C04 b ops (map outcome_of (snd (run m0 ops))) = true.
Proof. exact model_obeys_contract. Qed.
Print Assumptions C04_model_obeys_contract.
