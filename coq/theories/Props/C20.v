(** C20 - the CLI writes what the library writes and fails loudly otherwise (shell logic;
    process behaviour is observed by running the built binary, see DESIGN.md). *)
From Muxide Require Export Model.Base Model.Boxes Model.Writer Model.Api Model.Cli Proofs.CliProofs.
Open Scope N_scope.

(* whenever mux reports success with an output file, that file is exactly what the library
   produces for the same single-frame input and settings, and the counts are the accepted frames *)
Theorem C20_mux_success_is_library_output : forall o f nv na,
  mux_command o = CliOk (Some f) nv na ->
  exists b m0 vops aops m rs,
    build b [] = inl m0 /\
    run m0 (vops ++ aops ++ [FIN]) = (m, rs) /\ f = sink_of m /\
    Forall (fun r => match r with ROk | RStats _ => True | _ => False end) rs /\
    nv = N.of_nat (length vops) /\ na = N.of_nat (length aops) /\
    (forall x, In x vops -> exists d, x = WV 0 d true) /\ (forall x, In x aops -> exists d, x = WA 0 d) /\
    (length vops <= 1)%nat /\ (length aops <= 1)%nat.
Proof. exact mux_success_is_library_output. Qed.
Print Assumptions C20_mux_success_is_library_output.

Theorem C20_mux_fails_without_inputs : forall o, mo_video o = None -> mo_audio o = None -> mux_command o = CliFail.
Proof. exact mux_fails_without_inputs. Qed.
Print Assumptions C20_mux_fails_without_inputs.

Theorem C20_mux_fails_on_missing_video_file : forall o, mo_video o = Some Missing -> mux_command o = CliFail.
Proof. exact mux_fails_on_missing_video_file. Qed.
Print Assumptions C20_mux_fails_on_missing_video_file.

Theorem C20_mux_fails_on_incomplete_video_parameters : forall o i,
  mo_video o = Some i -> (mo_width o = None \/ mo_height o = None \/ mo_fps_ok o = None) -> mux_command o = CliFail.
Proof. exact mux_fails_on_incomplete_video_parameters. Qed.
Print Assumptions C20_mux_fails_on_incomplete_video_parameters.

(* validate says 'valid' exactly when an input is given and every given input exists and is
   non-empty, even-length hexadecimal text *)
Theorem C20_validate_verdict_spec : forall v a,
  validate_verdict v a = true <->
  ((v <> None \/ a <> None) /\
   (forall i, (v = Some i \/ a = Some i) -> exists text, i = Present text /\ is_hex_text text)).
Proof. exact validate_verdict_spec. Qed.
Print Assumptions C20_validate_verdict_spec.

Theorem C20_valid_hex_decodes : forall text, is_hex_text text ->
  exists d, read_hex_bytes text = Some d /\
            (2 * length d = length (filter (fun c => negb (is_ws c)) text))%nat /\ d <> [].
Proof. exact valid_hex_decodes. Qed.
Print Assumptions C20_valid_hex_decodes.

(* info terminates on arbitrary contents (each step consumes at least one byte) and lists
   precisely the top-level boxes of a well-formed file *)
Theorem C20_info_walk_fuel_is_enough : forall (file : bytes) (off : N) (n : nat),
  (length file < n)%nat -> info_walk_f n file off = info_walk_f (S (length file)) file off.
Proof. exact info_walk_fuel_is_enough. Qed.
Print Assumptions C20_info_walk_fuel_is_enough.

Theorem C20_info_walk_is_bounded : forall (file : bytes) (off : N) (n : nat),
  (length (info_walk_f n file off) <= length file)%nat.
Proof. exact info_walk_is_bounded. Qed.
Print Assumptions C20_info_walk_is_bounded.

Theorem C20_info_lists_top_level_boxes : forall (bs : list (bytes * bytes)),
  bs <> [] ->
  Forall (fun tp => length (fst tp) = 4%nat /\ 8 + len (snd tp) < 4294967296) bs ->
  info_walk (concat (map (fun tp => build_box (fst tp) (snd tp)) bs)) = Some (expected_entries bs 0).
Proof. exact info_lists_top_level_boxes. Qed.
Print Assumptions C20_info_lists_top_level_boxes.

From Muxide Require Export Model.Boxes Model.Names Proofs.NamesProofs.
(* the codec names the library prints (and the CLI shows) are accepted back by the option parser, and
   option values are case-insensitive *)
Theorem C20_video_codec_name_parses_back : forall c, parse_video_codec (video_codec_name c) = Some c.
Proof. exact video_codec_name_parses_back. Qed.
Print Assumptions C20_video_codec_name_parses_back.
Theorem C20_audio_codec_name_parses_back : forall c, parse_audio_codec (audio_codec_name c) = Some c.
Proof. exact audio_codec_name_parses_back. Qed.
Print Assumptions C20_audio_codec_name_parses_back.
Theorem C20_codec_options_ignore_case : forall s,
  parse_video_codec (map ascii_lower s) = parse_video_codec s /\
  parse_audio_codec (map ascii_lower s) = parse_audio_codec s.
Proof. intros s; split; [apply parse_video_codec_ignores_case | apply parse_audio_codec_ignores_case]. Qed.
Print Assumptions C20_codec_options_ignore_case.

From Muxide Require Export Model.Cli Proofs.CliProofs Proofs.CliCompleteProofs.
(* COMPLETE characterisation of the mux command (model of src/bin/muxide.rs):
   a dry run succeeds exactly when an input is named, the numeric parameters of each named input are
   present and every named input file exists; it writes nothing *)
Theorem C20_dry_run_complete : forall o, mo_dry_run o = true ->
  (mux_command o = CliOk None 0 0 <->
     (mo_video o <> None \/ mo_audio o <> None) /\ video_given_ok o /\ audio_given_ok o /\
     mo_video o <> Some Missing /\ mo_audio o <> Some Missing) /\
  (mux_command o = CliOk None 0 0 \/ mux_command o = CliFail).
Proof. exact dry_run_complete. Qed.
Print Assumptions C20_dry_run_complete.

(* a real run succeeds with (file, nv, na) exactly when the declarative specification real_run_spec holds:
   video named, parameters present and in range, output creatable, not fragmented, inputs exist and decode
   as ASCII hex, the library accepts the builder, the video frame at time 0 (keyframe), the audio frame at
   time 0 and finish; the file is then the library's output *)
Theorem C20_real_run_complete : forall o file nv na, mo_dry_run o = false ->
  (mux_command o = CliOk (Some file) nv na <-> real_run_spec o file nv na).
Proof. exact real_run_complete. Qed.
Print Assumptions C20_real_run_complete.

Theorem C20_real_run_is_deterministic_and_counts : forall o file nv na,
  real_run_spec o file nv na -> nv = 1 /\ na = (match mo_audio o with Some _ => 1 | None => 0 end).
Proof. exact real_run_counts. Qed.
Print Assumptions C20_real_run_is_deterministic_and_counts.

(* an audio-only real run fails loudly (the library requires a video track) although its dry run succeeds *)
Theorem C20_audio_only_real_run_fails : forall o, mo_dry_run o = false -> mo_video o = None -> mux_command o = CliFail.
Proof. exact audio_only_real_run_fails. Qed.
Print Assumptions C20_audio_only_real_run_fails.

Theorem C20_outcome_shapes : forall o,
  match mux_command o with
  | CliOk None nv na => mo_dry_run o = true /\ nv = 0 /\ na = 0
  | CliOk (Some _) nv na => mo_dry_run o = false /\ nv <= 1 /\ na <= 1
  | CliFail => True
  end.
Proof. exact outcome_shapes. Qed.
Print Assumptions C20_outcome_shapes.
