(** C20 - the CLI writes what the library writes and fails loudly otherwise (shell logic;
    process behaviour is observed by running the built binary, see DESIGN.md). *)
From Muxide Require Export Model.Base Model.Boxes Model.Writer Model.Api Model.Cli Proofs.CliProofs.
Open Scope N_scope.

(* whenever mux reports success with an output file, that file is exactly what the library
   produces for the same single-frame input and settings, and the counts are the accepted frames *)
Theorem C20_mux_success_is_library_output : forall o f nv na,
  mux_command o = CliOk (Some f) nv na ->
  exists b m0 vops aops m rs,
    build b [] = inl m0 /\
    run m0 (vops ++ aops ++ [FIN]) = (m, rs) /\ f = sink_of m /\
    Forall (fun r => match r with ROk | RStats _ => True | _ => False end) rs /\
    nv = N.of_nat (length vops) /\ na = N.of_nat (length aops) /\
    (forall x, In x vops -> exists d, x = WV 0 d true) /\ (forall x, In x aops -> exists d, x = WA 0 d) /\
    (length vops <= 1)%nat /\ (length aops <= 1)%nat.
Proof. exact mux_success_is_library_output. Qed.
Print Assumptions C20_mux_success_is_library_output.

Theorem C20_mux_fails_without_inputs : forall o, mo_video o = None -> mo_audio o = None -> mux_command o = CliFail.
Proof. exact mux_fails_without_inputs. Qed.
Print Assumptions C20_mux_fails_without_inputs.

Theorem C20_mux_fails_on_missing_video_file : forall o, mo_video o = Some Missing -> mux_command o = CliFail.
Proof. exact mux_fails_on_missing_video_file. Qed.
Print Assumptions C20_mux_fails_on_missing_video_file.

Theorem C20_mux_fails_on_incomplete_video_parameters : forall o i,
  mo_video o = Some i -> (mo_width o = None \/ mo_height o = None \/ mo_fps_ok o = None) -> mux_command o = CliFail.
Proof. exact mux_fails_on_incomplete_video_parameters. Qed.
Print Assumptions C20_mux_fails_on_incomplete_video_parameters.

(* validate says 'valid' exactly when an input is given and every given input exists and is
   non-empty, even-length hexadecimal text *)
Theorem C20_validate_verdict_spec : forall v a,
  validate_verdict v a = true <->
  ((v <> None \/ a <> None) /\
   (forall i, (v = Some i \/ a = Some i) -> exists text, i = Present text /\ is_hex_text text)).
Proof. exact validate_verdict_spec. Qed.
Print Assumptions C20_validate_verdict_spec.

Theorem C20_valid_hex_decodes : forall text, is_hex_text text ->
  exists d, read_hex_bytes text = Some d /\
            (2 * length d = length (filter (fun c => negb (is_ws c)) text))%nat /\ d <> [].
Proof. exact valid_hex_decodes. Qed.
Print Assumptions C20_valid_hex_decodes.

(* info terminates on arbitrary contents (each step consumes at least one byte) and lists
   precisely the top-level boxes of a well-formed file *)
Theorem C20_info_walk_fuel_is_enough : forall (file : bytes) (off : N) (n : nat),
  (length file < n)%nat -> info_walk_f n file off = info_walk_f (S (length file)) file off.
Proof. exact info_walk_fuel_is_enough. Qed.
Print Assumptions C20_info_walk_fuel_is_enough.

Theorem C20_info_walk_is_bounded : forall (file : bytes) (off : N) (n : nat),
  (length (info_walk_f n file off) <= length file)%nat.
Proof. exact info_walk_is_bounded. Qed.
Print Assumptions C20_info_walk_is_bounded.

Theorem C20_info_lists_top_level_boxes : forall (bs : list (bytes * bytes)),
  bs <> [] ->
  Forall (fun tp => length (fst tp) = 4%nat /\ 8 + len (snd tp) < 4294967296) bs ->
  info_walk (concat (map (fun tp => build_box (fst tp) (snd tp)) bs)) = Some (expected_entries bs 0).
Proof. exact info_lists_top_level_boxes. Qed.
Print Assumptions C20_info_lists_top_level_boxes.
