(** C12 - no public entry point panics, overflows or hangs.
    Panics of the Rust code are VALUES of the model (Model/Writer.v [panic_site]); the theorems
    say which calls can produce one, under which explicit size bounds none is produced, and that
    each bound is necessary.  Index arithmetic inside the byte parsers is exercised by the
    correspondence stage (catch_unwind, debug build with overflow checks), not proved. *)
From Muxide Require Export Model.Base Model.Boxes Model.Writer Model.Api Model.Frag Spec.Layout Proofs.NoPanicProofs.
Open Scope N_scope.

Theorem C12_only_finish_can_panic : forall m o m' p, step m o = (m', RPanic p) -> o = FIN.
Proof. exact only_finish_can_panic. Qed.
Print Assumptions C12_only_finish_can_panic.

Theorem C12_queued_samples_are_never_empty : forall b script m0 ops,
  build b script = inl m0 -> NonEmptyInv (m_writer (fst (run m0 ops))).
Proof. exact NonEmptyInv_reachable. Qed.
Print Assumptions C12_queued_samples_are_never_empty.

Theorem C12_finalize_does_not_panic : forall w v m fs p,
  NonEmptyInv w -> small_enough w -> snd (finalize w v m fs) <> FinErr (FinPanic p).
Proof. exact finalize_does_not_panic. Qed.
Print Assumptions C12_finalize_does_not_panic.

(* no call of any history panics as long as the media data stays 40 bytes below 4 GiB and the
   movie duration in milliseconds fits u64 (6 500 years at 90 kHz) *)
Theorem C12_no_call_panics : forall b script m0 ops,
  build b script = inl m0 ->
  (forall k, small_enough (m_writer (fst (run m0 (firstn k ops))))) ->
  Forall (fun r => forall p, r <> RPanic p) (snd (run m0 ops)).
Proof. exact no_call_panics. Qed.
Print Assumptions C12_no_call_panics.

Theorem C12_fragmented_never_panics : forall m o, snd (fstep m o) <> FrPanic.
Proof. exact fragmented_never_panics. Qed.
Print Assumptions C12_fragmented_never_panics.

(* the bounds are necessary: recorded model-level findings (multi-GiB / multi-millennia inputs) *)
Theorem C12_movie_duration_overflow_panics : forall v vt audio c m,
  18446744073709551615 < total_duration vt * 1000 ->
  moov_of v vt audio c m = inr PanicMovieDurationOverflow.
Proof. exact movie_duration_overflow_panics. Qed.
Print Assumptions C12_movie_duration_overflow_panics.

Theorem C12_zero_size_sample_would_panic : forall v vt c m,
  total_duration vt * 1000 <= 18446744073709551615 -> has_zero_size vt = true ->
  moov_of v vt None c m = inr PanicStszZeroSize.
Proof. exact zero_size_sample_panics. Qed.
Print Assumptions C12_zero_size_sample_would_panic.

From Muxide Require Export Model.Base Model.Adts Model.Boxes Model.Validation Proofs.ValidationProofs.
(* the validation module (src/validation.rs, modelled in Model/Validation.v): every function is total and
   reports through its result: the validity flag is false exactly when an error text was recorded *)
Theorem C12_validation_reports_through_its_result :
  (forall c w h f, coherent (validate_video_config c w h f)) /\
  (forall c sr ch, coherent (validate_audio_config c sr ch)) /\
  (forall c d k, coherent (validate_video_frame c d k)) /\
  (forall c d, coherent (validate_audio_frame c d)) /\
  (forall v a, coherent (validate_muxing_config v a)).
Proof. exact validation_flag_is_no_errors. Qed.
Print Assumptions C12_validation_reports_through_its_result.

Theorem C12_accepted_adts_frame_validates : forall p d raw,
  bytes_ok d = true -> adts_to_raw d = AdtsOk raw -> vr_valid (validate_audio_frame (Aac p) d) = true.
Proof. exact accepted_adts_frame_validates. Qed.
Print Assumptions C12_accepted_adts_frame_validates.

Theorem C12_opus_validation_is_the_muxers_check : forall d,
  vr_valid (validate_audio_frame Opus d) = is_valid_opus_packet d.
Proof. exact opus_validation_is_the_muxers_check. Qed.
Print Assumptions C12_opus_validation_is_the_muxers_check.
