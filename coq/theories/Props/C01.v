(** C01 - every sample in the file resolves to exactly the bytes submitted.
    (Layout layer; the end-to-end composition through the reader is in progress, see DESIGN.md.) *)
From Coq Require Export Sorting.Sorted Sorting.Permutation.
From Muxide Require Export Model.Base Model.Boxes Model.Writer Model.Api Spec.Layout
  Proofs.LayoutProofs Proofs.TimingProofs.
Open Scope N_scope.

(* every reachable writer state has decode times strictly increasing and audio times non-decreasing *)
Theorem C01_queues_wellformed_in_every_reachable_state : forall b script m0 ops,
  build b script = inl m0 -> WInv (m_writer (fst (run m0 ops))).
Proof. exact WInv_reachable. Qed.
Print Assumptions C01_queues_wellformed_in_every_reachable_state.

Theorem C01_schedule_is_sorted_permutation : forall vs as_,
  Permutation (compute_interleave_schedule vs as_) (video_entries vs ++ audio_entries as_) /\
  Sorted sched_le (compute_interleave_schedule vs as_).
Proof. exact schedule_is_sorted_permutation. Qed.
Print Assumptions C01_schedule_is_sorted_permutation.

Theorem C01_schedule_keeps_video_in_sample_order : forall vs as_,
  dts_increasing vs -> filter is_video_entry (compute_interleave_schedule vs as_) = video_entries vs.
Proof. exact schedule_keeps_video_in_sample_order. Qed.
Print Assumptions C01_schedule_keeps_video_in_sample_order.

Theorem C01_schedule_keeps_audio_in_sample_order : forall vs as_,
  pts_nondecreasing as_ -> filter is_audio_entry (compute_interleave_schedule vs as_) = audio_entries as_.
Proof. exact schedule_keeps_audio_in_sample_order. Qed.
Print Assumptions C01_schedule_keeps_audio_in_sample_order.

(* fast-start layout: the i-th chunk offset of each track addresses exactly the i-th sample's bytes *)
Theorem C01_fast_start_offsets_address_samples : forall vs as_ start pre post vo ao,
  dts_increasing vs -> pts_nondecreasing as_ -> len pre = start ->
  walk_offsets vs as_ (compute_interleave_schedule vs as_) start = WalkOk vo ao ->
  let file := pre ++ concat (map (sched_data vs as_) (compute_interleave_schedule vs as_)) ++ post in
  length vo = length vs /\ length ao = length as_ /\
  (forall i s o, nth_error vs i = Some s -> nth_error vo i = Some o ->
                 take (len (s_data s)) (drop o file) = s_data s) /\
  (forall i s o, nth_error as_ i = Some s -> nth_error ao i = Some o ->
                 take (len (s_data s)) (drop o file) = s_data s).
Proof. exact walk_offsets_address_samples. Qed.
Print Assumptions C01_fast_start_offsets_address_samples.

(* standard layout: same, for the u32 cursor pass *)
Theorem C01_standard_offsets_address_samples : forall vs as_ start pre post bufs vo ao,
  dts_increasing vs -> pts_nondecreasing as_ -> len pre = start ->
  Forall (fun s => len (s_data s) < 4294967296) vs -> Forall (fun s => len (s_data s) < 4294967296) as_ ->
  walk_std vs as_ (compute_interleave_schedule vs as_) start [] [] [] = (bufs, vo, ao, true) ->
  let file := pre ++ concat bufs ++ post in
  bufs = map (sched_data vs as_) (compute_interleave_schedule vs as_) /\
  length vo = length vs /\ length ao = length as_ /\
  (forall i s o, nth_error vs i = Some s -> nth_error vo i = Some o ->
                 take (len (s_data s)) (drop o file) = s_data s) /\
  (forall i s o, nth_error as_ i = Some s -> nth_error ao i = Some o ->
                 take (len (s_data s)) (drop o file) = s_data s).
Proof. exact walk_std_address_samples. Qed.
Print Assumptions C01_standard_offsets_address_samples.

From Muxide Require Export Spec.Checks Proofs.EndToEndProofs.
(* END TO END: for every configuration (4 codecs x audio x fast start x metadata) and every call
   history that finishes successfully on a fault-free sink (file below 4 GiB), the independent
   reader resolves every track's samples, in submission order, to exactly the submitted bytes in
   MP4 framing with the submitted key flag, and the sample ranges tile the mdat payload exactly *)
Theorem C01_finished_file_resolves_to_submitted_samples : forall b m0 ops m rs s,
  build b [] = inl m0 -> run m0 ops = (m, rs) -> In (RStats s) rs ->
  Forall op_payload_ok ops -> len (sink_of m) < 4294967296 ->
  check_C01 b ops (map class_of rs) (sink_of m) = true.
Proof. exact finished_file_resolves_to_submitted_samples. Qed.
Print Assumptions C01_finished_file_resolves_to_submitted_samples.

(* the spec-level replay of the accepted history agrees with the model's queues *)
Theorem C01_accepted_history_matches_queues : forall b m0 ops m rs,
  build b [] = inl m0 -> run m0 ops = (m, rs) -> Forall op_payload_ok ops ->
  (forall p, ~ In (RPanic p) rs) ->
  let h := accepted b ops (map class_of rs) in
  map (fun s => (s_pts s, s_dts s, s_data s, s_key s)) (vsamples (m_writer m)) =
    map (fun f => (vf_pts f, vf_dts f, frame_video (cfg_codec b) (vf_data f), vf_key f)) (h_v h) /\
  map (fun s => (s_pts s, s_data s)) (asamples (m_writer m)) =
    map (fun f => (af_pts f,
                   match cfg_audio b with Some a => frame_audio a (af_data f) | None => [] end)) (h_a h).
Proof. exact accepted_matches_queues. Qed.
Print Assumptions C01_accepted_history_matches_queues.
