(** C01 - every sample in the file resolves to exactly the bytes submitted.
    (Layout layer; the end-to-end composition through the reader is in progress, see DESIGN.md.) *)
From Coq Require Export Sorting.Sorted Sorting.Permutation.
From Muxide Require Export Model.Base Model.Boxes Model.Writer Model.Api Spec.Layout
  Proofs.LayoutProofs Proofs.TimingProofs.
Open Scope N_scope.

(* every reachable writer state has decode times strictly increasing and audio times non-decreasing *)
Theorem C01_queues_wellformed_in_every_reachable_state : forall b script m0 ops,
  build b script = inl m0 -> WInv (m_writer (fst (run m0 ops))).
Proof. exact WInv_reachable. Qed.
Print Assumptions C01_queues_wellformed_in_every_reachable_state.

Theorem C01_schedule_is_sorted_permutation : forall vs as_,
  Permutation (compute_interleave_schedule vs as_) (video_entries vs ++ audio_entries as_) /\
  Sorted sched_le (compute_interleave_schedule vs as_).
Proof. exact schedule_is_sorted_permutation. Qed.
Print Assumptions C01_schedule_is_sorted_permutation.

Theorem C01_schedule_keeps_video_in_sample_order : forall vs as_,
  dts_increasing vs -> filter is_video_entry (compute_interleave_schedule vs as_) = video_entries vs.
Proof. exact schedule_keeps_video_in_sample_order. Qed.
Print Assumptions C01_schedule_keeps_video_in_sample_order.

Theorem C01_schedule_keeps_audio_in_sample_order : forall vs as_,
  pts_nondecreasing as_ -> filter is_audio_entry (compute_interleave_schedule vs as_) = audio_entries as_.
Proof. exact schedule_keeps_audio_in_sample_order. Qed.
Print Assumptions C01_schedule_keeps_audio_in_sample_order.

(* fast-start layout: the i-th chunk offset of each track addresses exactly the i-th sample's bytes *)
Theorem C01_fast_start_offsets_address_samples : forall vs as_ start pre post vo ao,
  dts_increasing vs -> pts_nondecreasing as_ -> len pre = start ->
  walk_offsets vs as_ (compute_interleave_schedule vs as_) start = WalkOk vo ao ->
  let file := pre ++ concat (map (sched_data vs as_) (compute_interleave_schedule vs as_)) ++ post in
  length vo = length vs /\ length ao = length as_ /\
  (forall i s o, nth_error vs i = Some s -> nth_error vo i = Some o ->
                 take (len (s_data s)) (drop o file) = s_data s) /\
  (forall i s o, nth_error as_ i = Some s -> nth_error ao i = Some o ->
                 take (len (s_data s)) (drop o file) = s_data s).
Proof. exact walk_offsets_address_samples. Qed.
Print Assumptions C01_fast_start_offsets_address_samples.

(* standard layout: same, for the u32 cursor pass *)
Theorem C01_standard_offsets_address_samples : forall vs as_ start pre post bufs vo ao,
  dts_increasing vs -> pts_nondecreasing as_ -> len pre = start ->
  Forall (fun s => len (s_data s) < 4294967296) vs -> Forall (fun s => len (s_data s) < 4294967296) as_ ->
  walk_std vs as_ (compute_interleave_schedule vs as_) start [] [] [] = (bufs, vo, ao, true) ->
  let file := pre ++ concat bufs ++ post in
  bufs = map (sched_data vs as_) (compute_interleave_schedule vs as_) /\
  length vo = length vs /\ length ao = length as_ /\
  (forall i s o, nth_error vs i = Some s -> nth_error vo i = Some o ->
                 take (len (s_data s)) (drop o file) = s_data s) /\
  (forall i s o, nth_error as_ i = Some s -> nth_error ao i = Some o ->
                 take (len (s_data s)) (drop o file) = s_data s).
Proof. exact walk_std_address_samples. Qed.
Print Assumptions C01_standard_offsets_address_samples.
