(** Agreement between the model and the Gallina text that gen/rust2coq.py derives from TODAY'S Rust source
    (build/gen/Translated.v, regenerated on every run).  Every proof is by conversion only (the byte-builder
    section at the end additionally rewrites with three wrap lemmas and does a few one-level case splits): if a
    constant, an operator, a field width or the order of operations changes in the source, these proofs stop
    checking, whether or not any generated input reaches the difference.
    The sections after "Sample tables with data-dependent loops" (added with the loop / record-mode translation) also use
    short inductive lemmas: the run-length fold against the model's [rle], and the indexed trun loop against
    [trun_entries].  The stts / ctts theorems (and every container above them) carry the hypothesis that the tables
    have fewer than 2^32 entries: the source's [last.0 += 1] is translated with its u32 wrap, the model's [rle] counts in N. *)
From Coq Require Import NArith List.
From Muxide Require Import Model.Base Model.Boxes.
Require Import Translated.
Open Scope N_scope.

Theorem days_to_ymd_source_agrees : forall d, days_to_ymd_src d = days_to_ymd d.
Proof. intro d. reflexivity. Qed.

Theorem unix_fields_source_agree : forall s,
  unix_fields_src s =
  (let '(y, mo, d) := days_to_ymd (s / 86400) in
   (y, mo, d, (s mod 86400) / 3600, ((s mod 86400) mod 3600) / 60, (s mod 86400) mod 60)).
Proof. intro s. reflexivity. Qed.

(* hence the text the model stores in the creation-date item is built from the source's own fields *)
Theorem format_unix_timestamp_from_source_fields : forall s,
  format_unix_timestamp s =
  (let '(y, mo, d, h, mi, se) := unix_fields_src s in
   pad0 4 y ++ [45] ++ pad0 2 mo ++ [45] ++ pad0 2 d ++ [84] ++ pad0 2 h ++ [58] ++ pad0 2 mi ++ [58] ++ pad0 2 se ++ [90]).
Proof.
  intro s. unfold format_unix_timestamp. rewrite unix_fields_source_agree.
  destruct (days_to_ymd (s / 86400)) as [[y mo] d]. reflexivity.
Qed.
Print Assumptions days_to_ymd_source_agrees.
Print Assumptions unix_fields_source_agree.
Print Assumptions format_unix_timestamp_from_source_fields.

(** ADTS header fields and Opus TOC fields: the bit extraction expressions of the source *)
From Muxide Require Import Model.Adts.

Theorem adts_frame_length_source_agrees : forall b3 b4 b5, adts_frame_length_src b3 b4 b5 = adts_frame_length b3 b4 b5.
Proof. intros. reflexivity. Qed.

Theorem adts_header_len_source_agrees : forall b1,
  adts_header_len_src (adts_protection_absent_src b1) = adts_header_len b1.
Proof.
  intro b1. unfold adts_header_len_src, adts_protection_absent_src, adts_header_len, band.
  destruct (N.land b1 1 =? 0); reflexivity.
Qed.

(* the remaining fields are used inline by the model's adts_to_raw: the model's decision, for a frame of at
   least 7 bytes, is re-stated over the source's own field expressions *)
Theorem adts_to_raw_over_source_fields : forall b0 b1 b2 b3 b4 b5 b6 t,
  let frame := b0 :: b1 :: b2 :: b3 :: b4 :: b5 :: b6 :: t in
  adts_to_raw frame =
  if negb (adts_syncword_src b0 b1 =? 4095) then AdtsErr MissingSyncword
  else if negb (adts_mpeg_version_src b1 =? 0) then AdtsErr InvalidMpegVersion
  else if negb (adts_layer_src b1 =? 0) then AdtsErr InvalidLayer
  else
    let header_len := adts_header_len_src (adts_protection_absent_src b1) in
    if len frame <? header_len then AdtsErr InvalidHeaderLength
    else if 12 <? adts_sample_rate_idx_src b2 then AdtsErr InvalidSampleRateIndex
    else
      let chan := adts_channel_config_src b2 b3 in
      if (chan =? 0) || (7 <? chan) then AdtsErr InvalidChannelConfig
      else
        let fl := adts_frame_length_src b3 b4 b5 in
        if fl <=? header_len then AdtsErr InvalidFrameLength
        else if len frame <? fl then AdtsErr InvalidFrameLength
        else AdtsOk (firstn (N.to_nat (fl - header_len)) (skipn (N.to_nat header_len) frame)).
Proof.
  intros. subst frame. rewrite adts_header_len_source_agrees. reflexivity.
Qed.

Theorem opus_fields_source_agree : forall toc fc,
  opus_frame_duration_from_toc toc =
    (let config := opus_config_src toc in
     if config <=? 3 then Some 480 else if config <=? 7 then Some 960 else if config <=? 11 then Some 1920
     else if config <=? 15 then Some 2880 else if config <=? 19 then Some 480 else if config <=? 23 then Some 960
     else if config <=? 27 then Some 120 else if config <=? 31 then Some 240 else None) /\
  opus_frame_count [toc; fc] =
    (let code := opus_code_src toc in
     if code =? 0 then Some (1, false) else if code =? 1 then Some (2, false) else if code =? 2 then Some (2, true)
     else let count := opus_count_src fc in if count =? 0 then None else Some (count, opus_is_vbr_src fc)).
Proof. intros. split; reflexivity. Qed.
Print Assumptions adts_to_raw_over_source_fields.
Print Assumptions opus_fields_source_agree.

(** language code packing and the H.264 NAL type test *)
From Muxide Require Import Model.Codec.

Theorem language_packing_source_agrees : forall l,
  encode_language_code l =
  (let c1 := match l with c :: _ => c | [] => 117 end in
   let c2 := match l with _ :: c :: _ => c | _ => 110 end in
   let c3 := match l with _ :: _ :: c :: _ => c | _ => 100 end in
   be16 (language_packed_src (u16 c1) (u16 c2) (u16 c3))).
Proof. intro l. reflexivity. Qed.

Theorem h264_nal_type_source_agrees : forall b rest,
  h264_nal_type (b :: rest) = h264_nal_type_src_a b /\ h264_nal_type (b :: rest) = h264_nal_type_src_b b.
Proof. intros. split; reflexivity. Qed.
Print Assumptions language_packing_source_agrees.
Print Assumptions h264_nal_type_source_agrees.

(** H.265 NAL type and the fragment-duration conversion *)
From Muxide Require Import Model.Frag.

Theorem hevc_nal_type_source_agrees : forall b rest, hevc_nal_type (b :: rest) = hevc_nal_type_src b.
Proof. intros. reflexivity. Qed.

Theorem ticks_to_ms_source_agrees : forall m ticks,
  ticks_to_ms m ticks =
  (let ts := fc_timescale (fm_config m) in
   if ts =? 0 then 0 else ticks_to_ms_tail_src (ticks_to_ms_ms_src ticks ts)).
Proof. intros. reflexivity. Qed.
Print Assumptions hevc_nal_type_source_agrees.
Print Assumptions ticks_to_ms_source_agrees.

(** * Byte builders: the box builders re-derived statement by statement from today's source.
    [<name>_src] (Translated.v) is the concatenation, in source order, of one term per Rust statement; the width
    of every [to_be_bytes()], [<<] and [as] is the one written in the source.  Each theorem states that this is
    the model's builder, for all arguments; where the model takes a record the statement is over its fields.
    Proofs: conversion, after rewriting away the explicit wraps ([be32 (u32 x) = be32 x] etc.). *)

(* big-endian encoders only see their argument modulo the field width *)
Lemma mod_mul_mod256 x e : e <> 0 -> (x mod (256 * e)) mod 256 = x mod 256.
Proof.
  intro He. rewrite N.mod_mul_r by (exact He || discriminate).
  rewrite (N.mul_comm 256), N.mod_add by discriminate. apply N.mod_mod. discriminate.
Qed.
Lemma div_mod_mul x c d : c <> 0 -> d <> 0 -> (x mod (c * d)) / c = (x / c) mod d.
Proof.
  intros Hc Hd. rewrite N.mod_mul_r by assumption.
  rewrite (N.mul_comm c), N.div_add by assumption.
  rewrite N.div_small by (apply N.mod_lt; assumption). reflexivity.
Qed.
Lemma byte_of_wrap x c e : c <> 0 -> e <> 0 -> (x mod (c * (256 * e)) / c) mod 256 = (x / c) mod 256.
Proof.
  intros Hc He. rewrite div_mod_mul; [apply mod_mul_mod256; exact He | exact Hc |].
  destruct e; [contradiction | discriminate].
Qed.
Lemma be32_wrap x : be32 (u32 x) = be32 x.
Proof.
  unfold be32, u32.
  change 4294967296 with (16777216 * (256 * 1)) at 1. rewrite byte_of_wrap by discriminate.
  change 4294967296 with (65536 * (256 * 256)) at 1. rewrite byte_of_wrap by discriminate.
  change 4294967296 with (256 * (256 * 65536)) at 1. rewrite byte_of_wrap by discriminate.
  change 4294967296 with (256 * 16777216). rewrite mod_mul_mod256 by discriminate.
  reflexivity.
Qed.
Lemma be16_wrap x : be16 (u16 x) = be16 x.
Proof.
  unfold be16, u16.
  change 65536 with (256 * (256 * 1)) at 1. rewrite byte_of_wrap by discriminate.
  change 65536 with (256 * 256). rewrite mod_mul_mod256 by discriminate.
  reflexivity.
Qed.
(* [(x << 16).to_be_bytes()] on a u32: the model writes the 16.16 fixed-point value as [x * 65536] *)
Lemma be32_shl16 x : be32 (u32 (N.shiftl x 16)) = be32 (x * 65536).
Proof. rewrite be32_wrap, N.shiftl_mul_pow2. reflexivity. Qed.
(* [channels.min(15) as u8]: the cast cannot lose bits *)
Lemma u8_min15 x : u8 (N.min x 15) = N.min x 15.
Proof. unfold u8. apply N.mod_small. apply N.le_lt_trans with 15; [apply N.le_min_r | reflexivity]. Qed.

(** ** build_box itself (both copies) *)
Theorem build_box_source_agrees : forall typ payload, build_box_src typ payload = build_box typ payload.
Proof. intros. unfold build_box_src. rewrite be32_wrap. reflexivity. Qed.
Theorem build_box_fmp4_source_agrees : forall typ payload, build_box_fmp4_src typ payload = build_box typ payload.
Proof. intros. unfold build_box_fmp4_src. rewrite be32_wrap. reflexivity. Qed.
(* INV-001, the [assert_invariant!] inside build_box (buffer.len() == 8 + payload.len()), as translated into
   [build_box_src_pre]: it holds for every four-character type, so that call never panics *)
Theorem build_box_invariant_source_holds : forall typ payload,
  length typ = 4%nat -> build_box_src_pre typ payload = true.
Proof.
  intros typ payload H. unfold build_box_src_pre, len. rewrite !app_length, H. cbn [be32 length].
  rewrite !Nat2N.inj_add, N.add_assoc. apply N.eqb_refl.
Qed.
Print Assumptions build_box_invariant_source_holds.
Print Assumptions build_box_source_agrees.
Print Assumptions build_box_fmp4_source_agrees.

(** ** src/muxer/mp4.rs: constant boxes *)
Theorem build_ftyp_box_source_agrees : build_ftyp_box_src = build_ftyp_box.
Proof. reflexivity. Qed.
Theorem build_vmhd_box_source_agrees : build_vmhd_box_src = build_vmhd_box.
Proof. reflexivity. Qed.
Theorem build_smhd_box_source_agrees : build_smhd_box_src = build_smhd_box.
Proof. reflexivity. Qed.
Theorem build_url_box_source_agrees : build_url_box_src = build_url_box.
Proof. reflexivity. Qed.
Theorem build_dref_box_source_agrees : build_dref_box_src = build_dref_box.
Proof. reflexivity. Qed.
Theorem build_dinf_box_source_agrees : build_dinf_box_src = build_dinf_box.
Proof. reflexivity. Qed.
Theorem build_hdlr_box_source_agrees : build_hdlr_box_src = build_hdlr_box.
Proof. reflexivity. Qed.
Theorem build_sound_hdlr_box_source_agrees : build_sound_hdlr_box_src = build_sound_hdlr_box.
Proof. reflexivity. Qed.
Theorem build_meta_hdlr_box_source_agrees : build_meta_hdlr_box_src = build_meta_hdlr_box.
Proof. reflexivity. Qed.
Print Assumptions build_ftyp_box_source_agrees.
Print Assumptions build_vmhd_box_source_agrees.
Print Assumptions build_smhd_box_source_agrees.
Print Assumptions build_url_box_source_agrees.
Print Assumptions build_dref_box_source_agrees.
Print Assumptions build_dinf_box_source_agrees.
Print Assumptions build_hdlr_box_source_agrees.
Print Assumptions build_sound_hdlr_box_source_agrees.
Print Assumptions build_meta_hdlr_box_source_agrees.

(** ** src/muxer/mp4.rs: movie / track / media headers, stsc *)
Theorem build_mvhd_payload_source_agrees : forall duration_ms next_track_id,
  build_mvhd_payload_src duration_ms next_track_id = build_mvhd_payload duration_ms next_track_id.
Proof. intros. reflexivity. Qed.

Theorem build_tkhd_box_with_id_source_agrees : forall track_id volume width height,
  build_tkhd_box_with_id_src track_id volume width height = build_tkhd_box_with_id track_id volume width height.
Proof. intros. unfold build_tkhd_box_with_id_src. rewrite !be32_shl16. reflexivity. Qed.

Theorem build_tkhd_box_source_agrees : forall v, build_tkhd_box_src (vt_width v) (vt_height v) = build_tkhd_box v.
Proof. intros. apply build_tkhd_box_with_id_source_agrees. Qed.

Theorem build_audio_tkhd_box_source_agrees : build_audio_tkhd_box_src = build_audio_tkhd_box.
Proof. apply build_tkhd_box_with_id_source_agrees. Qed.

(* build_mdhd_box_with_timescale_and_duration.  The function encode_language_code is a PARAMETER of the translation
   (chars()/take(3)/collect over a &str is out of the translator's reach); its argument, language.unwrap_or("und"),
   IS translated (language : option (UTF-8 bytes)).  The parameter is instantiated with the model's function, whose
   packing expression is tied to the source by language_packing_source_agrees above. *)
Theorem build_mdhd_box_source_agrees : forall timescale duration language,
  build_mdhd_box_src timescale duration language (fun s => encode_language_code (utf8_chars s)) =
  build_mdhd_box timescale duration language.
Proof. intros. unfold build_mdhd_box_src. rewrite be32_wrap. reflexivity. Qed.

Theorem build_stsc_box_source_agrees : forall samples_per_chunk chunk_count,
  build_stsc_box_src samples_per_chunk chunk_count = build_stsc_box samples_per_chunk chunk_count.
Proof. intros. reflexivity. Qed.
Print Assumptions build_mvhd_payload_source_agrees.
Print Assumptions build_tkhd_box_with_id_source_agrees.
Print Assumptions build_tkhd_box_source_agrees.
Print Assumptions build_audio_tkhd_box_source_agrees.
Print Assumptions build_mdhd_box_source_agrees.
Print Assumptions build_stsc_box_source_agrees.

(** ** src/muxer/mp4.rs: sample entries *)
Theorem build_vpcc_box_source_agrees : forall c,
  build_vpcc_box_src (vp9_profile c) (vp9_bit_depth c) (vp9_color_space c) (vp9_transfer_function c)
                     (vp9_matrix_coefficients c) (vp9_level c) (vp9_full_range_flag c) = build_vpcc_box c.
Proof. intros. reflexivity. Qed.

Theorem build_vp09_box_source_agrees : forall v c,
  build_vp09_box_src (vt_width v) (vt_height v)
                     (vp9_profile c) (vp9_bit_depth c) (vp9_color_space c) (vp9_transfer_function c)
                     (vp9_matrix_coefficients c) (vp9_level c) (vp9_full_range_flag c) = build_vp09_box v c.
Proof. intros. unfold build_vp09_box_src. rewrite !be16_wrap. reflexivity. Qed.

Theorem build_av1c_box_source_agrees : forall c,
  build_av1c_box_src (av1_sequence_header c) (av1_seq_profile c) (av1_seq_level_idx c) (av1_seq_tier c)
                     (av1_high_bitdepth c) (av1_twelve_bit c) (av1_monochrome c)
                     (av1_subsampling_x c) (av1_subsampling_y c) (av1_chroma_sample_position c) = build_av1c_box c.
Proof. intros. reflexivity. Qed.

Theorem build_av01_box_source_agrees : forall v c,
  build_av01_box_src (vt_width v) (vt_height v)
                     (av1_sequence_header c) (av1_seq_profile c) (av1_seq_level_idx c) (av1_seq_tier c)
                     (av1_high_bitdepth c) (av1_twelve_bit c) (av1_monochrome c)
                     (av1_subsampling_x c) (av1_subsampling_y c) (av1_chroma_sample_position c) = build_av01_box v c.
Proof. intros. unfold build_av01_box_src. rewrite !be16_wrap. reflexivity. Qed.

(* avcC: [if sps.len() >= 4 { (sps[1], sps[2], sps[3]) } else { (0x42, 0, 0x1e) }] is translated component-wise
   with [nth]; the model matches on the list: case analysis on the first four cells *)
Lemma len_ge4 (a b c d : N) t : (4 <=? len (a :: b :: c :: d :: t)) = true.
Proof. apply N.leb_le. unfold len. cbn [length]. rewrite !Nat2N.inj_succ. rewrite <- !N.add_1_r, <- !N.add_assoc. apply N.le_add_l. Qed.

Theorem build_avcc_box_source_agrees : forall c, build_avcc_box_src (avc_sps c) (avc_pps c) = build_avcc_box c.
Proof.
  intros [sps pps]. unfold build_avcc_box_src, build_avcc_box. cbn [avc_sps avc_pps]. rewrite !be16_wrap.
  destruct sps as [|x0 [|x1 [|x2 [|x3 t]]]]; try reflexivity.
  rewrite !len_ge4. reflexivity.
Qed.

Theorem build_avc1_box_source_agrees : forall v c,
  build_avc1_box_src (vt_width v) (vt_height v) (avc_sps c) (avc_pps c) = build_avc1_box v c.
Proof. intros. unfold build_avc1_box_src. rewrite !be16_wrap, build_avcc_box_source_agrees. reflexivity. Qed.

(* hvcC: the four accessor methods of HevcConfig are parameters (only their declared return types are read) *)
Theorem build_hvcc_box_source_agrees : forall c,
  build_hvcc_box_src (hevc_vps c) (hevc_sps c) (hevc_pps c) (hevc_general_profile_space c) (hevc_general_tier_flag c)
                     (hevc_general_profile_idc c) (hevc_general_level_idc c) = build_hvcc_box c.
Proof. intros. unfold build_hvcc_box_src. rewrite !be16_wrap. reflexivity. Qed.

Theorem build_hvc1_box_source_agrees : forall v c,
  build_hvc1_box_src (vt_width v) (vt_height v)
                     (hevc_vps c) (hevc_sps c) (hevc_pps c) (hevc_general_profile_space c) (hevc_general_tier_flag c)
                     (hevc_general_profile_idc c) (hevc_general_level_idc c) = build_hvc1_box v c.
Proof. intros. unfold build_hvc1_box_src. rewrite !be16_wrap, build_hvcc_box_source_agrees. reflexivity. Qed.

(* the [assert_invariant!] conditions at the head of the four visual sample entry builders (the source panics when
   one is false), as translated into [<name>_src_pre]: exactly the complement of the test with which the model's
   [finalize] (Model/Writer.v) rejects the track before any box is built, so the builders never run outside them *)
Theorem sample_entry_preconditions_source_agree : forall v,
  let ok := negb ((U16MAX <? vt_width v) || (U16MAX <? vt_height v)) in
  build_avc1_box_src_pre (vt_width v) (vt_height v) = ok /\
  build_hvc1_box_src_pre (vt_width v) (vt_height v) = ok /\
  build_av01_box_src_pre (vt_width v) (vt_height v) = ok /\
  build_vp09_box_src_pre (vt_width v) (vt_height v) = ok.
Proof.
  intros v ok. subst ok.
  unfold build_avc1_box_src_pre, build_hvc1_box_src_pre, build_av01_box_src_pre, build_vp09_box_src_pre, U16MAX.
  rewrite !N.ltb_antisym, Bool.negb_orb, !Bool.negb_involutive. repeat split; reflexivity.
Qed.

Theorem build_audio_specific_config_source_agrees : forall sample_rate channels,
  build_audio_specific_config_src sample_rate channels = build_audio_specific_config sample_rate channels.
Proof. intros. unfold build_audio_specific_config_src. rewrite u8_min15. reflexivity. Qed.

Theorem build_esds_box_source_agrees : forall a,
  build_esds_box_src (at_sample_rate a) (at_channels a) = build_esds_box a.
Proof.
  intros. unfold build_esds_box_src, build_esds_box.
  rewrite build_audio_specific_config_source_agrees. reflexivity.
Qed.

Theorem build_mp4a_box_source_agrees : forall a,
  build_mp4a_box_src (at_sample_rate a) (at_channels a) = build_mp4a_box a.
Proof.
  intros. unfold build_mp4a_box_src. rewrite be32_shl16, build_esds_box_source_agrees. reflexivity.
Qed.

(* dOps: [OpusConfig::default().with_channels(audio.channels as u8)] is evaluated symbolically from the Default impl
   and the method body in src/codec/opus.rs (pre_skip 312, 48000 Hz, gain 0, mapping family); the source tests
   [family != 0], the model [family =? 0] with the branches swapped: one case split on [2 <? channels] *)
Theorem build_dops_box_source_agrees : forall a, build_dops_box_src (at_channels a) = build_dops_box a.
Proof. intros. unfold build_dops_box_src, build_dops_box. destruct (2 <? u8 (at_channels a)); reflexivity. Qed.

Theorem build_opus_box_source_agrees : forall a, build_opus_box_src (at_channels a) = build_opus_box a.
Proof. intros. unfold build_opus_box_src. rewrite build_dops_box_source_agrees. reflexivity. Qed.
Print Assumptions build_vpcc_box_source_agrees.
Print Assumptions build_vp09_box_source_agrees.
Print Assumptions build_av1c_box_source_agrees.
Print Assumptions build_av01_box_source_agrees.
Print Assumptions build_avcc_box_source_agrees.
Print Assumptions build_avc1_box_source_agrees.
Print Assumptions build_hvcc_box_source_agrees.
Print Assumptions build_hvc1_box_source_agrees.
Print Assumptions sample_entry_preconditions_source_agree.
Print Assumptions build_audio_specific_config_source_agrees.
Print Assumptions build_esds_box_source_agrees.
Print Assumptions build_mp4a_box_source_agrees.
Print Assumptions build_dops_box_source_agrees.
Print Assumptions build_opus_box_source_agrees.

(** ** src/fragmented.rs: init segment boxes and the fixed moof pieces *)
Theorem build_ftyp_fmp4_source_agrees : build_ftyp_fmp4_src = build_ftyp_fmp4.
Proof. reflexivity. Qed.
Theorem build_mvhd_fmp4_source_agrees : forall timescale, build_mvhd_fmp4_src timescale = build_mvhd_fmp4 timescale.
Proof. intros. reflexivity. Qed.
Theorem build_mvex_source_agrees : build_mvex_src = build_mvex.
Proof. reflexivity. Qed.
Theorem build_tkhd_fmp4_source_agrees : forall c, build_tkhd_fmp4_src (fc_width c) (fc_height c) = build_tkhd_fmp4 c.
Proof. intros. unfold build_tkhd_fmp4_src. rewrite !be32_shl16. reflexivity. Qed.
(* encode_language_code: a function parameter, as for build_mdhd_box; the model fixes language = None because the only
   call site (build_mdia_fmp4) passes None *)
Theorem build_mdhd_fmp4_source_agrees : forall timescale,
  build_mdhd_fmp4_src timescale None (fun s => encode_language_code (utf8_chars s)) = build_mdhd_fmp4 timescale.
Proof. intros. reflexivity. Qed.
Theorem build_hdlr_video_source_agrees : build_hdlr_video_src = build_hdlr_video.
Proof. reflexivity. Qed.
Theorem build_vmhd_source_agrees : build_vmhd_src = build_vmhd.
Proof. reflexivity. Qed.
Theorem build_dinf_source_agrees : build_dinf_src = build_dinf.
Proof. reflexivity. Qed.
(* the model has no separate definitions for the four empty tables: they are inlined in build_stbl_fmp4 *)
Theorem build_empty_tables_source_agree :
  build_empty_stts_src = build_box T_stts (be32 0 ++ be32 0) /\
  build_empty_stsc_src = build_box T_stsc (be32 0 ++ be32 0) /\
  build_empty_stsz_src = build_box T_stsz (be32 0 ++ be32 0 ++ be32 0) /\
  build_empty_stco_src = build_box T_stco (be32 0 ++ be32 0).
Proof. repeat split; reflexivity. Qed.
Theorem build_stbl_fmp4_source_agrees : forall c, build_stbl_fmp4_src (build_stsd_fmp4 c) = build_stbl_fmp4 c.
Proof. intros. reflexivity. Qed.
(* avcC of the init segment: [sps.get(i).copied().unwrap_or(d)] is [nth i sps d]; the model uses nth_error *)
Theorem build_avcc_fmp4_source_agrees : forall c, build_avcc_fmp4_src (fc_sps c) (fc_pps c) = build_avcc_fmp4 c.
Proof.
  intros. unfold build_avcc_fmp4_src, build_avcc_fmp4, nth_or. rewrite !be16_wrap.
  destruct (fc_sps c) as [|x0 [|x1 [|x2 [|x3 t]]]]; reflexivity.
Qed.
(* the four visual sample entries of the init segment: header from the source; the configuration record is the
   translated avcC, resp. a parameter (hvcC / av1C / vpcC); in the model they are the branches of build_stsd_fmp4 *)
Theorem fmp4_sample_entries_source_agree : forall c,
  build_avc1_fmp4_src (fc_width c) (fc_height c) (fc_sps c) (fc_pps c) =
    build_box T_avc1 (visual_entry_prefix_fmp4 c ++ build_avcc_fmp4 c) /\
  build_hvc1_fmp4_src (fc_width c) (fc_height c) (build_hvcc_fmp4 c) =
    build_box T_hvc1 (visual_entry_prefix_fmp4 c ++ build_hvcc_fmp4 c) /\
  build_av01_fmp4_src (fc_width c) (fc_height c) (build_av1c_fmp4 c) =
    build_box T_av01 (visual_entry_prefix_fmp4 c ++ build_av1c_fmp4 c) /\
  build_vp09_fmp4_src (fc_width c) (fc_height c) (build_vpcc_fmp4 c) =
    build_box T_vp09 (visual_entry_prefix_fmp4 c ++ build_vpcc_fmp4 c).
Proof.
  intros. unfold build_avc1_fmp4_src, build_hvc1_fmp4_src, build_av01_fmp4_src, build_vp09_fmp4_src.
  rewrite !be16_wrap, build_avcc_fmp4_source_agrees. repeat split; reflexivity.
Qed.
Theorem build_mfhd_source_agrees : forall sequence_number, build_mfhd_src sequence_number = build_mfhd sequence_number.
Proof. intros. reflexivity. Qed.
Theorem build_tfhd_source_agrees : build_tfhd_src = build_tfhd.
Proof. reflexivity. Qed.
Theorem build_tfdt_source_agrees : forall base, build_tfdt_src base = build_tfdt base.
Proof. intros. reflexivity. Qed.
Print Assumptions build_ftyp_fmp4_source_agrees.
Print Assumptions build_mvhd_fmp4_source_agrees.
Print Assumptions build_mvex_source_agrees.
Print Assumptions build_tkhd_fmp4_source_agrees.
Print Assumptions build_mdhd_fmp4_source_agrees.
Print Assumptions build_hdlr_video_source_agrees.
Print Assumptions build_vmhd_source_agrees.
Print Assumptions build_dinf_source_agrees.
Print Assumptions build_empty_tables_source_agree.
Print Assumptions build_stbl_fmp4_source_agrees.
Print Assumptions build_avcc_fmp4_source_agrees.
Print Assumptions fmp4_sample_entries_source_agree.
Print Assumptions build_mfhd_source_agrees.
Print Assumptions build_tfhd_source_agrees.
Print Assumptions build_tfdt_source_agrees.

(** * Sample tables with data-dependent loops (src/muxer/mp4.rs)
    [for x in slice { payload.extend_from_slice(&x.to_be_bytes()) }] is translated to [flat_map (fun x => be32 x) slice],
    the count field [(slice.len() as u32)] to [be32 (u32 (len slice))]. *)
From Coq Require Import ZArith Lia.
From Muxide Require Import Model.Writer.

Theorem build_stsz_box_source_agrees : forall sizes, build_stsz_box_src sizes = build_stsz_box sizes.
Proof. intros. unfold build_stsz_box_src. rewrite be32_wrap, flat_map_concat_map. reflexivity. Qed.
Theorem build_stco_box_source_agrees : forall chunk_offsets, build_stco_box_src chunk_offsets = build_stco_box chunk_offsets.
Proof. intros. unfold build_stco_box_src. rewrite be32_wrap, flat_map_concat_map. reflexivity. Qed.
Theorem build_stss_box_source_agrees : forall keyframes, build_stss_box_src keyframes = build_stss_box keyframes.
Proof. intros. unfold build_stss_box_src. rewrite be32_wrap, flat_map_concat_map. reflexivity. Qed.
(* INV-004, the [assert_invariant!(size > 0)] loop at the head of build_stsz_box, as translated into
   [build_stsz_box_src_pre] ([forallb]): the complement of the test with which the model's [moov_of]
   (Model/Writer.v) reports PanicStszZeroSize *)
Theorem build_stsz_box_invariant_source_agrees : forall t,
  build_stsz_box_src_pre (st_sizes t) = negb (has_zero_size t).
Proof.
  intro t. unfold build_stsz_box_src_pre, has_zero_size. induction (st_sizes t) as [|s l IH]; [reflexivity|].
  cbn [forallb existsb]. rewrite IH, Bool.negb_orb. destruct s; reflexivity.
Qed.
Print Assumptions build_stsz_box_source_agrees.
Print Assumptions build_stco_box_source_agrees.
Print Assumptions build_stss_box_source_agrees.
Print Assumptions build_stsz_box_invariant_source_agrees.

(** ** stts / ctts: the run-length loop.
    The source keeps [entries: Vec<(u32, T)>] and, per input element, either bumps the count of the LAST entry
    ([entries.last_mut()], [last.0 += 1], wrapping at u32 as translated) or pushes [(1, x)]; the translation is that
    left fold, literally ([vec_last] / [vec_set_last] are defined in Translated.v).  The model's [rle] recurses from
    the other end, merges at the HEAD and does not wrap: they agree when no count can reach 2^32, which is the
    hypothesis [len l < 2^32] of the theorems below. *)
Definition rle_step {A} (eqb : A -> A -> bool) (entries : list (N * A)) (x : A) : list (N * A) :=
  match vec_last entries with
  | Some last => if eqb (snd last) x then vec_set_last entries (u32 (fst last + 1), snd last) else entries ++ [(1, x)]
  | None => entries ++ [(1, x)]
  end.
(* one step of the model's [rle] *)
Definition rle_cons {A} (eqb : A -> A -> bool) (a : A) (r : list (N * A)) : list (N * A) :=
  match r with (c, y) :: t => if eqb a y then (c + 1, y) :: t else (1, a) :: (c, y) :: t | [] => [(1, a)] end.

Lemma rle_step_snoc A eqb (f : list (N * A)) c y x :
  rle_step eqb (f ++ [(c, y)]) x = if eqb y x then f ++ [(u32 (c + 1), y)] else f ++ [(c, y); (1, x)].
Proof.
  unfold rle_step, vec_last, vec_set_last. rewrite rev_app_distr, removelast_last. cbn [rev app fst snd].
  destruct (eqb y x); [reflexivity | rewrite <- app_assoc; reflexivity].
Qed.

Lemma len_cons A (a : A) l : len (a :: l) = len l + 1.
Proof. unfold len. cbn [length]. lia. Qed.

(* no count exceeds the number of elements encoded *)
Lemma rle_count_le A eqb (l : list A) : Forall (fun e => fst e <= len l) (rle eqb l).
Proof.
  induction l as [|a l IH]; [constructor|].
  change (rle eqb (a :: l)) with (rle_cons eqb a (rle eqb l)). rewrite len_cons.
  assert (W : Forall (fun e : N * A => fst e <= len l + 1) (rle eqb l)) by (eapply Forall_impl; [|exact IH]; cbn; intros; lia).
  unfold rle_cons. destruct (rle eqb l) as [|[c y] t]; [repeat constructor; cbn; lia|].
  inversion W; subst. inversion IH; subst. cbn [fst] in *.
  destruct (eqb a y); repeat constructor; cbn [fst]; try lia; assumption.
Qed.

(* appending one element to the input is one iteration of the source's loop *)
Lemma rle_snoc A eqb (Heq : forall a b : A, eqb a b = true -> a = b) (l : list A) x :
  len l + 1 < 4294967296 -> rle eqb (l ++ [x]) = rle_step eqb (rle eqb l) x.
Proof.
  induction l as [|a l IH]; intro B; [reflexivity|].
  rewrite len_cons in B.
  change (rle eqb ((a :: l) ++ [x])) with (rle_cons eqb a (rle eqb (l ++ [x]))).
  change (rle eqb (a :: l)) with (rle_cons eqb a (rle eqb l)).
  rewrite IH by lia. pose proof (rle_count_le A eqb l) as C. clear IH.
  destruct (rle eqb l) as [|e f _] using rev_ind.
  - cbn. destruct (eqb a x) eqn:E; [apply Heq in E; subst|]; reflexivity.
  - destruct e as [c y]. apply Forall_app in C. destruct C as [_ C]. inversion C; subst. cbn [fst] in *.
    rewrite rle_step_snoc.
    assert (U1 : u32 (c + 1) = c + 1) by (apply N.mod_small; lia).
    assert (U2 : u32 (c + 1 + 1) = c + 1 + 1) by (apply N.mod_small; lia).
    destruct f as [|[c0 y0] f].
    + cbn [app rle_cons]. destruct (eqb y x) eqn:E1, (eqb a y) eqn:E2; cbn [rle_cons app];
        rewrite ?E1, ?E2; try reflexivity.
      * change [(c + 1, y)] with ([] ++ [(c + 1, y)]). rewrite rle_step_snoc, E1, U1, U2. reflexivity.
      * change [(1, a); (c, y)] with ([(1, a)] ++ [(c, y)]). rewrite rle_step_snoc, E1. reflexivity.
      * change [(c + 1, y)] with ([] ++ [(c + 1, y)]). rewrite rle_step_snoc, E1. reflexivity.
      * change [(1, a); (c, y)] with ([(1, a)] ++ [(c, y)]). rewrite rle_step_snoc, E1. reflexivity.
    + cbn [app rle_cons]. destruct (eqb y x) eqn:E1, (eqb a y0) eqn:E2; cbn [rle_cons app]; rewrite ?E2;
        rewrite ?app_comm_cons, rle_step_snoc, E1; reflexivity.
Qed.

Lemma rle_fold A eqb (Heq : forall a b : A, eqb a b = true -> a = b) (l : list A) :
  len l < 4294967296 -> fold_left (rle_step eqb) l [] = rle eqb l.
Proof.
  induction l as [|x l IH] using rev_ind; intro B; [reflexivity|].
  assert (L : len (l ++ [x]) = len l + 1) by (unfold len; rewrite app_length; cbn; lia).
  rewrite L in B. rewrite fold_left_app. cbn [fold_left]. rewrite IH by lia. symmetry. apply rle_snoc; assumption.
Qed.

Theorem build_stts_box_source_agrees : forall durations,
  len durations < 4294967296 -> build_stts_box_src durations = build_stts_box durations.
Proof.
  intros d B. unfold build_stts_box_src, build_stts_box. cbv zeta.
  replace (fold_left _ d []) with (rle N.eqb d)
    by (symmetry; exact (rle_fold N N.eqb (fun a b => proj1 (N.eqb_eq a b)) d B)).
  rewrite be32_wrap, flat_map_concat_map. reflexivity.
Qed.
(* ctts: the offsets are i32 in the source and Z in the model; [offset.to_be_bytes()] is [be32 (i32_bits offset)],
   the model's two's-complement helper, and [last.1 == offset] is [Z.eqb] *)
Theorem build_ctts_box_source_agrees : forall cts_offsets,
  len cts_offsets < 4294967296 -> build_ctts_box_src cts_offsets = build_ctts_box cts_offsets.
Proof.
  intros d B. unfold build_ctts_box_src, build_ctts_box. cbv zeta.
  replace (fold_left _ d []) with (rle Z.eqb d)
    by (symmetry; exact (rle_fold Z Z.eqb (fun a b => proj1 (Z.eqb_eq a b)) d B)).
  rewrite be32_wrap, flat_map_concat_map. reflexivity.
Qed.
Print Assumptions build_stts_box_source_agrees.
Print Assumptions build_ctts_box_source_agrees.

(** * Containers of the progressive muxer (record mode: a struct parameter of the source is a value of the model's
    record, its fields mapped by the translator's RECORDS table; HevcConfig's accessor methods and
    SampleTables::total_duration are translated in place from their bodies) *)
Lemma nth_nth_error {A} (l : list A) n d : nth n l d = match nth_error l n with Some x => x | None => d end.
Proof. revert n. induction l as [|a l IH]; intros [|n]; cbn; auto. Qed.

Theorem build_stsd_box_source_agrees : forall v c, build_stsd_box_src v c = build_stsd_box v c.
Proof.
  intros v c. unfold build_stsd_box_src, build_stsd_box. do 4 f_equal. destruct c as [c|c|c|c].
  - apply build_avc1_box_source_agrees.
  - rewrite nth_nth_error. exact (build_hvc1_box_source_agrees v c).
  - apply build_av01_box_source_agrees.
  - apply build_vp09_box_source_agrees.
Qed.

Theorem build_audio_stsd_box_source_agrees : forall a, build_audio_stsd_box_src a = build_audio_stsd_box a.
Proof.
  intros a. unfold build_audio_stsd_box_src, build_audio_stsd_box.
  rewrite build_mp4a_box_source_agrees, build_opus_box_source_agrees. destruct (at_codec a); reflexivity.
Qed.

(* the hypothesis under which the run-length loops cannot wrap a u32 count *)
Definition tables_small (t : sample_tables) : Prop :=
  len (st_durations t) < 4294967296 /\ len (st_cts_offsets t) < 4294967296.

Lemma len_eqb_0 {A} (l : list A) : (len l =? 0) = match l with [] => true | _ => false end.
Proof. destruct l; reflexivity. Qed.

Theorem build_stbl_box_source_agrees : forall v t c, tables_small t -> build_stbl_box_src v t c = build_stbl_box v t c.
Proof.
  intros v t c [Hd Hc]. unfold build_stbl_box_src, build_stbl_box.
  rewrite build_stsd_box_source_agrees, (build_stts_box_source_agrees _ Hd), (build_ctts_box_source_agrees _ Hc),
    build_stsc_box_source_agrees, build_stsz_box_source_agrees, build_stco_box_source_agrees,
    build_stss_box_source_agrees, len_eqb_0.
  destruct (st_keyframes t); reflexivity.
Qed.

Theorem build_audio_stbl_box_source_agrees : forall a t,
  len (st_durations t) < 4294967296 -> build_audio_stbl_box_src a t = build_audio_stbl_box a t.
Proof.
  intros a t Hd. unfold build_audio_stbl_box_src, build_audio_stbl_box.
  rewrite build_audio_stsd_box_source_agrees, (build_stts_box_source_agrees _ Hd),
    build_stsc_box_source_agrees, build_stsz_box_source_agrees, build_stco_box_source_agrees. reflexivity.
Qed.

Theorem build_minf_box_source_agrees : forall v t c, tables_small t -> build_minf_box_src v t c = build_minf_box v t c.
Proof. intros. unfold build_minf_box_src. rewrite build_stbl_box_source_agrees by assumption. reflexivity. Qed.

Theorem build_audio_minf_box_source_agrees : forall a t,
  len (st_durations t) < 4294967296 -> build_audio_minf_box_src a t = build_audio_minf_box a t.
Proof. intros. unfold build_audio_minf_box_src. rewrite build_audio_stbl_box_source_agrees by assumption. reflexivity. Qed.

(* encode_language_code stays a function parameter (see build_mdhd_box_source_agrees); it is passed down unchanged
   from build_moov_box_src and instantiated here with the model's function *)
Definition lang_fn : list N -> list N := fun s => encode_language_code (utf8_chars s).

Theorem build_mdia_box_source_agrees : forall v t c m, tables_small t ->
  build_mdia_box_src v t c m lang_fn = build_mdia_box v t c m.
Proof.
  intros. unfold build_mdia_box_src, build_mdia_box.
  rewrite build_minf_box_source_agrees by assumption. unfold lang_fn. rewrite build_mdhd_box_source_agrees. reflexivity.
Qed.

Theorem build_audio_mdia_box_source_agrees : forall a t m, len (st_durations t) < 4294967296 ->
  build_audio_mdia_box_src a t m lang_fn = build_audio_mdia_box a t m.
Proof.
  intros. unfold build_audio_mdia_box_src, build_audio_mdia_box.
  rewrite build_audio_minf_box_source_agrees by assumption. unfold lang_fn. rewrite build_mdhd_box_source_agrees. reflexivity.
Qed.

Theorem build_trak_box_source_agrees : forall v t c m, tables_small t ->
  build_trak_box_src v t c m lang_fn = build_trak_box v t c m.
Proof.
  intros. unfold build_trak_box_src, build_trak_box.
  rewrite build_mdia_box_source_agrees by assumption. rewrite build_tkhd_box_source_agrees. reflexivity.
Qed.

Theorem build_audio_trak_box_source_agrees : forall a t m, len (st_durations t) < 4294967296 ->
  build_audio_trak_box_src a t m lang_fn = build_audio_trak_box a t m.
Proof.
  intros. unfold build_audio_trak_box_src, build_audio_trak_box.
  rewrite build_audio_mdia_box_source_agrees by assumption. rewrite build_audio_tkhd_box_source_agrees. reflexivity.
Qed.

Theorem build_ilst_string_item_source_agrees : forall atom_type value,
  build_ilst_string_item_src atom_type value = build_ilst_string_item atom_type value.
Proof. intros. reflexivity. Qed.

(* format_unix_timestamp (a format!() call) is a function parameter, instantiated with the model's function, whose
   six printed fields are tied to the source by format_unix_timestamp_from_source_fields *)
Theorem build_udta_box_source_agrees : forall m, build_udta_box_src m format_unix_timestamp = build_udta_box m.
Proof.
  intros. unfold build_udta_box_src, build_udta_box. cbv zeta. rewrite len_eqb_0.
  destruct (_ ++ _); reflexivity.
Qed.

Lemma skip_if_empty (x : list N) : (if negb (len x =? 0) then x else []) = x.
Proof. destruct x; reflexivity. Qed.

(* the whole moov of the progressive muxer, as a function of (video track, tables, audio option, config, metadata) *)
Theorem build_moov_box_source_agrees : forall v vt audio c m,
  tables_small vt ->
  match audio with Some (_, t) => len (st_durations t) < 4294967296 | None => True end ->
  build_moov_box_src v vt audio c m lang_fn format_unix_timestamp = build_moov_box v vt audio c m.
Proof.
  intros v vt audio c m Hv Ha. unfold build_moov_box_src, build_moov_box. cbv zeta.
  rewrite build_trak_box_source_agrees by assumption.
  rewrite build_mvhd_payload_source_agrees.
  destruct audio as [[a t]|]; [rewrite build_audio_trak_box_source_agrees by assumption|];
    (destruct m; [rewrite skip_if_empty, build_udta_box_source_agrees|]; reflexivity).
Qed.

(* the two overflow preconditions recorded for build_moov_box ([total_duration()] sums into a u64, then
   [* MOVIE_TIMESCALE as u64]): the second is the complement of the model's PanicMovieDurationOverflow test *)
Theorem build_moov_box_overflow_precondition_agrees : forall vt,
  build_moov_box_src_pre vt =
  (total_duration vt <=? U64MAX) && negb (U64MAX <? total_duration vt * MOVIE_TIMESCALE).
Proof. intros. unfold build_moov_box_src_pre. rewrite N.ltb_antisym, Bool.negb_involutive. reflexivity. Qed.
Print Assumptions build_stsd_box_source_agrees.
Print Assumptions build_audio_stsd_box_source_agrees.
Print Assumptions build_stbl_box_source_agrees.
Print Assumptions build_audio_stbl_box_source_agrees.
Print Assumptions build_minf_box_source_agrees.
Print Assumptions build_audio_minf_box_source_agrees.
Print Assumptions build_mdia_box_source_agrees.
Print Assumptions build_audio_mdia_box_source_agrees.
Print Assumptions build_trak_box_source_agrees.
Print Assumptions build_audio_trak_box_source_agrees.
Print Assumptions build_ilst_string_item_source_agrees.
Print Assumptions build_udta_box_source_agrees.
Print Assumptions build_moov_box_source_agrees.
Print Assumptions build_moov_box_overflow_precondition_agrees.

(** * Fragmented init segment (src/fragmented.rs), record mode over the model's [frag_config].
    build_hvcc_fmp4 / build_av1c_fmp4 / build_vpcc_fmp4 are now translated: [HevcConfig::new(..)] and the
    [Av1Config { sequence_header: .., ..Default::default() }] literal become records of the model, the AV1
    sequence-header parser [extract_av1_config] is a function parameter (instantiated with the model's parser). *)
Theorem build_vpcc_fmp4_source_agrees : forall c, build_vpcc_fmp4_src c = build_vpcc_fmp4 c.
Proof. intros. unfold build_vpcc_fmp4_src, build_vpcc_fmp4. destruct (fc_vp9 c); reflexivity. Qed.

Theorem build_hvcc_fmp4_source_agrees : forall c, build_hvcc_fmp4_src c = build_hvcc_fmp4 c.
Proof.
  intros. unfold build_hvcc_fmp4_src, build_hvcc_fmp4. cbv zeta. rewrite nth_nth_error.
  exact (build_hvcc_box_source_agrees _).
Qed.

Theorem build_av1c_fmp4_source_agrees : forall c, build_av1c_fmp4_src c extract_av1_config = build_av1c_fmp4 c.
Proof. intros. unfold build_av1c_fmp4_src, build_av1c_fmp4. cbv zeta. exact (build_av1c_box_source_agrees _). Qed.

(* the three sample entries whose configuration record used to be a parameter, now with the translated record *)
Theorem fmp4_sample_entries_full_source_agree : forall c,
  build_hvc1_fmp4_full_src c = build_box T_hvc1 (visual_entry_prefix_fmp4 c ++ build_hvcc_fmp4 c) /\
  build_av01_fmp4_full_src c extract_av1_config = build_box T_av01 (visual_entry_prefix_fmp4 c ++ build_av1c_fmp4 c) /\
  build_vp09_fmp4_full_src c = build_box T_vp09 (visual_entry_prefix_fmp4 c ++ build_vpcc_fmp4 c).
Proof.
  intros. unfold build_hvc1_fmp4_full_src, build_av01_fmp4_full_src, build_vp09_fmp4_full_src.
  rewrite !be16_wrap, build_hvcc_fmp4_source_agrees, build_av1c_fmp4_source_agrees, build_vpcc_fmp4_source_agrees.
  repeat split; reflexivity.
Qed.

(* the [if config.av1_sequence_header.is_some() .. else if config.vp9_config.is_some() .. else if config.vps.is_some()]
   dispatch against the model's three-way match *)
Theorem build_stsd_fmp4_source_agrees : forall c, build_stsd_fmp4_src c extract_av1_config = build_stsd_fmp4 c.
Proof.
  intros. unfold build_stsd_fmp4_src, build_stsd_fmp4.
  destruct (fmp4_sample_entries_full_source_agree c) as (Hh & Ha & Hv).
  destruct (fmp4_sample_entries_source_agree c) as (Hc & _).
  rewrite Hh, Ha, Hv, Hc. destruct (fc_av1 c), (fc_vp9 c), (fc_vps c); reflexivity.
Qed.

Theorem build_stbl_fmp4_full_source_agrees : forall c, build_stbl_fmp4_full_src c extract_av1_config = build_stbl_fmp4 c.
Proof. intros. unfold build_stbl_fmp4_full_src. rewrite build_stsd_fmp4_source_agrees. reflexivity. Qed.

Theorem build_minf_fmp4_source_agrees : forall c, build_minf_fmp4_src c extract_av1_config = build_minf_fmp4 c.
Proof. intros. unfold build_minf_fmp4_src. rewrite build_stbl_fmp4_full_source_agrees. reflexivity. Qed.

Theorem build_mdia_fmp4_source_agrees : forall c, build_mdia_fmp4_src c lang_fn extract_av1_config = build_mdia_fmp4 c.
Proof.
  intros. unfold build_mdia_fmp4_src. rewrite build_minf_fmp4_source_agrees. unfold lang_fn.
  rewrite build_mdhd_fmp4_source_agrees. reflexivity.
Qed.

Theorem build_trak_fmp4_source_agrees : forall c, build_trak_fmp4_src c lang_fn extract_av1_config = build_trak_fmp4 c.
Proof.
  intros. unfold build_trak_fmp4_src. rewrite build_mdia_fmp4_source_agrees, build_tkhd_fmp4_source_agrees. reflexivity.
Qed.

(* the whole moov of the init segment as a function of the configuration *)
Theorem build_moov_fmp4_source_agrees : forall c, build_moov_fmp4_src c lang_fn extract_av1_config = build_moov_fmp4 c.
Proof. intros. unfold build_moov_fmp4_src. rewrite build_trak_fmp4_source_agrees. reflexivity. Qed.
Print Assumptions build_vpcc_fmp4_source_agrees.
Print Assumptions build_hvcc_fmp4_source_agrees.
Print Assumptions build_av1c_fmp4_source_agrees.
Print Assumptions fmp4_sample_entries_full_source_agree.
Print Assumptions build_stsd_fmp4_source_agrees.
Print Assumptions build_stbl_fmp4_full_source_agrees.
Print Assumptions build_minf_fmp4_source_agrees.
Print Assumptions build_mdia_fmp4_source_agrees.
Print Assumptions build_trak_fmp4_source_agrees.
Print Assumptions build_moov_fmp4_source_agrees.

(** * Fragmented media segment (src/fragmented.rs): trun, traf, moof, moof + mdat.
    [for (i, sample) in samples.iter().enumerate()] is translated to a [flat_map] over [enumerate_from 0 samples]
    (Translated.v), [samples[i + 1]] to [nth]; [pts.wrapping_sub(dts) as i32] to the difference modulo 2^64 computed
    in Z, its low 32 bits read as two's complement ([i32_of_bits]), printed with [i32_bits]. *)
Lemma i32_roundtrip n : n < 4294967296 -> i32_bits (i32_of_bits n) = n.
Proof.
  intro H. unfold i32_bits, i32_of_bits, I32MOD. destruct (n <? 2147483648) eqn:E.
  - rewrite Z.mod_small by lia. apply N2Z.id.
  - apply N.ltb_ge in E. replace (Z.of_N n - 4294967296)%Z with (Z.of_N n + (-1) * 4294967296)%Z by lia.
    rewrite Z.mod_add by lia. rewrite Z.mod_small by lia. apply N2Z.id.
Qed.
Lemma cts_bits p d :
  i32_bits (i32_of_bits (u32 (Z.to_N ((Z.of_N p - Z.of_N d) mod 18446744073709551616)%Z))) = i32_bits (Z.of_N p - Z.of_N d).
Proof.
  set (z := (Z.of_N p - Z.of_N d)%Z).
  assert (E : u32 (Z.to_N (z mod 18446744073709551616)%Z) = i32_bits z).
  { unfold u32, i32_bits, I32MOD. 
    pose proof (Z.mod_pos_bound z 18446744073709551616 ltac:(lia)).
    change 4294967296 with (Z.to_N 4294967296). rewrite <- Z2N.inj_mod by lia. f_equal.
    change 18446744073709551616%Z with (4294967296 * 4294967296)%Z.
    rewrite Z.rem_mul_r by lia. rewrite (Z.mul_comm 4294967296), Z.mod_add by lia. apply Z.mod_mod. lia. }
  rewrite E. apply i32_roundtrip. unfold i32_bits, I32MOD.
  pose proof (Z.mod_pos_bound z 4294967296 ltac:(lia)). lia.
Qed.
(* the body of the per-sample loop of build_trun, exactly as generated *)
Definition trun_body (samples : list frag_sample) (e_ : N * frag_sample) : list N :=
  ((be32 (if (((fst e_) + 1) <? (len samples)) then (u32 ((fs_dts (nth (N.to_nat ((fst e_) + 1)) samples {| fs_pts := 0; fs_dts := 0; fs_data := []; fs_sync := false |})) - (fs_dts (snd e_)))) else (if (0 <? (fst e_)) then (u32 ((fs_dts (snd e_)) - (fs_dts (nth (N.to_nat ((fst e_) - 1)) samples {| fs_pts := 0; fs_dts := 0; fs_data := []; fs_sync := false |})))) else 3000))) ++ (be32 (u32 (len (fs_data (snd e_))))) ++ (be32 (if (fs_sync (snd e_)) then 33554432 else 16842752)) ++ (be32 (i32_bits (i32_of_bits (u32 (Z.to_N ((Z.of_N (fs_pts (snd e_)) - Z.of_N (fs_dts (snd e_))) mod 18446744073709551616)%Z)))))).

Lemma len_app1 {A} (l : list A) x : len (l ++ [x]) = len l + 1.
Proof. unfold len. rewrite app_length. cbn. lia. Qed.
Lemma to_nat_len {A} (l : list A) : N.to_nat (len l) = length l.
Proof. unfold len. apply Nat2N.id. Qed.

(* the loop from position [len done] on, over the remaining samples, is the model's recursion with
   [prev] = the decode time of the last sample already emitted *)
Lemma trun_loop : forall rest done prev,
  (done = [] /\ prev = None) \/ (exists q p, done = q ++ [p] /\ prev = Some (fs_dts p)) ->
  flat_map (trun_body (done ++ rest)) (enumerate_from (len done) rest) = trun_entries prev rest.
Proof.
  induction rest as [|s t IH]; intros done prev Hp; [reflexivity|].
  cbn [enumerate_from flat_map trun_entries]. f_equal.
  - unfold trun_body, trun_entry. cbn [fst snd]. rewrite be32_wrap, cts_bits. f_equal.
    assert (L : len (done ++ s :: t) = len done + 1 + len t)
      by (unfold len; rewrite app_length; cbn [length]; lia).
    rewrite L. destruct t as [|n t'].
    + assert (E : (len done + 1 <? len done + 1 + len (@nil frag_sample)) = false) by (apply N.ltb_ge; cbn; lia).
      rewrite E. destruct Hp as [[-> ->]|(q & p & -> & ->)]; [reflexivity|].
      rewrite len_app1. assert (E2 : (0 <? len q + 1) = true) by (apply N.ltb_lt; lia). rewrite E2.
      replace (len q + 1 - 1) with (len q) by lia. rewrite to_nat_len, <- (app_assoc q [p] [s]). cbn [app].
      rewrite nth_middle. reflexivity.
    + assert (E : (len done + 1 <? len done + 1 + len (n :: t')) = true)
        by (apply N.ltb_lt; unfold len; cbn [length]; lia).
      rewrite E. replace (N.to_nat (len done + 1)) with (length (done ++ [s])) by (rewrite app_length, <- to_nat_len; cbn; lia).
      change (done ++ s :: n :: t') with (done ++ [s] ++ n :: t'). rewrite app_assoc, nth_middle. reflexivity.
  - replace (done ++ s :: t) with ((done ++ [s]) ++ t) by (rewrite <- app_assoc; reflexivity).
    rewrite <- (len_app1 done s). apply IH. right. exists done, s. split; reflexivity.
Qed.

Theorem build_trun_source_agrees : forall samples data_offset,
  build_trun_src samples data_offset = build_trun samples data_offset.
Proof.
  intros. unfold build_trun_src, build_trun.
  change (flat_map _ (enumerate_from 0 samples)) with (flat_map (trun_body ([] ++ samples)) (enumerate_from (len (@nil frag_sample)) samples)).
  rewrite (trun_loop samples [] None) by (left; split; reflexivity). rewrite be32_wrap. reflexivity.
Qed.

Theorem build_traf_source_agrees : forall samples base data_offset,
  build_traf_src samples base data_offset = build_traf samples base data_offset.
Proof. intros. unfold build_traf_src. rewrite build_trun_source_agrees. reflexivity. Qed.

Theorem build_moof_with_offset_source_agrees : forall samples seq base data_offset,
  build_moof_with_offset_src samples seq base data_offset = build_moof_with_offset samples seq base data_offset.
Proof. intros. unfold build_moof_with_offset_src. rewrite build_traf_source_agrees. reflexivity. Qed.

Theorem build_moof_source_agrees : forall samples seq base,
  build_moof_src samples seq base = build_moof_with_offset samples seq base 0.
Proof. intros. unfold build_moof_src. apply build_moof_with_offset_source_agrees. Qed.

(* moof + mdat; the unused [_timescale] parameter of the source is universally quantified *)
Theorem build_media_segment_source_agrees : forall samples seq base timescale,
  build_media_segment_src samples seq base timescale = build_media_segment samples seq base.
Proof.
  intros. unfold build_media_segment_src, build_media_segment. cbv zeta.
  rewrite build_moof_source_agrees, build_moof_with_offset_source_agrees, be32_wrap, flat_map_concat_map. reflexivity.
Qed.
Print Assumptions build_trun_source_agrees.
Print Assumptions build_traf_source_agrees.
Print Assumptions build_moof_with_offset_source_agrees.
Print Assumptions build_moof_source_agrees.
Print Assumptions build_media_segment_source_agrees.

(* ---- Annex B -> length-prefixed re-framing (src/codec/h264.rs annexb_to_avcc, src/codec/h265.rs hevc_annexb_to_hvcc).
   The NAL iterator is NOT translated: the translation takes the list of the units it yields as its first parameter
   [nals]; the theorems instantiate it with the model's [nal_iter data] (Model/Annexb.v), for the same [data] the
   source passes to AnnexBNalIter::new.  No size hypothesis: the source writes [(nal.len() as u32).to_be_bytes()],
   translated as [be32 (u32 (len nal))]; the model writes [be32 (len nal)], and [be32] itself keeps the low 32 bits
   ([be32_wrap]), so the two agree for units of every length, wrapped or not. *)
From Muxide Require Import Model.Annexb.

Lemma len_cons_nonzero {A} (x : A) (l : list A) : (len (x :: l) =? 0) = false.
Proof. unfold len. apply N.eqb_neq. simpl length. rewrite Nat2N.inj_succ. apply N.neq_succ_0. Qed.

(* the loop: empty units skipped by [continue], the others prefixed by their 4-byte big-endian length *)
Lemma reframe_loop : forall nals : list (list N),
  flat_map (fun nal : list N => if len nal =? 0 then [] else be32 (u32 (len nal)) ++ nal) nals
  = len_prefixed (filter nonempty nals).
Proof.
  induction nals as [|nal t IH]; [reflexivity|].
  cbn [flat_map filter]. rewrite IH. destruct nal as [|b r]; [reflexivity|].
  rewrite len_cons_nonzero, be32_wrap. unfold nonempty, len_prefixed. cbn [map concat].
  rewrite <- app_assoc. reflexivity.
Qed.

(* loop + fallback (nothing written and a non-empty input: the whole input as one unit) *)
Lemma reframe_agrees : forall (nals : list (list N)) (data : list N),
  (let out := flat_map (fun nal : list N => if len nal =? 0 then [] else be32 (u32 (len nal)) ++ nal) nals in
   out ++ (if (len out =? 0) && negb (len data =? 0) then be32 (u32 (len data)) ++ data else []))
  = (let out := len_prefixed (filter nonempty nals) in
     match out, data with [], _ :: _ => be32 (len data) ++ data | _, _ => out end).
Proof.
  intros. cbv zeta. rewrite reframe_loop.
  destruct (len_prefixed (filter nonempty nals)) as [|x o].
  - destruct data as [|d ds]; [reflexivity|].
    rewrite len_cons_nonzero, be32_wrap. reflexivity.
  - rewrite len_cons_nonzero. cbn [andb]. apply app_nil_r.
Qed.

Theorem annexb_to_avcc_source_agrees : forall data,
  annexb_to_avcc_src (nal_iter data) data = annexb_to_avcc data.
Proof. intros. unfold annexb_to_avcc_src, annexb_to_avcc. exact (reframe_agrees (nal_iter data) data). Qed.
Print Assumptions annexb_to_avcc_source_agrees.

Theorem hevc_annexb_to_hvcc_source_agrees : forall data,
  hevc_annexb_to_hvcc_src (nal_iter data) data = hevc_annexb_to_hvcc data.
Proof. intros. unfold hevc_annexb_to_hvcc_src, hevc_annexb_to_hvcc, annexb_to_avcc. exact (reframe_agrees (nal_iter data) data). Qed.
Print Assumptions hevc_annexb_to_hvcc_source_agrees.
