(** Agreement between the model and the Gallina text that gen/rust2coq.py derives from TODAY'S Rust source
    (build/gen/Translated.v, regenerated on every run).  Every proof is by conversion only: if a constant, an
    operator or the order of operations changes in the source, these proofs stop checking, whether or not
    any generated input reaches the difference. *)
From Coq Require Import NArith List.
From Muxide Require Import Model.Base Model.Boxes.
Require Import Translated.
Open Scope N_scope.

Theorem days_to_ymd_source_agrees : forall d, days_to_ymd_src d = days_to_ymd d.
Proof. intro d. reflexivity. Qed.

Theorem unix_fields_source_agree : forall s,
  unix_fields_src s =
  (let '(y, mo, d) := days_to_ymd (s / 86400) in
   (y, mo, d, (s mod 86400) / 3600, ((s mod 86400) mod 3600) / 60, (s mod 86400) mod 60)).
Proof. intro s. reflexivity. Qed.

(* hence the text the model stores in the creation-date item is built from the source's own fields *)
Theorem format_unix_timestamp_from_source_fields : forall s,
  format_unix_timestamp s =
  (let '(y, mo, d, h, mi, se) := unix_fields_src s in
   pad0 4 y ++ [45] ++ pad0 2 mo ++ [45] ++ pad0 2 d ++ [84] ++ pad0 2 h ++ [58] ++ pad0 2 mi ++ [58] ++ pad0 2 se ++ [90]).
Proof.
  intro s. unfold format_unix_timestamp. rewrite unix_fields_source_agree.
  destruct (days_to_ymd (s / 86400)) as [[y mo] d]. reflexivity.
Qed.
Print Assumptions days_to_ymd_source_agrees.
Print Assumptions unix_fields_source_agree.
Print Assumptions format_unix_timestamp_from_source_fields.

(** ADTS header fields and Opus TOC fields: the bit extraction expressions of the source *)
From Muxide Require Import Model.Adts.

Theorem adts_frame_length_source_agrees : forall b3 b4 b5, adts_frame_length_src b3 b4 b5 = adts_frame_length b3 b4 b5.
Proof. intros. reflexivity. Qed.

Theorem adts_header_len_source_agrees : forall b1,
  adts_header_len_src (adts_protection_absent_src b1) = adts_header_len b1.
Proof.
  intro b1. unfold adts_header_len_src, adts_protection_absent_src, adts_header_len, band.
  destruct (N.land b1 1 =? 0); reflexivity.
Qed.

(* the remaining fields are used inline by the model's adts_to_raw: the model's decision, for a frame of at
   least 7 bytes, is re-stated over the source's own field expressions *)
Theorem adts_to_raw_over_source_fields : forall b0 b1 b2 b3 b4 b5 b6 t,
  let frame := b0 :: b1 :: b2 :: b3 :: b4 :: b5 :: b6 :: t in
  adts_to_raw frame =
  if negb (adts_syncword_src b0 b1 =? 4095) then AdtsErr MissingSyncword
  else if negb (adts_mpeg_version_src b1 =? 0) then AdtsErr InvalidMpegVersion
  else if negb (adts_layer_src b1 =? 0) then AdtsErr InvalidLayer
  else
    let header_len := adts_header_len_src (adts_protection_absent_src b1) in
    if len frame <? header_len then AdtsErr InvalidHeaderLength
    else if 12 <? adts_sample_rate_idx_src b2 then AdtsErr InvalidSampleRateIndex
    else
      let chan := adts_channel_config_src b2 b3 in
      if (chan =? 0) || (7 <? chan) then AdtsErr InvalidChannelConfig
      else
        let fl := adts_frame_length_src b3 b4 b5 in
        if fl <=? header_len then AdtsErr InvalidFrameLength
        else if len frame <? fl then AdtsErr InvalidFrameLength
        else AdtsOk (firstn (N.to_nat (fl - header_len)) (skipn (N.to_nat header_len) frame)).
Proof.
  intros. subst frame. rewrite adts_header_len_source_agrees. reflexivity.
Qed.

Theorem opus_fields_source_agree : forall toc fc,
  opus_frame_duration_from_toc toc =
    (let config := opus_config_src toc in
     if config <=? 3 then Some 480 else if config <=? 7 then Some 960 else if config <=? 11 then Some 1920
     else if config <=? 15 then Some 2880 else if config <=? 19 then Some 480 else if config <=? 23 then Some 960
     else if config <=? 27 then Some 120 else if config <=? 31 then Some 240 else None) /\
  opus_frame_count [toc; fc] =
    (let code := opus_code_src toc in
     if code =? 0 then Some (1, false) else if code =? 1 then Some (2, false) else if code =? 2 then Some (2, true)
     else let count := opus_count_src fc in if count =? 0 then None else Some (count, opus_is_vbr_src fc)).
Proof. intros. split; reflexivity. Qed.
Print Assumptions adts_to_raw_over_source_fields.
Print Assumptions opus_fields_source_agree.

(** language code packing and the H.264 NAL type test *)
From Muxide Require Import Model.Codec.

Theorem language_packing_source_agrees : forall l,
  encode_language_code l =
  (let c1 := match l with c :: _ => c | [] => 117 end in
   let c2 := match l with _ :: c :: _ => c | _ => 110 end in
   let c3 := match l with _ :: _ :: c :: _ => c | _ => 100 end in
   be16 (language_packed_src (u16 c1) (u16 c2) (u16 c3))).
Proof. intro l. reflexivity. Qed.

Theorem h264_nal_type_source_agrees : forall b rest,
  h264_nal_type (b :: rest) = h264_nal_type_src_a b /\ h264_nal_type (b :: rest) = h264_nal_type_src_b b.
Proof. intros. split; reflexivity. Qed.
Print Assumptions language_packing_source_agrees.
Print Assumptions h264_nal_type_source_agrees.

(** H.265 NAL type and the fragment-duration conversion *)
From Muxide Require Import Model.Frag.

Theorem hevc_nal_type_source_agrees : forall b rest, hevc_nal_type (b :: rest) = hevc_nal_type_src b.
Proof. intros. reflexivity. Qed.

Theorem ticks_to_ms_source_agrees : forall m ticks,
  ticks_to_ms m ticks =
  (let ts := fc_timescale (fm_config m) in
   if ts =? 0 then 0 else ticks_to_ms_tail_src (ticks_to_ms_ms_src ticks ts)).
Proof. intros. reflexivity. Qed.
Print Assumptions hevc_nal_type_source_agrees.
Print Assumptions ticks_to_ms_source_agrees.
