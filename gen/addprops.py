"""helper: append theorems to a Props file and regenerate its pins"""
import re, sys
def add(prop, imports, text):
    p='/verif/coq/theories/Props/%s.v'%prop
    s=open(p).read()
    s=s.rstrip()+"\n\n"+imports+"\n"+text
    open(p,'w').write(s)
    regen(prop)
def regen(prop):
    s=open('/verif/coq/theories/Props/%s.v'%prop).read()
    out=[]
    for m in re.finditer(r"Theorem\s+(\w+)\s*:\s*(.*?)\nProof\.", s, flags=re.S):
        name, stmt = m.group(1), m.group(2).strip()
        if stmt.endswith("."): stmt=stmt[:-1]
        out.append("Check (%s : (%s)%%type)." % (name, stmt))
    open('/verif/coq/pins/%s.v'%prop,'w').write("Open Scope N_scope.\n"+"\n".join(out)+"\n")
    print(prop,len(out))
