import shutil
import time
"""Per-property tables and the check engine."""
import os, sys, json, re, time, subprocess, hashlib
from collections import Counter
from lib import *
import families as F
import mp4

COQ = os.path.join(VERIF, "coq")
RUN = os.path.join(BUILD, "run")

TRUSTED_BASE = [
    "Coq 8.16.1 kernel (coqc); vm_compute used for finite sweeps and witness lemmas; native_compute not used",
    "Axioms per theorem as printed by Print Assumptions (recorded in 'assumptions' below); allowlist is empty unless stated",
    "Hand-written Gallina model of muxide (coq/theories/Model): modelled, not verified; tied to /repo by the correspondence stage of this run",
    "Extraction: ExtrOcamlBasic only (bool/option/list/prod/unit/sumbool -> OCaml); no Extract Constant / Extract Inductive of our own",
    "Translator gen/rust2coq.py (straight-line integer functions, named bit-field expressions and every box builder of /repo -- up to the whole moov and the fragmented media segment -- re-derived on every run; coq/translated/Agree.v proves (91 theorems: conversion, shallow rewriting, three short inductions for loops) that they are the model's definitions) for C01 C02 C04 C07 C08 C10 C11 C12 C14 C16 C18 C19",
    "Glue: ocaml/driver.ml, harness/src/main.rs, gen/*.py, bin/check (case language, hex printing, comparison, verdict)",
    "Transcribed standards (from memory; sandbox sealed): ISO/IEC 14496-12/-14/-15, AV1 5.5 + av1C, VP9 vpcC, Opus dOps, ADTS header, IEEE-754 binary64 as specified by Coq.Floats.SpecFloat, std::io::Write::write_all contract",
]

FORBIDDEN = re.compile(r"\b(Admitted|admit|Axiom|Parameter|Conjecture|Unset Guard|bypass_check|type-in-type|Admit Obligations)\b")


def known_findings():
    p = os.path.join(VERIF, "known_findings.json")
    if not os.path.exists(p):
        return []
    return json.load(open(p)).get("findings", [])


# ---------------------------------------------------------------- observations
def results_of(block):
    return [l for l in block if l.startswith("r ") or l.startswith("build")]


def sink_of(block):
    for l in block:
        if l.startswith("sink "):
            return unhx(l[5:])
    return b""


def classes_of(block):
    out = []
    for l in block:
        w = l.split(" ")
        if w[0] == "r":
            out.append(" ".join(w[1:3]) if w[1] == "err" else w[1])
        elif w[0] == "build":
            out.append(l)
    return out


def first_ok_fin(case, block):
    """index of first successful finish among result lines, else None"""
    if not block or block[0] != "build ok":
        return None
    rs = [l for l in block if l.startswith("r ")]
    ops = case.ops()
    for i, r in enumerate(rs):
        if i < len(ops) and ops[i][0] == "fin" and (r.startswith("r ok") or r.startswith("r stats")):
            return i
    return None


def obs_boxes(*names):
    def f(case, block):
        if case.kind != "mux":
            return block
        r = mp4.root(sink_of(block))
        if r is None:
            return ("unparsable", hashlib.sha1(sink_of(block)).hexdigest())
        out = []
        def walk(b, path):
            for k in b.kids:
                p = path + "/" + k.typ.hex()
                if k.typ in names:
                    out.append((p, k.payload.hex()))
                walk(k, p)
        walk(r, "")
        return (classes_of(block), out)
    return f


def obs_samples(case, block):
    """what C01 talks about: per track the resolved sample bytes and sync table, and whether the
    sample ranges tile the mdat payload; NOT the offsets themselves"""
    if case.kind != "mux":
        return block
    buf = sink_of(block)
    r = mp4.root(buf)
    if r is None:
        return ("unparsable", hashlib.sha1(buf).hexdigest())
    out = []
    allr = []
    for trak in r.find(b"moov", b"trak"):
        rs = mp4.resolve_samples(buf, trak)
        t = mp4.track_tables(trak)
        allr += rs or []
        out.append(([buf[o:o + s].hex() for o, s in (rs or [])], t["stss"]))
    mdat = [(k.off + 8, k.off + 8 + len(k.payload)) for k in r.kids if k.typ == b"mdat"]
    tiles = None
    if len(mdat) == 1:
        cur = mdat[0][0]
        tiles = True
        for o, sz in sorted(allr):
            if o != cur:
                tiles = False
                break
            cur += sz
        tiles = tiles and cur == mdat[0][1]
    elif not mdat:
        tiles = (allr == [])
    return (classes_of(block), out, tiles)


def obs_order(case, block):
    """what C15 talks about: the storage order of all samples (track, index) by offset"""
    if case.kind != "mux":
        return block
    buf = sink_of(block)
    r = mp4.root(buf)
    if r is None:
        return ("unparsable", hashlib.sha1(buf).hexdigest())
    allr = []
    for ti, trak in enumerate(r.find(b"moov", b"trak")):
        for si, (o, sz) in enumerate(mp4.resolve_samples(buf, trak) or []):
            allr.append((o, ti, si))
    return (classes_of(block), [(t, i) for _, t, i in sorted(allr)])


def obs_timing(case, block):
    """what C03 talks about: stts, ctts, and the duration/timescale fields of mdhd"""
    if case.kind != "mux":
        return block
    r = mp4.root(sink_of(block))
    if r is None:
        return ("unparsable", hashlib.sha1(sink_of(block)).hexdigest())
    out = []
    for trak in r.find(b"moov", b"trak"):
        t = mp4.track_tables(trak)
        out.append((t["stts"], t["ctts"], (t["mdhd"] or "")[24:40]))
    return (classes_of(block), out)


def obs_reframe(case, block):
    """what C14 talks about: the converters' outputs, and for muxed histories which audio frames
    are accepted and the stored audio sample bytes"""
    if case.kind != "mux":
        return block
    buf = sink_of(block)
    r = mp4.root(buf)
    if r is None:
        return ("unparsable", hashlib.sha1(buf).hexdigest())
    out = []
    for trak in r.find(b"moov", b"trak"):
        rs = mp4.resolve_samples(buf, trak)
        out.append([buf[o:o + s].hex() for o, s in (rs or [])])
    ops = case.ops()
    rs = [l for l in block if l.startswith("r ")]
    adec = [(" ".join(rs[k].split(" ")[1:3]) if rs[k].startswith("r err") else "ok")
            for k in range(min(len(ops), len(rs))) if ops[k][0] in ("wa", "ea")]
    # only the stored audio sample bytes matter here (the second track, when it has samples)
    return (adec, [t for t in out[1:] if t])


def obs_meta(case, block):
    """what C18 talks about: the udta subtree and the language field of every mdhd"""
    if case.kind != "mux":
        return block
    r = mp4.root(sink_of(block))
    if r is None:
        return ("unparsable", hashlib.sha1(sink_of(block)).hexdigest())
    udta = [k.payload.hex() for k in r.find(b"moov", b"udta")]
    langs = [k.payload[20:22].hex() for k in r.find(b"moov", b"trak", b"mdia", b"mdhd")]
    return (udta, langs)


def obs_none(case, block):
    """differential properties: the verdict comes from the paired runs on the real crate"""
    return None


def frag_view(block, timing):
    out = []
    import struct
    for l in block:
        w = l.split(" ")
        if w[0] == "r" and w[1] == "seg" and len(w) > 2 and w[2] != "none":
            seg = unhx(w[2])
            r = mp4.root(seg)
            if r is None:
                out.append("unparsable")
                continue
            trun = r.find(b"moof", b"traf", b"trun")
            tfdt = r.find(b"moof", b"traf", b"tfdt")
            mfhd = r.find(b"moof", b"mfhd")
            mdat = [k for k in r.kids if k.typ == b"mdat"]
            if not (trun and tfdt and mfhd and mdat):
                out.append("missing")
                continue
            p = trun[0].payload
            n = struct.unpack(">I", p[4:8])[0]
            ents = [struct.unpack(">IIII", p[12 + 16 * i:28 + 16 * i]) for i in range(min(n, (len(p) - 12) // 16))]
            if timing:
                out.append((tfdt[0].payload.hex(), [(e[0], e[3], e[2]) for e in ents]))
            else:
                data, cur = [], 0
                for e in ents:
                    data.append(mdat[0].payload[cur:cur + e[1]].hex())
                    cur += e[1]
                out.append((mfhd[0].payload.hex(), data, [(e[2] >> 16) & 1 for e in ents]))
        elif w[0] == "r" and w[1] == "bytes":
            out.append(l if timing else "init")
        else:
            out.append(l if not timing or w[:2] != ["r", "num"] else l)
    return out


def obs_frag_samples(case, block):
    return frag_view(block, False) if case.kind == "frag" else block


def obs_frag_timing(case, block):
    return frag_view(block, True) if case.kind == "frag" else block


def obs_skeleton(case, block):
    if case.kind == "mux":
        r = mp4.root(sink_of(block))
        return (classes_of(block), None if r is None else r.skeleton())
    if case.kind == "frag":
        out = []
        for l in block:
            w = l.split(" ")
            if w[0] == "r" and w[1] in ("seg", "bytes") and len(w) > 2 and w[2] != "none":
                r = mp4.root(unhx(w[2]))
                out.append(None if r is None else r.skeleton())
            else:
                out.append(l)
        return out
    return block


def obs_all(case, block):
    return block


def obs_classes(case, block):
    return classes_of(block)


def obs_results(case, block):
    return [l for l in block if not l.startswith("sink ")] + [len(sink_of(block))]


def obs_accounting(case, block):
    """what C06 talks about: the decisions, whether anything is in the sink after each call, the
    frame counts and duration of the statistics, and whether the reported byte count is the
    delivered one (not the absolute byte counts)"""
    out = []
    final = len(sink_of(block))
    for l in block:
        w = l.split(" ")
        if w[0] == "r" and w[1] == "stats":
            out.append(("stats", w[2], w[3], w[4]))
            out.append(("bytes_match", int(w[5], 16) == final))
        elif w[0] == "r":
            out.append(" ".join(w[1:3]) if w[1] == "err" else w[1])
        elif w[0] == "s":
            out.append(("sink_empty", w[1] == "0"))
    return out


def obs_decisions(case, block):
    """what C04 talks about: which calls succeed, and which error each failing call returns"""
    out = []
    for l in block:
        w = l.split(" ")
        if w[0] == "r":
            out.append(" ".join(w[1:3]) if w[1] == "err" else ("ok" if w[1] in ("ok", "stats") else w[1]))
        elif w[0] == "build":
            out.append(l)
    return out


def obs_panic(case, block):
    if case.kind == "fn" and case.lines and (case.lines[0].startswith("validate_") or "_codec" in case.lines[0]
                                             or case.lines[0] in ("opus_config", "frag_default_init", "invariant_log")):
        # the validation module reports everything through its return value: the whole result is observed
        return block
    return [l for l in block if "panic" in l]


# ---------------------------------------------------------------- engine
class Engine:
    def __init__(self, pid, tier, seed):
        self.pid, self.tier, self.seed = pid, tier, seed
        self.P = PROPS[pid]
        self.rng = Rng(seed * 1000003 + hash_str(pid))
        self.ev = dict(evaluations=0, distinct_nontrivial=0, samples=[], dist=Counter())
        self.failures = []      # dicts: case, reason, detail
        self.known_hits = Counter()
        self.audit_info = {}
        self.corr = dict(cases=0, mismatches=0, touching=0, foreign=0)
        self.notes = []

    # ---------- proof stage
    def audit(self):
        pins = os.path.join(COQ, "pins", self.pid + ".v")
        names = []
        body = open(pins).read() if os.path.exists(pins) else ""
        for m in re.finditer(r"Check\s*\(\s*([A-Za-z0-9_']+)\s*:", body):
            names.append(m.group(1))
        os.makedirs(os.path.join(BUILD, "audit"), exist_ok=True)
        af = os.path.join(BUILD, "audit", self.pid + "_audit.v")
        with open(af, "w") as f:
            f.write("From Muxide Require Import Props.%s.\n" % self.pid)
            f.write(body + "\n")
            for n in names:
                f.write('Print Assumptions %s.\n' % n)
        p = subprocess.run(["coqc", "-noglob", "-Q", os.path.join(COQ, "theories"), "Muxide", af],
                           stdout=subprocess.PIPE, stderr=subprocess.STDOUT, timeout=900, cwd=os.path.join(BUILD, "audit"))
        out = p.stdout.decode()
        closed = out.count("Closed under the global context")
        # one block per Print Assumptions, in the order of [names]
        blocks, cur = [], None
        for line in out.split("\n"):
            if line.startswith("Closed under the global context"):
                blocks.append([]); cur = None
            elif line.startswith("Axioms:"):
                cur = []; blocks.append(cur)
            elif cur is not None:
                if line.startswith(" ") or line.startswith("\t") or line == "":
                    continue
                m = re.match(r"([A-Za-z0-9_.']+)\s*(:|$)", line)
                if m:
                    cur.append(m.group(1))
                else:
                    cur = None
        allow = set(self.P.get("axiom_allow", []))
        allow_for = self.P.get("axiom_allow_for", {})
        axioms, bad_ax, per_thm = [], [], {}
        if len(blocks) != len(names):
            bad_ax.append("Print Assumptions blocks (%d) do not match the pinned theorems (%d)" % (len(blocks), len(names)))
        for n, blk in zip(names, blocks):
            if blk:
                per_thm[n] = blk
            for a in blk:
                axioms.append(a)
                if a not in allow and a not in set(allow_for.get(n, [])):
                    bad_ax.append("%s: %s" % (n, a))
        # forbidden tokens anywhere in the development
        bad_tok = []
        for root_, _, files in os.walk(os.path.join(COQ, "theories")):
            for fn in files:
                if fn.endswith(".v"):
                    txt = open(os.path.join(root_, fn)).read()
                    txt = re.sub(r"\(\*.*?\*\)", "", txt, flags=re.S)
                    for m in FORBIDDEN.finditer(txt):
                        bad_tok.append("%s:%s" % (fn, m.group(1)))
        ok = (p.returncode == 0) and not bad_ax and not bad_tok and len(names) > 0 and (closed + (1 if axioms else 0) >= 1)
        self.audit_info = dict(theorems=names, obligations=len(names),
                               discharged=len(names) if p.returncode == 0 else 0,
                               closed=closed, axioms=sorted(set(axioms)), axioms_per_theorem=per_thm, bad_axioms=bad_ax, bad_tokens=bad_tok,
                               rc=p.returncode, tail=out[-600:] if p.returncode != 0 else "")
        return ok

    def translated(self):
        """regenerate build/gen/<pid>/Translated.v from today's Rust source and re-check coq/translated/Agree.v
        against it; returns (ok, what)"""
        import rust2coq
        d = os.path.join(BUILD, "gen", self.pid)
        os.makedirs(d, exist_ok=True)
        text, problems = rust2coq.generate("/repo")
        open(os.path.join(d, "Translated.v"), "w").write(text)
        if problems:
            return False, "translator could not read the source: " + "; ".join(problems)
        for f in ("Translated.v", "Agree.v"):
            if f == "Agree.v":
                shutil.copy(os.path.join(COQ, "translated", "Agree.v"), os.path.join(d, "Agree.v"))
            p = subprocess.run(["coqc", "-noglob", "-Q", os.path.join(COQ, "theories"), "Muxide", "-Q", ".", "", f],
                               stdout=subprocess.PIPE, stderr=subprocess.STDOUT, timeout=600, cwd=d)
            out = p.stdout.decode()
            if p.returncode != 0:
                return False, "%s no longer checks against the translated source: %s" % (f, out[-400:].replace("\n", " "))
        agree = open(os.path.join(COQ, "translated", "Agree.v")).read()
        want = len(re.findall(r"^Print Assumptions ", agree, re.M))
        if out.count("Closed under the global context") != want or "Axioms:" in out:
            return False, "unexpected Print Assumptions output for the translated-source theorems"
        return True, ", ".join(re.findall(r"^Theorem ([A-Za-z0-9_]+)", agree, re.M))

    def coqchk(self):
        """thorough tier: re-check the compiled Props file and everything it depends on with the
        independent checker, and compare the axioms it reports with the per-theorem allowlist"""
        t0 = time.time()
        p = subprocess.run(["coqchk", "-silent", "-o", "-Q", os.path.join(COQ, "theories"), "Muxide", "Muxide.Props." + self.pid],
                           stdout=subprocess.PIPE, stderr=subprocess.STDOUT, timeout=3000, cwd=COQ)
        out = p.stdout.decode()
        ax, sect = [], None
        for line in out.split("\n"):
            t = line.strip()
            if t.startswith("* "):
                sect = t
                if "<none>" in t:
                    sect = None
                continue
            if sect and t:
                ax.append((sect.split(":")[0][2:], t))
        allowed = set()
        for l in self.P.get("axiom_allow_for", {}).values():
            allowed.update(l)
        allowed.update(self.P.get("axiom_allow", []))
        bad = [a for a in ax if not (a[0].startswith("Axioms") and any(a[1].endswith(x) for x in allowed))]
        self.audit_info["coqchk"] = dict(rc=p.returncode, seconds=round(time.time() - t0, 1), reported=[a[1] for a in ax],
                                         not_allowed=["%s: %s" % a for a in bad], tail=out[-400:] if p.returncode else "")
        self.notes.append("coqchk -o on Props.%s: rc=%d in %.0f s; axioms reported: %s" % (
            self.pid, p.returncode, time.time() - t0, ", ".join(a[1] for a in ax) or "<none>"))
        return p.returncode == 0 and not bad

    # ---------- cases
    def corpus(self):
        d = os.path.join(VERIF, "corpus", self.pid)
        out = []
        if os.path.isdir(d):
            for fn in sorted(os.listdir(d)):
                if fn.endswith(".case"):
                    out += parse_cases(open(os.path.join(d, fn)).read(), prefix="corpus_" + fn[:-5] + "_")
        return out

    def gen_cases(self):
        cases = self.corpus()
        for fam, q, t in self.P["fams"]:
            n = q if self.tier == "quick" else t
            if n <= 0:
                continue
            fn = getattr(F, fam)
            cases += fn(self.rng.fork(fam), n, "%s_%s_" % (self.pid, fam))
        return cases

    # ---------- running
    def run_model(self, cases):
        b, fails = run_sharded(DRIVER, cases)
        if fails:
            self.notes.append("model driver shard failures: %r" % fails[:2])
        return b

    def run_impl(self, cases, release=False):
        b, fails = run_sharded(HARNESS_RELEASE if release else HARNESS_DEBUG, cases, timeout=600)
        for f in fails:
            for cid in f["missing"][:1]:
                # the first missing case of a crashed / timed-out shard is the culprit
                b[cid] = ["r timeout" if f["rc"] == -9 else "r crash rc=%s" % f["rc"]]
        return b

    def run_checks(self, cases, iblocks, tag="main"):
        os.makedirs(RUN, exist_ok=True)
        res = {}
        shards = 16
        parts = [cases[i::shards] for i in range(shards) if cases[i::shards]]
        from concurrent.futures import ThreadPoolExecutor
        def work(k_part):
            k, part = k_part
            path = os.path.join(RUN, "%s_%s_impl_%d.out" % (self.pid, tag, k))
            with open(path, "w") as f:
                for c in part:
                    f.write("case %s\n%s\nend\n" % (c.id, "\n".join(iblocks.get(c.id, []))))
            text = "".join(c.text() for c in part)
            p = subprocess.run([DRIVER, "check", path], input=text.encode(), stdout=subprocess.PIPE,
                               stderr=subprocess.PIPE, timeout=900)
            return p.stdout.decode()
        with ThreadPoolExecutor(max_workers=shards) as ex:
            for out in ex.map(work, list(enumerate(parts))):
                for l in out.split("\n"):
                    w = l.split(" ")
                    if w[0] == "chk":
                        res.setdefault(w[1], {}).update({kv.split("=")[0]: kv.split("=")[1] == "1" for kv in w[2:] if "=" in kv})
                    elif w[0] == "fail" and len(w) >= 4:
                        res.setdefault(w[1], {})["fail_" + w[2]] = [int(x, 16) for x in w[3].split(",") if x]
        return res

    def fail(self, case, reason, detail=None):
        self.failures.append(dict(case=case, reason=reason, detail=detail))

    def run(self):
        P = self.P
        if not self.audit():
            print("proof stage failed for %s: %s" % (self.pid, json.dumps(self.audit_info)[:1500]))
            print("the Coq development itself does not check: this check is broken, no verdict")
            return 2
        if self.tier == "thorough" and not self.coqchk():
            print("independent checker (coqchk) rejects Props.%s: %s" % (self.pid, json.dumps(self.audit_info.get("coqchk"))[:1200]))
            print("the Coq development itself does not check: this check is broken, no verdict")
            return 2
        cases = self.gen_cases()
        self.cases = cases
        runnable = [c for c in cases if c.kind != "cli"]
        mblocks = self.run_model(runnable)
        iblocks = self.run_impl(runnable)
        self.mblocks, self.iblocks = mblocks, iblocks
        self.ev["evaluations"] += len(cases)
        # correspondence
        obs = P.get("obs", obs_all)
        broken = []
        for c in runnable:
            m, i = mblocks.get(c.id), iblocks.get(c.id)
            self.corr["cases"] += 1
            if m != i:
                self.corr["mismatches"] += 1
                try:
                    if P.get("relative") and c.kind == "mux" and obs_decisions(c, m or []) != obs_decisions(c, i or []):
                        # the accept/reject decisions differ: that is C04's (and C05/C06's) business; a
                        # file property is relative to the accepted history, which the direct predicate
                        # takes from the implementation's own results
                        touch = bool(P.get("decision_touch") and P["decision_touch"](c, m or [], i or []))
                        self.corr["decision_diffs"] = self.corr.get("decision_diffs", 0) + 1
                    else:
                        touch = obs(c, m or []) != obs(c, i or [])
                except Exception as e:
                    touch = True
                if touch:
                    self.corr["touching"] += 1
                    broken.append(c)
                else:
                    self.corr["foreign"] += 1
        # translated-source obligations (model re-derived from the Rust text for straight-line integer functions)
        if P.get("translated"):
            ok, what = self.translated()
            self.audit_info["translated_source"] = dict(ok=ok, what=what)
            self.notes.append("translated-source obligations: %s (%s)" % ("checked" if ok else "BROKEN", what[:300]))
            if not ok:
                pseudo = Case("%s_translated_source" % self.pid, "fn")
                pseudo.lines = ["translated-source-obligation", "-"]
                pseudo.meta = dict(obligation=what)
                self.mblocks[pseudo.id] = ["obligation: " + what]
                self.iblocks[pseudo.id] = ["source: /repo/src/muxer/mp4.rs (days_to_ymd, format_unix_timestamp, adts_to_raw, encode_language_code), /repo/src/codec/{opus,h264,h265}.rs, /repo/src/fragmented.rs (ticks_to_ms)"]
                broken.append(pseudo)
        # direct stage
        keys = P.get("checks", [])
        if keys:
            chk = self.run_checks(cases, iblocks)
            self.chk = chk
            for c in cases:
                r = chk.get(c.id, {})
                if self.pid == "C06" and r.get("C06scope") is False:
                    self.corr["beyond_f64_resolution_skipped"] = self.corr.get("beyond_f64_resolution_skipped", 0) + 1
                for k in keys:
                    if k in r and not r[k]:
                        self.fail(c, "check_%s = false on the implementation's output" % k, dict(key=k))
                    for cl in r.get("fail_" + k, []):
                        self.fail(c, "%s clause %d fails on the implementation's output" % (k, cl), dict(key=k, clause=cl))
        if P.get("no_panic", True):
            for c in cases:
                for l in iblocks.get(c.id, []):
                    if self.pid == "C12" and ("panic" in l or "timeout" in l or "crash" in l):
                        self.fail(c, "implementation outcome: " + l[:80])
        if "extra" in P:
            P["extra"](self, cases)
        # non-triviality / distribution
        nt = P.get("nontrivial", lambda c, b: True)
        seen = set()
        for c in cases:
            b = iblocks.get(c.id, [])
            for l in classes_of(b) if c.kind != "fn" else []:
                self.ev["dist"][l] += 1
            try:
                if nt(c, b):
                    seen.add(hashlib.sha1(("\n".join(c.lines)).encode()).hexdigest())
            except Exception:
                pass
        self.ev["distinct_nontrivial"] += len(seen)
        for c in cases[:3]:
            self.ev["samples"].append(c.text()[:600])
        if self.tier == "thorough" and P.get("release", True):
            rb = self.run_impl(cases, release=True)
            for c in cases:
                if rb.get(c.id) != iblocks.get(c.id):
                    if obs(c, rb.get(c.id) or []) != obs(c, iblocks.get(c.id) or []):
                        broken.append(c)
                        self.notes.append("release build differs from debug build on %s" % c.id)
        return self.verdict(broken)

    # ---------- known findings
    def is_known(self, f):
        for kf in known_findings():
            if kf.get("property") != self.pid or kf.get("status") == "fixed":
                continue
            pred = KNOWN_CLASSES.get(kf.get("class"))
            try:
                if pred and pred(self, f):
                    self.known_hits[kf["id"]] += 1
                    return True
            except Exception:
                pass
        return False

    def verdict(self, broken):
        unknown = [f for f in self.failures if not self.is_known(f)]
        for kf in known_findings():
            if kf.get("property") == self.pid and kf.get("status") != "fixed":
                print("KNOWN-FINDING: property=%s %s [%s]" % (self.pid, kf["what_fails"], kf["id"]))
        self.violations = 0
        if unknown:
            f = self.shrink(unknown[0])
            path = self.write_replay(f, "failing-input")
            print("VIOLATION property=%s replay=%s" % (self.pid, path))
            self.violations = len(unknown)
            return 1
        if broken:
            # the theorem no longer transfers: look harder for a failing input
            found = self.search_harder(broken)
            if found:
                path = self.write_replay(found, "failing-input")
                print("VIOLATION property=%s replay=%s" % (self.pid, path))
            else:
                f = dict(case=broken[0], reason="correspondence broken on the property's observation; theorems about the model no longer transfer",
                         detail=dict(broken=self.P.get("components", []), theorems=self.audit_info.get("theorems", []),
                                     model=self.mblocks.get(broken[0].id, [])[:6], impl=self.iblocks.get(broken[0].id, [])[:6]))
                path = self.write_replay(f, "no-failing-input-found")
                print("VIOLATION property=%s replay=%s no-failing-input-found" % (self.pid, path))
            self.violations = len(broken)
            return 1
        return 0

    def search_harder(self, broken):
        """10x budget of the property's own families; first unknown failing input wins"""
        if not self.P.get("checks") and "extra" not in self.P:
            return None
        saved = self.failures
        self.failures = []
        cases = []
        for fam, q, t in self.P["fams"]:
            cases += getattr(F, fam)(self.rng.fork(fam + "_x"), 10 * q, "%s_x_%s_" % (self.pid, fam))
        ib = self.run_impl(cases)
        self.ev["evaluations"] += len(cases)
        if self.P.get("checks"):
            chk = self.run_checks(cases, ib, "x")
            for c in cases:
                for k in self.P["checks"]:
                    if k in chk.get(c.id, {}) and not chk[c.id][k]:
                        self.fail(c, "check_%s = false on the implementation's output" % k)
        if "extra" in self.P:
            old = (self.cases, self.iblocks)
            self.cases, self.iblocks = cases, ib
            self.P["extra"](self, cases)
            self.cases, self.iblocks = old
        unknown = [f for f in self.failures if not self.is_known(f)]
        self.failures = saved
        return self.shrink(unknown[0]) if unknown else None

    # ---------- shrinking (drop ops while the same kind of failure persists)
    def still_fails(self, case, reason):
        ib = self.run_impl([case])
        if self.P.get("checks"):
            chk = self.run_checks([case], ib, "shrink")
            for k in self.P["checks"]:
                if k in chk.get(case.id, {}) and not chk[case.id][k]:
                    return True
        if "extra" in self.P:
            saved = (self.failures, getattr(self, "cases", None), getattr(self, "iblocks", None))
            self.failures = []
            self.cases, self.iblocks = [case], ib
            try:
                self.P["extra"](self, [case])
                r = len(self.failures) > 0
            finally:
                self.failures, self.cases, self.iblocks = saved
            return r
        return False

    def shrink(self, f):
        case = f["case"]
        if case.kind == "fn" or self.P.get("no_shrink"):
            return f
        cur = case.clone(case.id + "_min")
        budget = 40
        changed = True
        while changed and budget > 0:
            changed = False
            idxs = [i for i, l in enumerate(cur.lines) if l.startswith("o ")]
            for i in reversed(idxs):
                if budget <= 0:
                    break
                cand = cur.clone()
                del cand.lines[i]
                budget -= 1
                try:
                    if self.still_fails(cand, f["reason"]):
                        cur = cand
                        changed = True
                except Exception:
                    pass
        g = dict(f)
        g["case"] = cur
        g["original_case_id"] = case.id
        return g

    def write_replay(self, f, kind):
        d = os.path.join(VERIF, "replays", self.pid)
        os.makedirs(d, exist_ok=True)
        n = len([x for x in os.listdir(d) if x.endswith(".json")])
        path = os.path.join(d, "%d.json" % n)
        c = f["case"]
        # a grouped case is replayed after the cases that ran before it in the same process
        pre = [x for x in c.meta.get("before", [])]
        ib = self.run_impl(pre + [c]).get(c.id, [])
        mb = self.run_model(pre + [c]).get(c.id, [])
        json.dump(dict(property=self.pid, kind=kind, reason=f["reason"], detail=f.get("detail"),
                       case="".join(x.text() for x in pre) + c.text(), implementation=[l[:2000] for l in ib], model=[l[:2000] for l in mb],
                       seed=self.seed, tier=self.tier,
                       broken=self.P.get("components", []), theorems=self.audit_info.get("theorems", [])),
                  open(path, "w"), indent=1)
        return path

    def replay(self, path):
        if not self.audit():
            print("proof stage failed; check is broken"); return 2
        r = json.load(open(path))
        cases = parse_cases(r["case"])
        self.cases = cases
        mb, ib = self.run_model(cases), self.run_impl(cases)
        self.mblocks, self.iblocks = mb, ib
        bad = False
        if self.P.get("checks"):
            chk = self.run_checks(cases, ib, "replay")
            for c in cases:
                for k in self.P["checks"]:
                    if k in chk.get(c.id, {}) and not chk[c.id][k]:
                        print("check_%s false on %s" % (k, c.id)); bad = True
        if "extra" in self.P:
            self.P["extra"](self, cases)
            for f in self.failures:
                print("failure:", f["reason"]); bad = True
        obs = self.P.get("obs", obs_all)
        for c in cases:
            if mb.get(c.id) != ib.get(c.id) and obs(c, mb.get(c.id) or []) != obs(c, ib.get(c.id) or []):
                print("correspondence differs on", c.id); bad = True
        if bad:
            print("VIOLATION property=%s replay=%s" % (self.pid, path))
            return 1
        print("replay passes")
        return 0

    def write_evidence(self, wall):
        ai = self.audit_info
        cov = dict(
            obligations=ai.get("obligations", 0), discharged=ai.get("discharged", 0),
            checker_cmd="coqc (full .vo build via coq_makefile/make) + audit: Check <pinned statement> and Print Assumptions for " + ", ".join(ai.get("theorems", [])),
            trusted_base=TRUSTED_BASE,
            evaluations=self.ev["evaluations"], distinct_nontrivial=self.ev["distinct_nontrivial"],
            rule=self.P.get("rule", "cases come from the property's seeded families plus the committed corpus; distinct = distinct case text; non-trivial per property table"),
            samples=self.ev["samples"][:3] or ["(no cases)"],
            traces_validated_against_impl=self.corr["cases"],
            correspondence=self.corr, outcome_distribution=dict(self.ev["dist"].most_common(30)),
            theorems=ai.get("theorems", []), axioms_reported=ai.get("axioms", []), axioms_per_theorem=ai.get("axioms_per_theorem", {}),
            known_findings_hit=dict(self.known_hits), notes=self.notes[:20],
            exhaustive=False)
        ev = dict(property_id=self.pid, tier=self.tier if self.tier in ("quick", "thorough") else "quick",
                  seed=self.seed, level="proof", coverage=cov,
                  assumptions=TRUSTED_BASE + self.P.get("assumptions", []) +
                  ["Theorem %s depends on the standard-library axioms %s (allowlisted by name for this theorem only)" % (n, ", ".join(a))
                   for n, a in sorted(ai.get("axioms_per_theorem", {}).items())],
                  wall_s=round(wall, 2), violations=getattr(self, "violations", 0))
        json.dump(ev, open(os.path.join(VERIF, "evidence", self.pid + ".json"), "w"), indent=1)


def parse_cases(text, prefix=""):
    out, cur = [], None
    for line in text.split("\n"):
        w = line.split(" ")
        if w[0] == "case" and len(w) >= 4 and w[2] == "fn":
            c = Case(prefix + w[1], "fn")
            c.lines = w[3:]
            out.append(c)
        elif w[0] == "case" and len(w) >= 3:
            cur = Case(prefix + w[1], w[2])
        elif line == "end":
            if cur is not None:
                out.append(cur)
            cur = None
        elif cur is not None and line.strip():
            cur.lines.append(line)
    return out


# ---------------------------------------------------------------- differential extras
def without_rejected(case, block):
    """the same case with every rejected frame-writing call removed (per impl results)"""
    rs = [l for l in block if l.startswith("r ")]
    c = case.clone(case.id + "_wr")
    keep = []
    k = 0
    for l in case.lines:
        if l.startswith("o "):
            r = rs[k] if k < len(rs) else None
            k += 1
            if r is not None and r.startswith("r err") and not l.startswith("o fin") and not l.startswith("o ff"):
                continue
        keep.append(l)
    c.lines = keep
    return c


def without_one(case, block, which):
    """the same case with only the [which]-th rejected frame-writing call removed; returns (case, op index) or None"""
    rs = [l for l in block if l.startswith("r ")]
    keep, k, seen, idx = [], 0, 0, None
    for l in case.lines:
        if l.startswith("o "):
            r = rs[k] if k < len(rs) else None
            if r is not None and r.startswith("r err") and not l.startswith("o fin") and not l.startswith("o ff"):
                if seen == which:
                    idx = k
                    seen += 1
                    k += 1
                    continue
                seen += 1
            k += 1
        keep.append(l)
    if idx is None:
        return None
    c = case.clone("%s_w1_%d" % (case.id, which))
    c.lines = keep
    return c, idx


def extra_C05_single(eng, cases):
    """remove ONE rejected call at a time: every other call (accepted or rejected) must keep its result and
    the file must not change.  (Removing all rejected calls at once, below, cannot see a change that turns a
    later accepted call into a rejected one, because that call is then removed as well.)"""
    alt = []
    for c in cases:
        b = eng.iblocks.get(c.id, [])
        if not any(l.startswith("r err") for l in b) or any("panic" in l for l in b):
            continue
        for which in range(2):
            r = without_one(c, b, which)
            if r:
                alt.append((c, r[0], r[1]))
    ib2 = eng.run_impl([a for _, a, _ in alt])
    eng.ev["evaluations"] += len(alt)
    for c, a, idx in alt:
        b1 = [l for l in eng.iblocks.get(c.id, []) if not l.startswith("s ")]
        b2 = [l for l in ib2.get(a.id, []) if not l.startswith("s ")]
        rs = [l for l in b1 if l.startswith("r ")]
        kept = [r for k, r in enumerate(rs) if k != idx]
        exp = [l for l in b1 if not l.startswith("r ")][:1] + kept + [l for l in b1 if l.startswith("sink")]
        if exp != b2:
            eng.fail(c, "removing ONE rejected call changes the result of another call, the statistics or the file bytes",
                     dict(removed_op_index=idx, with_rejected=[x[:200] for x in exp[:12]], without=[x[:200] for x in b2[:12]]))


def extra_C05(eng, cases):
    extra_C05_single(eng, cases)
    alt = []
    for c in cases:
        b = eng.iblocks.get(c.id, [])
        if any(l.startswith("r err") for l in b) and not any("panic" in l for l in b):
            alt.append((c, without_rejected(c, b)))
    ib2 = eng.run_impl([a for _, a in alt])
    eng.ev["evaluations"] += len(alt)
    for c, a in alt:
        b1 = [l for l in eng.iblocks.get(c.id, []) if not l.startswith("s ")]
        b2 = [l for l in ib2.get(a.id, []) if not l.startswith("s ")]
        ops = [l for l in c.lines if l.startswith("o ")]
        rs = [l for l in b1 if l.startswith("r ")]
        kept = []
        for k, r in enumerate(rs):
            o = ops[k] if k < len(ops) else ""
            if r.startswith("r err") and not o.startswith("o fin") and not o.startswith("o ff"):
                continue
            kept.append(r)
        exp = [l for l in b1 if not l.startswith("r ")][:1] + kept + [l for l in b1 if l.startswith("sink")]
        if exp != b2:
            eng.fail(c, "removing the rejected calls changes later results, statistics or file bytes",
                     dict(with_rejected=[x[:200] for x in exp[:12]], without=[x[:200] for x in b2[:12]]))


def nt_finished(c, b):
    return first_ok_fin(c, b) is not None and len([l for l in b if l == "r ok"]) >= 2


def nt_has_err(c, b):
    return any(l.startswith("r err") for l in b) and any(l == "r ok" for l in b)


KNOWN_CLASSES = {}


PROPS = {
    "C01": dict(fams=[("fam_mux_av", 150, 3000), ("fam_mux_clean", 100, 2000), ("fam_mux_basic", 50, 1000), ("fam_adts_lengths", 60, 2000), ("fam_reject_matrix", 60, 1500)], checks=["C01"], obs=obs_samples, components=["K7", "K1", "K2"], nontrivial=nt_finished,
                rule="seeded A/V and video-only histories (B-frame GOPs, audio bursts, all codecs/layouts/metadata); non-trivial = a successful finish with >= 2 accepted frames; distinct by case text"),
    "C02": dict(fams=[("fam_mux_basic", 120, 2000), ("fam_mux_av", 80, 1500), ("fam_frag", 100, 2000)],
                checks=["C02"], obs=obs_skeleton, components=["K7", "K8"], nontrivial=lambda c, b: True),
    "C03": dict(fams=[("fam_mux_av", 150, 3000), ("fam_mux_clean", 100, 2000), ("fam_reject_matrix", 200, 4000)], checks=["C03"], obs=obs_timing, components=["K7"], nontrivial=nt_finished),
    "C05": dict(fams=[("fam_reject_matrix", 300, 6000), ("fam_mux_basic", 100, 3000), ("fam_contract", 100, 3000), ("fam_frag", 60, 1000)], checks=[], obs=obs_none, extra=extra_C05, components=["K7", "K8"], nontrivial=nt_has_err),
    "C14": dict(fams=[("fam_fn_annexb", 400, 20000), ("fam_adts_lengths", 80, 3000)], checks=["C14"], obs=obs_reframe, components=["K1", "K2"],
                nontrivial=lambda c, b: True),
}

# ---------------------------------------------------------------- pair checks through the driver
def driver_pairs(lines):
    p = subprocess.run([DRIVER, "pairs"], input=("\n".join(lines) + "\n").encode(), stdout=subprocess.PIPE,
                       stderr=subprocess.PIPE, timeout=900)
    res = {}
    for l in p.stdout.decode().split("\n"):
        w = l.split(" ")
        if w[0] == "chk" and len(w) >= 3:
            res[w[1]] = w[2].split("=")[1] == "1"
        elif w[0] == "fail" and len(w) >= 3:
            res[w[1]] = [int(x, 16) for x in (w[3] if len(w) > 3 else "").split(",") if x]
    return res


def toggle_line(case, prefix, newline, cid):
    c = case.clone(cid)
    c.lines = [l for l in c.lines if not l.startswith(prefix)]
    if newline is not None:
        # keep builder lines first
        k = 0
        while k < len(c.lines) and c.lines[k].startswith("b "):
            k += 1
        c.lines.insert(k, newline)
    return c


def extra_C08(eng, cases):
    pairs = []
    for c in cases:
        if c.kind != "mux" or any(l.startswith("sink") for l in c.lines):
            continue
        on = toggle_line(c, "b fast", "b fast 1", c.id + "_on")
        off = toggle_line(c, "b fast", "b fast 0", c.id + "_off")
        pairs.append((c, on, off))
    ib = eng.run_impl([x for _, a, b in pairs for x in (a, b)])
    eng.ev["evaluations"] += 2 * len(pairs)
    lines, idx = [], {}
    for c, on, off in pairs:
        b1, b2 = ib.get(on.id, []), ib.get(off.id, [])
        def nostatbytes(l):
            # the byte count may differ between layouts only through the (empty) mdat of a
            # file without samples; it is compared through the files themselves
            return " ".join(l.split(" ")[:5]) if l.startswith("r stats") else l
        r1 = [nostatbytes(l) for l in b1 if l.startswith("r ") or l.startswith("build")]
        r2 = [nostatbytes(l) for l in b2 if l.startswith("r ") or l.startswith("build")]
        if r1 != r2:
            eng.fail(c, "fast start on/off changes a call result or the statistics",
                     dict(on=[x[:120] for x in r1[:10]], off=[x[:120] for x in r2[:10]]))
            continue
        if first_ok_fin(on, b1) is None:
            continue
        opsl = on.ops()
        nsamples = sum(1 for k, l in enumerate([l for l in b1 if l.startswith("r ")])
                       if l == "r ok" and k < len(opsl) and opsl[k][0] != "fin")
        lines.append("c08 %s %d %s %s" % (c.id, 1 if nsamples > 0 else 0, hx(sink_of(b1)), hx(sink_of(b2))))
        idx[c.id] = c
    res = driver_pairs(lines) if lines else {}
    for cid, c in idx.items():
        if res.get(cid) is False:
            eng.fail(c, "check_C08 = false: the two layouts do not describe the same media or have the wrong box order")
    eng.c08_pairs = len(idx)


def extra_C18(eng, cases):
    """metadata must not change samples, timing or configuration"""
    pairs = []
    for c in cases:
        if c.kind != "mux" or any(l.startswith("sink") for l in c.lines):
            continue
        if not any(l.startswith("b meta") or l.startswith("b ctime") or l.startswith("b lang") for l in c.lines):
            continue
        bare = c.clone(c.id + "_nometa")
        bare.lines = [l for l in bare.lines if not (l.startswith("b meta") or l.startswith("b ctime") or l.startswith("b lang"))]
        pairs.append((c, bare))
    ib = eng.run_impl([b for _, b in pairs])
    eng.ev["evaluations"] += len(pairs)
    lines, idx = [], {}
    for c, bare in pairs:
        b1, b2 = eng.iblocks.get(c.id, []), ib.get(bare.id, [])
        r1 = [l for l in b1 if l.startswith("r ") and not l.startswith("r stats")]
        r2 = [l for l in b2 if l.startswith("r ") and not l.startswith("r stats")]
        if r1 != r2:
            eng.fail(c, "metadata changes a call result", dict(a=r1[:8], b=r2[:8]))
            continue
        if first_ok_fin(c, b1) is None:
            continue
        lines.append("same %s 1 %s %s" % (c.id, hx(sink_of(b1)), hx(sink_of(b2))))
        # control: the file without metadata compared with itself (false when the file is not even
        # self-consistent, which is C01/C02's business, not a dependence on metadata)
        lines.append("same %s__self 1 %s %s" % (c.id, hx(sink_of(b2)), hx(sink_of(b2))))
        idx[c.id] = c
    res = driver_pairs(lines) if lines else {}
    for cid, c in idx.items():
        if res.get(cid) is False and res.get(cid + "__self") is not False:
            eng.fail(c, "metadata changes samples, timing or configuration (same_media = false)")


def extra_C13(eng, cases):
    """each scripted-sink case against its fault-free twin on the real crate"""
    twins = []
    for c in cases:
        sl = [l for l in c.lines if l.startswith("sink")]
        if c.kind != "mux" or not sl:
            continue
        twins.append((c, toggle_line(c, "sink", None, c.id + "_clean"), sl[0].split(" ")[1:]))
    ib = eng.run_impl([t for _, t, _ in twins])
    eng.ev["evaluations"] += len(twins)
    for c, t, script in twins:
        b1, b2 = eng.iblocks.get(c.id, []), ib.get(t.id, [])
        if any("panic" in l for l in b1):
            eng.fail(c, "finish panicked under a faulty sink")
            continue
        s1, s2 = sink_of(b1), sink_of(b2)
        if not s2.startswith(s1):
            eng.fail(c, "bytes accepted by the faulty sink are not a prefix of the fault-free file",
                     dict(accepted=len(s1), faultfree=len(s2)))
            continue
        benign = all(e == "i" or (e.startswith("a") and int(e[1:], 16) > 0) for e in script)
        r1 = [l for l in b1 if l.startswith("r ")]
        r2 = [l for l in b2 if l.startswith("r ")]
        if benign and (s1 != s2 or r1 != r2):
            eng.fail(c, "short writes / interruptions alone changed the delivered bytes, a result or the byte count")
        sink_err = any(l.startswith("r err Io Injected") or l.startswith("r err Io WriteZero") for l in r1)
        if sink_err and benign:
            eng.fail(c, "finish reported a sink error although no write failed")
        if not benign and not sink_err and s1 != s2:
            eng.fail(c, "a write failed for good but finish did not report it")
        # after a failure no later call writes anything further
        lens = [int(l.split(" ")[1], 16) for l in b1 if l.startswith("s ")]
        seen_fin = False
        ops = c.ops()
        for k, ln in enumerate(lens):
            if k < len(ops) and ops[k][0] == "fin" and not seen_fin:
                seen_fin = True
                base = ln
            elif seen_fin and ln != base:
                eng.fail(c, "a call after the finish attempt wrote further bytes")
                break


def fam_sink_points(rng, n, prefix):
    """every failure point of a few representative histories: each write call x error kind,
    each byte offset through 1-byte short writes, interruption bursts"""
    out = []
    reps = []
    for codec, audio, fast in [("h264", "none-cfg", 0), ("h264", "aac-lc", 1), ("h265", "opus", 0), ("vp9", "none-cfg", 1)]:
        cfg = F.rand_cfg(rng, codec=codec, audio=audio, fast=bool(fast), dims=(640, 480), meta=rng.below(8))
        reps.append(F.mux_history(rng, "rep", cfg=cfg, nv=3, na=2 if audio != "none-cfg" else 0, bframes=False,
                                  rejects=0, fin=0, post=1))
    k = 0
    per = max(1, n // (len(reps) * 3))
    for rep in reps:
        for i in range(per):           # fail at write call i with kind i mod 9
            c = rep.clone("%s%d" % (prefix, k)); k += 1
            c.lines.insert(0, "sink " + " ".join(["a%x" % 10**6] * i + ["f%x" % (i % 9)]))
            _fix_builder_first(c); out.append(c)
        for i in range(per):           # fail after exactly i*3 bytes (1-byte writes)
            c = rep.clone("%s%d" % (prefix, k)); k += 1
            c.lines.insert(0, "sink " + " ".join(["a1"] * (i * 3) + [rng.choice(["f1", "a0"])]))
            _fix_builder_first(c); out.append(c)
        for i in range(per):           # benign: bursts of interruptions and short writes
            c = rep.clone("%s%d" % (prefix, k)); k += 1
            c.lines.insert(0, "sink " + " ".join(rng.choice(["i", "i", "a1", "a2", "a7", "a100"]) for _ in range(rng.range(1, 40))))
            _fix_builder_first(c); out.append(c)
    return out


def _fix_builder_first(c):
    sink = [l for l in c.lines if l.startswith("sink")]
    rest = [l for l in c.lines if not l.startswith("sink")]
    k = 0
    while k < len(rest) and rest[k].startswith("b "):
        k += 1
    c.lines = rest[:k] + sink + rest[k:]


F.fam_sink_points = fam_sink_points


def extra_C17(eng, cases):
    """equivalent API paths, sink types, threads, repeated instances (tests supporting the
    path-equivalence theorems; labelled as tests in the evidence)"""
    mux = [c for c in cases if c.kind == "mux" and not any(l.startswith("sink") for l in c.lines)]
    # 1. alias paths
    variants = []
    for c in mux:
        v = c.clone(c.id + "_alias")
        v.lines = [l.replace("b video ", "b setvideo ").replace("b audio ", "b setaudio ") if not l.startswith("b set") else
                   l.replace("b setvideo ", "b video ").replace("b setaudio ", "b audio ") for l in v.lines]
        # fin 0 <-> fin 3 (consuming with stats), fin 1 <-> fin 2/4 when last
        if v.lines and v.lines[-1].startswith("o fin"):
            k = v.lines[-1].split(" ")[2]
            v.lines[-1] = "o fin " + {"0": "3", "3": "0", "1": "4", "2": "1", "4": "2"}[k]
        variants.append((c, v))
    # 1b. an audio track configured with codec `none` is no audio track: same results (error kinds included, also
    #     after finish) and same file as the builder that never mentions audio, and the other way round
    for c in mux:
        has = [l for l in c.lines if l.startswith("b audio ") or l.startswith("b setaudio ")]
        if has and all(l.split(" ")[2] == "none" for l in has):
            v = c.clone(c.id + "_noaudio")
            v.lines = [l for l in v.lines if l not in has]
            variants.append((c, v))
        elif not has:
            v = c.clone(c.id + "_audionone")
            k = max([i for i, l in enumerate(v.lines) if l.startswith("b ")] + [-1]) + 1
            v.lines.insert(k, "b audio none bb80 2")
            variants.append((c, v))
    ib = eng.run_impl([v for _, v in variants])
    eng.ev["evaluations"] += len(variants)
    for c, v in variants:
        b1, b2 = eng.iblocks.get(c.id, []), ib.get(v.id, [])
        def norm(b):
            return [("r ok" if l.startswith("r stats") else l) for l in b if not l.startswith("s ")]
        if sink_of(b1) != sink_of(b2) or norm(b1)[:-1] != norm(b2)[:-1]:
            eng.fail(c, "equivalent API path (builder alias / finish variant) gives a different file or result")
    # 2. sink types
    text = "".join(c.text() for c in mux)
    env = dict(os.environ, HARNESS_MODE="sinks")
    p = subprocess.run([HARNESS_DEBUG], input=text.encode(), stdout=subprocess.PIPE, stderr=subprocess.PIPE, env=env, timeout=900)
    blocks = parse_blocks(p.stdout.decode())
    for c in mux:
        b = blocks.get(c.id, [])
        main = sink_of(b)
        ref = None
        for l in b:
            if l.startswith("alt "):
                w = l.split(" ")
                if unhx(w[-1]) != main:
                    eng.fail(c, "sink type %s receives different bytes" % w[1])
                res = " ".join(w[2:-1])
                if ref is None:
                    ref = res
                elif res != ref:
                    eng.fail(c, "sink type %s gives different call results / statistics" % w[1])
    # 3. threads: 1..16 concurrently running interpreters over the same input
    for n in ([4, 16] if eng.tier == "quick" else [1, 2, 3, 4, 8, 16]):
        env = dict(os.environ, HARNESS_MODE="threads:%d" % n)
        p = subprocess.run([HARNESS_DEBUG], input="".join(c.text() for c in cases).encode(), stdout=subprocess.PIPE,
                           stderr=subprocess.PIPE, env=env, timeout=1200)
        out = p.stdout.decode()
        if "identical 1" not in out:
            # the replay holds the whole batch: interference between muxers of one process needs its neighbours
            last = cases[-1].clone()
            last.meta["before"] = list(cases[:-1])
            eng.fail(last, "outputs differ between %d concurrently running threads" % n)
        blocks = parse_blocks(out)
        for c in cases:
            if blocks.get(c.id) != eng.iblocks.get(c.id):
                eng.fail(c, "result on a worker thread differs from the main-thread result")
                break
    # 4. a second run in a fresh process (different wall-clock time, new instances)
    again = eng.run_impl(cases[:200])
    for c in cases[:200]:
        if again.get(c.id) != eng.iblocks.get(c.id):
            eng.fail(c, "repeating the history in another process gives a different result")
            break
    # 6. automatic-timestamp convenience calls vs the explicit-timestamp calls the model says they stand for
    #    (Paths.explicit_of; theorem C17_explicit_path_equivalent): same results and the same file
    auto = [c for c in mux if any(l.startswith("o ev ") or l.startswith("o ea ") for l in c.lines)]
    if auto:
        p = subprocess.run([DRIVER, "explicit"], input="".join(c.text() for c in auto).encode(), stdout=subprocess.PIPE,
                           stderr=subprocess.PIPE, timeout=900)
        xb = parse_blocks(p.stdout.decode())
        pairs = []
        for c in auto:
            xo = [l for l in xb.get(c.id, []) if l.startswith("o ")]
            if not xo:
                continue
            v = c.clone(c.id + "_explicit")
            head = [l for l in v.lines if not l.startswith("o ")]
            v.lines = head + xo
            pairs.append((c, v))
        ib = eng.run_impl([v for _, v in pairs])
        eng.ev["evaluations"] += len(pairs)
        eng.ev.setdefault("distribution", {})["explicit_path_pairs"] = len(pairs)
        for c, v in pairs:
            b1, b2 = eng.iblocks.get(c.id, []), ib.get(v.id, [])
            k = len([l for l in v.lines if l.startswith("o ")])
            r1 = [l for l in b1 if l.startswith("r ")][:k]
            r2 = [l for l in b2 if l.startswith("r ")][:k]
            if sink_of(b1) != sink_of(b2) or r1 != r2:
                eng.fail(c, "automatic-timestamp convenience calls and the equivalent explicit-timestamp calls give different results or files")
    # 5. source scan (evidence only; no verdict)
    hits = []
    for root_, _, files in os.walk("/repo/src"):
        if "/bin" in root_:
            continue
        for fn in files:
            if fn.endswith(".rs"):
                for k, line in enumerate(open(os.path.join(root_, fn), errors="replace")):
                    if re.search(r"\bstatic\b|thread_local!|SystemTime|Instant::|env::|rand", line) and "//" not in line.split("static")[0][-3:]:
                        hits.append("%s:%d:%s" % (fn, k + 1, line.strip()[:80]))
    eng.notes.append("global-state scan (informational): " + "; ".join(hits[:12]))


def extra_C19(eng, cases):
    """fragmented init segments through failed_C19_init"""
    lines, idx = [], {}
    for c in cases:
        if c.kind != "frag":
            continue
        b = eng.iblocks.get(c.id, [])
        init = [l for l in b if l.startswith("r bytes ")]
        vid = [l for l in c.lines if l.startswith("b video") or l.startswith("b setvideo") or l.startswith("fc ")][-1:]
        if not init or not vid:
            continue
        w = vid[0].split(" ")
        if w[0] == "fc":
            W, H, TS = w[1], w[2], w[3]
        else:
            W, H, TS = w[3], w[4], "15f90"
        lines.append("c19init %s %s %s %s %s" % (c.id, W, H, TS, init[0].split(" ")[2]))
        idx[c.id] = c
    res = driver_pairs(lines) if lines else {}
    for cid, c in idx.items():
        for cl in res.get(cid, []) or []:
            eng.fail(c, "C19 clause %d fails on the init segment" % cl, dict(key="C19", clause=cl, frag=True))


def cfg_of(case):
    return case.meta.get("cfg") or {}


def builder_words(case, key):
    """the LAST matching builder call (a later configuration call overrides an earlier one)"""
    found = None
    for l in case.lines:
        w = l.split(" ")
        if w[0] == "b" and w[1] in key:
            found = w
    return found


def frag_dims_big(c):
    r = False
    for l in c.lines:            # the last configuration call wins
        w = l.split(" ")
        if w[0] == "b" and w[1] in ("video", "setvideo"):
            r = int(w[3], 16) > 65535 or int(w[4], 16) > 65535
        if w[0] == "fc":
            r = int(w[1], 16) > 65535 or int(w[2], 16) > 65535
    return r


def kc_c19(clause, pred=lambda c: True):
    def f(eng, fl):
        d = fl.get("detail") or {}
        return d.get("key") == "C19" and d.get("clause") == clause and pred(fl["case"], d)
    return f


def is_vp9(c, d):
    w = builder_words(c, ("video", "setvideo"))
    if w and w[2] == "vp9":
        return True
    return any(l.startswith("b vp9 ") for l in c.lines) and c.kind == "frag"


def is_opus_multi(c, d):
    w = builder_words(c, ("audio", "setaudio"))
    return bool(w) and w[2] == "opus" and int(w[4], 16) > 2


def is_opus_zero(c, d):
    w = builder_words(c, ("audio", "setaudio"))
    return bool(w) and w[2] == "opus" and int(w[4], 16) == 0


def is_frag_av1_hevc(c, d):
    if c.kind != "frag":
        return False
    w = builder_words(c, ("video", "setvideo"))
    return bool(w) and w[2] in ("av1", "h265")


def total_ticks(case, block):
    """rough: does some track span >= 2^32 ticks? (decides the duration-wrap class)"""
    ts = {"v": [], "a": []}
    rs = [l for l in block if l.startswith("r ")]
    for k, o in enumerate(case.ops()):
        if k >= len(rs) or not (rs[k] == "r ok"):
            continue
        if o[0] == "wv":
            ts["v"].append(bits_f64(int(o[1], 16)))
        elif o[0] == "wvd":
            ts["v"].append(bits_f64(int(o[2], 16)))
        elif o[0] == "wa":
            ts["a"].append(bits_f64(int(o[1], 16)))
    for l in ts.values():
        if len(l) >= 2:
            span = (l[-1] - l[0]) + (l[-1] - l[-2])
            if span * 90000 >= 2**32 - 2:
                return True
    # the estimate above does not see the automatic clocks of encode_video / encode_audio: read the class off
    # the file itself (the class is DEFINED by the file: some track's sample durations sum to 2^32 ticks or more)
    try:
        r = mp4.root(sink_of(block))
        for trak in (r.find(b"moov", b"trak") if r is not None else []):
            stts = mp4.track_tables(trak)["stts"]
            if stts:
                w = mp4.u32s(bytes.fromhex(stts)[8:])
                if sum(w[i] * w[i + 1] for i in range(0, len(w) - 1, 2)) >= 2**32:
                    return True
    except Exception:
        pass
    return False


def kc_duration_wrap(eng, fl):
    d = fl.get("detail") or {}
    c = fl["case"]
    if d.get("key") == "C16" and d.get("clause") not in (4, 5):
        return False
    return total_ticks(c, eng.iblocks.get(c.id, []) or eng.run_impl([c]).get(c.id, []))


def kc_rate_16_16(eng, fl):
    d = fl.get("detail") or {}
    w = builder_words(fl["case"], ("audio", "setaudio"))
    return d.get("key") == "C16" and d.get("clause") == 8 and bool(w) and int(w[3], 16) >= 65536


def kc_av_start_offset(eng, fl):
    c = fl["case"]
    b = eng.iblocks.get(c.id) or eng.run_impl([c]).get(c.id, [])
    rs = [l for l in b if l.startswith("r ")]
    fv = fa = None
    cur_v = 0.0
    for k, o in enumerate(c.ops()):
        if k >= len(rs) or rs[k] != "r ok":
            continue
        if o[0] == "wv" and fv is None:
            fv = bits_f64(int(o[1], 16))
        elif o[0] == "wvd" and fv is None:
            fv = bits_f64(int(o[2], 16))
        elif o[0] == "ev" and fv is None:
            fv = 0.0
        elif o[0] == "wa" and fa is None:
            fa = bits_f64(int(o[1], 16))
        elif o[0] == "ea" and fa is None:
            fa = 0.0
    if fv is None or fa is None:
        return False
    return abs(round(fa * 90000) - round(fv * 90000)) > 1


KNOWN_CLASSES = {
    "av_start_offset": kc_av_start_offset,
    "c19_clause_3_progressive": kc_c19(3, lambda c, d: c.kind == "mux"),
    "c19_clause_4_progressive": kc_c19(4, lambda c, d: c.kind == "mux"),
    "c19_clause_7_progressive": kc_c19(7, lambda c, d: c.kind == "mux"),
    "c19_clause_10_vp9": kc_c19(10, is_vp9),
    "c19_clause_11_opus_multichannel": kc_c19(11, is_opus_multi),
    "c19_clause_11_opus_zero_channels": kc_c19(11, is_opus_zero),
    "c19_clause_10_frag_av1_hevc": kc_c19(10, is_frag_av1_hevc),
    "c19_frag_dims_wrap": lambda eng, fl: (fl.get("detail") or {}).get("frag") and (fl.get("detail") or {}).get("clause") in (3, 9) and frag_dims_big(fl["case"]),
    "c16_duration_wrap": kc_duration_wrap,
    "c16_sample_rate_16_16": kc_rate_16_16,
}

PROPS.update({
    "C04": dict(fams=[("fam_contract", 300, 20000), ("fam_mux_basic", 150, 3000), ("fam_reject_matrix", 200, 4000), ("fam_adts_lengths", 60, 1500)], checks=["C04"], obs=obs_decisions,
                components=["K7", "K2", "K3", "K4", "K5", "K6"], nontrivial=nt_has_err),
    "C06": dict(fams=[("fam_mux_basic", 200, 4000), ("fam_mux_av", 80, 2000), ("fam_sink", 60, 1000), ("fam_reject_matrix", 100, 2000)], checks=["C06"],
                obs=obs_accounting, components=["K7"], nontrivial=lambda c, b: first_ok_fin(c, b) is not None),
    "C07": dict(fams=[("fam_mux_clean", 200, 4000), ("fam_mux_av", 100, 2000)], checks=["C07"],
                obs=obs_boxes(b"stsd"), components=["K4", "K5", "K6", "K7", "K8"], nontrivial=nt_finished),
    "C08": dict(fams=[("fam_mux_av", 80, 1500), ("fam_mux_clean", 80, 1500), ("fam_mux_basic", 40, 800)], checks=[],
                extra=extra_C08, obs=obs_none, components=["K7"], nontrivial=nt_finished),
    "C09": dict(fams=[("fam_mux_av", 200, 4000)], checks=["C09"], obs=obs_boxes(b"stts", b"ctts", b"elst"),
                components=["K7"], nontrivial=nt_finished),
    "C10": dict(fams=[("fam_frag", 300, 20000)], checks=["C10"], obs=obs_frag_samples, components=["K8"],
                nontrivial=lambda c, b: any(l.startswith("r seg ") and not l.endswith("none") for l in b)),
    "C11": dict(fams=[("fam_frag", 300, 20000)], checks=["C11"], obs=obs_frag_timing, components=["K8"],
                nontrivial=lambda c, b: sum(1 for l in b if l.startswith("r seg ") and not l.endswith("none")) >= 2),
    "C12": dict(fams=[("fam_fn_annexb", 300, 20000), ("fam_fn_codec", 400, 20000), ("fam_contract", 200, 5000),
                      ("fam_mux_basic", 150, 3000), ("fam_frag", 100, 3000), ("fam_sink", 50, 500), ("fam_validation", 300, 20000),
                      ("fam_encode_paths", 60, 2000), ("fam_reject_gap", 40, 1000)],
                checks=[], obs=obs_panic, components=["K1", "K2", "K3", "K4", "K5", "K6", "K7", "K8", "K9", "K10"],
                nontrivial=lambda c, b: True),
    "C13": dict(fams=[("fam_sink", 150, 1500), ("fam_sink_points", 120, 3000)], checks=[], extra=extra_C13, obs=obs_none,
                components=["K10"], nontrivial=lambda c, b: any(l.startswith("r err Io") for l in b)),
    "C15": dict(fams=[("fam_mux_av", 250, 5000)], checks=["C15"], obs=obs_order, components=["K7"], nontrivial=nt_finished),
    "C16": dict(fams=[("fam_mux_clean", 150, 3000), ("fam_mux_av", 100, 2000)], checks=["C16"], obs=obs_all,
                components=["K7", "K8"], nontrivial=nt_finished),
    "C17": dict(fams=[("fam_mux_basic", 120, 1500), ("fam_mux_av", 60, 800), ("fam_frag", 60, 800), ("fam_encode_paths", 150, 4000)], checks=[], extra=extra_C17,
                obs=obs_none, components=["K7", "K8"], nontrivial=lambda c, b: True, no_shrink=True),
    "C18": dict(fams=[("fam_mux_basic", 200, 4000), ("fam_mux_clean", 100, 2000)], checks=["C18"], extra=extra_C18,
                obs=obs_meta, components=["K7"], nontrivial=nt_finished, relative=True),
    "C19": dict(fams=[("fam_mux_basic", 150, 3000), ("fam_mux_av", 100, 2000), ("fam_frag", 80, 1500)], checks=["C19"],
                extra=extra_C19, obs=obs_boxes(b"mvhd", b"tkhd", b"mdhd", b"hdlr", b"vmhd", b"smhd", b"dref", b"stsd", b"trex"),
                components=["K7", "K8"], nontrivial=lambda c, b: True),
})


# ---------------------------------------------------------------- C20: the CLI
CLI = os.path.join(BUILD, "cargo-cli", "debug", "muxide")
VALIASES = {"h264": ["h264", "H264", "h.264", "avc", "AVC"], "h265": ["h265", "h.265", "hevc", "HEVC"],
            "av1": ["av1", "AV1"], "vp9": ["vp9", "Vp9"]}
AALIASES = {"aac-lc": ["aac", "aac-lc", "AAC"], "aac-main": ["aac-main"], "aac-he": ["aac-he"], "aac-hev2": ["aac-hev2"],
            "aac-ssr": ["aac-ssr"], "aac-ltp": ["aac-ltp"], "opus": ["opus", "OPUS"], "none": ["none"]}


def hexfile_variants(rng, good):
    """(text bytes, kind)"""
    h = good.hex()
    k = rng.below(12)
    if k < 5:
        return h.encode(), "valid"
    if k == 5:
        return (" ".join(h[i:i + 2] for i in range(0, len(h), 2)) + "\n").encode(), "valid-ws"
    if k == 6:
        return h.upper().encode(), "valid-upper"
    if k == 7:
        return (h + "0").encode(), "odd"
    if k == 8:
        return rng.choice([(h[:4] + "zz" + h[6:]), "+" + h[1:], h[:2] + "+f" + h[4:], "-" + h[1:], "0x" + h[2:], h[:-2] + " +"]).encode(), "nonhex"
    if k == 9:
        return b"", "empty"
    if k == 10:
        return b"\xff\xfe\x00\x01binary", "binary"
    return b"  \n\t ", "blank"


def cli_probes(rng, prefix):
    """deterministic probes: a fully valid real run with exactly one numeric option at a boundary or invalid"""
    out = []
    base = dict(codec="h264", acodec=None, audio=None, vcodec_given=True, valias="h264", aalias=None, w=640, h=480, fps="30",
                rate=48000, ch=2, frag=False, dry=False, title=None, lang=None, json=False, verbose=False, badout=False)
    variants = [("fps", v) for v in ("NaN", "nan", "inf", "-inf", "0", "-0", "121", "120.0000001", "120", "1e-9", "-1", "1e400")] + \
               [("w", v) for v in (319, 320, 4096, 4097)] + [("h", v) for v in (239, 240, 2160, 2161)]
    variants += [("rate", v) for v in (0, 1, 7999, 8000, 192000, 192001, 192999, 193000)] + [("ch", v) for v in (0, 1, 8, 9)]
    for k, (key, v) in enumerate(variants):
        d = dict(base, id="%sprobe%d" % (prefix, k))
        d[key] = v
        d["video"] = ("valid", h264_key(rng, extra=False).hex().encode())
        if key in ("rate", "ch"):
            d["acodec"], d["aalias"] = "aac-lc", "aac"
            d["audio"] = ("valid", adts(rng).hex().encode())
        c = Case(d["id"], "cli")
        c.meta = d
        c.lines = [json.dumps({k2: (v2 if not isinstance(v2, tuple) else [v2[0], (v2[1].hex() if v2[1] is not None else None)]) for k2, v2 in d.items()})]
        out.append(c)
    # dry runs and real runs over every present / missing / absent combination of the two inputs
    k = len(variants)
    for dry in (True, False):
        for v in ("valid", "missing", None):
            for a in ("valid", "missing", None):
                d = dict(base, id="%sprobe%d" % (prefix, k), dry=dry, acodec="aac-lc" if a else None, aalias="aac" if a else None)
                k += 1
                d["video"] = None if v is None else (("missing", None) if v == "missing" else ("valid", h264_key(rng, extra=False).hex().encode()))
                d["audio"] = None if a is None else (("missing", None) if a == "missing" else ("valid", adts(rng).hex().encode()))
                c = Case(d["id"], "cli")
                c.meta = d
                c.lines = [json.dumps({k2: (v2 if not isinstance(v2, tuple) else [v2[0], (v2[1].hex() if v2[1] is not None else None)]) for k2, v2 in d.items()})]
                out.append(c)
    # real runs in which exactly ONE input file has unusable content (empty, blank, odd length, non-hex, binary)
    # and everything else is valid: the run must fail and say so
    CONTENT = [(b"", "empty"), (b"  \n\t ", "blank"), (None, "odd"), (b"zz00", "nonhex"), (b"\xff\xfe\x00\x01binary", "binary")]
    for which in ("video", "audio-aac", "audio-opus"):
        for text, kind in CONTENT:
            for js in (False, True):
                ac = None if which == "video" else ("aac-lc" if which == "audio-aac" else "opus")
                d = dict(base, id="%sprobe%d" % (prefix, k), json=js, acodec=ac, aalias=None if ac is None else ("aac" if ac == "aac-lc" else "opus"))
                k += 1
                goodv = h264_key(rng, extra=False).hex().encode()
                gooda = (adts(rng) if ac == "aac-lc" else opus_packet(rng)).hex().encode() if ac else None
                if which == "video":
                    d["video"] = (kind, goodv + b"0" if text is None else text)
                else:
                    d["video"] = ("valid", goodv)
                    d["audio"] = (kind, gooda + b"0" if text is None else text)
                c = Case(d["id"], "cli")
                c.meta = d
                c.lines = [json.dumps({k2: (v2 if not isinstance(v2, tuple) else [v2[0], (v2[1].hex() if v2[1] is not None else None)]) for k2, v2 in d.items()})]
                out.append(c)
    return out


def fam_cli(rng, n, prefix):
    out = cli_probes(rng, prefix)
    for i in range(n):
        codec = rng.choice(VCODECS)
        d = dict(id="%s%d" % (prefix, i), codec=codec)
        have_v = rng.chance(9, 10)
        have_a = rng.chance(1, 3)
        d["video"] = None
        if have_v:
            d["video"] = ("missing", None) if rng.chance(1, 12) else hexfile_variants(rng, video_key(rng, codec))[::-1]
        d["acodec"] = rng.choice(list(AALIASES.keys())) if rng.chance(3, 4) else None
        ac = d["acodec"] or "aac-lc"
        d["audio"] = None
        if have_a:
            good = opus_packet(rng) if ac == "opus" else adts(rng)
            d["audio"] = ("missing", None) if rng.chance(1, 12) else hexfile_variants(rng, good)[::-1]
        d["vcodec_given"] = rng.chance(5, 6)
        d["valias"] = rng.choice(VALIASES[codec])
        d["aalias"] = rng.choice(AALIASES[ac]) if d["acodec"] else None
        # start from a valid combination ...
        d["w"], d["h"] = rng.choice([(640, 480), (1920, 1080), (320, 240), (4096, 2160)])
        d["fps"] = rng.choice(["30", "29.97", "120", "0.5", "120.0", "1e-9", "59.94"])
        d["rate"] = rng.choice([48000, 44100, 192000, 8000])
        d["ch"] = rng.choice([2, 1, 8, 6])
        d["frag"] = False
        d["dry"] = rng.chance(1, 12)
        d["title"] = rng.choice([None, None, "Hello", "Grüße 世界", "", " "])
        d["lang"] = rng.choice([None, None, "eng", "deu"])
        d["json"] = rng.chance(1, 2)
        d["verbose"] = rng.chance(1, 4)
        d["badout"] = False
        # ... and in half of the cases break exactly one thing
        broke = rng.chance(1, 2)
        if broke:
            k = rng.below(9)
            if k == 0:
                d["w"] = rng.choice([319, 4097, 0, None])
            elif k == 1:
                d["h"] = rng.choice([239, 2161, 0, None])
            elif k == 2:
                d["fps"] = rng.choice(["0", "121", "-1", None, "NaN", "nan", "NaN", "inf", "-inf", "1e400", "-0", "120.0000001"])
            elif k == 3:
                d["rate"] = rng.choice([0, 192001, None])
            elif k == 4:
                d["ch"] = rng.choice([0, 9, None])
            elif k == 5:
                d["frag"] = True
            elif k == 6:
                d["badout"] = True
            elif k == 7 and d["video"] is not None:
                d["video"] = ("missing", None)
            else:
                d["acodec"], d["aalias"] = "none", "none"
        if not broke or rng.chance(2, 3):
            # keep the input files valid too (so that exactly one thing is wrong, or nothing)
            if d["video"] is not None and d["video"][0] == "missing" and broke:
                pass
            elif d["video"] is not None and d["video"][0] not in ("valid", "valid-ws", "valid-upper"):
                d["video"] = ("valid", video_key(rng, codec).hex().encode())
            if d["audio"] is not None and d["audio"][0] not in ("valid", "valid-ws", "valid-upper"):
                ac2 = d["acodec"] or "aac-lc"
                d["audio"] = ("valid", (opus_packet(rng) if ac2 == "opus" else adts(rng)).hex().encode())
        c = Case(d["id"], "cli")
        c.meta = d
        c.lines = [json.dumps({k: (v if not isinstance(v, tuple) else [v[0], (v[1].hex() if v[1] is not None else None)]) for k, v in d.items()})]
        out.append(c)
    return out


F.fam_cli = fam_cli


def fps_ok(s):
    try:
        x = float(s)
        return 0.0 < x <= 120.0
    except Exception:
        return False


def extra_C20(eng, cases):
    root = os.path.join(RUN, "C20")
    subprocess.call(["rm", "-rf", root])
    os.makedirs(root, exist_ok=True)
    lines, plans = [], []
    for c in cases:
        if c.kind != "cli":
            continue
        d = c.meta
        wd = os.path.join(root, c.id)
        os.makedirs(wd, exist_ok=True)
        argv = [CLI, "--no-progress"]
        if d["json"]:
            argv.append("--json")
        if d["verbose"]:
            argv.append("--verbose")
        argv.append("mux")
        def inp(name, spec):
            if spec is None:
                return "~"
            kind, content = spec
            path = os.path.join(wd, name)
            if kind != "missing":
                open(path, "wb").write(content)
            argv.extend(["--" + name, path])
            return "M" if kind == "missing" else hx(content)
        vtok = inp("video", d["video"])
        atok = inp("audio", d["audio"])
        outp = os.path.join(wd, "nodir", "out.mp4") if d["badout"] else os.path.join(wd, "out.mp4")
        argv.extend(["--output", outp])
        if d["vcodec_given"]:
            argv.extend(["--video-codec", d["valias"]])
        for k, flag in (("w", "--width"), ("h", "--height"), ("fps", "--fps"), ("rate", "--sample-rate"), ("ch", "--channels")):
            if d[k] is not None:
                # --flag=value: a value such as -1 given as a separate word is rejected by clap as an
                # unknown option before the command logic runs (argv parsing is not modelled)
                argv.append("%s=%s" % (flag, d[k]))
        if d["acodec"]:
            argv.extend(["--audio-codec", d["aalias"]])
        if d["frag"]:
            argv.append("--fragmented")
        if d["dry"]:
            argv.append("--dry-run")
        if d["title"] is not None:
            argv.extend(["--title", d["title"]])
        if d["lang"]:
            argv.extend(["--language", d["lang"]])
        tok = lambda v: "~" if v is None else "%x" % v
        lines.append("mux %s %s %s %s %s %s %s %s %s %s %d %s %s %d %d" % (
            c.id, vtok, atok, d["codec"] if d["vcodec_given"] else "~", tok(d["w"]), tok(d["h"]),
            "~" if d["fps"] is None else ("1" if fps_ok(d["fps"]) else "0"),
            d["acodec"] or "~", tok(d["rate"]), tok(d["ch"]), 1 if d["frag"] else 0,
            hx(d["title"].encode()) if d["title"] is not None else "~", hx(d["lang"].encode()) if d["lang"] else "~",
            1 if d["dry"] else 0, 0 if d["badout"] else 1))
        plans.append((c, argv, outp))
    p = subprocess.run([DRIVER, "cli"], input=("\n".join(lines) + "\n").encode(), stdout=subprocess.PIPE, timeout=900)
    model = {}
    for l in p.stdout.decode().split("\n"):
        w = l.split(" ")
        if w[0] == "cli":
            model[w[1]] = w[2:]
    from concurrent.futures import ThreadPoolExecutor
    def runit(pl):
        c, argv, outp = pl
        try:
            r = subprocess.run(argv, stdout=subprocess.PIPE, stderr=subprocess.PIPE, timeout=20)
            return c, r.returncode, r.stdout.decode(errors="replace"), outp
        except subprocess.TimeoutExpired:
            return c, "timeout", "", outp
    eng.c20 = Counter()
    eng.notes.append('C20: CLI outcome counts are appended below')
    with ThreadPoolExecutor(max_workers=16) as ex:
        for c, rc, out, outp in ex.map(runit, plans):
            eng.ev["evaluations"] += 1
            m = model.get(c.id)
            if m is None:
                continue
            done = ("Muxing complete" in out) or ('"video_frames"' in out) or ("Dry run complete" in out) or ('"dry_run": true' in out)
            ok = (rc == 0)
            eng.c20["ok" if ok else "fail"] += 1
            if rc == "timeout":
                eng.fail(c, "the CLI did not terminate within 20 s")
                continue
            if ok != (m[0] == "ok"):
                eng.fail(c, "CLI exit status (%s) disagrees with the option/ input validity (model: %s)" % (rc, m[0]),
                         dict(argv=plans[0][1][:3] and [a for a in [x for x in c.meta.items()]][:0], stdout=out[:300]))
                continue
            if ok and not done:
                eng.fail(c, "CLI exited successfully without reporting completion")
            if not ok and done:
                eng.fail(c, "CLI reported completion but exited unsuccessfully")
            if ok and m[1] != "none":
                try:
                    data = open(outp, "rb").read()
                except Exception:
                    data = None
                if data is None or data.hex() != m[1]:
                    eng.fail(c, "the file written by the CLI differs from the file the library/model produces for the same input and settings")
                nv, na = int(m[2], 16), int(m[3], 16)
                if c.meta["json"]:
                    try:
                        j = json.loads(out[out.index("{"):])
                        if j.get("video_frames") != nv or j.get("audio_frames") != na:
                            eng.fail(c, "reported frame counts do not match the accepted frames")
                    except Exception:
                        pass
                else:
                    if ("Video frames: %d" % nv) not in out or ("Audio frames: %d" % na) not in out:
                        eng.fail(c, "reported frame counts do not match the accepted frames")
    eng.notes.append('C20 mux outcomes: %r' % dict(eng.c20))
    # validate and info
    vlines, vplans = [], []
    rng = eng.rng.fork("c20v")
    for i in range(len(plans) // 2 + 34):
        wd = os.path.join(root, "v%d" % i)
        os.makedirs(wd, exist_ok=True)
        argv = [CLI, "--json", "validate"]
        toks = []
        VPROBES = [b"+f", b"00 00 00 01 +7", b"+a+b+c", b"-1", b"0x00", b"fg", b"0 0", b"\n", b"AbCdEf", b"00\r\n01\t02 ", b"+0", b"f+"]
        if i < 2 * len(VPROBES):
            # deterministic probes: one input whose text is almost hexadecimal (signs, prefixes, stray letters)
            name = ("video", "audio")[i % 2]
            content = VPROBES[i // 2]
            path = os.path.join(wd, name)
            open(path, "wb").write(content)
            argv.extend(["--" + name, path])
            toks = [hx(content), "~"] if name == "video" else ["~", hx(content)]
            vlines.append("validate v%d %s %s" % (i, toks[0], toks[1]))
            vplans.append(("v%d" % i, argv))
            continue
        for name in ("video", "audio"):
            if rng.chance(2, 3):
                if rng.chance(1, 8):
                    argv.extend(["--" + name, os.path.join(wd, "missing_" + name)])
                    toks.append("M")
                else:
                    content, _ = hexfile_variants(rng, rng.bytes(rng.range(1, 12)))
                    path = os.path.join(wd, name)
                    open(path, "wb").write(content)
                    argv.extend(["--" + name, path])
                    toks.append(hx(content))
            else:
                toks.append("~")
        if toks == ["~", "~"]:
            continue          # the no-input case is outside the property's quantifier
        vlines.append("validate v%d %s %s" % (i, toks[0], toks[1]))
        vplans.append(("v%d" % i, argv))
    ilines, iplans = [], []
    samples = [sink_of(b) for b in list(getattr(eng, "iblocks", {}).values())[:0]]
    for i in range(len(plans) // 2 + 10):
        wd = os.path.join(root, "i%d" % i)
        os.makedirs(wd, exist_ok=True)
        k = rng.below(6)
        boxes = b"".join(struct.pack(">I", 8 + n) + rng.choice([b"ftyp", b"moov", b"mdat", b"free", b"\xa9abc", b"\xff\xfe\x00\x01"]) + rng.bytes(n)
                         for n in [rng.below(20) for _ in range(rng.range(1, 5))])
        if k == 0:
            content = boxes
        elif k == 1:
            content = boxes[: rng.below(len(boxes) + 1)]
        elif k == 2:
            content = rng.bytes(rng.range(0, 40))
        elif k == 3:
            content = boxes + struct.pack(">I", rng.choice([0, 1, 4, 7, 2**31, 2**32 - 1])) + b"evil" + rng.bytes(5)
        elif k == 4:
            content = struct.pack(">I", rng.range(1, 7)) * rng.range(2, 30)
        else:
            content = boxes + boxes
        path = os.path.join(wd, "f.mp4")
        open(path, "wb").write(content)
        ilines.append("info i%d %s" % (i, hx(content)))
        iplans.append(("i%d" % i, [CLI, "--json", "info", path]))
    p = subprocess.run([DRIVER, "cli"], input=("\n".join(vlines + ilines) + "\n").encode(), stdout=subprocess.PIPE, timeout=900)
    vm = {}
    for l in p.stdout.decode().split("\n"):
        w = l.split(" ")
        if w[0] == "cli":
            vm[w[1]] = w[2:]
    c0 = cases[0]
    for vid, argv in vplans:
        try:
            r = subprocess.run(argv, stdout=subprocess.PIPE, stderr=subprocess.PIPE, timeout=20)
        except subprocess.TimeoutExpired:
            eng.fail(c0, "validate did not terminate: " + vid)
            continue
        eng.ev["evaluations"] += 1
        try:
            j = json.loads(r.stdout.decode())
            verdict = bool(j["valid"])
        except Exception:
            verdict = None
        exp = vm.get(vid, ["valid", "?"])[1] == "1"
        if verdict is None or verdict != exp:
            f = Case("C20_" + vid, "cli")
            f.lines = [" ".join(argv)]
            eng.fail(f, "validate verdict %r differs from 'every given input exists and is non-empty even-length hex' (%r)" % (verdict, exp),
                     dict(argv=argv, files={a: open(a, "rb").read().hex() for a in argv if os.path.isfile(a) and a != CLI}))
    for iid, argv in iplans:
        try:
            r = subprocess.run(argv, stdout=subprocess.PIPE, stderr=subprocess.PIPE, timeout=20)
        except subprocess.TimeoutExpired:
            f = Case("C20_" + iid, "cli"); f.lines = [" ".join(argv)]
            eng.fail(f, "info did not terminate within 20 s")
            continue
        eng.ev["evaluations"] += 1
        m = vm.get(iid)
        if m is None:
            continue
        if m[1] == "none":
            if r.returncode == 0:
                f = Case("C20_" + iid, "cli"); f.lines = [" ".join(argv)]
                eng.fail(f, "info accepted a file shorter than a box header")
            continue
        try:
            j = json.loads(r.stdout.decode())
            got = []
            for bx in j["boxes"]:
                if bx["type"] == "invalid":
                    got.append("invalid:%x:%x" % (bx["size"], bx["offset"]))
                else:
                    got.append("%s:%x:%x" % (bx["type"], bx["size"], bx["offset"]))
        except Exception:
            got = None
        exp = []
        for e in m[1].rstrip(".").split(","):
            if not e:
                continue
            t, sz, off = e.split(":")
            if t != "invalid":
                try:
                    t = bytes.fromhex(t).decode("utf-8")
                except Exception:
                    t = "????"
            exp.append("%s:%s:%s" % (t, sz, off))
        if got != exp:
            f = Case("C20_" + iid, "cli"); f.lines = [" ".join(argv)]
            eng.fail(f, "info does not list precisely the top-level boxes", dict(got=got, expected=exp,
                     file=open(argv[-1], "rb").read().hex()))


import struct
PROPS["C20"] = dict(fams=[("fam_cli", 200, 3000)], checks=[], extra=extra_C20, obs=obs_none, components=["K11"],
                    nontrivial=lambda c, b: True, no_shrink=True, no_model=True,
                    rule="option products for the mux command (codec names/aliases, dimensions, fps, audio codec/rate/channels, title, language, json/verbose, dry-run, fragmented) x input file contents (valid hex incl. whitespace/upper case, odd length, non-hex, empty, binary, missing); validate on random file contents; info on well-formed, truncated, garbage and adversarial size fields; about half of the mux cases are fully valid")


# ---------------------------------------------------------------- C07: AV1 headers from the syntax AST
def rand_av1_ast(rng, allow_mono=True):
    """a random VALID sequence-header AST as the flat token list of `driver av1enc`,
    plus the fields a configuration record must carry and the branch tags taken"""
    t = []
    tags = []
    profile = rng.choice([0, 0, 1, 2, 2])
    reduced = rng.chance(1, 5)
    still = True if reduced else rng.chance(1, 6)
    rlevel = rng.below(32)
    t += [profile, int(still), int(reduced), rlevel]
    level0, tier0 = rlevel, 0
    if reduced:
        tags.append("reduced")
        t += [0, 0, 1, 0, 0, 0, 0, 0]      # timing absent, iddp 0, 1 op (ignored by the encoder)
    else:
        dmi = None
        if rng.chance(1, 2):
            tags.append("timing")
            t += [1, rng.below(2**32), rng.below(2**32)]
            if rng.chance(1, 2):
                tags.append("uvlc")
                t += [1, rng.choice([0, 1, 2, 5, 255, 2**16, 2**32 - 2])]
            else:
                t += [0]
            if rng.chance(1, 2):
                tags.append("decoder_model")
                dmi = rng.below(32)
                t += [1, dmi, rng.below(2**32), rng.below(32), rng.below(32)]
            else:
                t += [0]
        else:
            t += [0]
        iddp = rng.chance(1, 2)
        t += [int(iddp)]
        nops = rng.choice([1, 1, 2, 3, 32])
        t += [nops]
        for i in range(nops):
            lvl = rng.below(32)
            tier = 1 if (lvl > 7 and rng.chance(1, 2)) else 0
            if i == 0:
                level0, tier0 = lvl, tier
            t += [rng.below(4096), lvl, tier]
            if dmi is not None and rng.chance(1, 2):
                tags.append("op_params")
                n = dmi + 1
                t += [1, rng.below(2**n), rng.below(2**n), rng.below(2)]
            else:
                t += [0]
            if iddp and rng.chance(1, 2):
                tags.append("op_idd")
                t += [1, rng.below(16)]
            else:
                t += [0]
    fwb, fhb = rng.below(16), rng.below(16)
    t += [fwb, fhb, rng.below(2**(fwb + 1)), rng.below(2**(fhb + 1))]
    if not reduced and rng.chance(1, 2):
        tags.append("frame_id")
        t += [1, rng.below(16), rng.below(8)]
    else:
        t += [0]
    t += [rng.below(2) for _ in range(3)]
    t += [rng.below(2) for _ in range(4)]
    if not reduced and rng.chance(1, 2):
        tags.append("order_hint")
        t += [1, rng.below(2), rng.below(2), rng.below(8)]
    else:
        t += [0]
    sct = rng.choice([2, 0, 1])
    t += [sct, rng.choice([2, 0, 1])]
    tags.append("sct%d" % sct)
    t += [rng.below(2) for _ in range(3)]
    # color config
    hbd = rng.below(2)
    tb = 1 if (profile == 2 and hbd and rng.chance(1, 2)) else 0
    mono = 1 if (allow_mono and profile != 1 and rng.chance(1, 6)) else 0
    depth = 12 if (profile == 2 and tb) else (10 if hbd else 8)
    desc = None
    if rng.chance(1, 2):
        desc = rng.choice([(1, 13, 0), (1, 1, 1), (9, 16, 9), (rng.below(256), rng.below(256), rng.below(256))])
    srgb = desc == (1, 13, 0)
    if srgb and not mono and profile == 0:
        desc = (1, 13, 1)       # sRGB needs 4:4:4; keep profile-0 headers conformant
        srgb = False
    if mono:
        tags.append("mono")
        rng_, sx, sy, csp, suv = rng.below(2), 1, 1, 0, 0
    elif srgb:
        tags.append("srgb")
        rng_, sx, sy, csp, suv = 1, 0, 0, 0, rng.below(2)
    else:
        rng_ = rng.below(2)
        if profile == 0:
            sx, sy = 1, 1
        elif profile == 1:
            sx, sy = 0, 0
        elif depth == 12:
            tags.append("p2_12bit")
            sx = rng.below(2)
            sy = rng.below(2) if sx else 0
        else:
            sx, sy = 1, 0
        csp = rng.below(4) if (sx and sy) else 0
        suv = rng.below(2)
    t += [hbd, tb, mono]
    t += ([1] + list(desc)) if desc else [0]
    t += [rng_, sx, sy, csp, suv]
    t += [rng.below(2)]
    exp = dict(profile=profile, level=level0, tier=tier0, hbd=hbd, tb=tb, mono=mono, sx=sx, sy=sy, csp=csp)
    return t, exp, tags


def fam_av1_syntax(rng, n, prefix):
    asts = [rand_av1_ast(rng) for _ in range(n)]
    lines = ["av1 a%d %s" % (i, " ".join("%x" % x for x in t)) for i, (t, _, _) in enumerate(asts)]
    p = subprocess.run([DRIVER, "av1enc"], input=("\n".join(lines) + "\n").encode(), stdout=subprocess.PIPE,
                       stderr=subprocess.PIPE, timeout=600)
    enc = {}
    for l in p.stdout.decode().split("\n"):
        w = l.split(" ")
        if w[0] == "av1":
            enc[w[1]] = w[2:]
    out = []
    for i, (t, exp, tags) in enumerate(asts):
        e = enc.get("a%d" % i)
        if not e or e[0] != "1":
            continue           # the generator must only emit valid ASTs; invalid ones are dropped and counted
        seq = unhx(e[1])
        key = (obu(2, b"") if rng.chance(1, 2) else b"") + seq + av1_frame_obu(rng, True)
        fast = rng.below(2)
        c = Case("%s%d" % (prefix, i), "mux")
        c.b("video", "av1", "280", "1e0").b("fast", fast)
        c.o("wv", fb(0.0), hx(key), 1)
        c.o("wv", fb(0.04), hx(av1_delta(rng)), 0)
        c.o("fin", 0)
        c.meta = dict(av1=exp, tags=tags, seq=seq.hex())
        out.append(c)
        # the same header through the public extractor and the fragmented builder
        f = fn_case("%s%d_fn" % (prefix, i), "extract_av1_config", hx(key))
        f.meta = dict(av1=exp, tags=tags, seq=seq.hex())
        out.append(f)
    return out


F.fam_av1_syntax = fam_av1_syntax


def extra_C07(eng, cases):
    """AV1: the av1C record / the extractor's fields against the syntax AST the header was encoded from"""
    eng.av1_tags = Counter()
    for c in cases:
        exp = c.meta.get("av1") if isinstance(c.meta, dict) else None
        if not exp:
            continue
        for tg in c.meta.get("tags", []):
            eng.av1_tags[tg] += 1
        b = eng.iblocks.get(c.id, [])
        if c.kind == "fn":
            w = (b[0] if b else "").split(" ")
            if len(w) < 11 or w[1] == "none":
                eng.fail(c, "a conformant AV1 sequence header (encoded from the syntax AST) is rejected by extract_av1_config",
                         dict(key="C07", av1=True, mono=bool(exp["mono"])))
                continue
            got = dict(profile=int(w[2], 16), level=int(w[3], 16), tier=int(w[4], 16), hbd=int(w[5]), tb=int(w[6]),
                       mono=int(w[7]), sx=int(w[8]), sy=int(w[9]), csp=int(w[10], 16))
            if w[1] != c.meta["seq"] or got != exp:
                eng.fail(c, "extract_av1_config fields differ from the header's syntax elements: got %r expected %r" % (got, exp),
                         dict(key="C07", av1=True, mono=bool(exp["mono"])))
            continue
        if first_ok_fin(c, b) is None:
            eng.fail(c, "a conformant AV1 keyframe (header encoded from the syntax AST) is not accepted",
                     dict(key="C07", av1=True, mono=bool(exp["mono"])))
            continue
        r = mp4.root(sink_of(b))
        rec = r.find(b"moov", b"trak", b"mdia", b"minf", b"stbl", b"stsd", b"av01", b"av1C") if r else []
        if not rec:
            eng.fail(c, "no av1C record in the file", dict(key="C07", av1=True, mono=bool(exp["mono"])))
            continue
        p = rec[0].payload
        b1 = (exp["profile"] << 5) | exp["level"]
        b2 = (exp["tier"] << 7) | (exp["hbd"] << 6) | (exp["tb"] << 5) | (exp["mono"] << 4) | (exp["sx"] << 3) | (exp["sy"] << 2) | exp["csp"]
        if len(p) < 4 or p[0] != 0x81 or p[1] != b1 or p[2] != b2 or p[4:].hex() != c.meta["seq"]:
            eng.fail(c, "av1C does not carry the sequence header with matching profile/level/tier/bit-depth/chroma fields",
                     dict(key="C07", av1=True, mono=bool(exp["mono"]), got=p[:4].hex(), expected="81%02x%02x" % (b1, b2)))
    eng.notes.append("AV1 syntax branches taken: %r" % dict(eng.av1_tags))


KNOWN_CLASSES["c07_av1_monochrome_csp"] = lambda eng, fl: bool((fl.get("detail") or {}).get("av1")) and bool((fl.get("detail") or {}).get("mono"))
KNOWN_CLASSES["c07_frag_av1c_fields"] = lambda eng, fl: False
PROPS["C07"]["fams"] = [("fam_mux_clean", 200, 4000), ("fam_mux_av", 100, 2000), ("fam_av1_syntax", 150, 4000)]
PROPS["C07"]["extra"] = extra_C07
PROPS["C04"]["fams"] = PROPS["C04"]["fams"] + [("fam_av1_syntax", 40, 1000)]
PROPS["C12"]["fams"] = PROPS["C12"]["fams"] + [("fam_av1_syntax", 60, 2000)]

PROPS["C14"]["fams"] = PROPS["C14"]["fams"] + [("fam_exh_annexb", 1, 100000)]
PROPS["C12"]["fams"] = PROPS["C12"]["fams"] + [("fam_exh_annexb", 0, 20000), ("fam_exh_frag", 0, 10000)]
PROPS["C10"]["fams"] = PROPS["C10"]["fams"] + [("fam_exh_frag", 0, 50000)]
PROPS["C11"]["fams"] = PROPS["C11"]["fams"] + [("fam_exh_frag", 0, 10000)]
PROPS["C04"]["fams"] = PROPS["C04"]["fams"] + [("fam_exh_contract", 0, 50000)]
PROPS["C05"]["fams"] = PROPS["C05"]["fams"] + [("fam_exh_contract", 0, 50000)]

for _p in ("C01", "C02", "C03", "C07", "C09", "C15", "C16", "C19"):
    PROPS[_p]["relative"] = True
PROPS["C09"]["fams"] = PROPS["C09"]["fams"] + [("fam_reject_matrix", 150, 3000)]
for _p in ("C03", "C04", "C05", "C06", "C09", "C16"):
    PROPS[_p]["fams"] = PROPS[_p]["fams"] + [("fam_reject_gap", 60, 1500)]

# the only theorems allowed to depend on axioms: the binary64 round-trip fact proved with Flocq and the two
# history-level theorems that use it; the axioms are the standard library's classical real-number axioms
REALS_AXIOMS = ["ClassicalDedekindReals.sig_not_dec", "ClassicalDedekindReals.sig_forall_dec",
                "FunctionalExtensionality.functional_extensionality_dep", "Classical_Prop.classic"]
PROPS["C06"]["axiom_allow_for"] = {
    "C06_duration_roundtrip": REALS_AXIOMS,
    "C06_history_accounts_for_everything": REALS_AXIOMS,
    "C06_history_accounts_for_everything_any_sink": REALS_AXIOMS,
}
for _p in ("C03", "C04", "C16", "C12", "C05"):
    PROPS[_p]["fams"] = PROPS[_p]["fams"] + [("fam_cts_bounds", 60, 2000)]
for _p in ("C12", "C06", "C04", "C16", "C05"):
    PROPS[_p]["fams"] = PROPS[_p]["fams"] + [("fam_extreme_ts", 80, 3000)]
PROPS["C12"]["fams"] = PROPS["C12"]["fams"] + [("fam_names", 150, 5000)]
PROPS["C20"]["fams"] = PROPS["C20"]["fams"] + [("fam_names", 150, 5000)]
PROPS["C03"]["axiom_allow_for"] = {"C03_tick_is_the_rounded_real_product": REALS_AXIOMS}
for _p in ("C15", "C01", "C08"):
    PROPS[_p]["fams"] = PROPS[_p]["fams"] + [("fam_interleave_ties", 120, 3000)]
for _p in ("C15", "C01"):
    PROPS[_p]["fams"] = PROPS[_p]["fams"] + [("fam_long_ties", 12, 300)]
for _p in ("C17", "C04"):
    PROPS[_p]["fams"] = PROPS[_p]["fams"] + [("fam_builder_scripts", 120, 3000)]
for _p in ("C19", "C02"):
    PROPS[_p]["fams"] = PROPS[_p]["fams"] + [("fam_reject_gap", 40, 1000), ("fam_extreme_ts", 40, 1000)]


# ---- VP9: conforming key frames encoded from the syntax of Spec/Vp9Syntax.v ----
def fam_vp9_syntax(rng, n, prefix):
    lines, metas = [], []
    for i in range(n):
        pr = rng.below(4)
        cs = rng.choice([0, 1, 2, 5, 7, 7])
        rs = rng.chance(1, 4)
        w, h = rng.choice([639, 1919, 0, 65535, 319]), rng.choice([479, 1079, 0, 65535, 239])
        toks = [pr, rng.below(2), rng.below(2), rng.below(2), cs, rng.below(2), rng.below(2), rng.below(2), w, h]
        lines.append("vp9 v%d %s %s %s %s" % (i, " ".join("%x" % x for x in toks),
                                              ("%x" % rng.below(65536)) if rs else "~", ("%x" % rng.below(65536)) if rs else "~",
                                              hx(rng.bytes(rng.range(1, 12)))))
        metas.append(dict(profile=pr, cs=cs))
    p = subprocess.run([DRIVER, "vp9enc"], input=("\n".join(lines) + "\n").encode(), stdout=subprocess.PIPE,
                       stderr=subprocess.PIPE, timeout=600)
    out = []
    for l in p.stdout.decode().split("\n"):
        w = l.split(" ")
        if w[0] != "vp9" or w[2] != "1":
            continue
        i = int(w[1][1:])
        c = Case("%s%d" % (prefix, i), "mux")
        c.b("video", "vp9", "280", "1e0").b("fast", rng.below(2))
        c.o("wv", fb(0.0), w[3], 1)
        c.o("fin", 0)
        c.meta = dict(vp9=dict(metas[i], bit_depth=int(w[4], 16)))
        out.append(c)
        f = fn_case("%s%d_fn" % (prefix, i), "extract_vp9_config", w[3])
        f.meta = dict(vp9=dict(metas[i], bit_depth=int(w[4], 16)))
        out.append(f)
    return out


F.fam_vp9_syntax = fam_vp9_syntax
_extra_C07_av1 = extra_C07


def extra_C07(eng, cases):
    _extra_C07_av1(eng, cases)
    n = 0
    for c in cases:
        exp = c.meta.get("vp9") if isinstance(c.meta, dict) else None
        if not exp and "vp9_real" in c.id:
            exp = dict(profile=0, cs=1, bit_depth=8)      # the committed witness of KF-C07-3
        if not exp:
            continue
        n += 1
        b = eng.iblocks.get(c.id, [])
        if c.kind == "fn":
            if not b or b[0].split(" ")[1:2] == ["none"]:
                eng.fail(c, "a conforming VP9 key frame (header encoded from the VP9 syntax) is rejected by extract_vp9_config",
                         dict(key="C07", vp9=True))
            continue
        if first_ok_fin(c, b) is None or not any(l == "r ok" for l in b[:3]):
            eng.fail(c, "a conforming VP9 key frame (header encoded from the VP9 syntax) is not accepted as first frame",
                     dict(key="C07", vp9=True))
    eng.notes.append("conforming VP9 key frames tried: %d" % n)


KNOWN_CLASSES["c07_vp9_conforming_keyframe_rejected"] = lambda eng, fl: bool((fl.get("detail") or {}).get("vp9"))
PROPS["C07"]["extra"] = extra_C07
PROPS["C07"]["fams"] = PROPS["C07"]["fams"] + [("fam_vp9_syntax", 40, 1500)]
PROPS["C12"]["fams"] = PROPS["C12"]["fams"] + [("fam_vp9_syntax", 30, 1000)]
for _p in ("C09", "C03", "C16"):
    PROPS[_p]["fams"] = PROPS[_p]["fams"] + [("fam_negative_cts_av", 60, 2000)]
for _p in ("C12", "C18", "C16"):
    PROPS[_p]["fams"] = PROPS[_p]["fams"] + [("fam_ctimes", 150, 5000)]
for _p in ("C03", "C04", "C16"):
    PROPS[_p]["fams"] = PROPS[_p]["fams"] + [("fam_subtick", 80, 3000)]
for _p in ("C04", "C05"):
    PROPS[_p]["fams"] = PROPS[_p]["fams"] + [("fam_audio_vs_first_video", 60, 2000)]
PROPS["C07"]["fams"] = PROPS["C07"]["fams"] + [("fam_reject_matrix", 120, 3000)]
for _p in ("C18", "C19", "C07"):
    PROPS[_p]["fams"] = PROPS[_p]["fams"] + [("fam_builder_scripts", 100, 3000)]
for _p in ("C05", "C04"):
    PROPS[_p]["fams"] = PROPS[_p]["fams"] + [("fam_encode_paths", 100, 3000)]
PROPS["C18"]["translated"] = True
PROPS["C12"]["translated"] = True
for _p in ("C14", "C01", "C04", "C07", "C10"):
    PROPS[_p]["translated"] = True
for _p in ("C15", "C01", "C03", "C16"):
    PROPS[_p]["fams"] = PROPS[_p]["fams"] + [("fam_cross_2p32", 40, 1500)]
for _p in ("C13", "C17", "C06"):
    if not any(f[0] == "fam_sink" for f in PROPS[_p]["fams"]):
        PROPS[_p]["fams"] = PROPS[_p]["fams"] + [("fam_sink", 50, 1000)]
# C19: field POSITIONS inside configuration records can only be told apart by comparing with the stream's own
# values, which is what C07's predicate does; evaluate it here as well, on the AV1 syntax family
PROPS["C19"]["checks"] = PROPS["C19"]["checks"] + ["C07"]
PROPS["C19"]["fams"] = PROPS["C19"]["fams"] + [("fam_av1_syntax", 80, 2500)]
for _p in ("C09", "C03", "C06"):
    PROPS[_p]["fams"] = PROPS[_p]["fams"] + [("fam_encode_paths", 80, 2500)]
for _p in ("C15", "C17", "C03"):
    PROPS[_p]["fams"] = PROPS[_p]["fams"] + [("fam_long_encode", 3, 40)]
for _p in ("C07", "C19", "C02"):
    PROPS[_p]["fams"] = PROPS[_p]["fams"] + [("fam_frag_init", 48, 400)]
# wave 13: the byte-builder translation (51 box builders of mp4.rs / fragmented.rs re-derived from the source)
for _p in ("C02", "C16", "C19", "C11", "C08"):
    PROPS[_p]["translated"] = True
for _p in ("C16", "C19", "C12", "C04", "C06"):
    PROPS[_p]["fams"] = PROPS[_p]["fams"] + [("fam_dims", 48, 600)]
for _p in ("C13", "C06", "C17"):
    PROPS[_p]["fams"] = PROPS[_p]["fams"] + [("fam_sink_sweep", 162, 1500)]


def range_guard_decision(case, m, i):
    """C16 also says what happens to a value that does NOT fit: the call is rejected with an error.  A
    difference in the accept/reject decisions is therefore C16's business when, at the first call on which
    model and implementation disagree, the model returns the range-guard error (every guard of the writer --
    dimensions, sample gap, composition offset, mdat size, parameter-set length -- surfaces as `Io`) and the
    implementation does anything else (accepts the value, or panics)."""
    dm, di = obs_decisions(case, m), obs_decisions(case, i)
    for a, b in zip(dm, di):
        if a != b:
            return a == "err Io"
    return False


PROPS["C16"]["decision_touch"] = range_guard_decision
for _p in ("C03", "C11", "C16", "C10"):
    PROPS[_p]["fams"] = PROPS[_p]["fams"] + [("fam_jitter_cancel", 45, 600)]
for _p in ("C01", "C13", "C08"):
    PROPS[_p]["fams"] = PROPS[_p]["fams"] + [("fam_big_samples", 16, 100)]
PROPS["C14"]["fams"] = PROPS["C14"]["fams"] + [("fam_exh_units", 1, 20000)]
PROPS["C12"]["fams"] = PROPS["C12"]["fams"] + [("fam_exh_units", 1, 20000)]
for _p in ("C13", "C17", "C06"):
    PROPS[_p]["fams"] = PROPS[_p]["fams"] + [("fam_sink_long", 12, 200)]
PROPS["C09"]["fams"] = PROPS["C09"]["fams"] + [("fam_jitter_cancel", 45, 600)]
# the whole moov / media segment is now re-derived from the source: the stage also backs the table properties
for _p in ("C03", "C09", "C15"):
    PROPS[_p]["translated"] = True

# wave 15: process-history independence.  Groups of closely related muxers run one after the other in ONE
# process (configurations that differ in one attribute, a failed finish before a good one, ...): whatever an
# earlier muxer leaves behind in the process (a static cache, a thread-local scratch buffer) shows as a
# difference between the crate and the (pure) model on the later one.
for _p in ("C01", "C02", "C03", "C04", "C05", "C06", "C07", "C08", "C09", "C13", "C14", "C15", "C16", "C17", "C18", "C19"):
    PROPS[_p]["fams"] = PROPS[_p]["fams"] + [("fam_neighbours", 1, 3)]
for _p in ("C10", "C11", "C12", "C07", "C19", "C02"):
    PROPS[_p]["fams"] = PROPS[_p]["fams"] + [("fam_frag_neighbours", 1, 3)]
for _p in ("C04", "C05", "C17", "C03"):
    PROPS[_p]["fams"] = PROPS[_p]["fams"] + [("fam_signed_zero", 16, 200)]
for _p in ("C10", "C11", "C12", "C16"):
    PROPS[_p]["fams"] = PROPS[_p]["fams"] + [("fam_frag_numeric", 24, 400)]
PROPS["C15"]["fams"] = PROPS["C15"]["fams"] + [("fam_extreme_ts", 60, 1500)]
PROPS["C12"]["fams"] = PROPS["C12"]["fams"] + [("fam_reject_matrix", 120, 2000)]
for _p in ("C12", "C04", "C05"):
    PROPS[_p]["fams"] = PROPS[_p]["fams"] + [("fam_audio_defects", 1, 4)]
