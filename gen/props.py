"""Per-property tables and the check engine."""
import os, sys, json, re, time, subprocess, hashlib
from collections import Counter
from lib import *
import families as F
import mp4

COQ = os.path.join(VERIF, "coq")
RUN = os.path.join(BUILD, "run")

TRUSTED_BASE = [
    "Coq 8.16.1 kernel (coqc); vm_compute used for finite sweeps and witness lemmas; native_compute not used",
    "Axioms per theorem as printed by Print Assumptions (recorded in 'assumptions' below); allowlist is empty unless stated",
    "Hand-written Gallina model of muxide (coq/theories/Model): modelled, not verified; tied to /repo by the correspondence stage of this run",
    "Extraction: ExtrOcamlBasic only (bool/option/list/prod/unit/sumbool -> OCaml); no Extract Constant / Extract Inductive of our own",
    "Glue: ocaml/driver.ml, harness/src/main.rs, gen/*.py, bin/check (case language, hex printing, comparison, verdict)",
    "Transcribed standards (from memory; sandbox sealed): ISO/IEC 14496-12/-14/-15, AV1 5.5 + av1C, VP9 vpcC, Opus dOps, ADTS header, IEEE-754 binary64 as specified by Coq.Floats.SpecFloat, std::io::Write::write_all contract",
]

FORBIDDEN = re.compile(r"\b(Admitted|admit|Axiom|Parameter|Conjecture|Unset Guard|bypass_check|type-in-type|Admit Obligations)\b")


def known_findings():
    p = os.path.join(VERIF, "known_findings.json")
    if not os.path.exists(p):
        return []
    return json.load(open(p)).get("findings", [])


# ---------------------------------------------------------------- observations
def results_of(block):
    return [l for l in block if l.startswith("r ") or l.startswith("build")]


def sink_of(block):
    for l in block:
        if l.startswith("sink "):
            return unhx(l[5:])
    return b""


def classes_of(block):
    out = []
    for l in block:
        w = l.split(" ")
        if w[0] == "r":
            out.append(" ".join(w[1:3]) if w[1] == "err" else w[1])
        elif w[0] == "build":
            out.append(l)
    return out


def first_ok_fin(case, block):
    """index of first successful finish among result lines, else None"""
    if not block or block[0] != "build ok":
        return None
    rs = [l for l in block if l.startswith("r ")]
    ops = case.ops()
    for i, r in enumerate(rs):
        if i < len(ops) and ops[i][0] == "fin" and (r.startswith("r ok") or r.startswith("r stats")):
            return i
    return None


def obs_boxes(*names):
    def f(case, block):
        if case.kind != "mux":
            return block
        r = mp4.root(sink_of(block))
        if r is None:
            return ("unparsable", hashlib.sha1(sink_of(block)).hexdigest())
        out = []
        def walk(b, path):
            for k in b.kids:
                p = path + "/" + k.typ.hex()
                if k.typ in names:
                    out.append((p, k.payload.hex()))
                walk(k, p)
        walk(r, "")
        return (classes_of(block), out)
    return f


def obs_samples(case, block):
    if case.kind != "mux":
        return block
    buf = sink_of(block)
    r = mp4.root(buf)
    if r is None:
        return ("unparsable", hashlib.sha1(buf).hexdigest())
    out = []
    for trak in r.find(b"moov", b"trak"):
        rs = mp4.resolve_samples(buf, trak)
        t = mp4.track_tables(trak)
        out.append((rs, [buf[o:o + s].hex() for o, s in (rs or [])], t["stss"]))
    mdat = [(k.off, len(k.payload)) for k in r.kids if k.typ == b"mdat"]
    return (classes_of(block), out, mdat)


def obs_skeleton(case, block):
    if case.kind == "mux":
        r = mp4.root(sink_of(block))
        return (classes_of(block), None if r is None else r.skeleton())
    if case.kind == "frag":
        out = []
        for l in block:
            w = l.split(" ")
            if w[0] == "r" and w[1] in ("seg", "bytes") and len(w) > 2 and w[2] != "none":
                r = mp4.root(unhx(w[2]))
                out.append(None if r is None else r.skeleton())
            else:
                out.append(l)
        return out
    return block


def obs_all(case, block):
    return block


def obs_classes(case, block):
    return classes_of(block)


def obs_results(case, block):
    return [l for l in block if not l.startswith("sink ")] + [len(sink_of(block))]


def obs_panic(case, block):
    return [l for l in block if "panic" in l]


# ---------------------------------------------------------------- engine
class Engine:
    def __init__(self, pid, tier, seed):
        self.pid, self.tier, self.seed = pid, tier, seed
        self.P = PROPS[pid]
        self.rng = Rng(seed * 1000003 + hash_str(pid))
        self.ev = dict(evaluations=0, distinct_nontrivial=0, samples=[], dist=Counter())
        self.failures = []      # dicts: case, reason, detail
        self.known_hits = Counter()
        self.audit_info = {}
        self.corr = dict(cases=0, mismatches=0, touching=0, foreign=0)
        self.notes = []

    # ---------- proof stage
    def audit(self):
        pins = os.path.join(COQ, "pins", self.pid + ".v")
        names = []
        body = open(pins).read() if os.path.exists(pins) else ""
        for m in re.finditer(r"Check\s*\(\s*([A-Za-z0-9_']+)\s*:", body):
            names.append(m.group(1))
        os.makedirs(os.path.join(BUILD, "audit"), exist_ok=True)
        af = os.path.join(BUILD, "audit", self.pid + "_audit.v")
        with open(af, "w") as f:
            f.write("From Muxide Require Import Props.%s.\n" % self.pid)
            f.write(body + "\n")
            for n in names:
                f.write('Print Assumptions %s.\n' % n)
        p = subprocess.run(["coqc", "-noglob", "-Q", os.path.join(COQ, "theories"), "Muxide", af],
                           stdout=subprocess.PIPE, stderr=subprocess.STDOUT, timeout=900, cwd=os.path.join(BUILD, "audit"))
        out = p.stdout.decode()
        closed = out.count("Closed under the global context")
        axioms = []
        for m in re.finditer(r"Axioms:\n((?:.+\n)+?)(?=\S.*:|\Z)", out):
            pass
        # collect every axiom line printed after "Axioms:" headers
        inax = False
        for line in out.split("\n"):
            if line.startswith("Axioms:"):
                inax = True
                continue
            if inax:
                if line.startswith(" ") or line.startswith("\t") or line == "":
                    continue
                m = re.match(r"([A-Za-z0-9_.']+)\s*:", line)
                if m and not line.startswith("Closed"):
                    axioms.append(m.group(1))
                else:
                    inax = False
        allow = set(self.P.get("axiom_allow", []))
        bad_ax = [a for a in axioms if a not in allow]
        # forbidden tokens anywhere in the development
        bad_tok = []
        for root_, _, files in os.walk(os.path.join(COQ, "theories")):
            for fn in files:
                if fn.endswith(".v"):
                    txt = open(os.path.join(root_, fn)).read()
                    txt = re.sub(r"\(\*.*?\*\)", "", txt, flags=re.S)
                    for m in FORBIDDEN.finditer(txt):
                        bad_tok.append("%s:%s" % (fn, m.group(1)))
        ok = (p.returncode == 0) and not bad_ax and not bad_tok and len(names) > 0 and (closed + (1 if axioms else 0) >= 1)
        self.audit_info = dict(theorems=names, obligations=len(names),
                               discharged=len(names) if p.returncode == 0 else 0,
                               closed=closed, axioms=sorted(set(axioms)), bad_axioms=bad_ax, bad_tokens=bad_tok,
                               rc=p.returncode, tail=out[-600:] if p.returncode != 0 else "")
        return ok

    # ---------- cases
    def corpus(self):
        d = os.path.join(VERIF, "corpus", self.pid)
        out = []
        if os.path.isdir(d):
            for fn in sorted(os.listdir(d)):
                if fn.endswith(".case"):
                    out += parse_cases(open(os.path.join(d, fn)).read(), prefix="corpus_" + fn[:-5] + "_")
        return out

    def gen_cases(self):
        cases = self.corpus()
        for fam, q, t in self.P["fams"]:
            n = q if self.tier == "quick" else t
            fn = getattr(F, fam)
            cases += fn(self.rng.fork(fam), n, "%s_%s_" % (self.pid, fam))
        return cases

    # ---------- running
    def run_model(self, cases):
        b, fails = run_sharded(DRIVER, cases)
        if fails:
            self.notes.append("model driver shard failures: %r" % fails[:2])
        return b

    def run_impl(self, cases, release=False):
        b, fails = run_sharded(HARNESS_RELEASE if release else HARNESS_DEBUG, cases, timeout=600)
        for f in fails:
            for cid in f["missing"][:1]:
                # the first missing case of a crashed / timed-out shard is the culprit
                b[cid] = ["r timeout" if f["rc"] == -9 else "r crash rc=%s" % f["rc"]]
        return b

    def run_checks(self, cases, iblocks, tag="main"):
        os.makedirs(RUN, exist_ok=True)
        res = {}
        shards = 16
        parts = [cases[i::shards] for i in range(shards) if cases[i::shards]]
        from concurrent.futures import ThreadPoolExecutor
        def work(k_part):
            k, part = k_part
            path = os.path.join(RUN, "%s_%s_impl_%d.out" % (self.pid, tag, k))
            with open(path, "w") as f:
                for c in part:
                    f.write("case %s\n%s\nend\n" % (c.id, "\n".join(iblocks.get(c.id, []))))
            text = "".join(c.text() for c in part)
            p = subprocess.run([DRIVER, "check", path], input=text.encode(), stdout=subprocess.PIPE,
                               stderr=subprocess.PIPE, timeout=900)
            return p.stdout.decode()
        with ThreadPoolExecutor(max_workers=shards) as ex:
            for out in ex.map(work, list(enumerate(parts))):
                for l in out.split("\n"):
                    w = l.split(" ")
                    if w[0] == "chk":
                        res[w[1]] = {kv.split("=")[0]: kv.split("=")[1] == "1" for kv in w[2:] if "=" in kv}
        return res

    def fail(self, case, reason, detail=None):
        self.failures.append(dict(case=case, reason=reason, detail=detail))

    def run(self):
        P = self.P
        if not self.audit():
            print("proof stage failed for %s: %s" % (self.pid, json.dumps(self.audit_info)[:1500]))
            print("the Coq development itself does not check: this check is broken, no verdict")
            return 2
        cases = self.gen_cases()
        self.cases = cases
        mblocks = self.run_model(cases)
        iblocks = self.run_impl(cases)
        self.mblocks, self.iblocks = mblocks, iblocks
        self.ev["evaluations"] += len(cases)
        # correspondence
        obs = P.get("obs", obs_all)
        broken = []
        for c in cases:
            m, i = mblocks.get(c.id), iblocks.get(c.id)
            self.corr["cases"] += 1
            if m != i:
                self.corr["mismatches"] += 1
                try:
                    touch = obs(c, m or []) != obs(c, i or [])
                except Exception as e:
                    touch = True
                if touch:
                    self.corr["touching"] += 1
                    broken.append(c)
                else:
                    self.corr["foreign"] += 1
        # direct stage
        keys = P.get("checks", [])
        if keys:
            chk = self.run_checks(cases, iblocks)
            for c in cases:
                r = chk.get(c.id, {})
                for k in keys:
                    if k in r and not r[k]:
                        self.fail(c, "check_%s = false on the implementation's output" % k)
        if P.get("no_panic", True):
            for c in cases:
                for l in iblocks.get(c.id, []):
                    if self.pid == "C12" and ("panic" in l or "timeout" in l or "crash" in l):
                        self.fail(c, "implementation outcome: " + l[:80])
        if "extra" in P:
            P["extra"](self, cases)
        # non-triviality / distribution
        nt = P.get("nontrivial", lambda c, b: True)
        seen = set()
        for c in cases:
            b = iblocks.get(c.id, [])
            for l in classes_of(b) if c.kind != "fn" else []:
                self.ev["dist"][l] += 1
            try:
                if nt(c, b):
                    seen.add(hashlib.sha1(("\n".join(c.lines)).encode()).hexdigest())
            except Exception:
                pass
        self.ev["distinct_nontrivial"] += len(seen)
        for c in cases[:3]:
            self.ev["samples"].append(c.text()[:600])
        if self.tier == "thorough" and P.get("release", True):
            rb = self.run_impl(cases, release=True)
            for c in cases:
                if rb.get(c.id) != iblocks.get(c.id):
                    if obs(c, rb.get(c.id) or []) != obs(c, iblocks.get(c.id) or []):
                        broken.append(c)
                        self.notes.append("release build differs from debug build on %s" % c.id)
        return self.verdict(broken)

    # ---------- known findings
    def is_known(self, f):
        for kf in known_findings():
            if kf.get("property") != self.pid or kf.get("status") == "fixed":
                continue
            pred = KNOWN_CLASSES.get(kf.get("class"))
            try:
                if pred and pred(self, f):
                    self.known_hits[kf["id"]] += 1
                    return True
            except Exception:
                pass
        return False

    def verdict(self, broken):
        unknown = [f for f in self.failures if not self.is_known(f)]
        for kf in known_findings():
            if kf.get("property") == self.pid and kf.get("status") != "fixed":
                print("KNOWN-FINDING: property=%s %s [%s]" % (self.pid, kf["what_fails"], kf["id"]))
        self.violations = 0
        if unknown:
            f = self.shrink(unknown[0])
            path = self.write_replay(f, "failing-input")
            print("VIOLATION property=%s replay=%s" % (self.pid, path))
            self.violations = len(unknown)
            return 1
        if broken:
            # the theorem no longer transfers: look harder for a failing input
            found = self.search_harder(broken)
            if found:
                path = self.write_replay(found, "failing-input")
                print("VIOLATION property=%s replay=%s" % (self.pid, path))
            else:
                f = dict(case=broken[0], reason="correspondence broken on the property's observation; theorems about the model no longer transfer",
                         detail=dict(broken=self.P.get("components", []), theorems=self.audit_info.get("theorems", []),
                                     model=self.mblocks.get(broken[0].id, [])[:6], impl=self.iblocks.get(broken[0].id, [])[:6]))
                path = self.write_replay(f, "no-failing-input-found")
                print("VIOLATION property=%s replay=%s no-failing-input-found" % (self.pid, path))
            self.violations = len(broken)
            return 1
        return 0

    def search_harder(self, broken):
        """10x budget of the property's own families; first unknown failing input wins"""
        if not self.P.get("checks") and "extra" not in self.P:
            return None
        saved = self.failures
        self.failures = []
        cases = []
        for fam, q, t in self.P["fams"]:
            cases += getattr(F, fam)(self.rng.fork(fam + "_x"), 10 * q, "%s_x_%s_" % (self.pid, fam))
        ib = self.run_impl(cases)
        self.ev["evaluations"] += len(cases)
        if self.P.get("checks"):
            chk = self.run_checks(cases, ib, "x")
            for c in cases:
                for k in self.P["checks"]:
                    if k in chk.get(c.id, {}) and not chk[c.id][k]:
                        self.fail(c, "check_%s = false on the implementation's output" % k)
        if "extra" in self.P:
            old = (self.cases, self.iblocks)
            self.cases, self.iblocks = cases, ib
            self.P["extra"](self, cases)
            self.cases, self.iblocks = old
        unknown = [f for f in self.failures if not self.is_known(f)]
        self.failures = saved
        return self.shrink(unknown[0]) if unknown else None

    # ---------- shrinking (drop ops while the same kind of failure persists)
    def still_fails(self, case, reason):
        ib = self.run_impl([case])
        if self.P.get("checks"):
            chk = self.run_checks([case], ib, "shrink")
            for k in self.P["checks"]:
                if k in chk.get(case.id, {}) and not chk[case.id][k]:
                    return True
        if "extra" in self.P:
            saved = (self.failures, getattr(self, "cases", None), getattr(self, "iblocks", None))
            self.failures = []
            self.cases, self.iblocks = [case], ib
            try:
                self.P["extra"](self, [case])
                r = len(self.failures) > 0
            finally:
                self.failures, self.cases, self.iblocks = saved
            return r
        return False

    def shrink(self, f):
        case = f["case"]
        if case.kind == "fn" or self.P.get("no_shrink"):
            return f
        cur = case.clone(case.id + "_min")
        budget = 40
        changed = True
        while changed and budget > 0:
            changed = False
            idxs = [i for i, l in enumerate(cur.lines) if l.startswith("o ")]
            for i in reversed(idxs):
                if budget <= 0:
                    break
                cand = cur.clone()
                del cand.lines[i]
                budget -= 1
                try:
                    if self.still_fails(cand, f["reason"]):
                        cur = cand
                        changed = True
                except Exception:
                    pass
        g = dict(f)
        g["case"] = cur
        g["original_case_id"] = case.id
        return g

    def write_replay(self, f, kind):
        d = os.path.join(VERIF, "replays", self.pid)
        os.makedirs(d, exist_ok=True)
        n = len([x for x in os.listdir(d) if x.endswith(".json")])
        path = os.path.join(d, "%d.json" % n)
        c = f["case"]
        ib = self.run_impl([c]).get(c.id, [])
        mb = self.run_model([c]).get(c.id, [])
        json.dump(dict(property=self.pid, kind=kind, reason=f["reason"], detail=f.get("detail"),
                       case=c.text(), implementation=[l[:2000] for l in ib], model=[l[:2000] for l in mb],
                       seed=self.seed, tier=self.tier,
                       broken=self.P.get("components", []), theorems=self.audit_info.get("theorems", [])),
                  open(path, "w"), indent=1)
        return path

    def replay(self, path):
        if not self.audit():
            print("proof stage failed; check is broken"); return 2
        r = json.load(open(path))
        cases = parse_cases(r["case"])
        self.cases = cases
        mb, ib = self.run_model(cases), self.run_impl(cases)
        self.mblocks, self.iblocks = mb, ib
        bad = False
        if self.P.get("checks"):
            chk = self.run_checks(cases, ib, "replay")
            for c in cases:
                for k in self.P["checks"]:
                    if k in chk.get(c.id, {}) and not chk[c.id][k]:
                        print("check_%s false on %s" % (k, c.id)); bad = True
        if "extra" in self.P:
            self.P["extra"](self, cases)
            for f in self.failures:
                print("failure:", f["reason"]); bad = True
        obs = self.P.get("obs", obs_all)
        for c in cases:
            if mb.get(c.id) != ib.get(c.id) and obs(c, mb.get(c.id) or []) != obs(c, ib.get(c.id) or []):
                print("correspondence differs on", c.id); bad = True
        if bad:
            print("VIOLATION property=%s replay=%s" % (self.pid, path))
            return 1
        print("replay passes")
        return 0

    def write_evidence(self, wall):
        ai = self.audit_info
        cov = dict(
            obligations=ai.get("obligations", 0), discharged=ai.get("discharged", 0),
            checker_cmd="coqc (full .vo build via coq_makefile/make) + audit: Check <pinned statement> and Print Assumptions for " + ", ".join(ai.get("theorems", [])),
            trusted_base=TRUSTED_BASE,
            evaluations=self.ev["evaluations"], distinct_nontrivial=self.ev["distinct_nontrivial"],
            rule=self.P.get("rule", "cases come from the property's seeded families plus the committed corpus; distinct = distinct case text; non-trivial per property table"),
            samples=self.ev["samples"][:3] or ["(no cases)"],
            traces_validated_against_impl=self.corr["cases"],
            correspondence=self.corr, outcome_distribution=dict(self.ev["dist"].most_common(30)),
            theorems=ai.get("theorems", []), axioms_reported=ai.get("axioms", []),
            known_findings_hit=dict(self.known_hits), notes=self.notes[:20],
            exhaustive=False)
        ev = dict(property_id=self.pid, tier=self.tier if self.tier in ("quick", "thorough") else "quick",
                  seed=self.seed, level="proof", coverage=cov,
                  assumptions=TRUSTED_BASE + self.P.get("assumptions", []),
                  wall_s=round(wall, 2), violations=getattr(self, "violations", 0))
        json.dump(ev, open(os.path.join(VERIF, "evidence", self.pid + ".json"), "w"), indent=1)


def parse_cases(text, prefix=""):
    out, cur = [], None
    for line in text.split("\n"):
        w = line.split(" ")
        if w[0] == "case" and len(w) >= 4 and w[2] == "fn":
            c = Case(prefix + w[1], "fn")
            c.lines = w[3:]
            out.append(c)
        elif w[0] == "case" and len(w) >= 3:
            cur = Case(prefix + w[1], w[2])
        elif line == "end":
            if cur is not None:
                out.append(cur)
            cur = None
        elif cur is not None and line.strip():
            cur.lines.append(line)
    return out


# ---------------------------------------------------------------- differential extras
def without_rejected(case, block):
    """the same case with every rejected frame-writing call removed (per impl results)"""
    rs = [l for l in block if l.startswith("r ")]
    c = case.clone(case.id + "_wr")
    keep = []
    k = 0
    for l in case.lines:
        if l.startswith("o "):
            r = rs[k] if k < len(rs) else None
            k += 1
            if r is not None and r.startswith("r err") and not l.startswith("o fin") and not l.startswith("o ff"):
                continue
        keep.append(l)
    c.lines = keep
    return c


def extra_C05(eng, cases):
    alt = []
    for c in cases:
        b = eng.iblocks.get(c.id, [])
        if any(l.startswith("r err") for l in b) and not any("panic" in l for l in b):
            alt.append((c, without_rejected(c, b)))
    ib2 = eng.run_impl([a for _, a in alt])
    eng.ev["evaluations"] += len(alt)
    for c, a in alt:
        b1 = eng.iblocks.get(c.id, [])
        b2 = ib2.get(a.id, [])
        ops = [l for l in c.lines if l.startswith("o ")]
        rs = [l for l in b1 if l.startswith("r ")]
        kept = []
        for k, r in enumerate(rs):
            o = ops[k] if k < len(ops) else ""
            if r.startswith("r err") and not o.startswith("o fin") and not o.startswith("o ff"):
                continue
            kept.append(r)
        exp = [l for l in b1 if not l.startswith("r ")][:1] + kept + [l for l in b1 if l.startswith("sink")]
        if exp != b2:
            eng.fail(c, "removing the rejected calls changes later results, statistics or file bytes",
                     dict(with_rejected=[x[:200] for x in exp[:12]], without=[x[:200] for x in b2[:12]]))


def nt_finished(c, b):
    return first_ok_fin(c, b) is not None and len([l for l in b if l == "r ok"]) >= 2


def nt_has_err(c, b):
    return any(l.startswith("r err") for l in b) and any(l == "r ok" for l in b)


KNOWN_CLASSES = {}

PROPS = {
    "C01": dict(fams=[("fam_mux_av", 150, 3000), ("fam_mux_clean", 100, 2000), ("fam_mux_basic", 50, 1000)],
                checks=["C01"], obs=obs_samples, components=["K7", "K1", "K2"], nontrivial=nt_finished,
                rule="seeded A/V and video-only histories (B-frame GOPs, audio bursts, all codecs/layouts/metadata); non-trivial = a successful finish with >= 2 accepted frames; distinct by case text"),
    "C02": dict(fams=[("fam_mux_basic", 120, 2000), ("fam_mux_av", 80, 1500), ("fam_frag", 100, 2000)],
                checks=["C02"], obs=obs_skeleton, components=["K7", "K8"], nontrivial=lambda c, b: True),
    "C03": dict(fams=[("fam_mux_av", 150, 3000), ("fam_mux_clean", 100, 2000)],
                checks=["C03"], obs=obs_boxes(b"stts", b"ctts", b"mdhd"), components=["K7"], nontrivial=nt_finished),
    "C05": dict(fams=[("fam_mux_basic", 150, 3000), ("fam_contract", 150, 3000), ("fam_frag", 60, 1000)],
                checks=[], obs=obs_all, extra=extra_C05, components=["K7", "K8"], nontrivial=nt_has_err),
    "C14": dict(fams=[("fam_fn_annexb", 400, 20000)], checks=["C14"], obs=obs_all, components=["K1", "K2"],
                nontrivial=lambda c, b: True),
}
