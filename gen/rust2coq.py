"""A deliberately small Rust -> Gallina translator for STRAIGHT-LINE INTEGER FUNCTIONS of the crate
(`const`/`let` chains over u64 arithmetic, comparisons, if-expressions and `u64::from(bool)`), so that for
these functions the model is not only compared with the code on inputs but re-derived from the source text
on every run: coq/translated/Agree.v proves, by reflexivity, that the translation of today's source is the
model's definition.  A changed constant or operator breaks that proof even if no generated input reaches it.

Supported statements:  const NAME: T = INT;   let NAME = EXPR;   final expression (tuple) or a `let (a,b,c) = f(x);`
Supported expressions: integer literals (with _), identifiers, ( ), + - * / %, < <= > >= == !=, && ||, !,
                       if C { A } else { B }, u64::from(E), calls NAME(args) to other translated functions.
Anything else raises Unsupported (reported as a broken obligation, never silently skipped)."""
import re


class Unsupported(Exception):
    pass


def fn_body(src, name):
    m = re.search(r"fn\s+%s\s*\(([^)]*)\)\s*(->\s*[^{]+)?\{" % re.escape(name), src)
    if not m:
        raise Unsupported("function %s not found" % name)
    i = m.end()
    depth, j = 1, i
    while depth:
        if j >= len(src):
            raise Unsupported("unbalanced braces in %s" % name)
        if src[j] == "{":
            depth += 1
        elif src[j] == "}":
            depth -= 1
        j += 1
    params = [p.strip().split(":")[0].strip() for p in m.group(1).split(",") if p.strip()]
    return params, src[i:j - 1]


TOK = re.compile(r"\s*(?:(//[^\n]*)|(0x[0-9A-Fa-f_]+|\d[\d_]*)|([A-Za-z_][A-Za-z_0-9]*(?:::[A-Za-z_][A-Za-z_0-9]*)*)|(<<|>>|<=|>=|==|!=|&&|\|\||[-+*/%<>(){}\[\],;=!&|^.]))")


def tokens(text):
    out, i = [], 0
    text = text.strip()
    while i < len(text):
        m = TOK.match(text, i)
        if not m:
            raise Unsupported("cannot tokenise: %r" % text[i:i + 30])
        i = m.end()
        if m.group(1):
            continue
        out.append(m.group(2) or m.group(3) or m.group(4))
    return out


class P:
    def __init__(self, toks, funcs, bools=()):
        self.t, self.i, self.funcs, self.bools = toks, 0, funcs, set(bools)

    def peek(self):
        return self.t[self.i] if self.i < len(self.t) else None

    def eat(self, x=None):
        tok = self.peek()
        if tok is None or (x is not None and tok != x):
            raise Unsupported("expected %r, found %r" % (x, tok))
        self.i += 1
        return tok

    # precedence: || < && < comparison < +- < */% < unary < atom
    def expr(self):
        return self.or_()

    def or_(self):
        a = self.and_()
        while self.peek() == "||":
            self.eat(); b = self.and_(); a = ("bool", "(%s || %s)" % (self.b(a), self.b(b)))
        return a

    def and_(self):
        a = self.cmp()
        while self.peek() == "&&":
            self.eat(); b = self.cmp(); a = ("bool", "(%s && %s)" % (self.b(a), self.b(b)))
        return a

    def cmp(self):
        a = self.bitor()
        op = self.peek()
        if op in ("<", "<=", ">", ">=", "==", "!="):
            self.eat(); b = self.bitor()
            x, y = self.n(a), self.n(b)
            return ("bool", {"<": "(%s <? %s)", "<=": "(%s <=? %s)", ">": "(%s <? %s)" , ">=": "(%s <=? %s)",
                             "==": "(%s =? %s)", "!=": "(negb (%s =? %s))"}[op] % ((y, x) if op in (">", ">=") else (x, y)))
        return a

    def bitor(self):
        a = self.bitxor()
        while self.peek() == "|":
            self.eat(); b = self.bitxor(); a = ("num", "(N.lor %s %s)" % (self.n(a), self.n(b)))
        return a

    def bitxor(self):
        a = self.bitand()
        while self.peek() == "^":
            self.eat(); b = self.bitand(); a = ("num", "(N.lxor %s %s)" % (self.n(a), self.n(b)))
        return a

    def bitand(self):
        a = self.shift()
        while self.peek() == "&":
            self.eat(); b = self.shift(); a = ("num", "(N.land %s %s)" % (self.n(a), self.n(b)))
        return a

    def shift(self):
        a = self.add()
        while self.peek() in ("<<", ">>"):
            op = self.eat(); b = self.add()
            a = ("num", "(%s %s %s)" % ("N.shiftl" if op == "<<" else "N.shiftr", self.n(a), self.n(b)))
        return a

    def add(self):
        a = self.mul()
        while self.peek() in ("+", "-"):
            op = self.eat(); b = self.mul(); a = ("num", "(%s %s %s)" % (self.n(a), op, self.n(b)))
        return a

    def mul(self):
        a = self.unary()
        while self.peek() in ("*", "/", "%"):
            op = self.eat(); b = self.unary()
            a = ("num", "(%s %s %s)" % (self.n(a), {"*": "*", "/": "/", "%": "mod"}[op], self.n(b)))
        return a

    def unary(self):
        if self.peek() == "!":
            self.eat(); a = self.unary(); return ("bool", "(negb %s)" % self.b(a))
        a = self.atom()
        while self.peek() == ".":
            self.eat(); meth = self.eat()
            if meth != "saturating_sub":
                raise Unsupported("method .%s" % meth)
            self.eat("("); b = self.expr(); self.eat(")")
            a = ("num", "(%s - %s)" % (self.n(a), self.n(b)))       # N subtraction truncates at 0
        while self.peek() == "as":
            self.eat(); ty = self.eat()
            # only casts that cannot lose bits for the byte-sized operands of the translated expressions
            if ty not in ("u16", "u32", "u64", "u128", "usize"):
                raise Unsupported("narrowing or signed cast `as %s`" % ty)
        return a

    def atom(self):
        tok = self.eat()
        if re.fullmatch(r"0x[0-9A-Fa-f_]+", tok):
            return ("num", str(int(tok.replace("_", ""), 16)))
        if re.fullmatch(r"\d[\d_]*", tok):
            return ("num", tok.replace("_", ""))
        if tok == "(":
            a = self.expr(); self.eat(")"); return a
        if tok == "if":
            c = self.expr(); self.eat("{"); a = self.expr(); self.eat("}"); self.eat("else"); self.eat("{"); b = self.expr(); self.eat("}")
            if a[0] != b[0]:
                raise Unsupported("if branches of different kinds")
            return (a[0], "(if %s then %s else %s)" % (self.b(c), a[1], b[1]))
        if tok == "u64::MAX":
            return ("num", "18446744073709551615")
        if tok == "u64::try_from":
            self.eat("("); a = self.expr(); self.eat(")"); self.eat("."); m_ = self.eat()
            if m_ != "unwrap_or":
                raise Unsupported("u64::try_from(..).%s" % m_)
            self.eat("("); d = self.expr(); self.eat(")")
            if self.n(d) != "18446744073709551615":
                raise Unsupported("u64::try_from(..).unwrap_or(<not u64::MAX>)")
            return ("num", "(N.min %s 18446744073709551615)" % self.n(a))
        if tok == "u64::from":
            self.eat("("); a = self.expr(); self.eat(")")
            return ("num", "(if %s then 1 else 0)" % self.b(a)) if a[0] == "bool" else a
        if re.fullmatch(r"[A-Za-z_][A-Za-z_0-9]*", tok):
            if self.peek() == "(":
                if tok not in self.funcs:
                    raise Unsupported("call of untranslated function %s" % tok)
                self.eat("("); args = []
                while self.peek() != ")":
                    args.append(self.n(self.expr()))
                    if self.peek() == ",":
                        self.eat()
                self.eat(")")
                return ("num", "(%s %s)" % (self.funcs[tok], " ".join(args)))
            if self.peek() == "[":
                self.eat("["); k = self.eat(); self.eat("]")
                if not re.fullmatch(r"\d+", k):
                    raise Unsupported("non-constant index")
                return ("num", "%s%s" % (tok, k))          # frame[3] -> frame3
            return ("bool" if tok in self.bools else "num", tok)
        raise Unsupported("unsupported token %r" % tok)

    def n(self, a):
        if a[0] != "num":
            raise Unsupported("boolean used as a number")
        return a[1]

    def b(self, a):
        if a[0] != "bool":
            raise Unsupported("number used as a boolean")
        return a[1]


def translate(src, name, coq_name, funcs, result=None, stop_before=None):
    """-> Gallina text of `Definition coq_name params := let ... in result`.
    result: names (tuple) to return instead of the function's own tail expression;
    stop_before: ignore the body from the first statement starting with this text."""
    params, body = fn_body(src, name)
    body = re.sub(r"//[^\n]*", "", body)
    if stop_before and stop_before in body:
        body = body[:body.index(stop_before)]
    stmts = [s.strip() for s in body.split(";")]
    lets, tail = [], None
    for k, s in enumerate(stmts):
        if not s:
            continue
        m = re.match(r"const\s+([A-Za-z_0-9]+)\s*:\s*\w+\s*=\s*(.+)$", s, re.S)
        if m:
            lets.append((m.group(1), P(tokens(m.group(2)), funcs).expr())); continue
        m = re.match(r"let\s+\(([^)]*)\)\s*=\s*(.+)$", s, re.S)
        if m:
            names = [x.strip() for x in m.group(1).split(",")]
            lets.append(("'(" + ", ".join(names) + ")", P(tokens(m.group(2)), funcs).expr())); continue
        m = re.match(r"let\s+([A-Za-z_0-9]+)\s*=\s*(.+)$", s, re.S)
        if m:
            lets.append((m.group(1), P(tokens(m.group(2)), funcs).expr())); continue
        if k == len([x for x in stmts]) - 1 or all(not x for x in stmts[k + 1:]):
            tail = s; continue
        raise Unsupported("unsupported statement in %s: %r" % (name, s[:60]))
    if result is None:
        if tail is None:
            raise Unsupported("no tail expression in %s" % name)
        m = re.match(r"\((.*)\)$", tail.strip(), re.S)
        parts = [x.strip() for x in (m.group(1) if m else tail).split(",")]
        result = [P(tokens(x), funcs).expr()[1] for x in parts]
    out = "Definition %s %s :=\n" % (coq_name, " ".join("(%s : N)" % p for p in params))
    for n_, e in lets:
        out += "  let %s := %s in\n" % (n_, e[1])
    out += "  (%s).\n" % ", ".join(result)
    return out


BOOL_PARAMS = ("protection_absent",)


def translate_let(src, fn, var, coq_name, params, kind="num"):
    """the right-hand side of `let var[: T] = EXPR;` inside fn, as a Gallina definition over [params]"""
    _, body = fn_body(src, fn)
    body = re.sub(r"//[^\n]*", "", body)
    m = re.search(r"let\s+%s\s*(?::\s*\w+)?\s*=\s*(.+?);" % re.escape(var), body, re.S)
    if not m:
        raise Unsupported("`let %s` not found in %s" % (var, fn))
    e = P(tokens(m.group(1)), {}, bools=[p_ for p_ in params if p_ in BOOL_PARAMS]).expr()
    if e[0] != kind:
        raise Unsupported("`let %s` is not a %s expression" % (var, kind))
    used = set(re.findall(r"[A-Za-z_][A-Za-z_0-9]*", e[1])) - {"N", "lor", "land", "lxor", "shiftl", "shiftr", "mod", "if", "then", "else", "negb"}
    extra = sorted(u for u in used if u not in params and not u.startswith("N."))
    if extra:
        raise Unsupported("`let %s` in %s uses %s, not among the declared parameters %s" % (var, fn, extra, params))
    return "Definition %s %s := %s.\n" % (coq_name, " ".join("(%s : %s)" % (p_, "bool" if p_ in BOOL_PARAMS else "N") for p_ in params), e[1])


def translate_tail(src, fn, coq_name, params, kind="num"):
    """the final expression of fn (after its early-return guards), as a Gallina definition over [params]"""
    _, body = fn_body(src, fn)
    body = re.sub(r"//[^\n]*", "", body).strip()
    # the tail is what follows the last ';' or '}' at nesting depth 0
    depth, cut = 0, 0
    for k, ch in enumerate(body):
        if ch == "{":
            depth += 1
        elif ch == "}":
            depth -= 1
            if depth == 0:
                cut = k + 1
        elif ch == ";" and depth == 0:
            cut = k + 1
    tail = body[cut:].strip()
    if not tail:
        raise Unsupported("no tail expression in %s" % fn)
    e = P(tokens(tail), {}, bools=[p_ for p_ in params if p_ in BOOL_PARAMS]).expr()
    if e[0] != kind:
        raise Unsupported("tail of %s is not a %s expression" % (fn, kind))
    return "Definition %s %s := %s.\n" % (coq_name, " ".join("(%s : N)" % p_ for p_ in params), e[1])


# textual rewrites applied to a source file before translation (field paths -> parameter names)
REWRITES = {"src/fragmented.rs": [("self.config.timescale", "timescale")]}

TAILS = [
    ("src/codec/h265.rs", "hevc_nal_type", "hevc_nal_type_src", ["nal0"], "num"),
    ("src/fragmented.rs", "ticks_to_ms", "ticks_to_ms_tail_src", ["ms"], "num"),
]

LETS = [
    # (file, function, let-variable, Gallina name, parameters, kind)
    ("src/muxer/mp4.rs", "adts_to_raw", "syncword", "adts_syncword_src", ["frame0", "frame1"], "num"),
    ("src/muxer/mp4.rs", "adts_to_raw", "mpeg_version", "adts_mpeg_version_src", ["frame1"], "num"),
    ("src/muxer/mp4.rs", "adts_to_raw", "layer", "adts_layer_src", ["frame1"], "num"),
    ("src/muxer/mp4.rs", "adts_to_raw", "protection_absent", "adts_protection_absent_src", ["frame1"], "bool"),
    ("src/muxer/mp4.rs", "adts_to_raw", "header_len", "adts_header_len_src", ["protection_absent"], "num"),
    ("src/muxer/mp4.rs", "adts_to_raw", "sample_rate_idx", "adts_sample_rate_idx_src", ["frame2"], "num"),
    ("src/muxer/mp4.rs", "adts_to_raw", "channel_config", "adts_channel_config_src", ["frame2", "frame3"], "num"),
    ("src/muxer/mp4.rs", "adts_to_raw", "aac_frame_length", "adts_frame_length_src", ["frame3", "frame4", "frame5"], "num"),
    ("src/codec/opus.rs", "opus_frame_duration_from_toc", "config", "opus_config_src", ["toc"], "num"),
    ("src/codec/opus.rs", "opus_frame_count", "code", "opus_code_src", ["toc"], "num"),
    ("src/codec/opus.rs", "opus_frame_count", "count", "opus_count_src", ["frame_count_byte"], "num"),
    ("src/codec/opus.rs", "opus_frame_count", "is_vbr", "opus_is_vbr_src", ["frame_count_byte"], "bool"),
    ("src/muxer/mp4.rs", "encode_language_code", "packed", "language_packed_src", ["c1", "c2", "c3"], "num"),
    ("src/codec/h264.rs", "extract_avc_config", "nal_type", "h264_nal_type_src_a", ["nal0"], "num"),
    ("src/codec/h264.rs", "is_h264_keyframe", "nal_type", "h264_nal_type_src_b", ["nal0"], "num"),
    ("src/fragmented.rs", "ticks_to_ms", "ms", "ticks_to_ms_ms_src", ["ticks", "timescale"], "num"),
]


def generate(repo="/repo"):
    """-> (coq text, list of problems)"""
    problems = []
    src = open(repo + "/src/muxer/mp4.rs").read()
    text = "(* GENERATED on every run by gen/rust2coq.py from %s/src/muxer/mp4.rs: do not edit *)\nFrom Coq Require Import NArith List.\nOpen Scope N_scope.\n\n" % repo
    funcs = {}
    for name, coq, kw in (("days_to_ymd", "days_to_ymd_src", {}),
                          ("format_unix_timestamp", "unix_fields_src",
                           dict(result=["year", "month", "day", "hours", "minutes", "seconds"], stop_before="format!"))):
        try:
            text += translate(src, name, coq, funcs, **kw) + "\n"
            funcs[name] = coq
        except Unsupported as e:
            problems.append("%s: %s" % (name, e))
            text += "(* %s: NOT TRANSLATED: %s *)\n" % (name, e)
    cache = {}

    def load(f):
        if f not in cache:
            t_ = open(repo + "/" + f).read()
            for a_, b_ in REWRITES.get(f, []):
                t_ = t_.replace(a_, b_)
            cache[f] = t_
        return cache[f]

    for f, fn, coq, params, kind in TAILS:
        try:
            text += translate_tail(load(f), fn, coq, params, kind)
        except Unsupported as e:
            problems.append("%s %s (tail): %s" % (f, fn, e))
            text += "(* %s tail: NOT TRANSLATED: %s *)\n" % (fn, e)
    for f, fn, var, coq, params, kind in LETS:
        try:
            load(f)
            text += translate_let(cache[f], fn, var, coq, params, kind)
        except Unsupported as e:
            problems.append("%s %s.%s: %s" % (f, fn, var, e))
            text += "(* %s.%s: NOT TRANSLATED: %s *)\n" % (fn, var, e)
    return text, problems


if __name__ == "__main__":
    t, p = generate()
    print(t)
    print(p)
