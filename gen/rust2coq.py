"""A deliberately small Rust -> Gallina translator for STRAIGHT-LINE INTEGER FUNCTIONS of the crate
(`const`/`let` chains over u64 arithmetic, comparisons, if-expressions and `u64::from(bool)`), so that for
these functions the model is not only compared with the code on inputs but re-derived from the source text
on every run: coq/translated/Agree.v proves, by reflexivity, that the translation of today's source is the
model's definition.  A changed constant or operator breaks that proof even if no generated input reaches it.

Supported statements:  const NAME: T = INT;   let NAME = EXPR;   final expression (tuple) or a `let (a,b,c) = f(x);`
Supported expressions: integer literals (with _), identifiers, ( ), + - * / %, < <= > >= == !=, && ||, !,
                       if C { A } else { B }, u64::from(E), calls NAME(args) to other translated functions.
Anything else raises Unsupported (reported as a broken obligation, never silently skipped).

BYTE-BUILDER MODE (second half of this file, `class ByteBuilder`, table BUILDERS): the fixed-layout box builders
(`payload.extend_from_slice(&X.to_be_bytes()); ... build_box(b"mdhd", &payload)`) are translated statement by statement
into `<name>_src : ... -> list N`; the expression parser P runs in TYPED mode there (every integer carries the Rust type
written in the source; `<<`, narrowing `as` and `to_be_bytes()` take their width from that type, never from the model).
Since the second batch it also covers the sample tables with data-dependent loops (flat_map / fold_left), the container
boxes up to build_moov_box / build_moov_fmp4 in RECORD MODE (struct parameters are the model's records, table RECORDS)
and the media segment (trun .. moof + mdat); see the comment block before OPAQUE_FN."""
import re


class Unsupported(Exception):
    pass


def fn_body(src, name):
    m = re.search(r"fn\s+%s\s*\(([^)]*)\)\s*(->\s*[^{]+)?\{" % re.escape(name), src)
    if not m:
        raise Unsupported("function %s not found" % name)
    i = m.end()
    depth, j = 1, i
    while depth:
        if j >= len(src):
            raise Unsupported("unbalanced braces in %s" % name)
        if src[j] == "{":
            depth += 1
        elif src[j] == "}":
            depth -= 1
        j += 1
    params = [p.strip().split(":")[0].strip() for p in m.group(1).split(",") if p.strip()]
    return params, src[i:j - 1]


TOK = re.compile(r"""\s*(?:(//[^\n]*)|(b?"(?:[^"\\]|\\.)*")|(0x[0-9A-Fa-f_]+|\d[\d_]*)|([A-Za-z_][A-Za-z_0-9]*(?:::[A-Za-z_][A-Za-z_0-9]*)*)|(<<|>>|<=|>=|==|!=|&&|\|\||=>|->|\.\.|[-+*/%<>(){}\[\],;=!&|^.:#?]))""")

ESCAPES = {"0": 0, "n": 10, "r": 13, "t": 9, "\\": 92, '"': 34, "'": 39}


def string_codes(lit):
    """b"..." / "..." -> list of byte values (non-ASCII text in a plain string is rejected)"""
    body = lit[lit.index('"') + 1:-1]
    out, i = [], 0
    while i < len(body):
        c = body[i]
        if c == "\\":
            if i + 1 >= len(body):
                raise Unsupported("dangling escape in %s" % lit)
            e = body[i + 1]
            if e == "x":
                h = body[i + 2:i + 4]
                if not re.fullmatch(r"[0-9A-Fa-f]{2}", h):
                    raise Unsupported("bad \\x escape in %s" % lit)
                out.append(int(h, 16)); i += 4; continue
            if e not in ESCAPES:
                raise Unsupported("escape \\%s in %s" % (e, lit))
            out.append(ESCAPES[e]); i += 2; continue
        if ord(c) > 127:
            raise Unsupported("non-ASCII character in %s" % lit)
        out.append(ord(c)); i += 1
    return out


def tokens(text):
    """-> list of tokens; a string literal becomes the tuple ("bstr" | "str", [byte values])"""
    out, i = [], 0
    text = text.strip()
    while i < len(text):
        m = TOK.match(text, i)
        if not m:
            raise Unsupported("cannot tokenise: %r" % text[i:i + 30])
        i = m.end()
        if m.group(1):
            continue
        if m.group(2):
            out.append(("bstr" if m.group(2).startswith("b") else "str", tuple(string_codes(m.group(2)))))
            continue
        out.append(m.group(3) or m.group(4) or m.group(5))
    return out


# ---- typed results -------------------------------------------------------------------------------------
INT_BITS = {"u8": 8, "u16": 16, "u32": 32, "u64": 64, "usize": 64, "u128": 128}
SIGNED = ("i8", "i16", "i32", "i64", "i128", "isize")
SIGNED_BITS = {"i8": 8, "i16": 16, "i32": 32, "i64": 64, "i128": 128, "isize": 64}
WRAPFN = {"u8": "u8", "u16": "u16", "u32": "u32", "u64": "u64"}      # the model's `as uN` helpers (Model/Base.v)
BE = {"u16": "be16", "u32": "be32", "u64": "be64"}                     # the model's big-endian encoders
MARK = "?WIDTH?"      # placeholder for a wrap whose width is not known yet (resolved by re-parsing with a type)


class R(tuple):
    """(kind, text) as before, plus .ty (Rust integer type or None) and .elems (array elements).
    kinds: "num", "bool" (as before); typed mode adds "bytes", "array", "struct"."""
    def __new__(cls, kind, text, ty=None, elems=None, info=None):
        o = tuple.__new__(cls, (kind, text))
        o.ty, o.elems, o.info = ty, elems, info
        return o


def ty_of(a):
    return getattr(a, "ty", None)


class P:
    """Expression parser.  env=None: the original untyped integer mode (output unchanged).
    env=<ByteBuilder>: typed mode, used by the byte-builder translation: every integer carries the Rust type it has
    in the source, `<<` and narrowing `as` emit the model's wrap helper of THAT type, `.to_be_bytes()` picks
    be16/be32/be64 from THAT type, and byte-valued forms (b"..", [x; n], [a, b], &v, builder calls) are accepted."""
    def __init__(self, toks, funcs, bools=(), env=None):
        self.t, self.i, self.funcs, self.bools = toks, 0, funcs, set(bools)
        self.env = env
        self.typed = env is not None

    def peek(self, k=0):
        return self.t[self.i + k] if self.i + k < len(self.t) else None

    def eat(self, x=None):
        tok = self.peek()
        if tok is None or (x is not None and tok != x):
            raise Unsupported("expected %r, found %r" % (x, tok))
        self.i += 1
        return tok

    def done(self):
        return self.i >= len(self.t)

    # precedence: || < && < comparison < | < ^ < & < shift < +- < */% < unary < atom
    def expr(self, ex=None):
        return self.or_(ex)

    def or_(self, ex=None):
        a = self.and_(ex)
        while self.peek() == "||":
            self.eat(); b = self.and_(); a = R("bool", "(%s || %s)" % (self.b(a), self.b(b)))
        return a

    def and_(self, ex=None):
        a = self.cmp(ex)
        while self.peek() == "&&":
            self.eat(); b = self.cmp(); a = R("bool", "(%s && %s)" % (self.b(a), self.b(b)))
        return a

    def cmp(self, ex=None):
        a = self.bitor(ex)
        op = self.peek()
        if op in ("<", "<=", ">", ">=", "==", "!="):
            self.eat(); b = self.bitor(ty_of(a))
            if a[0] == "dyn" and a.info[0] == "sint":
                if b[0] != "dyn" or b.info != a.info or op not in ("==", "!="):
                    raise Unsupported("comparison `%s` between %s and %s" % (op, a[1], b[1]))
                return R("bool", ("(%s =? %s)%%Z" if op == "==" else "(negb (%s =? %s)%%Z)") % (a[1], b[1]))
            x, y = self.n(a), self.n(b)
            return R("bool", {"<": "(%s <? %s)", "<=": "(%s <=? %s)", ">": "(%s <? %s)" , ">=": "(%s <=? %s)",
                              "==": "(%s =? %s)", "!=": "(negb (%s =? %s))"}[op] % ((y, x) if op in (">", ">=") else (x, y)))
        return a

    def chain(self, sub, ops, mk, ex):
        """left-associative `x op x op x`; in typed mode operands whose type is not known from their own text
        (untyped literals, locals without annotation) are re-parsed with the type of their siblings"""
        spans, items, opers = [], [], []
        s = self.i; items.append(sub(ex)); spans.append((s, self.i))
        while self.peek() in ops:
            opers.append(self.eat()); s = self.i; items.append(sub(ex)); spans.append((s, self.i))
        if len(items) == 1:
            return items[0]
        T = None
        if self.typed:
            T = ex or next((ty_of(x) for x in items if x[0] == "num" and ty_of(x)), None)
            if T:
                for k, x in enumerate(items):
                    if x[0] == "num" and (ty_of(x) is None or MARK in x[1]):
                        save = self.i; self.i = spans[k][0]; y = sub(T)
                        if self.i != spans[k][1]:
                            raise Unsupported("internal: re-parse of an operand did not end where it did before")
                        self.i = save; items[k] = y
        a = items[0]
        for op, b in zip(opers, items[1:]):
            a = mk(op, a, b, T)
        return a

    def bitor(self, ex=None):
        return self.chain(self.bitxor, ("|",), lambda op, a, b, T: R("num", "(N.lor %s %s)" % (self.n(a), self.n(b)), T or ty_of(a) or ty_of(b)), ex)

    def bitxor(self, ex=None):
        return self.chain(self.bitand, ("^",), lambda op, a, b, T: R("num", "(N.lxor %s %s)" % (self.n(a), self.n(b)), T or ty_of(a) or ty_of(b)), ex)

    def bitand(self, ex=None):
        return self.chain(self.shift, ("&",), lambda op, a, b, T: R("num", "(N.land %s %s)" % (self.n(a), self.n(b)), T or ty_of(a) or ty_of(b)), ex)

    def shift(self, ex=None):
        a = self.add(ex)
        while self.peek() in ("<<", ">>"):
            op = self.eat(); b = self.add()
            if not self.typed:
                a = R("num", "(%s %s %s)" % ("N.shiftl" if op == "<<" else "N.shiftr", self.n(a), self.n(b)))
            elif op == ">>":
                a = R("num", "(N.shiftr %s %s)" % (self.n(a), self.n(b)), ty_of(a))
            else:
                ty = ty_of(a)
                if ty is not None and ty not in WRAPFN:
                    raise Unsupported("`<<` on a value of type %s" % ty)
                if ty is not None and re.fullmatch(r"\d+", self.n(b)) and int(self.n(b)) >= INT_BITS[ty]:
                    raise Unsupported("shift by %s on a %s" % (self.n(b), ty))
                # Rust's `<<` on uN drops the bits shifted out: wrap explicitly at the SOURCE type's width
                a = R("num", "(%s (N.shiftl %s %s))" % (WRAPFN[ty] if ty else MARK, self.n(a), self.n(b)), ty)
        return a

    def arith(self, op, a, b, T):
        ty = T or ty_of(a) or ty_of(b)
        if self.typed and op in ("+", "-", "*") and not (ty == "usize" and op != "-"):
            if ty not in INT_BITS or MARK in a[1] or MARK in b[1]:
                raise Unsupported("`%s` on %s may overflow: not supported in a byte builder" % (op, ty or "an untyped integer"))
            if op == "-":
                # N subtraction (truncated at 0) is the exact value under the recorded precondition b <= a
                self.env.add_pre("(%s <=? %s)" % (self.n(b), self.n(a)),
                                 "precondition (with overflow checks the source panics otherwise; without, it wraps): %s <= %s" % (self.n(b), self.n(a)))
                return R("num", "(%s - %s)" % (self.n(a), self.n(b)), ty)
            # the exact (unbounded) value; that it fits the type is a recorded precondition of <name>_src_pre
            self.env.add_pre("(%s %s %s <=? %d)" % (self.n(a), op, self.n(b), 2 ** INT_BITS[ty] - 1),
                             "precondition (with overflow checks the source panics otherwise; without, it wraps): %s %s %s fits %s" % (self.n(a), op, self.n(b), ty))
        return R("num", "(%s %s %s)" % (self.n(a), {"+": "+", "-": "-", "*": "*", "/": "/", "%": "mod"}[op], self.n(b)), ty)

    def add(self, ex=None):
        return self.chain(self.mul, ("+", "-"), self.arith, ex)

    def mul(self, ex=None):
        return self.chain(self.unary, ("*", "/", "%"), self.arith, ex)

    def unary(self, ex=None):
        if self.peek() == "!":
            self.eat(); a = self.unary(); return R("bool", "(negb %s)" % self.b(a))
        if self.typed and self.peek() == "&":
            self.eat()
            if self.peek() == "mut":
                raise Unsupported("&mut borrow")
            return self.unary(ex)                                # a shared borrow denotes the same bytes / value
        if self.typed and ex is not None:
            # `E as T`: the type expected of the whole cast says nothing about E; parse the operand without it
            start, mark, nn = self.i, self.env.pre_mark(), len(self.env.notes)
            r = self.unary_(ex)
            if r is not None:
                return r
            self.i = start
            del self.env.notes[nn:]
            if mark is not None and self.env.pre is not None:
                del self.env.pre[mark:]
            return self.unary_(None)
        return self.unary_(ex)

    def unary_(self, ex):
        """atom, postfix operations, casts; with an expected type, None when a cast follows (see unary)"""
        a = self.atom(ex)
        while self.peek() == "." or (self.typed and self.peek() == "[" and (a[0] == "bytes" or (a[0] == "dyn" and a.info[0] == "list"))):
            if self.peek() == "[" and a[0] == "dyn":
                self.eat(); k = self.expr("usize"); self.eat("]")
                if k[0] != "num" or ty_of(k) != "usize" or MARK in k[1]:
                    raise Unsupported("index that is not a usize")
                self.env.add_pre("(%s <? len %s)" % (k[1], a[1]), "precondition (the source panics otherwise): index %s of %s is in bounds" % (k[1], a[1]))
                a = self.env.wrapv(a.info[1], "(nth (N.to_nat %s) %s %s)" % (k[1], a[1], self.env.default_term(a.info[1])))
                continue
            if self.eat() == "[":
                k = self.eat(); self.eat("]")
                if not (isinstance(k, str) and re.fullmatch(r"\d+", k)):
                    raise Unsupported("non-constant index")
                self.env.notes.append("precondition (the source panics otherwise): index %s of %s is in bounds" % (k, a[1]))
                a = R("num", "(nth %s%%nat %s 0)" % (k, a[1]), "u8")
                continue
            meth = self.eat()
            if not isinstance(meth, str):
                raise Unsupported("`.` followed by %r" % (meth,))
            if self.typed:
                a = self.postfix(a, meth)
                continue
            if meth != "saturating_sub":
                raise Unsupported("method .%s" % meth)
            self.eat("("); b = self.expr(); self.eat(")")
            a = R("num", "(%s - %s)" % (self.n(a), self.n(b)))       # N subtraction truncates at 0
        if self.typed and ex is not None and self.peek() == "as":
            return None
        while self.peek() == "as":
            self.eat(); ty = self.eat()
            if not self.typed:
                # only casts that cannot lose bits for the byte-sized operands of the translated expressions
                if ty not in ("u16", "u32", "u64", "u128", "usize"):
                    raise Unsupported("narrowing or signed cast `as %s`" % ty)
                continue
            if ty == "i32" and a[0] == "num" and ty_of(a) in ("u32", "u64", "usize") and MARK not in a[1]:
                # the low 32 bits read as two's complement (Model/Base.v i32_of_bits)
                a = R("dyn", "(i32_of_bits (u32 %s))" % a[1], info=("sint", "i32"))
                continue
            if ty not in INT_BITS:
                raise Unsupported("cast `as %s`" % (ty,))
            src = ty_of(a)
            if src is not None and INT_BITS[src] <= INT_BITS[ty] and MARK not in a[1]:
                a = R("num", self.n(a), ty)                                        # widening: value unchanged
            elif ty in WRAPFN:
                a = R("num", "(%s %s)" % (WRAPFN[ty], self.n(a).replace(MARK, WRAPFN[ty])), ty)   # `as uN` keeps the low N bits
            else:
                raise Unsupported("narrowing cast `as %s`" % ty)
        return a

    def postfix(self, a, meth):
        """typed mode: `a.meth` / `a.meth(..)`"""
        if a[0] == "struct":
            if self.peek() == "(":
                self.eat("("); self.eat(")")
                return self.env.struct_method(a, meth)
            return self.env.field(a, meth)
        if a[0] == "structval":
            if self.peek() == "(":
                return self.env.struct_update(a, meth, self)
            if meth not in a.info:
                raise Unsupported("struct %s has no field %s" % (a[1], meth))
            return a.info[meth]
        if a[0] == "dyn":
            return self.env.dyn_method(a, meth, self)
        if a[0] == "optstr" and meth == "as_deref":      # Option<String> -> Option<&str>: the same bytes
            self.eat("("); self.eat(")")
            return a
        if a[0] == "bytes" and meth in ("as_bytes", "as_str", "iter", "as_slice", "clone", "to_vec"):
            self.eat("("); self.eat(")")
            return a
        if a[0] == "bytes" and meth == "is_empty":
            self.eat("("); self.eat(")")
            return R("bool", "(len %s =? 0)" % a[1])
        if a[0] == "optstr":                             # Option<&str> parameter: option (list N), UTF-8 bytes
            if meth != "unwrap_or":
                raise Unsupported("method .%s on an Option<&str>" % meth)
            self.eat("("); d = self.expr(); self.eat(")")
            return R("bytes", "(match %s with Some s_ => s_ | None => %s end)" % (a[1], self.bytes_of(d)))
        if a[0] == "option":
            if meth != "unwrap_or":
                raise Unsupported("method .%s on an Option" % meth)
            self.eat("("); d = self.expr(a.ty if a.ty in INT_BITS else None); self.eat(")")
            return d if a.info is None else a.info          # the Option is known statically: None -> the default
        if self.peek() != "(":
            raise Unsupported("field .%s of a %s" % (meth, a[0]))
        self.eat("(")
        if meth == "to_be_bytes":
            self.eat(")")
            ty = ty_of(a)
            if a[0] != "num" or MARK in a[1]:
                raise Unsupported("to_be_bytes() on %s" % (a[1] if a[0] != "array" else "an array"))
            if ty in SIGNED_BITS:
                # two's complement of a NON-NEGATIVE literal is the literal itself; anything else signed is rejected
                if not re.fullmatch(r"\d+", a[1]) or SIGNED_BITS[ty] not in (16, 32, 64):
                    raise Unsupported("to_be_bytes() on a signed %s that is not a non-negative literal" % ty)
                return R("bytes", "(be%d %s)" % (SIGNED_BITS[ty], a[1]))
            if ty == "u8":
                return R("bytes", "[%s]" % a[1])
            if ty not in BE:
                raise Unsupported("cannot tell the width of `%s.to_be_bytes()` from the source (type %s)" % (a[1], ty))
            return R("bytes", "(%s %s)" % (BE[ty], a[1]))
        if meth == "len":
            self.eat(")")
            return R("num", "(len %s)" % self.bytes_of(a), "usize")
        if meth == "get" and a[0] == "bytes":
            # v.get(K).copied().unwrap_or(D): the K-th byte, D when there is none
            k = self.eat(); self.eat(")")
            if not (isinstance(k, str) and re.fullmatch(r"\d+", k)):
                raise Unsupported("non-constant index in .get()")
            if self.peek(1) == "map":
                for t in (".", "map", "(", "|"):
                    self.eat(t)
                v = self.eat(); self.eat("|")
                if not isinstance(v, str) or not re.fullmatch(r"[a-z_][A-Za-z_0-9]*", v):
                    raise Unsupported("closure parameter %r" % (v,))
                body = self.env.with_bound({v: ("val", R("num", coq_ident(v), "u8"))}, lambda: self.expr())
                self.eat(")")
                for t in (".", "unwrap_or", "("):
                    self.eat(t)
                d = self.expr(ty_of(body) if body[0] == "num" else None); self.eat(")")
                if body[0] != d[0] or body[0] not in ("num", "bool") or MARK in body[1] or MARK in d[1]:
                    raise Unsupported(".get(%s).map(..).unwrap_or(..) of kinds %s / %s" % (k, body[0], d[0]))
                return R(body[0], "(match nth_error %s %s%%nat with Some %s => %s | None => %s end)" % (a[1], k, coq_ident(v), body[1], d[1]), ty_of(body))
            for t in (".", "copied", "(", ")", ".", "unwrap_or", "("):
                self.eat(t)
            d = self.expr("u8"); self.eat(")")
            return R("num", "(nth %s%%nat %s %s)" % (k, a[1], self.n(d)), "u8")
        if meth in ("min", "max"):
            b = self.expr(ty_of(a)); self.eat(")")
            if ty_of(a) is None and ty_of(b) is not None:
                raise Unsupported(".%s on an untyped integer" % meth)
            return R("num", "(N.%s %s %s)" % (meth, self.n(a), self.n(b)), ty_of(a))
        if meth == "saturating_sub":
            b = self.expr(ty_of(a)); self.eat(")")
            return R("num", "(%s - %s)" % (self.n(a), self.n(b)), ty_of(a))
        if meth == "wrapping_sub":
            b = self.expr(ty_of(a)); self.eat(")")
            if ty_of(a) not in WRAPFN or ty_of(b) != ty_of(a) or MARK in a[1] or MARK in b[1]:
                raise Unsupported(".wrapping_sub on %s / %s" % (ty_of(a), ty_of(b)))
            # the difference modulo 2^bits, computed in Z
            return R("num", "(Z.to_N ((Z.of_N %s - Z.of_N %s) mod %d)%%Z)" % (self.n(a), self.n(b), 2 ** INT_BITS[ty_of(a)]), ty_of(a))
        raise Unsupported("method .%s" % meth)

    def bytes_of(self, a):
        """typed mode: the Gallina list for a byte-valued result"""
        if a[0] == "bytes":
            return a[1]
        if a[0] == "array":
            if a.ty not in (None, "u8"):
                raise Unsupported("array of %s used as bytes" % a.ty)
            for e in a.elems:
                if MARK in e[1]:
                    raise Unsupported("byte expression of unknown width: %s" % e[1])
            return "[%s]" % "; ".join(self.n(e) for e in a.elems)
        raise Unsupported("expected bytes, found %s %s" % (a[0], a[1]))

    def literal(self, value, ex):
        ty = ex
        if self.peek() in INT_BITS or self.peek() in SIGNED_BITS:
            ty = self.eat()                                       # suffix: 0u32, 0x0048_0000_u32
        if ty in INT_BITS and value >= 2 ** INT_BITS[ty]:
            raise Unsupported("literal %d does not fit %s" % (value, ty))
        if ty in SIGNED_BITS and value >= 2 ** (SIGNED_BITS[ty] - 1):
            raise Unsupported("literal %d does not fit %s" % (value, ty))
        return R("num", str(value), ty)       # a signed type is kept only on a non-negative literal (see to_be_bytes)

    def array(self, ex):
        """after `[`: `e; N]` or `e, e, ...]`"""
        ex = ex if ex in INT_BITS else None
        spans, items = [], []
        if self.peek() == "]":
            self.eat(); return R("array", None, ex, [])
        s = self.i; items.append(self.expr(ex)); spans.append((s, self.i))
        if self.peek() == ";":
            self.eat(); n = self.eat(); self.eat("]")
            if not (isinstance(n, str) and re.fullmatch(r"\d+", n)) or int(n) > 4096:
                raise Unsupported("array repeat count %r" % (n,))
            return R("array", None, ty_of(items[0]), [items[0]] * int(n))
        while self.peek() == ",":
            self.eat()
            if self.peek() == "]":
                break
            s = self.i; items.append(self.expr(ex)); spans.append((s, self.i))
        self.eat("]")
        T = ex or next((ty_of(x) for x in items if ty_of(x)), None)
        if T:
            for k, x in enumerate(items):
                if x[0] == "num" and (ty_of(x) is None or MARK in x[1]):
                    save = self.i; self.i = spans[k][0]; items[k] = self.expr(T); self.i = save
        for x in items:
            self.n(x)
            if T and ty_of(x) not in (None, T):
                raise Unsupported("array elements of types %s and %s" % (T, ty_of(x)))
        return R("array", None, T, items)

    def atom(self, ex=None):
        tok = self.eat()
        if not isinstance(tok, str):
            if self.typed:                               # b"...": the bytes; "...": its UTF-8 bytes (ASCII only)
                return R("bytes", "[%s]" % "; ".join(str(c) for c in tok[1]))
            raise Unsupported("string literal")
        if re.fullmatch(r"0x[0-9A-Fa-f_]+", tok):
            if self.typed:
                return self.literal(int(tok.replace("_", ""), 16), ex)
            return R("num", str(int(tok.replace("_", ""), 16)))
        if re.fullmatch(r"\d[\d_]*", tok):
            if self.typed:
                return self.literal(int(tok.replace("_", "")), ex)
            return R("num", tok.replace("_", ""))
        if tok == "(":
            a = self.expr(ex); self.eat(")"); return a
        if tok == "if":
            c = self.expr(); self.eat("{"); s = self.i
            g0 = self.env.pre_mark() if self.typed else None
            a = self.expr(ex); e_ = self.i; self.eat("}")
            if self.typed:
                self.env.pre_guard(g0, "negb %s" % self.b(c))
            g1 = self.env.pre_mark() if self.typed else None
            self.eat("else")
            if self.typed and self.peek() == "if":
                b = self.atom(ex or ty_of(a))                 # else if ..: the nested conditional
            else:
                self.eat("{"); b = self.expr(ex or ty_of(a)); self.eat("}")
            if self.typed:
                self.env.pre_guard(g1, self.b(c))
            if self.typed and a[0] in ("bytes", "array") and b[0] in ("bytes", "array"):
                return R("bytes", "(if %s then %s else %s)" % (self.b(c), self.bytes_of(a), self.bytes_of(b)))
            if a[0] != b[0]:
                raise Unsupported("if branches of different kinds")
            if self.typed and a[0] == "num" and ty_of(a) is None and ty_of(b) is not None:
                save = self.i; self.i = s; a = self.expr(ty_of(b)); self.i = save
            if a[0] not in ("num", "bool"):
                raise Unsupported("if expression of kind %s" % a[0])
            return R(a[0], "(if %s then %s else %s)" % (self.b(c), a[1], b[1]), ty_of(a) or ty_of(b))
        if self.typed and tok == "[":
            return self.array(ex)
        if self.typed and tok == "vec" and self.peek() == "!" and self.peek(1) == "[":
            self.eat(); self.eat()
            a = self.array("u8" if ex is None else ex)
            return R("bytes", self.bytes_of(a))
        if self.typed and tok == "match":
            return self.match_(ex)
        if self.typed and tok in ("true", "false"):
            return R("bool", tok)
        if self.typed and tok == "{":
            a = self.expr(ex); self.eat("}")                 # a block that is a single expression
            return a
        if self.typed and self.env.rec and self.peek() == "{" and isinstance(tok, str) and tok.split("::")[-1] in self.env.ctx.structs \
                and re.fullmatch(r"(?:[a-z_0-9]+::)*[A-Z][A-Za-z0-9_]*", tok):
            return self.env.struct_literal(tok.split("::")[-1], self)
        if tok == "u64::MAX":
            return R("num", "18446744073709551615", "u64")
        if self.typed and tok in ("u8::MAX", "u16::MAX", "u32::MAX"):
            return R("num", str(2 ** INT_BITS[tok[:-5]] - 1), tok[:-5])
        if tok == "u64::try_from":
            self.eat("("); a = self.expr(); self.eat(")"); self.eat("."); m_ = self.eat()
            if m_ != "unwrap_or":
                raise Unsupported("u64::try_from(..).%s" % m_)
            self.eat("("); d = self.expr(); self.eat(")")
            if self.n(d) != "18446744073709551615":
                raise Unsupported("u64::try_from(..).unwrap_or(<not u64::MAX>)")
            return R("num", "(N.min %s 18446744073709551615)" % self.n(a), "u64")
        if tok == "u64::from":
            self.eat("("); a = self.expr(); self.eat(")")
            return R("num", "(if %s then 1 else 0)" % self.b(a), "u64") if a[0] == "bool" else a
        if self.typed and re.fullmatch(r"[A-Za-z_][A-Za-z_0-9]*(::[A-Za-z_][A-Za-z_0-9]*)*", tok):
            if self.peek() == "(":
                return self.env.call(tok, self, ex)
            return self.env.ident(tok, ex)
        if re.fullmatch(r"[A-Za-z_][A-Za-z_0-9]*", tok):
            if self.peek() == "(":
                if tok not in self.funcs:
                    raise Unsupported("call of untranslated function %s" % tok)
                self.eat("("); args = []
                while self.peek() != ")":
                    args.append(self.n(self.expr()))
                    if self.peek() == ",":
                        self.eat()
                self.eat(")")
                return R("num", "(%s %s)" % (self.funcs[tok], " ".join(args)))
            if self.peek() == "[":
                self.eat("["); k = self.eat(); self.eat("]")
                if not re.fullmatch(r"\d+", k):
                    raise Unsupported("non-constant index")
                return R("num", "%s%s" % (tok, k))          # frame[3] -> frame3
            return R("bool" if tok in self.bools else "num", tok)
        raise Unsupported("unsupported token %r" % tok)

    def match_(self, ex):
        """match X { INT => E, ..., _ => E }  ->  if X =? INT then E else ... else E"""
        x = self.expr()
        if x[0] == "dyn" and x.info[0] == "enum":
            return self.env.match_enum(x, self, ex)
        self.eat("{")
        arms, default = [], None
        while self.peek() != "}":
            pat = self.eat()
            if pat == "_":
                self.eat("=>"); default = (self.i, self.expr(ex))
            elif isinstance(pat, str) and re.fullmatch(r"0x[0-9A-Fa-f_]+|\d[\d_]*", pat):
                v = int(pat.replace("_", ""), 0) if pat.startswith("0x") else int(pat.replace("_", ""))
                self.eat("=>"); arms.append((v, self.i, self.expr(ex)))
            else:
                raise Unsupported("match pattern %r" % (pat,))
            if self.peek() == ",":
                self.eat()
            elif self.peek() != "}":
                raise Unsupported("match arm not followed by `,`")
            if default is not None and self.peek() != "}":
                raise Unsupported("match arm after `_`")
        self.eat("}")
        if default is None:
            raise Unsupported("match without `_` arm")
        results = [a[2] for a in arms] + [default[1]]
        T = ex or next((ty_of(r) for r in results if ty_of(r)), None)
        if T and any(ty_of(r) is None for r in results):
            save = self.i
            for k, (v, pos, r) in enumerate(arms):
                self.i = pos; arms[k] = (v, pos, self.expr(T))
            self.i = default[0]; default = (default[0], self.expr(T))
            self.i = save
        out = self.n(default[1])
        for v, _, r in reversed(arms):
            out = "(if %s =? %d then %s else %s)" % (self.n(x), v, self.n(r), out)
        return R("num", out, T)

    def n(self, a):
        if a[0] != "num":
            raise Unsupported("%s used as a number" % ("boolean" if a[0] == "bool" else a[0]))
        return a[1]

    def b(self, a):
        if a[0] != "bool":
            raise Unsupported("%s used as a boolean" % ("number" if a[0] == "num" else a[0]))
        return a[1]


def translate(src, name, coq_name, funcs, result=None, stop_before=None):
    """-> Gallina text of `Definition coq_name params := let ... in result`.
    result: names (tuple) to return instead of the function's own tail expression;
    stop_before: ignore the body from the first statement starting with this text."""
    params, body = fn_body(src, name)
    body = re.sub(r"//[^\n]*", "", body)
    if stop_before and stop_before in body:
        body = body[:body.index(stop_before)]
    stmts = [s.strip() for s in body.split(";")]
    lets, tail = [], None
    for k, s in enumerate(stmts):
        if not s:
            continue
        m = re.match(r"const\s+([A-Za-z_0-9]+)\s*:\s*\w+\s*=\s*(.+)$", s, re.S)
        if m:
            lets.append((m.group(1), P(tokens(m.group(2)), funcs).expr())); continue
        m = re.match(r"let\s+\(([^)]*)\)\s*=\s*(.+)$", s, re.S)
        if m:
            names = [x.strip() for x in m.group(1).split(",")]
            lets.append(("'(" + ", ".join(names) + ")", P(tokens(m.group(2)), funcs).expr())); continue
        m = re.match(r"let\s+([A-Za-z_0-9]+)\s*=\s*(.+)$", s, re.S)
        if m:
            lets.append((m.group(1), P(tokens(m.group(2)), funcs).expr())); continue
        if k == len([x for x in stmts]) - 1 or all(not x for x in stmts[k + 1:]):
            tail = s; continue
        raise Unsupported("unsupported statement in %s: %r" % (name, s[:60]))
    if result is None:
        if tail is None:
            raise Unsupported("no tail expression in %s" % name)
        m = re.match(r"\((.*)\)$", tail.strip(), re.S)
        parts = [x.strip() for x in (m.group(1) if m else tail).split(",")]
        result = [P(tokens(x), funcs).expr()[1] for x in parts]
    out = "Definition %s %s :=\n" % (coq_name, " ".join("(%s : N)" % p for p in params))
    for n_, e in lets:
        out += "  let %s := %s in\n" % (n_, e[1])
    out += "  (%s).\n" % ", ".join(result)
    return out


BOOL_PARAMS = ("protection_absent",)


def translate_let(src, fn, var, coq_name, params, kind="num"):
    """the right-hand side of `let var[: T] = EXPR;` inside fn, as a Gallina definition over [params]"""
    _, body = fn_body(src, fn)
    body = re.sub(r"//[^\n]*", "", body)
    m = re.search(r"let\s+%s\s*(?::\s*\w+)?\s*=\s*(.+?);" % re.escape(var), body, re.S)
    if not m:
        raise Unsupported("`let %s` not found in %s" % (var, fn))
    e = P(tokens(m.group(1)), {}, bools=[p_ for p_ in params if p_ in BOOL_PARAMS]).expr()
    if e[0] != kind:
        raise Unsupported("`let %s` is not a %s expression" % (var, kind))
    used = set(re.findall(r"[A-Za-z_][A-Za-z_0-9]*", e[1])) - {"N", "lor", "land", "lxor", "shiftl", "shiftr", "mod", "if", "then", "else", "negb"}
    extra = sorted(u for u in used if u not in params and not u.startswith("N."))
    if extra:
        raise Unsupported("`let %s` in %s uses %s, not among the declared parameters %s" % (var, fn, extra, params))
    return "Definition %s %s := %s.\n" % (coq_name, " ".join("(%s : %s)" % (p_, "bool" if p_ in BOOL_PARAMS else "N") for p_ in params), e[1])


def translate_tail(src, fn, coq_name, params, kind="num"):
    """the final expression of fn (after its early-return guards), as a Gallina definition over [params]"""
    _, body = fn_body(src, fn)
    body = re.sub(r"//[^\n]*", "", body).strip()
    # the tail is what follows the last ';' or '}' at nesting depth 0
    depth, cut = 0, 0
    for k, ch in enumerate(body):
        if ch == "{":
            depth += 1
        elif ch == "}":
            depth -= 1
            if depth == 0:
                cut = k + 1
        elif ch == ";" and depth == 0:
            cut = k + 1
    tail = body[cut:].strip()
    if not tail:
        raise Unsupported("no tail expression in %s" % fn)
    e = P(tokens(tail), {}, bools=[p_ for p_ in params if p_ in BOOL_PARAMS]).expr()
    if e[0] != kind:
        raise Unsupported("tail of %s is not a %s expression" % (fn, kind))
    return "Definition %s %s := %s.\n" % (coq_name, " ".join("(%s : N)" % p_ for p_ in params), e[1])


# textual rewrites applied to a source file before translation (field paths -> parameter names)
REWRITES = {"src/fragmented.rs": [("self.config.timescale", "timescale")]}

TAILS = [
    ("src/codec/h265.rs", "hevc_nal_type", "hevc_nal_type_src", ["nal0"], "num"),
    ("src/fragmented.rs", "ticks_to_ms", "ticks_to_ms_tail_src", ["ms"], "num"),
]

LETS = [
    # (file, function, let-variable, Gallina name, parameters, kind)
    ("src/muxer/mp4.rs", "adts_to_raw", "syncword", "adts_syncword_src", ["frame0", "frame1"], "num"),
    ("src/muxer/mp4.rs", "adts_to_raw", "mpeg_version", "adts_mpeg_version_src", ["frame1"], "num"),
    ("src/muxer/mp4.rs", "adts_to_raw", "layer", "adts_layer_src", ["frame1"], "num"),
    ("src/muxer/mp4.rs", "adts_to_raw", "protection_absent", "adts_protection_absent_src", ["frame1"], "bool"),
    ("src/muxer/mp4.rs", "adts_to_raw", "header_len", "adts_header_len_src", ["protection_absent"], "num"),
    ("src/muxer/mp4.rs", "adts_to_raw", "sample_rate_idx", "adts_sample_rate_idx_src", ["frame2"], "num"),
    ("src/muxer/mp4.rs", "adts_to_raw", "channel_config", "adts_channel_config_src", ["frame2", "frame3"], "num"),
    ("src/muxer/mp4.rs", "adts_to_raw", "aac_frame_length", "adts_frame_length_src", ["frame3", "frame4", "frame5"], "num"),
    ("src/codec/opus.rs", "opus_frame_duration_from_toc", "config", "opus_config_src", ["toc"], "num"),
    ("src/codec/opus.rs", "opus_frame_count", "code", "opus_code_src", ["toc"], "num"),
    ("src/codec/opus.rs", "opus_frame_count", "count", "opus_count_src", ["frame_count_byte"], "num"),
    ("src/codec/opus.rs", "opus_frame_count", "is_vbr", "opus_is_vbr_src", ["frame_count_byte"], "bool"),
    ("src/muxer/mp4.rs", "encode_language_code", "packed", "language_packed_src", ["c1", "c2", "c3"], "num"),
    ("src/codec/h264.rs", "extract_avc_config", "nal_type", "h264_nal_type_src_a", ["nal0"], "num"),
    ("src/codec/h264.rs", "is_h264_keyframe", "nal_type", "h264_nal_type_src_b", ["nal0"], "num"),
    ("src/fragmented.rs", "ticks_to_ms", "ms", "ticks_to_ms_ms_src", ["ticks", "timescale"], "num"),
]


# =====================================================================================================
# BYTE-BUILDER MODE
# =====================================================================================================
# Translates the fixed-layout box builders (`let mut payload = Vec::new(); payload.extend_from_slice(..); ...;
# build_box(b"xxxx", &payload)`) into Gallina definitions `<name>_src : ... -> list N`, the concatenation, in
# source order, of one term per statement.  The WIDTH of every `to_be_bytes()` and of every wrap (`<<`, `as`)
# comes from the Rust type the expression has in the source text: a literal suffix (0u32), the declared type
# of a parameter / struct field / const, or an `as` cast -- never from the model.
#
# Supported statement forms (anything else in a function that is asked for is reported as a problem):
#   let mut B = Vec::new();  let mut B = Vec::with_capacity(..);  let [mut] B = vec![e; n] | vec![a, b, ..];
#   B.extend_from_slice(&E.to_be_bytes());      E an integer expression (typed by the source)
#   B.extend_from_slice(b"....");  B.extend_from_slice(&[e; n]);  B.extend_from_slice(&[a, b, ..]);
#   B.extend_from_slice(&V) / (V)                V a buffer, a let-bound byte value, an array, a byte parameter/field
#   B.extend_from_slice(&f(..));                 f a builder translated before, or one listed in OPAQUE / OPAQUE_FN
#   B.push(E);
#   let X = <integer expression> | match V { INT => E, .., _ => E };      (inlined, or a Gallina let if read twice)
#   let X = [a, b, ..];  let X = f(..);  let (a, b, c) = if C { (x, y, z) } else { (p, q, r) };  (component-wise)
#   let X = Type::default().method(args);       evaluated symbolically from `impl Default for Type` and the method's
#                                               field assignments (`fn method(mut self, ..) -> Self`)
#   for V in ARRAY { .. }   for _ in A..B { .. }   (literal bounds; unrolled)   for i in 0..E { B.push(i); }  (E: u8)
#   if C { .. return E; }   (top level: the rest of the function becomes the else branch)
#   if C { .. } [else { .. }]   (appends only: becomes `(if C then .. else ..)`)
#   if let Some(x) = &V.field { .. } else { .. }   (V a symbolic struct value: the branch is chosen statically)
#   assert_invariant!(..);  debug_assert!(..);   (no bytes; recorded as a precondition comment and, when the condition
#                                               can be translated, in the definition <name>_src_pre : .. -> bool)
#   tail:  B  |  build_box(b"xxxx", &B)  |  f(..)  |  [a, b]  |  E.to_be_bytes()  |  return E;
# Expressions (parser P in typed mode): literals with/without suffix, parameters, struct fields p.f (a parameter p_f),
#   p.method() on a struct parameter (a parameter p_method typed by the declared return type), consts,
#   | ^ & << >> / %, + and * on usize only, comparisons, && || !, if/else, match on integer patterns, `as uN`,
#   .min .max .saturating_sub .len(), v[K] (K literal), v.get(K).copied().unwrap_or(D), o.unwrap_or(D).
# Wrapping: `a << k` on uN is `uN (N.shiftl a k)`; a narrowing `x as uN` is `uN x`; widening casts leave the value.
#
# DATA-DEPENDENT FORMS (sample tables, containers, fragments):
#   parameters `&[u32]` / `&[i32]` / `&[Struct]` / `Option<..>` / tuples: Gallina `list N` / `list Z` / `list record` / ..
#   for x in SLICE { B.extend_from_slice(..x..); .. }        ->  B ++ flat_map (fun x => ..) SLICE   (appends only; lets
#       inside the body are inlined; an assert_invariant! inside becomes `forallb (fun x => c) SLICE` in <name>_src_pre)
#   for (a, b) in PAIRS { .. }                               ->  flat_map (fun e_ => ..fst e_..snd e_..) PAIRS
#   for (i, x) in L.iter().enumerate() { .. }                ->  the same over `enumerate_from 0 L` when the body reads i
#       (L[i + 1] is `nth (N.to_nat (i + 1)) L default`, with the bounds check recorded as a precondition)
#   let mut V: Vec<(u32, T)> = Vec::new();
#   for &x in SLICE { if let Some(last) = V.last_mut() { if C { last.0 += 1; continue; } } V.push((1, x)); }
#       ->  V := fold_left (fun V x => match vec_last V with Some last => if C then vec_set_last V (u32 (fst last + 1), snd last)
#                                      else V ++ [(1, x)] | None => V ++ [(1, x)] end) SLICE []
#       (statement by statement: last_mut borrow, `+=` wrapping at the component's type, continue, push; helper
#        definitions vec_last / vec_set_last / enumerate_from are emitted at the head of the builder section)
#   i32 values (Z): `x.to_be_bytes()` is `be32 (i32_bits x)`, `==` is Z.eqb, `E as i32` is `i32_of_bits (u32 E)`,
#       `a.wrapping_sub(b)` on uN is `Z.to_N ((Z.of_N a - Z.of_N b) mod 2^N)`
#   + * - on sized integers: the exact value in N, and `fits the type` / `b <= a` recorded in <name>_src_pre
#       (guarded by the conditions of the enclosing if-expressions); L.iter().map(|x| E).sum() is sumN (map ..)
#   if C { E } else if D { F } else { G } of byte values; v.is_empty(); o.is_some(); o.and_then(|m| m.f.as_deref());
#   o.unwrap_or_default(); o.unwrap_or_else(|| E); v.get(K).map(|b| E).unwrap_or(D)
#   if let Some(PAT) = OPTION_VALUE { appends } [else { appends }]   ->  match O with Some PAT => .. | None => .. end
#   match ENUM_VALUE { Enum::V(x) => E, .. }  (every variant of the Rust enum, constructors from table ENUMS)
# RECORD MODE (a fourth element "rec" in BUILDERS): a struct parameter is a value of the model's record (table RECORDS:
#   Rust struct -> (record, {field: projection}); field names and types are read from the Rust declaration, a field
#   without an entry is a problem); `p.method()` is translated in place from the method's body (one expression);
#   Type::new(..) and Type { f: E, ..Default::default() } become record terms `{| proj := .. |}`; a call of a builder
#   that was translated with flattened parameters receives the projections; abstracted FUNCTIONS of a callee
#   (`<callee>_fn`) are passed down from the caller, which gets the same parameter.

RESERVED = set("len be16 be32 be64 u8 u16 u32 u64 build_box N app if then else let in fun match with end as at return "
               "forall exists Type Set Prop bytes byte zeros list nil cons fix cofix where mod".split())

# callees that are NOT translated: their result becomes a `list N` parameter of the caller's translation, and the
# agreement theorem instantiates it with the model's function.  Each is tied to the source elsewhere or not at all:
# OPAQUE_FN: the callee is a FUNCTION parameter (`<callee>_fn`) applied to the translated arguments;
# OPAQUE: the callee takes a whole struct: the bytes it returns are a parameter (`<callee>_result`), arguments not read.
OPAQUE_FN = {
    "format_unix_timestamp": "format!() is out of reach; the six numeric fields it prints are tied by format_unix_timestamp_from_source_fields",
    "encode_language_code": "chars()/take(3)/collect over a &str is out of reach; its packing expression is tied by language_packing_source_agrees",
}
# result type of an OPAQUE_FN callee when it is not bytes (record mode only)
OPAQUE_FN_RET = {"extract_av1_config": "Option<Av1Config>"}
OPAQUE_FN["extract_av1_config"] = "the AV1 sequence-header parser (bit reader, loops); modelled by Model/Codec.v extract_av1_config"
# OPAQUE_ITER: an iterator constructor `for x in T::new(param)` ranges over: the sequence of items it yields is a
# parameter (a Gallina list, FIRST binder of the translation); the item type is read from `type Item = ..` of the
# `impl Iterator for T` in the given file; the argument must be a byte-slice parameter of the translated function
# (it is named in the NOT TRANSLATED comment: the agreement theorem instantiates the list with the model's iterator
# applied to that same parameter).
OPAQUE_ITER = {
    "AnnexBNalIter::new": ("nals", "src/codec/common.rs",
                           "the start-code scanner (find_start_code + Iterator::next, a state machine over the cursor); "
                           "modelled by Model/Annexb.v nal_iter"),
}
OPAQUE = {
    "build_hvcc_fmp4": "constructs a HevcConfig",
    "build_av1c_fmp4": "calls the AV1 sequence-header parser",
    "build_vpcc_fmp4": "if let over an Option",
    "build_stsd_fmp4": "if/else chain over Option::is_some()",
}


# RECORD MODE (builders flagged "rec" in BUILDERS): a parameter whose Rust type is one of these structs / enums is a
# value of the MODEL's record / inductive type; `p.f` is the model projection given here.  The Rust field names and
# types are still read from the struct declaration: a field that the source reads and that has no entry here is a
# problem, as is an enum variant without an entry.  (Model/Boxes.v, Model/Codec.v, Model/Frag.v)
RECORDS = {
    "Mp4VideoTrack": ("video_track", {"width": "vt_width", "height": "vt_height"}),
    "Mp4AudioTrack": ("audio_track", {"sample_rate": "at_sample_rate", "channels": "at_channels", "codec": "at_codec"}),
    "SampleTables": ("sample_tables", {"durations": "st_durations", "sizes": "st_sizes", "keyframes": "st_keyframes",
                                       "chunk_offsets": "st_chunk_offsets", "samples_per_chunk": "st_samples_per_chunk",
                                       "cts_offsets": "st_cts_offsets", "has_bframes": "st_has_bframes"}),
    "Metadata": ("metadata", {"title": "md_title", "creation_time": "md_creation_time", "language": "md_language"}),
    "AvcConfig": ("avc_config", {"sps": "avc_sps", "pps": "avc_pps"}),
    "HevcConfig": ("hevc_config", {"vps": "hevc_vps", "sps": "hevc_sps", "pps": "hevc_pps"}),
    "Av1Config": ("av1_config", {"sequence_header": "av1_sequence_header", "seq_profile": "av1_seq_profile",
                                 "seq_level_idx": "av1_seq_level_idx", "seq_tier": "av1_seq_tier",
                                 "high_bitdepth": "av1_high_bitdepth", "twelve_bit": "av1_twelve_bit",
                                 "monochrome": "av1_monochrome", "chroma_subsampling_x": "av1_subsampling_x",
                                 "chroma_subsampling_y": "av1_subsampling_y",
                                 "chroma_sample_position": "av1_chroma_sample_position"}),
    "Vp9Config": ("vp9_config", {"width": "vp9_width", "height": "vp9_height", "profile": "vp9_profile",
                                 "bit_depth": "vp9_bit_depth", "color_space": "vp9_color_space",
                                 "transfer_function": "vp9_transfer_function",
                                 "matrix_coefficients": "vp9_matrix_coefficients", "level": "vp9_level",
                                 "full_range_flag": "vp9_full_range_flag"}),
    "FragmentConfig": ("frag_config", {"width": "fc_width", "height": "fc_height", "timescale": "fc_timescale",
                                       "fragment_duration_ms": "fc_fragment_duration_ms", "sps": "fc_sps",
                                       "pps": "fc_pps", "vps": "fc_vps", "av1_sequence_header": "fc_av1",
                                       "vp9_config": "fc_vp9"}),
    "FragmentSample": ("frag_sample", {"pts": "fs_pts", "dts": "fs_dts", "data": "fs_data", "is_sync": "fs_sync"}),
}
# enum -> (model inductive, {variant: (model constructor, has payload)})
ENUMS = {
    "VideoConfig": ("video_config", {"Avc": "CfgAvc", "Hevc": "CfgHevc", "Av1": "CfgAv1", "Vp9": "CfgVp9"}),
    "AudioCodec": ("audio_codec", {"Aac": "Aac", "Opus": "Opus", "None": "NoAudio"}),
}


RESERVED |= set(v[0] for v in RECORDS.values()) | set(v[0] for v in ENUMS.values())     # a variable never shadows a model type


def coq_type(d):
    """Gallina type of a type descriptor (Ctx.tydesc)"""
    k = d[0]
    if k == "int":
        return "N"
    if k == "sint":
        return "Z"
    if k == "bool":
        return "bool"
    if k in ("bytes", "str"):
        return "list N"
    if k == "list":
        return "list (%s)" % coq_type(d[1])
    if k == "option":
        return "option (%s)" % coq_type(d[1])
    if k == "tuple" and d[1]:
        return "(%s)" % " * ".join(coq_type(x) for x in d[1])
    if k == "struct":
        if d[1] not in RECORDS:
            raise Unsupported("struct %s has no entry in the RECORDS table" % d[1])
        return RECORDS[d[1]][0]
    if k == "enum":
        if d[1] not in ENUMS:
            raise Unsupported("enum %s has no entry in the ENUMS table" % d[1])
        return ENUMS[d[1]][0]
    raise Unsupported("type %s has no Gallina counterpart" % (d[1] if len(d) > 1 else k))


def comment(text):
    """a Coq comment line that cannot be broken by its content (nested comment marks, string quotes)"""
    return "(* %s *)\n" % text.replace("(*", "( *").replace("*)", "* )").replace('"', "'")


def coq_ident(name):
    return name + "_" if name in RESERVED else name


def match_close(toks, i):
    """toks[i] is an opening bracket: index of its partner"""
    pairs = {"(": ")", "[": "]", "{": "}"}
    depth = 0
    for j in range(i, len(toks)):
        if toks[j] in pairs:
            depth += 1
        elif toks[j] in (")", "]", "}"):
            depth -= 1
            if depth == 0:
                return j
    raise Unsupported("unbalanced brackets")


def find0(toks, i, what):
    """first index >= i of a token in `what` outside any bracket, or None"""
    depth = 0
    for j in range(i, len(toks)):
        t = toks[j]
        if depth == 0 and t in what:
            return j
        if t in ("(", "[", "{"):
            depth += 1
        elif t in (")", "]", "}"):
            depth -= 1
            if depth < 0:
                return None
    return None


def show(toks, n=12):
    return " ".join(t if isinstance(t, str) else '"…"' for t in toks[:n]) + (" …" if len(toks) > n else "")


def parse_if(toks, i):
    b = find0(toks, i + 1, ("{",))
    if b is None:
        raise Unsupported("if without a block")
    e = match_close(toks, b)
    cond, then, i = toks[i + 1:b], split_stmts(toks[b + 1:e]), e + 1
    els = None
    if i < len(toks) and toks[i] == "else":
        if i + 1 < len(toks) and toks[i + 1] == "{":
            e2 = match_close(toks, i + 1)
            els, i = split_stmts(toks[i + 2:e2]), e2 + 1
        elif i + 1 < len(toks) and toks[i + 1] == "if":
            s, i = parse_if(toks, i + 1)
            els = [s]
        else:
            raise Unsupported("else without a block")
    return ("if", cond, then, els), i


def split_stmts(toks):
    out, i = [], 0
    while i < len(toks):
        t = toks[i]
        if t == ";":
            i += 1
        elif t == "if":
            s, i = parse_if(toks, i)
            out.append(s)
        elif t == "for":
            k = find0(toks, i + 1, ("in",))
            b = find0(toks, i + 1, ("{",))
            if k is None or b is None or b < k:
                raise Unsupported("for loop: %s" % show(toks[i:]))
            e = match_close(toks, b)
            out.append(("for", toks[i + 1:k], toks[k + 1:b], split_stmts(toks[b + 1:e])))
            i = e + 1
        else:
            j = find0(toks, i, (";",))
            if j is None:
                out.append(("tail", toks[i:]))
                i = len(toks)
            else:
                out.append(("return" if t == "return" else "let" if t == "let" else "expr", toks[i + (t in ("return", "let")):j]))
                i = j + 1
    return out


def fn_sig(src, name):
    """-> ([(param, type text)], return type text, body text); src has its comments removed"""
    ms = list(re.finditer(r"\bfn\s+%s\s*(<[^>]*>)?\s*\(" % re.escape(name), src))
    if not ms:
        raise Unsupported("function %s not found" % name)
    if len(ms) > 1:
        raise Unsupported("function %s is defined %d times" % (name, len(ms)))
    i = ms[0].end()
    depth, j = 1, i
    while depth:
        if j >= len(src):
            raise Unsupported("unbalanced parentheses in the signature of %s" % name)
        depth += {"(": 1, ")": -1}.get(src[j], 0)
        j += 1
    ptext = src[i:j - 1]
    k, depth = j, 0
    while k < len(src) and not (src[k] == "{" and depth == 0):
        if src[k] == ";" and depth == 0:
            raise Unsupported("function %s has no body" % name)
        depth += {"[": 1, "(": 1, "]": -1, ")": -1}.get(src[k], 0)
        k += 1
    if k >= len(src):
        raise Unsupported("function %s has no body" % name)
    ret = src[j:k].strip()
    ret = ret[2:].strip() if ret.startswith("->") else ""
    depth, e = 1, k + 1
    while depth:
        if e >= len(src):
            raise Unsupported("unbalanced braces in %s" % name)
        depth += {"{": 1, "}": -1}.get(src[e], 0)
        e += 1
    params, depth, cur = [], 0, ""
    for ch in ptext + ",":
        if ch == "," and depth == 0:
            if cur.strip():
                if cur.strip() in ("self", "mut self", "&self", "&mut self"):
                    params.append((cur.strip(), "Self")); cur = ""
                    continue
                if ":" not in cur:
                    raise Unsupported("parameter %r of %s" % (cur.strip(), name))
                pn, pt = cur.split(":", 1)
                pn = pn.strip()
                if pn.startswith("mut "):
                    raise Unsupported("mutable parameter %s of %s" % (pn, name))
                params.append((pn, pt.strip()))
            cur = ""
            continue
        depth += {"(": 1, "[": 1, "<": 1, ")": -1, "]": -1, ">": -1}.get(ch, 0)
        cur += ch
    return params, ret, src[k + 1:e - 1]


class Ctx:
    """what is known about the crate: sources (comments removed), struct fields, integer consts, translated builders"""
    def __init__(self, repo, files):
        self.repo, self.src, self.problems = repo, {}, []
        for f in files:
            try:
                self.src[f] = re.sub(r"//[^\n]*", "", open(repo + "/" + f).read())
            except OSError as e:
                self.problems.append("%s: cannot read: %s" % (f, e))
        self.structs, self.consts = {}, {}
        for f in sorted(self.src):
            for m in re.finditer(r"\bstruct\s+([A-Za-z_0-9]+)\s*\{([^{}]*)\}", self.src[f]):
                fields = []
                for fm in re.finditer(r"(?:pub(?:\([a-z]+\))?\s+)?([a-z_][A-Za-z_0-9]*)\s*:\s*([^,\n]+(?:<[^>\n]*>)?)\s*(?:,|$)", re.sub(r"#\[[^\]]*\]", "", m.group(2))):
                    fields.append((fm.group(1), fm.group(2).strip()))
                self.structs.setdefault(m.group(1), []).append((f, fields))
            for m in re.finditer(r"\bconst\s+([A-Z_0-9]+)\s*:\s*([a-z0-9]+)\s*=\s*([0-9A-Fa-fx_]+)\s*;", self.src[f]):
                self.consts.setdefault(m.group(1), []).append((f, m.group(2), m.group(3)))
        self.enums = {}         # name -> [(file, [(variant, payload type text or None)])]
        for f in sorted(self.src):
            for m in re.finditer(r"\benum\s+([A-Za-z_0-9]+)\s*\{([^{}]*)\}", self.src[f]):
                variants = []
                for vm in re.finditer(r"([A-Z][A-Za-z_0-9]*)\s*(?:\(([^()]*)\))?\s*(?:,|$)", re.sub(r"#\[[^\]]*\]", "", m.group(2)).strip()):
                    variants.append((vm.group(1), vm.group(2).strip() if vm.group(2) else None))
                self.enums.setdefault(m.group(1), []).append((f, variants))
        self.sigs = {}          # (file, fn) -> Sig

    def enum_variants(self, name):
        defs = self.enums.get(name, [])
        if len(defs) != 1:
            raise Unsupported("enum %s has %d definitions in the files read" % (name, len(defs)))
        return defs[0][1]

    def tydesc(self, ty):
        """Rust type text -> descriptor: ("int", uN) ("sint", iN) ("bool",) ("bytes",) ("str",) ("list", D)
        ("option", D) ("tuple", [D..]) ("struct", Name) ("enum", Name) ("other", text); references are transparent"""
        t = ty.replace(" ", "")
        while t.startswith("&"):
            t = t[1:]
        if t in INT_BITS:
            return ("int", t)
        if t in SIGNED:
            return ("sint", t)
        if t == "bool":
            return ("bool",)
        if t in ("str", "String"):
            return ("str",)
        if re.fullmatch(r"\[u8(;\d+)?\]|Vec<u8>", t):
            return ("bytes",)
        m = re.fullmatch(r"Option<(.*)>", t)
        if m:
            return ("option", self.tydesc(m.group(1)))
        m = re.fullmatch(r"\[(.*)\]|Vec<(.*)>", t)
        if m:
            return ("list", self.tydesc(m.group(1) or m.group(2)))
        if t.startswith("(") and t.endswith(")"):
            parts, depth, cur = [], 0, ""
            for ch in t[1:-1] + ",":
                if ch == "," and depth == 0:
                    if cur:
                        parts.append(self.tydesc(cur))
                    cur = ""
                    continue
                depth += {"(": 1, "<": 1, "[": 1, ")": -1, ">": -1, "]": -1}.get(ch, 0)
                cur += ch
            return ("tuple", parts)
        m = re.fullmatch(r"(?:[a-z_0-9]+::)*([A-Z][A-Za-z0-9_]*)", t)
        if m and m.group(1) in self.structs:
            return ("struct", m.group(1))
        if m and m.group(1) in self.enums:
            return ("enum", m.group(1))
        return ("other", t)

    def iter_item(self, file, sname):
        """descriptor of `type Item = T;` in `impl Iterator for sname` of `file` (read on demand, comments removed)"""
        try:
            text = re.sub(r"//[^\n]*", "", open(self.repo + "/" + file).read())
        except (OSError, UnicodeDecodeError) as e:
            raise Unsupported("cannot read %s: %s" % (file, e))
        ms = re.findall(r"\bimpl\s*(?:<[^>]*>)?\s*Iterator\s+for\s+%s\s*(?:<[^>]*>)?\s*\{\s*type\s+Item\s*=\s*([^;{}]+);" % re.escape(sname), text)
        if len(ms) != 1:
            raise Unsupported("%d `impl Iterator for %s` with an Item type in %s" % (len(ms), sname, file))
        return self.tydesc(re.sub(r"'[a-z_]+\s*", "", ms[0]).strip())

    def struct_fields(self, name):
        defs = self.structs.get(name.split("::")[-1], [])
        if len(defs) != 1:
            raise Unsupported("struct %s has %d definitions in the files read" % (name, len(defs)))
        return defs[0][1]

    def const(self, name, file):
        defs = self.consts.get(name, [])
        here = [d for d in defs if d[0] == file] or defs
        if len(set((d[1], d[2]) for d in here)) != 1:
            return None
        return here[0]

    def classify(self, ty):
        t = ty.replace(" ", "")
        if t in INT_BITS:
            return ("int", t)
        if t in SIGNED:
            return ("sint", t)
        if t == "Option<&str>":
            return ("optstr", None)
        if t == "&str":
            return ("str", None)
        m = re.fullmatch(r"Option<(.*)>", t)
        if m:
            return ("option", m.group(1))
        if t == "bool":
            return ("bool", None)
        if re.fullmatch(r"&?\[u8(;\d+)?\]|&?Vec<u8>", t):
            return ("bytes", None)
        m = re.fullmatch(r"&?((?:[a-z_0-9]+::)*[A-Z][A-Za-z0-9_]*)", t)
        if m and m.group(1).split("::")[-1] in self.structs:
            return ("struct", m.group(1).split("::")[-1])
        return ("other", t)


class Sig:
    def __init__(self, coq, params, opaque):
        self.coq, self.params, self.opaque = coq, params, opaque     # params: [dict(kind, name, ty, fields)]


class State:
    def __init__(self, vars_, forked=False):
        self.vars, self.forked = vars_, forked

    def fork(self):
        return State(dict((k, (("buf", list(v[1])) if v[0] == "buf" else v)) for k, v in self.vars.items()), True)


class ByteBuilder:
    def __init__(self, ctx, file, name, coq, rec=False):
        self.ctx, self.file, self.name, self.coq = ctx, file, name, coq
        self.rec = rec           # record mode: struct parameters are values of the model's records (RECORDS)
        self.fresh = 0
        self.used = {}           # struct parameter -> set of fields / methods used
        self.opaque = []         # [(coq parameter name, callee, reason)]
        self.notes = []
        self.shared = {}         # (local, kind, Gallina text) -> placeholder
        self.methods = {}        # struct parameter -> ["meth()", ..] in order of first use
        self.method_kind = {}
        self.pre = []            # asserted conditions (Gallina bool); None once one of them could not be translated
        self.noshare = False
        self.st = None
        self.leading = []        # abstracted iterator parameters (OPAQUE_ITER): binders placed before the Rust parameters
        self.byte_params = set() # Gallina names of the byte-slice parameters of the function

    # ---- environment interface used by P --------------------------------------------------------------
    def parse(self, toks, ex=None):
        if not toks:
            raise Unsupported("empty expression")
        p = P(toks, {}, env=self)
        r = p.expr(ex)
        if not p.done():
            raise Unsupported("cannot parse `%s` (stopped at %r)" % (show(toks), p.peek()))
        return r

    # ---- record mode / dynamic values -------------------------------------------------------------------
    def add_pre(self, cond, note):
        if note not in self.notes:
            self.notes.append(note)
        if self.pre is not None and cond not in self.pre:
            self.pre.append(cond)

    def pre_mark(self):
        return None if self.pre is None else len(self.pre)

    def pre_guard(self, mark, unless):
        """the preconditions recorded since `mark` are only required when the boolean `unless` is false"""
        if mark is None or self.pre is None:
            return
        new = ["(%s || %s)" % (unless, c) for c in self.pre[mark:]]
        del self.pre[mark:]
        for c in new:
            if c not in self.pre:
                self.pre.append(c)

    def default_term(self, d):
        """a value of type d for the out-of-bounds case of [nth] (never reached under the recorded precondition)"""
        k = d[0]
        if k == "int":
            return "0"
        if k == "sint":
            return "0%Z"
        if k == "bool":
            return "false"
        if k in ("bytes", "str", "list"):
            return "[]"
        if k == "option":
            return "None"
        if k == "tuple":
            return "(%s)" % ", ".join(self.default_term(x) for x in d[1])
        if k == "struct" and d[1] in RECORDS:
            return "{| %s |}" % "; ".join("%s := %s" % (RECORDS[d[1]][1][f], self.default_term(self.ctx.tydesc(t)))
                                          for f, t in self.ctx.struct_fields(d[1]) if f in RECORDS[d[1]][1])
        raise Unsupported("no default value for %s" % (d,))

    def with_bound(self, binds, fn):
        """run fn with extra variables in scope (closure parameters, match-bound names); nothing it computes may be
        hoisted into a top-level let, and it may not record preconditions (they would mention the bound names)"""
        saved_vars, saved_ns = dict(self.st.vars), self.noshare
        npre = None if self.pre is None else len(self.pre)
        self.st.vars.update(binds)
        self.noshare = True
        try:
            r = fn()
        finally:
            self.st.vars.clear(); self.st.vars.update(saved_vars)
            self.noshare = saved_ns
        if npre is not None and self.pre is not None and len(self.pre) != npre:
            raise Unsupported("an overflow / assertion precondition under a binder (closure or match arm)")
        return r

    def wrapv(self, d, text):
        """the typed result for a Gallina term `text` of Rust type descriptor d"""
        k = d[0]
        if k == "int":
            return R("num", text, d[1])
        if k == "bool":
            return R("bool", text)
        if k in ("bytes", "str"):
            return R("bytes", text)
        if d == ("option", ("str",)):
            return R("optstr", text)
        if k == "struct":
            coq_type(d)
            return R("struct", text, info=d[1])
        coq_type(d)
        return R("dyn", text, info=d)

    def bindvar(self, d, text):
        """state entry for a variable of type d whose Gallina term is text"""
        r = self.wrapv(d, text)
        return ("struct", d[1], text) if r[0] == "struct" else ("val", r)

    @staticmethod
    def desc_of(a):
        if a[0] == "num":
            return ("int", ty_of(a))
        if a[0] == "bool":
            return ("bool",)
        if a[0] in ("bytes", "array"):
            return ("bytes",)
        if a[0] == "optstr":
            return ("option", ("str",))
        if a[0] == "struct":
            return ("struct", a.info)
        if a[0] == "dyn":
            return a.info
        return ("other", a[0])

    @staticmethod
    def same_desc(x, y):
        norm = lambda d: ("bytes",) if d in (("str",), ("list", ("int", "u8"))) else \
            (d[0], norm(d[1])) if d[0] in ("option", "list") else \
            ("tuple", [norm(e) for e in d[1]]) if d[0] == "tuple" else d
        return norm(x) == norm(y)

    def newname(self, base):
        self.fresh += 1
        return "%s_%d" % (base, self.fresh) if self.fresh > 1 else base

    def pattern(self, toks, d):
        """a Rust pattern against a value of type d -> (Gallina pattern text, {rust name: state entry})
        forms: x, &x, ref x, _, (p, q), Some(p)"""
        while toks and toks[0] in ("&", "ref", "mut"):
            toks = toks[1:]
        if len(toks) == 1 and toks[0] == "_":
            return "_", {}
        if len(toks) == 1 and isinstance(toks[0], str) and re.fullmatch(r"[a-z_][A-Za-z_0-9]*", toks[0]):
            return coq_ident(toks[0]), {toks[0]: self.bindvar(d, coq_ident(toks[0]))}
        if toks and toks[0] == "(" and match_close(toks, 0) == len(toks) - 1:
            parts = self.tuple_parts(toks)
            if d[0] != "tuple" or len(d[1]) != len(parts):
                raise Unsupported("tuple pattern `%s` against a value of another shape" % show(toks))
            texts, binds = [], {}
            for pt, pd in zip(parts, d[1]):
                t_, b_ = self.pattern(pt, pd)
                texts.append(t_); binds.update(b_)
            return "(%s)" % ", ".join(texts), binds
        if len(toks) >= 4 and toks[:2] == ["Some", "("] and match_close(toks, 1) == len(toks) - 1:
            if d[0] != "option":
                raise Unsupported("pattern Some(..) against a value that is not an Option")
            t_, b_ = self.pattern(toks[2:-1], d[1])
            return "Some %s" % t_, b_
        raise Unsupported("pattern: %s" % show(toks))

    def dyn_method(self, a, meth, p):
        d = a.info
        if d[0] == "tuple" and re.fullmatch(r"\d+", meth):
            if len(d[1]) != 2 or int(meth) > 1:
                raise Unsupported("tuple index .%s on a tuple of %d components" % (meth, len(d[1])))
            return self.wrapv(d[1][int(meth)], "(%s %s)" % (("fst", "snd")[int(meth)], a[1]))
        if p.peek() != "(":
            raise Unsupported("field .%s of a value of type %s" % (meth, d[0]))
        p.eat("(")
        if d[0] == "sint" and meth == "to_be_bytes":
            p.eat(")")
            if d[1] != "i32":
                raise Unsupported("to_be_bytes() on a signed %s" % d[1])
            # the model's two's-complement helper (Model/Base.v): the 32-bit pattern of the integer
            return R("bytes", "(be32 (i32_bits %s))" % a[1])
        if d[0] == "list":
            if meth == "len":
                p.eat(")"); return R("num", "(len %s)" % a[1], "usize")
            if meth == "is_empty":
                p.eat(")"); return R("bool", "(len %s =? 0)" % a[1])
            if meth == "iter":
                p.eat(")")
                if p.peek() == "." and p.peek(1) == "map":
                    # l.iter().map(|&d| d as uN).sum(): the sum of the elements (value-preserving cast only)
                    for t in (".", "map", "(", "|"):
                        p.eat(t)
                    if p.peek() == "&":
                        p.eat()
                    v = p.eat(); p.eat("|")
                    if not isinstance(v, str) or not re.fullmatch(r"[a-z_][A-Za-z_0-9]*", v):
                        raise Unsupported("closure in .map() over %s" % a[1])
                    body = self.with_bound({v: self.bindvar(d[1], coq_ident(v))}, lambda: p.expr())
                    p.eat(")")
                    for t in (".", "sum", "(", ")"):
                        p.eat(t)
                    if body[0] != "num" or ty_of(body) not in INT_BITS or MARK in body[1]:
                        raise Unsupported(".map(|%s| ..).sum() whose closure does not return a typed integer" % v)
                    what = a[1] if body[1] == coq_ident(v) else "(map (fun %s : %s => %s) %s)" % (coq_ident(v), coq_type(d[1]), body[1], a[1])
                    self.add_pre("(sumN %s <=? %d)" % (what, 2 ** INT_BITS[ty_of(body)] - 1),
                                 "precondition (with overflow checks the source panics otherwise; without, it wraps): the sum of %s fits %s" % (what, ty_of(body)))
                    return R("num", "(sumN %s)" % what, ty_of(body))
                return a
        if d[0] == "option" and meth in ("clone", "as_deref", "as_ref"):
            p.eat(")")
            return a
        if d[0] == "option" and d[1] == ("bytes",) and meth in ("unwrap_or_default", "unwrap_or"):
            dflt = "[]"
            if meth == "unwrap_or":
                dflt = p.bytes_of(p.expr())
            p.eat(")")
            return R("bytes", "(match %s with Some v_ => v_ | None => %s end)" % (a[1], dflt))
        if d[0] == "option" and meth == "unwrap_or_else":
            p.eat("||")
            dflt = p.expr()
            p.eat(")")
            if not self.same_desc(self.desc_of(dflt), d[1]):
                raise Unsupported(".unwrap_or_else() whose closure returns %s, expected %s" % (self.desc_of(dflt), d[1]))
            return self.wrapv(d[1], "(match %s with Some v_ => v_ | None => %s end)" % (a[1], p.bytes_of(dflt) if dflt[0] in ("bytes", "array") else dflt[1]))
        if d[0] == "option":
            if meth in ("is_some", "is_none"):
                p.eat(")")
                return R("bool", "(match %s with Some _ => %s | None => %s end)" % ((a[1],) + (("true", "false") if meth == "is_some" else ("false", "true"))))
            if meth == "and_then":
                p.eat("|"); v = p.eat(); p.eat("|")
                if not isinstance(v, str) or not re.fullmatch(r"[a-z_][A-Za-z_0-9]*", v):
                    raise Unsupported("closure parameter %r" % (v,))
                body = self.with_bound({v: self.bindvar(d[1], coq_ident(v))}, lambda: p.expr())
                p.eat(")")
                bd = self.desc_of(body)
                if bd[0] != "option":
                    raise Unsupported(".and_then() whose closure does not return an Option")
                return self.wrapv(bd, "(match %s with Some %s => %s | None => None end)" % (a[1], coq_ident(v), body[1]))
        raise Unsupported("method .%s on a value of type %s" % (meth, d[0]))

    def impl_fn(self, sname, fname):
        """`fn fname` inside `impl sname { .. }` -> (params, return type, body)"""
        defs = self.ctx.structs.get(sname, [])
        if len(defs) != 1:
            raise Unsupported("struct %s has %d definitions in the files read" % (sname, len(defs)))
        src = self.ctx.src[defs[0][0]]
        ms = list(re.finditer(r"\bimpl\s+%s\s*\{" % re.escape(sname), src))
        if len(ms) != 1:
            raise Unsupported("%d `impl %s` blocks in %s" % (len(ms), sname, defs[0][0]))
        depth, e = 1, ms[0].end()
        while depth:
            if e >= len(src):
                raise Unsupported("unbalanced braces in impl %s" % sname)
            depth += {"{": 1, "}": -1}.get(src[e], 0)
            e += 1
        return fn_sig(src[ms[0].end():e - 1], fname)

    def record_term(self, sname, values):
        """{| proj := v; .. |} for a struct of the RECORDS table, every field given"""
        if sname not in RECORDS:
            raise Unsupported("struct %s has no entry in the RECORDS table" % sname)
        parts = []
        for fn_, fty in self.ctx.struct_fields(sname):
            if fn_ not in RECORDS[sname][1]:
                raise Unsupported("field %s.%s is missing from the RECORDS table" % (sname, fn_))
            if fn_ not in values:
                raise Unsupported("no value for field %s of %s" % (fn_, sname))
            parts.append("%s := %s" % (RECORDS[sname][1][fn_], values[fn_]))
        if len(values) != len(parts):
            raise Unsupported("value for a field that %s does not have" % sname)
        return R("struct", "{| %s |}" % "; ".join(parts), info=sname)

    def struct_new(self, sname, p):
        """Type::new(a, b, ..) with `fn new(x: T, ..) -> Self { Self { f, g: E, .. } }`: the model's record value"""
        params, ret, body = self.impl_fn(sname, "new")
        if ret != "Self":
            raise Unsupported("%s::new does not return Self" % sname)
        p.eat("(")
        binds = {}
        for pn, pt in params:
            d = self.ctx.tydesc(pt)
            a = p.expr(d[1] if d[0] == "int" else None)
            if not self.same_desc(self.desc_of(a), d) or MARK in (a[1] or ""):
                raise Unsupported("argument %s of %s::new has type %s, expected %s" % (pn, sname, self.desc_of(a), d))
            binds[pn] = self.bindvar(d, p.bytes_of(a) if a[0] in ("bytes", "array") else a[1])
            if p.peek() == ",":
                p.eat()
        p.eat(")")
        toks = tokens(body)
        if len(toks) < 3 or toks[0] != "Self" or toks[1] != "{" or match_close(toks, 1) != len(toks) - 1:
            raise Unsupported("%s::new is not a single struct literal" % sname)
        inner, i, values = toks[2:-1], 0, {}
        ftypes = dict(self.ctx.struct_fields(sname))
        saved, self.st = self.st, State(binds)
        try:
            while i < len(inner):
                j = find0(inner, i, (",",))
                j = len(inner) if j is None else j
                item = inner[i:j]; i = j + 1
                if not item or not isinstance(item[0], str) or item[0] not in ftypes:
                    raise Unsupported("%s::new: field initialiser `%s`" % (sname, show(item)))
                rhs = item[2:] if len(item) > 2 and item[1] == ":" else [item[0]] if len(item) == 1 else None
                if rhs is None:
                    raise Unsupported("%s::new: field initialiser `%s`" % (sname, show(item)))
                d = self.ctx.tydesc(ftypes[item[0]])
                values[item[0]] = self.tuple_value(rhs, d) if d[0] != "bytes" else P([], {}, env=self).bytes_of(self.parse(rhs))
        finally:
            self.st = saved
        self.notes.append("%s::new(..): the struct literal of `fn new` in impl %s, as a record of the model" % (sname, sname))
        return self.record_term(sname, values)

    def struct_literal(self, sname, p):
        """Type { f: E, .., ..Default::default() } in record mode: the model's record value"""
        e = match_close(p.t, p.i)
        inner, i = p.t[p.i + 1:e], 0
        p.i = e + 1
        ftypes, values, rest = dict(self.ctx.struct_fields(sname)), {}, False
        while i < len(inner):
            j = find0(inner, i, (",",))
            j = len(inner) if j is None else j
            item = inner[i:j]; i = j + 1
            if item[:1] == [".."]:
                if item[1:] not in (["Default::default", "(", ")"], ["%s::default" % sname, "(", ")"]):
                    raise Unsupported("struct update syntax `%s`" % show(item))
                rest = True
                continue
            if len(item) < 3 or item[1] != ":" or item[0] not in ftypes:
                raise Unsupported("%s literal: field initialiser `%s`" % (sname, show(item)))
            d = self.ctx.tydesc(ftypes[item[0]])
            values[item[0]] = self.tuple_value(item[2:], d) if d[0] != "bytes" else p.bytes_of(self.parse(item[2:]))
        if rest:
            dflt = self.struct_default(sname)
            for f, v in dflt.info.items():
                if f not in values:
                    if v[0] not in ("num", "bool", "bytes") or MARK in v[1]:
                        raise Unsupported("default value of %s.%s" % (sname, f))
                    values[f] = v[1]
        return self.record_term(sname, values)

    def match_enum(self, x, p, ex):
        """match X { Enum::V(v) => E, Enum::W => E, .. }: every variant of the Rust enum, each mapped by ENUMS"""
        ename = x.info[1]
        if ename not in ENUMS:
            raise Unsupported("enum %s has no entry in the ENUMS table" % ename)
        variants = dict(self.ctx.enum_variants(ename))
        p.eat("{")
        arms, seen = [], []
        while p.peek() != "}":
            pat = p.eat()
            if not isinstance(pat, str) or "::" not in pat or pat.split("::")[-2] != ename:
                raise Unsupported("match arm pattern %r on a value of enum %s" % (pat, ename))
            vname = pat.split("::")[-1]
            if vname not in variants or vname in seen:
                raise Unsupported("match arm %s: unknown or repeated variant" % pat)
            if vname not in ENUMS[ename][1]:
                raise Unsupported("variant %s::%s is missing from the ENUMS table" % (ename, vname))
            seen.append(vname)
            binds, cpat = {}, ENUMS[ename][1][vname]
            if p.peek() == "(":
                e = match_close(p.t, p.i)
                inner = p.t[p.i + 1:e]; p.i = e + 1
                if variants[vname] is None:
                    raise Unsupported("variant %s has no payload" % pat)
                t_, binds = self.pattern(inner, self.ctx.tydesc(variants[vname]))
                cpat += " " + t_
            elif variants[vname] is not None:
                raise Unsupported("variant %s has a payload" % pat)
            p.eat("=>")
            r = self.with_bound(binds, lambda: p.expr(ex))
            arms.append((cpat, r))
            if p.peek() == ",":
                p.eat()
            elif p.peek() != "}":
                raise Unsupported("match arm not followed by `,`")
        p.eat("}")
        if sorted(seen) != sorted(variants):
            raise Unsupported("match on %s does not list every variant (%s missing)" % (ename, ", ".join(sorted(set(variants) - set(seen)))))
        kinds = set(r[0] if r[0] != "array" else "bytes" for _, r in arms)
        if len(kinds) != 1 or kinds - {"bytes", "num", "bool"}:
            raise Unsupported("match arms of kinds %s" % sorted(kinds))
        kind = kinds.pop()
        texts = [p.bytes_of(r) if kind == "bytes" else r[1] for _, r in arms]
        if any(MARK in t for t in texts):
            raise Unsupported("match arm of unknown integer width")
        return R(kind, "(match %s with %s end)" % (x[1], " | ".join("%s => %s" % (c, t) for (c, _), t in zip(arms, texts))),
                 next((ty_of(r) for _, r in arms if ty_of(r)), None))

    def ident(self, name, ex):
        v = self.st.vars.get(name)
        if v is None:
            c = self.ctx.const(name.split("::")[-1], self.file) if re.fullmatch(r"(?:[a-z_0-9]+::)*[A-Z][A-Z_0-9]*", name) else None
            if c is None:
                raise Unsupported("unknown identifier `%s`" % name)
            val = int(c[2].replace("_", ""), 16) if c[2].startswith("0x") else int(c[2].replace("_", ""))
            if c[1] not in INT_BITS or val >= 2 ** INT_BITS[c[1]]:
                raise Unsupported("const %s: %s = %s" % (name, c[1], c[2]))
            return R("num", str(val), c[1])            # const NAME: T = V  -> the literal V at type T
        if v[0] == "val":
            return self.share(name, v[1]) if len(v) > 2 else v[1]
        if v[0] == "lazy":
            _, toks, declared, snapshot = v
            saved, self.st = self.st, State(snapshot)
            try:
                r = self.parse(toks, declared or ex)
            finally:
                self.st = saved
            if declared and r[0] == "num":
                r = R("num", r[1], declared)
            return self.share(name, r)
        if v[0] == "buf":
            r = self.share(name, R("bytes", self.join(v[1])))
            if r[1].startswith("\u2039") and not self.st.forked:
                # the contents so far ARE that shared term: a later read shares it too (one `let`).  Not inside a
                # branch / loop body: there the buffer is compared with its contents before the block.
                v[1][:] = [r[1]]
            return r
        if v[0] == "struct":
            return R("struct", v[2] if len(v) > 2 else name, info=v[1])
        if v[0] == "vec":
            return self.share(name, R("dyn", v[2], info=v[1]))
        if v[0] == "index":
            raise Unsupported("loop index `%s` used in an expression" % name)
        if v[0] == "other":
            raise Unsupported("parameter `%s` of type %s used outside an OPAQUE call" % (name, v[1]))
        raise Unsupported("internal: variable kind %s" % v[0])

    def field(self, a, fname):
        pname, sname = a[1], a.info
        if self.rec:
            if sname not in RECORDS:
                raise Unsupported("struct %s has no entry in the RECORDS table" % sname)
            for fn_, fty in self.ctx.struct_fields(sname):
                if fn_ == fname:
                    if fname not in RECORDS[sname][1]:
                        raise Unsupported("field %s.%s is missing from the RECORDS table" % (sname, fname))
                    return self.wrapv(self.ctx.tydesc(fty), "(%s %s)" % (RECORDS[sname][1][fname], pname))
            raise Unsupported("struct %s has no field %s" % (sname, fname))
        for fn_, fty in self.ctx.struct_fields(sname):
            if fn_ == fname:
                kind, ty = self.ctx.classify(fty)
                coq = coq_ident("%s_%s" % (pname, fname))
                self.used.setdefault(pname, set()).add(fname)
                if kind == "int":
                    return R("num", coq, ty)
                if kind in ("bool", "bytes"):
                    return R(kind, coq)
                raise Unsupported("field %s.%s of type %s" % (pname, fname, fty))
        raise Unsupported("struct %s has no field %s" % (sname, fname))

    def struct_method(self, a, meth):
        """`p.meth()` on a struct parameter, meth(&self) -> uN | bool: its value is a parameter of the translation
        (named p_meth); only the declared return type is read from the source"""
        pname, sname = a[1], a.info
        defs = self.ctx.structs.get(sname, [])
        if len(defs) != 1:
            raise Unsupported("struct %s has %d definitions in the files read" % (sname, len(defs)))
        ms = re.findall(r"\bfn\s+%s\s*\(\s*&self\s*\)\s*->\s*([A-Za-z0-9_]+)\s*\{" % re.escape(meth), self.ctx.src[defs[0][0]])
        if len(ms) != 1:
            raise Unsupported("method %s.%s(): %d definitions `fn %s(&self) -> T` in %s" % (pname, meth, len(ms), meth, defs[0][0]))
        kind, ty = self.ctx.classify(ms[0])
        if kind not in ("int", "bool"):
            raise Unsupported("method %s.%s() returns %s" % (pname, meth, ms[0]))
        if any(f == meth for f, _ in self.ctx.struct_fields(sname)):
            raise Unsupported("%s is both a field and a method of %s" % (meth, sname))
        if self.rec:
            # record mode: the method body (one expression over self.<field>) is translated in place
            _, ret, body = fn_sig(self.ctx.src[defs[0][0]], meth)
            stmts = split_stmts(tokens(body))
            if len(stmts) != 1 or stmts[0][0] != "tail":
                raise Unsupported("method %s::%s is not a single expression" % (sname, meth))
            saved = self.st
            self.st = State({"self": ("struct", sname, pname)})
            saved_ns, self.noshare = self.noshare, True
            try:
                r = self.parse(stmts[0][1], ty)
            finally:
                self.st, self.noshare = saved, saved_ns
            if (kind == "int" and (r[0] != "num" or ty_of(r) != ty or MARK in r[1])) or (kind == "bool" and r[0] != "bool"):
                raise Unsupported("body of %s::%s does not have its declared type %s" % (sname, meth, ms[0]))
            return r
        coq = coq_ident("%s_%s" % (pname, meth))
        if meth + "()" not in self.methods.setdefault(pname, []):
            self.methods[pname].append(meth + "()")
            self.notes.append("NOT TRANSLATED: the value of %s.%s() is the parameter %s (declared return type %s)" % (pname, meth, coq, ms[0]))
        self.method_kind[(pname, meth)] = kind
        return R("num", coq, ty) if kind == "int" else R("bool", coq)

    def skip_args(self, p):
        p.eat("(")
        depth = 1
        while depth:
            t = p.eat()
            depth += 1 if t in ("(", "[", "{") else -1 if t in (")", "]", "}") else 0

    def field_value(self, fty, toks):
        """the value written for a struct field of type fty in a struct literal"""
        kind, ty = self.ctx.classify(fty)
        if kind in ("int", "sint"):
            r = self.parse(toks, ty)
            if r[0] != "num" or ty_of(r) != ty or MARK in r[1] or (kind == "sint" and not re.fullmatch(r"\d+", r[1])):
                raise Unsupported("field value `%s` for type %s" % (show(toks), fty))
            return r
        if kind == "bool":
            if toks not in (["true"], ["false"]):
                raise Unsupported("field value `%s` for type bool" % show(toks))
            return R("bool", toks[0])
        if kind == "option":
            if toks == ["None"]:
                return R("option", None, ty, info=None)
            if len(toks) >= 4 and toks[:2] == ["Some", "("] and match_close(toks, 1) == len(toks) - 1:
                return R("option", None, ty, info=self.field_value(ty, toks[2:-1]))
            raise Unsupported("field value `%s` for type %s" % (show(toks), fty))
        if kind == "bytes":
            r = self.parse(toks)
            return R("bytes", P([], {}, env=self).bytes_of(r))
        raise Unsupported("struct field of type %s" % fty)

    def struct_default(self, sname):
        """Type::default(): the struct literal written in `impl Default for Type`, field by field"""
        defs = self.ctx.structs.get(sname, [])
        if len(defs) != 1:
            raise Unsupported("struct %s has %d definitions in the files read" % (sname, len(defs)))
        file, fields = defs[0]
        src = self.ctx.src[file]
        ms = list(re.finditer(r"\bimpl\s+Default\s+for\s+%s\s*\{\s*fn\s+default\s*\(\s*\)\s*->\s*Self\s*\{" % re.escape(sname), src))
        if len(ms) != 1:
            raise Unsupported("%d `impl Default for %s` found" % (len(ms), sname))
        depth, e = 1, ms[0].end()
        while depth:
            if e >= len(src):
                raise Unsupported("unbalanced braces in %s::default" % sname)
            depth += {"{": 1, "}": -1}.get(src[e], 0)
            e += 1
        toks = tokens(src[ms[0].end():e - 1])
        if len(toks) < 3 or toks[0] != "Self" or toks[1] != "{" or match_close(toks, 1) != len(toks) - 1:
            raise Unsupported("%s::default is not a single struct literal" % sname)
        inner, i, given = toks[2:-1], 0, {}
        while i < len(inner):
            if i + 1 >= len(inner) or not isinstance(inner[i], str) or inner[i + 1] != ":":
                raise Unsupported("%s::default: field initialiser `%s`" % (sname, show(inner[i:])))
            j = find0(inner, i + 2, (",",))
            j = len(inner) if j is None else j
            given[inner[i]] = inner[i + 2:j]
            i = j + 1
        if sorted(given) != sorted(f for f, _ in fields):
            raise Unsupported("%s::default does not initialise exactly the fields of %s" % (sname, sname))
        saved, self.st = self.st, State({})                 # a Default impl sees no local variables
        try:
            values = dict((f, self.field_value(fty, given[f])) for f, fty in fields)
        finally:
            self.st = saved
        self.notes.append("%s::default(): evaluated field by field from `impl Default for %s` in %s" % (sname, sname, file))
        return R("structval", sname, info=values)

    def struct_update(self, a, meth, p):
        """v.meth(args) for `fn meth(mut self, x: T, ..) -> Self { self.f = E; if C { self.g = E; } self }`"""
        sname = a[1]
        file, fields = self.ctx.structs[sname][0]
        ftypes = dict(fields)
        params, ret, body = fn_sig(self.ctx.src[file], meth)
        if not params or params[0][0] != "mut self" or ret != "Self":
            raise Unsupported("method %s::%s is not `fn(mut self, ..) -> Self`" % (sname, meth))
        p.eat("(")
        vars_ = {"self": ("val", a)}
        for pn, pt in params[1:]:
            kind, ty = self.ctx.classify(pt)
            if kind != "int":
                raise Unsupported("parameter %s: %s of %s::%s" % (pn, pt, sname, meth))
            x = p.expr(ty)
            if ty_of(x) != ty or MARK in x[1]:
                raise Unsupported("argument %s of %s::%s: type %s, expected %s" % (pn, sname, meth, ty_of(x), ty))
            vars_[pn] = ("val", R("num", p.n(x), ty))
            if p.peek() == ",":
                p.eat()
        p.eat(")")
        values = dict(a.info)

        def assign(stmts, cond):
            for s_ in stmts:
                t = s_[1]
                if s_[0] == "expr" and len(t) > 4 and t[:2] == ["self", "."] and t[3] == "=" and t[2] in ftypes:
                    kind, ty = self.ctx.classify(ftypes[t[2]])
                    if kind != "int":
                        raise Unsupported("assignment to the %s field %s" % (ftypes[t[2]], t[2]))
                    vars_["self"] = ("val", R("structval", sname, info=dict(values)))
                    new = self.parse(t[4:], ty)
                    if new[0] != "num" or ty_of(new) != ty or MARK in new[1]:
                        raise Unsupported("value assigned to %s" % t[2])
                    values[t[2]] = new if cond is None else R("num", "(if %s then %s else %s)" % (cond, new[1], values[t[2]][1]), ty)
                elif s_[0] == "if" and cond is None and s_[3] is None:
                    vars_["self"] = ("val", R("structval", sname, info=dict(values)))
                    c = self.parse(s_[1])
                    if c[0] != "bool":
                        raise Unsupported("condition in %s::%s" % (sname, meth))
                    assign(s_[2], c[1])
                elif s_[0] == "tail" and t == ["self"] and cond is None:
                    return
                else:
                    raise Unsupported("statement in %s::%s: %s" % (sname, meth, show(t if s_[0] != "if" else ["if"] + s_[1])))
        stmts = split_stmts(tokens(body))
        if not stmts or stmts[-1] != ("tail", ["self"]):
            raise Unsupported("%s::%s does not end with `self`" % (sname, meth))
        saved, self.st = self.st, State(vars_)
        try:
            assign(stmts, None)
        finally:
            self.st = saved
        self.notes.append(".%s(..): the field assignments of `fn %s(mut self, ..) -> Self` in %s, applied to that value" % (meth, meth, file))
        return R("structval", sname, info=values)

    def call(self, name, p, ex):
        base = name.split("::")[-1]
        if base == "default" and "::" in name and name.split("::")[-2] in self.ctx.structs:
            p.eat("("); p.eat(")")
            return self.struct_default(name.split("::")[-2])
        if name == "Vec::new":
            p.eat("("); p.eat(")")
            return R("bytes", "[]")
        if "::".join(name.split("::")[-2:]) in OPAQUE_ITER:
            return self.iter_param("::".join(name.split("::")[-2:]), p)
        if base == "build_box":
            if (self.file, "build_box") not in self.ctx.sigs:
                raise Unsupported("build_box of %s is not translated" % self.file)
            p.eat("("); typ = p.bytes_of(p.expr()); p.eat(","); payload = p.bytes_of(p.expr()); p.eat(")")
            return R("bytes", "(build_box %s %s)" % (typ, payload))      # the model's build_box; tied by build_box_source_agrees
        if base in OPAQUE_FN:
            p.eat("("); args, tys = [], []
            while p.peek() != ")":
                a = p.expr()
                if a[0] == "num" and ty_of(a) and MARK not in a[1]:
                    args.append(a[1]); tys.append("N")
                else:
                    args.append(p.bytes_of(a)); tys.append("list N")
                if p.peek() == ",":
                    p.eat()
            p.eat(")")
            rd = self.ctx.tydesc(OPAQUE_FN_RET[base]) if base in OPAQUE_FN_RET else ("bytes",)
            if rd != ("bytes",) and not self.rec:
                raise Unsupported("call of %s outside record mode" % base)
            pn, cty = "%s_fn" % base, " -> ".join(tys + [coq_type(rd)])
            prev = [o for o in self.opaque if o[0] == pn]
            if prev and prev[0][3] != cty:
                raise Unsupported("%s called with different argument kinds" % base)
            if not prev:
                self.opaque.append((pn, base, OPAQUE_FN[base], cty))
            return self.wrapv(rd, "(%s)" % " ".join([pn] + args))
        if base == "new" and "::" in name and name.split("::")[-2] in self.ctx.structs and self.rec:
            return self.struct_new(name.split("::")[-2], p)
        if base in OPAQUE and (self.file, base) not in self.ctx.sigs:
            self.skip_args(p)
            pn = coq_ident("%s_result" % base)
            k = 2
            while any(o[0] == pn for o in self.opaque):
                pn = "%s_result%d" % (base, k); k += 1
            self.opaque.append((pn, base, OPAQUE[base], "list N"))
            return R("bytes", pn)
        sig = self.ctx.sigs.get((self.file, base))
        if sig is None:
            cands = [s for (f, n), s in sorted(self.ctx.sigs.items()) if n == base] if "::" in name else []
            if len(cands) != 1:
                raise Unsupported("call of untranslated function %s" % name)
            sig = cands[0]
        for o in sig.opaque:
            # the callee's abstracted sub-terms become parameters of the caller too (same name, passed through)
            if "->" not in o[3]:
                raise Unsupported("call of %s, whose translation has an abstracted result (%s)" % (base, o[0]))
            prev = [q for q in self.opaque if q[0] == o[0]]
            if prev and prev[0][3] != o[3]:
                raise Unsupported("abstracted function %s used at two types" % o[0])
            if not prev:
                self.opaque.append(o)
        p.eat("(")
        args = []
        for prm in sig.params:
            if p.peek() == ")":
                raise Unsupported("too few arguments in the call of %s" % base)
            if prm["kind"] == "int":
                a = p.expr(prm["ty"])
                if ty_of(a) not in (None, prm["ty"]) or MARK in a[1]:
                    raise Unsupported("argument %s of %s: type %s, expected %s" % (prm["name"], base, ty_of(a), prm["ty"]))
                args.append(p.n(a))
            elif prm["kind"] == "bool":
                args.append(p.b(p.expr()))
            elif prm["kind"] in ("bytes", "str"):
                args.append(p.bytes_of(p.expr()))
            elif prm["kind"] == "optstr":
                if p.peek() == "None":
                    p.eat(); args.append("None")
                else:
                    a = p.expr()
                    if a[0] != "optstr":
                        raise Unsupported("argument %s of %s is not an Option<&str> parameter or None" % (prm["name"], base))
                    args.append(a[1])
            elif prm["kind"] == "struct":
                a = p.expr()
                if a[0] != "struct" or a.info != prm["ty"]:
                    raise Unsupported("argument %s of %s is not a %s" % (prm["name"], base, prm["ty"]))
                for f in prm["fields"]:
                    x = self.struct_method(a, f[:-2]) if f.endswith("()") else self.field(a, f)
                    args.append(x[1])
            elif prm["kind"] == "dyn":
                if p.peek() == "None" and prm["desc"][0] == "option":
                    p.eat(); args.append("None")
                else:
                    a = p.expr(prm["desc"][1] if prm["desc"][0] == "int" else None)
                    if not self.same_desc(self.desc_of(a), prm["desc"]):
                        raise Unsupported("argument %s of %s has type %s, expected %s" % (prm["name"], base, self.desc_of(a), prm["desc"]))
                    args.append(p.bytes_of(a) if a[0] in ("bytes", "array") else a[1])
            else:                                               # a parameter the callee's translation does not use
                j = find0(p.t, p.i, (",", ")"))
                if j is None:
                    raise Unsupported("argument list of %s" % base)
                p.i = j
            if p.peek() == ",":
                p.eat()
        p.eat(")")
        args += [o[0] for o in sig.opaque]
        return R("bytes", "(%s)" % " ".join([sig.coq] + args) if args else sig.coq)

    def iter_param(self, key, p):
        """T::new(param) of OPAQUE_ITER: the list of the items the iterator yields, as a parameter"""
        pn, file, why = OPAQUE_ITER[key]
        p.eat("(")
        a = p.expr()
        p.eat(")")
        if a[0] != "bytes" or a[1] not in self.byte_params:
            raise Unsupported("%s(..) over something other than a byte-slice parameter of %s" % (key, self.name))
        d = ("list", self.ctx.iter_item(file, key.split("::")[0]))
        cty = coq_type(d)
        callee = "%s(%s)" % (key, a[1])
        prev = [o for o in self.opaque if o[0] == pn]
        if prev and (prev[0][1] != callee or prev[0][3] != cty):
            raise Unsupported("two different iterators (%s, %s) would share the parameter %s" % (prev[0][1], callee, pn))
        if not prev:
            self.opaque.append((pn, callee, why, cty))
            self.leading.append(pn)
        return R("dyn", pn, info=d)

    # ---- sharing: a local that is read several times becomes a Gallina `let`, otherwise it is inlined ----
    def share(self, name, r):
        """the value of the Rust local `name` at this point: a placeholder, resolved by finish()"""
        if r[0] not in ("num", "bool", "bytes", "dyn", "optstr", "struct") or MARK in r[1] or not re.search(r"[ ;]", r[1]) or self.noshare:
            return r
        key = (name, r[0], r[1])
        if key not in self.shared:
            self.shared[key] = "\u2039%d\u203a" % len(self.shared)
        return R(r[0], self.shared[key], r.ty, info=r.info)

    def finish(self, result, taken):
        """-> ([(let name, kind, text)], result) with every placeholder resolved"""
        lets = []
        for (name, kind, text), ph in reversed(list(self.shared.items())):
            occ = result.count(ph) + sum(t.count(ph) for _, _, t in lets)
            if occ == 0:
                continue
            if occ == 1:
                sub = text
            else:
                sub, k = coq_ident(name), 2
                while sub in taken:
                    sub = "%s_%d" % (name, k); k += 1
                taken.add(sub)
            result = result.replace(ph, sub)
            lets = [(n_, k_, t.replace(ph, sub)) for n_, k_, t in lets]
            if occ > 1:
                lets.insert(0, (sub, kind, text))
        return lets, result

    # ---- statements -----------------------------------------------------------------------------------
    @staticmethod
    def join(terms):
        return "(%s)" % " ++ ".join(terms) if len(terms) > 1 else terms[0] if terms else "[]"

    def buf(self, name):
        v = self.st.vars.get(name)
        if v is None or v[0] != "buf":
            raise Unsupported("`%s` is not a byte buffer declared with Vec::new()/vec![]" % name)
        return v[1]

    def value(self, toks, ex=None):
        """a let right-hand side / argument, classified"""
        r = self.parse(toks, ex)
        if r[0] == "struct":
            raise Unsupported("struct value `%s` used as an expression" % r[1])
        return r

    def do_let(self, toks):
        if toks and toks[0] == "mut":
            mutable, toks = True, toks[1:]
        else:
            mutable = False
        if toks and toks[0] == "(" and not mutable:
            return self.do_tuple_let(toks)
        if len(toks) < 3 or not isinstance(toks[0], str) or not re.fullmatch(r"[a-z_][A-Za-z_0-9]*", toks[0]):
            raise Unsupported("let pattern: %s" % show(toks))
        name = toks[0]
        eq = find0(toks, 1, ("=",))
        if eq is None or (eq != 1 and toks[1] != ":"):
            raise Unsupported("let without initialiser: %s" % show(toks))
        declared = "".join(t for t in toks[2:eq] if isinstance(t, str)) if eq != 1 else None
        rhs = toks[eq + 1:]
        if rhs[:3] == ["Vec::new", "(", ")"] and len(rhs) == 3:
            d = self.ctx.tydesc(declared) if declared else ("bytes",)
            if d[0] == "list":                                   # a vector of integers / tuples: a Gallina list value
                if not mutable:
                    raise Unsupported("immutable empty vector %s" % name)
                coq_type(d)
                self.st.vars[name] = ("vec", d, "[]")
                return
            if d != ("bytes",):
                raise Unsupported("let %s: %s = Vec::new()" % (name, declared))
            self.st.vars[name] = ("buf", [])
            return
        if rhs[:2] == ["Vec::with_capacity", "("] and match_close(rhs, 1) == len(rhs) - 1:
            self.st.vars[name] = ("buf", [])                     # the capacity does not affect the contents
            return
        if rhs[:3] == ["vec", "!", "["] and match_close(rhs, 2) == len(rhs) - 1:
            r = self.parse(rhs, "u8")
            self.st.vars[name] = ("buf", [r[1]])
            return
        if mutable:
            raise Unsupported("let mut %s = %s" % (name, show(rhs)))
        dty = declared if declared in INT_BITS else None
        if declared is not None and dty is None and self.ctx.classify(declared)[0] != "bytes":
            raise Unsupported("let %s: %s" % (name, declared))
        r = self.parse(rhs, dty) if self.rec else self.value(rhs, dty)
        if r[0] == "struct":
            self.st.vars[name] = ("struct", r.info, self.share(name, r)[1])       # a record term: one Gallina let
        elif r[0] in ("bytes", "dyn", "optstr"):
            self.st.vars[name] = ("val", r, "let")
        elif r[0] in ("array", "structval", "option"):
            self.st.vars[name] = ("val", r)
        elif r[0] == "num" and (dty or ty_of(r)) and MARK not in r[1]:
            self.st.vars[name] = ("val", R("num", r[1], dty or ty_of(r)), "let")
        elif r[0] == "bool":
            self.st.vars[name] = ("val", r, "let")
        else:                                                    # type not determined by its own text: decided at each use
            self.st.vars[name] = ("lazy", rhs, dty, self.st.fork().vars)

    @staticmethod
    def tuple_parts(toks):
        """( a , b , c ) -> [a, b, c] (token lists)"""
        if not toks or toks[0] != "(" or match_close(toks, 0) != len(toks) - 1:
            raise Unsupported("expected a tuple: %s" % show(toks))
        parts, i, inner = [], 0, toks[1:-1]
        while i < len(inner):
            j = find0(inner, i, (",",))
            j = len(inner) if j is None else j
            parts.append(inner[i:j]); i = j + 1
        return parts

    def do_tuple_let(self, toks):
        """let (a, b, c) = (x, y, z);   let (a, b, c) = if C { (x, y, z) } else { (p, q, r) };
        component-wise: a = if C { x } else { p }, ..."""
        e = match_close(toks, 0)
        names = self.tuple_parts(toks[:e + 1])
        if e + 1 >= len(toks) or toks[e + 1] != "=" or any(len(n) != 1 or not isinstance(n[0], str) or not re.fullmatch(r"[a-z_][A-Za-z_0-9]*", n[0]) for n in names):
            raise Unsupported("let pattern: %s" % show(toks))
        rhs = toks[e + 2:]
        if rhs and rhs[0] == "if":
            b = find0(rhs, 1, ("{",))
            if b is None:
                raise Unsupported("tuple let: %s" % show(rhs))
            e1 = match_close(rhs, b)
            if rhs[e1 + 1:e1 + 3] != ["else", "{"] or match_close(rhs, e1 + 2) != len(rhs) - 1:
                raise Unsupported("tuple let needs `if C { (..) } else { (..) }`: %s" % show(rhs))
            cond, xs, ys = rhs[1:b], self.tuple_parts(rhs[b + 1:e1]), self.tuple_parts(rhs[e1 + 3:-1])
            if len(xs) != len(names) or len(ys) != len(names):
                raise Unsupported("tuple let: arity")
            comps = [["if"] + cond + ["{"] + x + ["}", "else", "{"] + y + ["}"] for x, y in zip(xs, ys)]
        else:
            comps = self.tuple_parts(rhs)
            if len(comps) != len(names):
                raise Unsupported("tuple let: arity")
        snapshot = State(self.st.vars).fork()
        new = {}
        for n, c in zip(names, comps):                       # every component sees the variables BEFORE the let
            saved, self.st = self.st, State(dict(snapshot.vars))
            try:
                self.do_let([n[0], "="] + c)
                new[n[0]] = self.st.vars[n[0]]
            finally:
                self.st = saved
        self.st.vars.update(new)

    def do_expr(self, toks):
        if len(toks) >= 5 and isinstance(toks[0], str) and toks[1] == "." and toks[3] == "(" and match_close(toks, 3) == len(toks) - 1:
            recv, meth, arg = toks[0], toks[2], toks[4:-1]
            if meth == "extend_from_slice":
                r = self.value(arg)
                p = P([], {}, env=self)
                self.buf(recv).append(p.bytes_of(r))
                return
            if meth == "push":
                r = self.value(arg, "u8")
                if r[0] != "num" or ty_of(r) not in (None, "u8") or MARK in r[1]:
                    raise Unsupported("push of a non-u8 value: %s" % show(arg))
                self.buf(recv).append("[%s]" % r[1])
                return
            raise Unsupported("method statement .%s(..)" % meth)
        if len(toks) >= 4 and toks[0] in ("assert_invariant", "debug_assert", "debug_assert_eq") and toks[1] == "!" and toks[2] == "(":
            c = find0(toks, 3, (",", ")"))
            self.notes.append("precondition (the source panics otherwise): %s" % show(toks[3:c], 40))
            if self.pre is not None:                         # also as a Gallina bool, in <name>_pre, when it can be translated
                self.noshare = True
                try:
                    r = self.parse(toks[3:c]) if toks[0] != "debug_assert_eq" else None
                    self.pre = self.pre + [r[1]] if r is not None and r[0] == "bool" and MARK not in r[1] else None
                except Unsupported:
                    self.pre = None
                finally:
                    self.noshare = False
            return
        raise Unsupported("statement form: %s" % show(toks))

    @staticmethod
    def flat_tokens(stmts):
        out = []
        for s_ in stmts:
            if s_[0] == "if":
                out += ["if"] + list(s_[1]) + ["{"] + ByteBuilder.flat_tokens(s_[2]) + ["}"]
                if s_[3] is not None:
                    out += ["else", "{"] + ByteBuilder.flat_tokens(s_[3]) + ["}"]
            elif s_[0] == "for":
                out += ["for"] + list(s_[1]) + ["in"] + list(s_[2]) + ["{"] + ByteBuilder.flat_tokens(s_[3]) + ["}"]
            else:
                out += list(s_[1]) + [";"]
        return out

    def loop_list(self, it):
        """the list a `for` iterates over, when it is a slice / vector value: (R, enumerate?) or None (older forms)"""
        while it and it[0] == "&":
            it = it[1:]
        if ".." in it:
            return None
        enum = False
        if it[-8:] == [".", "iter", "(", ")", ".", "enumerate", "(", ")"]:
            it, enum = it[:-8], True
        elif it[-4:] == [".", "iter", "(", ")"]:
            it = it[:-4]
        if len(it) == 1 and isinstance(it[0], str):
            v = self.st.vars.get(it[0])
            if v is not None and v[0] == "val" and v[1][0] == "array":
                return None
        if not it:
            raise Unsupported("for without an iterator")
        r = self.parse(it)
        if r[0] == "bytes" or (r[0] == "dyn" and r.info[0] == "list"):
            return r, enum
        raise Unsupported("for over `%s`, which is not a slice, a vector or an array literal" % show(it))

    def proj_binds(self, toks, d, text):
        """bind the names of a (possibly nested tuple) pattern to projections of the Gallina term `text`"""
        while toks and toks[0] in ("&", "ref", "mut"):
            toks = toks[1:]
        if len(toks) == 1 and toks[0] == "_":
            return {}
        if len(toks) == 1 and isinstance(toks[0], str) and re.fullmatch(r"[a-z_][A-Za-z_0-9]*", toks[0]):
            return {toks[0]: self.bindvar(d, text)}
        if toks and toks[0] == "(" and match_close(toks, 0) == len(toks) - 1:
            parts = self.tuple_parts(toks)
            if d[0] != "tuple" or len(d[1]) != len(parts) or len(parts) != 2:
                raise Unsupported("tuple pattern `%s` against a value of another shape" % show(toks))
            out = {}
            for k, (pt, pd) in enumerate(zip(parts, d[1])):
                out.update(self.proj_binds(pt, pd, "(%s %s)" % (("fst", "snd")[k], text)))
            return out
        raise Unsupported("for pattern: %s" % show(toks))

    def do_for_list(self, pat, lst, enum, body, indexed=False):
        ltext = lst[1]
        edesc = lst.info[1] if lst[0] == "dyn" else ("int", "u8")
        binds = {}
        if enum and not indexed:
            # first without the index (it is often only used in an assertion message); if the body reads it,
            # again over [enumerate_from 0 L], the list of (index, element) pairs
            nnotes = len(self.notes)                  # (the body runs on a forked state: a failed probe leaves no trace)
            try:
                return self.do_for_list(pat, lst, False, body, indexed="probe")
            except Unsupported as e:
                if "loop index" not in str(e):
                    raise
                del self.notes[nnotes:]
            edesc = ("tuple", [("int", "usize"), edesc])
            ltext = "(enumerate_from 0 %s)" % ltext
            return self.do_for_list(pat, R("dyn", ltext, info=("list", edesc)), False, body, indexed=True)
        if indexed == "probe":
            enum = True
        if enum:
            parts = self.tuple_parts(pat) if pat and pat[0] == "(" else []
            if len(parts) != 2 or len(parts[0]) != 1 or not isinstance(parts[0][0], str):
                raise Unsupported("for pattern over .enumerate(): %s" % show(pat))
            if parts[0][0] != "_":
                binds[parts[0][0]] = ("index",)
            pat = parts[1]
        p0 = [t for t in pat if t not in ("&", "ref", "mut")]
        simple = len(p0) == 1 and isinstance(p0[0], str) and re.fullmatch(r"[a-z_][A-Za-z_0-9]*", p0[0]) and p0[0] != "_"
        var = coq_ident(p0[0]) if simple else self.newname("e_")
        if var in self.st.vars or any(coq_ident(k) == var for k in self.st.vars):
            var = self.newname(var + "_")
        binds.update(self.proj_binds(pat, edesc, var))
        flat = self.flat_tokens(body)
        targets = [n for n, v in self.st.vars.items() if v[0] == "vec" and
                   any(flat[k:k + 2] == [n, "."] and flat[k + 2] in ("push", "last_mut") for k in range(len(flat) - 2))]
        if targets:
            if len(targets) != 1 or enum:
                raise Unsupported("loop that updates the vectors %s" % ", ".join(targets))
            return self.do_fold(targets[0], var, edesc, ltext, binds, body)
        base = self.st
        st1 = base.fork(); st1.vars.update(binds)
        saved_ns, saved_pre = self.noshare, self.pre
        self.st, self.noshare, self.pre = st1, True, (None if saved_pre is None else [])
        try:
            r = self.run(body, False, "top")
        finally:
            inner_pre = self.pre
            self.st, self.noshare, self.pre = base, saved_ns, saved_pre
        if r[0] == "ret":
            raise Unsupported("return inside a loop")
        for name, v in base.vars.items():
            if v[0] == "vec" and st1.vars.get(name) != v:
                raise Unsupported("vector %s is updated inside a loop" % name)
            if v[0] != "buf":
                continue
            old, new = v[1], st1.vars[name][1]
            if new[:len(old)] != old:
                raise Unsupported("buffer %s is not only appended to inside a loop" % name)
            if new[len(old):]:
                # one iteration appends E(x): the loop appends E(x1) ++ E(x2) ++ ..
                old.append("(flat_map (fun %s : %s => %s) %s)" % (var, coq_type(edesc), self.join(new[len(old):]), ltext))
        if saved_pre is not None:
            if inner_pre is None:
                self.pre = None
            elif inner_pre:
                self.pre.append("(forallb (fun %s : %s => %s) %s)" % (var, coq_type(edesc), " && ".join(inner_pre), ltext))

    def tuple_value(self, toks, d):
        """a Rust tuple / scalar expression of type d as a Gallina term"""
        if d[0] == "tuple":
            parts = self.tuple_parts(toks)
            if len(parts) != len(d[1]):
                raise Unsupported("tuple `%s` of the wrong arity" % show(toks))
            return "(%s)" % ", ".join(self.tuple_value(pt, pd) for pt, pd in zip(parts, d[1]))
        r = self.parse(toks, d[1] if d[0] == "int" else None)
        if not self.same_desc(self.desc_of(r), d) or MARK in r[1]:
            raise Unsupported("value `%s` is not of type %s" % (show(toks), d))
        return r[1]

    def do_fold(self, V, var, edesc, ltext, binds, body):
        """for x in L { .. V.last_mut() / V.push(..) / continue .. }: a left fold over L with the vector V as state"""
        _, vd, init = self.st.vars[V]
        acc = coq_ident(V)
        base = self.st
        st1 = base.fork(); st1.vars.update(binds)
        saved_ns, npre = self.noshare, (None if self.pre is None else len(self.pre))
        self.st, self.noshare = st1, True
        try:
            step = self.fold_body(list(body), V, vd, acc, None)
        finally:
            self.st, self.noshare = base, saved_ns
        if npre is not None and (self.pre is None or len(self.pre) != npre):
            raise Unsupported("precondition inside a fold")
        self.st.vars[V] = ("vec", vd, "(fold_left (fun (%s : %s) (%s : %s) => %s) %s %s)" % (acc, coq_type(vd), var, coq_type(edesc), step, ltext, init))

    def fold_body(self, stmts, V, vd, cur, last):
        """the vector after running stmts on the vector `cur`; last: the element borrowed by last_mut(), if any"""
        def close():
            return cur if not last or not last["mod"] else "(vec_set_last %s (%s))" % (cur, ", ".join(last["comps"]))
        if not stmts:
            return close()
        s_, rest = stmts[0], stmts[1:]
        if s_[0] in ("expr", "tail") and list(s_[1]) == ["continue"]:
            return close()
        if s_[0] == "endborrow":
            if last:
                self.st.vars.pop(last["name"], None)
            cur2 = close()
            return self.fold_body(rest, V, vd, cur2, None)
        if s_[0] == "expr" and s_[1][:4] == [V, ".", "push", "("] and match_close(s_[1], 3) == len(s_[1]) - 1:
            if last:
                raise Unsupported("push while the last element is borrowed")
            item = self.tuple_value(s_[1][4:-1], vd[1])
            return self.fold_body(rest, V, vd, "(%s ++ [%s])" % (cur, item), None)
        t = s_[1] if s_[0] != "endborrow" else []
        if s_[0] == "expr" and last and len(t) > 5 and t[0] == last["name"] and t[1] == "." and isinstance(t[2], str) \
                and re.fullmatch(r"\d+", t[2]) and t[3:5] == ["+", "="]:
            k = int(t[2])
            if k >= len(last["descs"]) or last["descs"][k][0] != "int" or last["descs"][k][1] not in WRAPFN:
                raise Unsupported("`+=` on component %d of %s" % (k, last["name"]))
            ty = last["descs"][k][1]
            rhs = self.parse(t[5:], ty)
            if rhs[0] != "num" or ty_of(rhs) != ty or MARK in rhs[1]:
                raise Unsupported("right-hand side of `+=`: %s" % show(t[5:]))
            comps = list(last["comps"])
            comps[k] = "(%s (%s + %s))" % (WRAPFN[ty], comps[k], rhs[1])       # wrapping add at the component's type
            last2 = dict(last, comps=comps, mod=True)
            self.st.vars[last["name"]] = ("val", R("dyn", "(%s)" % ", ".join(comps), info=("tuple", last["descs"])))
            return self.fold_body(rest, V, vd, cur, last2)
        if s_[0] == "if" and t[:1] == ["let"]:
            if last:
                raise Unsupported("nested borrow of the last element")
            if len(t) != 11 or t[1:3] != ["Some", "("] or t[4:] != [")", "=", V, ".", "last_mut", "(", ")"] \
                    or not isinstance(t[3], str) or not re.fullmatch(r"[a-z_][A-Za-z_0-9]*", t[3]):
                raise Unsupported("if let in a fold: %s" % show(t))
            if vd[1][0] != "tuple" or len(vd[1][1]) != 2:
                raise Unsupported("last_mut() on a vector whose elements are not pairs")
            g = coq_ident(t[3])
            lastn = dict(name=t[3], comps=["(fst %s)" % g, "(snd %s)" % g], descs=vd[1][1], mod=False)
            saved = dict(self.st.vars)
            self.st.vars[t[3]] = ("val", R("dyn", g, info=vd[1]))
            try:
                some = self.fold_body(list(s_[2]) + [("endborrow",)] + rest, V, vd, cur, lastn)
            finally:
                self.st.vars.clear(); self.st.vars.update(saved)
            none = self.fold_body(list(s_[3] or []) + rest, V, vd, cur, None)
            return "(match vec_last %s with Some %s => %s | None => %s end)" % (cur, g, some, none)
        if s_[0] == "if":
            c = self.parse(t)
            if c[0] != "bool":
                raise Unsupported("if condition is not boolean: %s" % show(t))
            saved = dict(self.st.vars)
            a = self.fold_body(list(s_[2]) + rest, V, vd, cur, last)
            self.st.vars.clear(); self.st.vars.update(saved)
            b = self.fold_body(list(s_[3] or []) + rest, V, vd, cur, last)
            self.st.vars.clear(); self.st.vars.update(saved)
            return "(if %s then %s else %s)" % (c[1], a, b)
        raise Unsupported("statement in a fold: %s" % show(t))

    def do_for(self, pat, it, body):
        ll = self.loop_list(it)
        if ll is not None:
            return self.do_for_list(pat, ll[0], ll[1], body)
        if len(pat) != 1 or not isinstance(pat[0], str) or not re.fullmatch(r"_|[a-z_][A-Za-z_0-9]*", pat[0]):
            raise Unsupported("for pattern: %s" % show(pat))
        if len(it) == 3 and it[1] == ".." and all(isinstance(x, str) and re.fullmatch(r"\d+", x) for x in (it[0], it[2])):
            if pat[0] != "_":
                raise Unsupported("for over a range with a used index")
            values = [None] * max(0, int(it[2]) - int(it[0]))
        elif len(it) == 1 and isinstance(it[0], str):
            a = self.ident(it[0], None)
            if a[0] != "array":
                raise Unsupported("for over `%s`, which is not an array literal" % it[0])
            values = a.elems
        elif len(it) > 2 and it[0] == "0" and it[1] == ".." and pat[0] != "_" and len(body) == 1 and body[0][0] == "expr" \
                and len(body[0][1]) == 6 and body[0][1][1:] == [".", "push", "(", pat[0], ")"]:
            # for i in 0..E { B.push(i); }  with E: u8   ->   the bytes 0, 1, .., E-1
            e = self.parse(it[2:])
            if e[0] != "num" or ty_of(e) != "u8" or MARK in e[1]:
                raise Unsupported("for over 0..E with E not a u8: %s" % show(it[2:]))
            self.buf(body[0][1][0]).append("(map N.of_nat (seq 0 (N.to_nat %s)))" % e[1])
            return
        else:
            raise Unsupported("for iterator: %s" % show(it))
        if len(values) > 4096:
            raise Unsupported("loop of %d iterations" % len(values))
        for v in values:
            saved = self.st.vars.get(pat[0])
            if v is not None:
                if ty_of(v) is None:
                    raise Unsupported("for over an array whose element type is not written in the source")
                self.st.vars[pat[0]] = ("val", v)
            if self.run(body, False)[0] == "ret":
                raise Unsupported("return inside a loop")
            if v is not None:
                if saved is None:
                    del self.st.vars[pat[0]]
                else:
                    self.st.vars[pat[0]] = saved

    def dyn_if_let(self, pat, o, then, els, top):
        """if let Some(PAT) = O { A } [else { B }] with O an Option VALUE (parameter / record field): appends only,
        each buffer gets `match O with Some PAT => A | None => B end`"""
        d = self.desc_of(o)
        if d[0] != "option":
            raise Unsupported("if let over a value that is not an Option: %s" % o[1])
        gpat, binds = self.pattern(pat, d)
        if not gpat.startswith("Some "):
            raise Unsupported("if let pattern: %s" % show(pat))
        base = self.st
        saved_ns, saved_pre = self.noshare, self.pre
        outs = []
        for block, extra in ((then, binds), (els or [], {})):
            st_ = base.fork(); st_.vars.update(extra)
            self.st, self.noshare, self.pre = st_, True, (None if saved_pre is None else [])
            try:
                r = self.run(block, False)
            finally:
                inner = self.pre
                self.st, self.noshare, self.pre = base, saved_ns, saved_pre
            if r[0] == "ret":
                raise Unsupported("return inside if let")
            outs.append((st_, inner))
        for name, v in base.vars.items():
            if v[0] == "vec" and any(st_.vars.get(name) != v for st_, _ in outs):
                raise Unsupported("vector %s is updated inside an if let" % name)
            if v[0] != "buf":
                continue
            old, n1, n2 = v[1], outs[0][0].vars[name][1], outs[1][0].vars[name][1]
            if n1[:len(old)] != old or n2[:len(old)] != old:
                raise Unsupported("buffer %s is not only appended to inside an if let" % name)
            if n1[len(old):] or n2[len(old):]:
                old.append("(match %s with %s => %s | None => %s end)" % (o[1], gpat, self.join(n1[len(old):]), self.join(n2[len(old):])))
        if saved_pre is not None:
            if outs[0][1] is None or outs[1][1] is None:
                self.pre = None
            elif outs[0][1] or outs[1][1]:
                self.pre.append("(match %s with %s => %s | None => %s end)" % (o[1], gpat, " && ".join(outs[0][1]) or "true", " && ".join(outs[1][1]) or "true"))

    def tail_bytes(self, toks):
        r = self.value(toks)
        return P([], {}, env=self).bytes_of(r)

    def merge_if(self, base, c, st1, st2):
        """after `if c { .. } else { .. }` run on the forks st1 / st2 of base: every buffer gets `if c then A else B`"""
        for name, v in base.vars.items():
            if v[0] != "buf":
                continue
            old, n1, n2 = v[1], st1.vars[name][1], st2.vars[name][1]
            if n1[:len(old)] != old or n2[:len(old)] != old:
                raise Unsupported("buffer %s is not only appended to inside an if" % name)
            e1, e2 = n1[len(old):], n2[len(old):]
            if e1 or e2:
                old.append("(if %s then %s else %s)" % (c[1], self.join(e1), self.join(e2)))

    def run(self, stmts, top, loop=None):
        """-> ("ret", Gallina bytes) | ("fall",) | ("cont",)
        loop: "top" at the top level of the body of a flat_map loop, "nested" in an `if` block below it, else None;
        ("cont",): the block ended in `continue` (only with loop set)"""
        for k, s in enumerate(stmts):
            if s[0] in ("expr", "tail") and list(s[1]) == ["continue"]:
                if not loop:
                    raise Unsupported("`continue` outside the body of a loop over a list that appends to byte buffers")
                return ("cont",)                                 # the statements after it are dead code
            if s[0] == "let":
                self.do_let(s[1])
            elif s[0] == "expr":
                self.do_expr(s[1])
            elif s[0] == "for":
                self.do_for(s[1], s[2], s[3])
            elif s[0] == "return":
                return ("ret", self.tail_bytes(s[1]))
            elif s[0] == "tail":
                if not top:
                    raise Unsupported("block with a value: %s" % show(s[1]))
                if k != len(stmts) - 1:
                    raise Unsupported("internal: tail before the end")
                return ("ret", self.tail_bytes(s[1]))
            elif s[0] == "if" and s[1][:1] == ["let"]:
                # if let Some(x) = [&]E { A } else { B } with E an Option known statically (a field of a struct value)
                t = s[1]
                eq = find0(t, 1, ("=",))
                if eq is None or eq < 2 or eq + 1 >= len(t):
                    raise Unsupported("if let pattern: %s" % show(t))
                o = self.parse(t[eq + 1:])
                if o[0] != "option":
                    self.dyn_if_let(t[1:eq], o, s[2], s[3], top)
                    continue
                if len(t) < 7 or t[1:3] != ["Some", "("] or t[4:6] != [")", "="] or not isinstance(t[3], str) or not re.fullmatch(r"[a-z_][A-Za-z_0-9]*", t[3]):
                    raise Unsupported("if let pattern: %s" % show(t))
                if o.info is None:
                    block = s[3] or []
                else:
                    block = s[2]
                    self.st.vars[t[3]] = ("val", o.info)
                r_ = self.run(block, False)
                if r_[0] == "ret":
                    raise Unsupported("return inside if let")
            elif s[0] == "if":
                c = self.parse(s[1])
                if c[0] != "bool":
                    raise Unsupported("if condition is not boolean: %s" % show(s[1]))
                base = self.st
                inner = "nested" if loop else None
                try:
                    self.st = st1 = base.fork(); r1 = self.run(s[2], False, inner)
                    self.st = st2 = base.fork(); r2 = self.run(s[3], False, inner) if s[3] is not None else ("fall",)
                except Unsupported:
                    self.st = base
                    raise
                if "cont" in (r1[0], r2[0]) and "ret" not in (r1[0], r2[0]):
                    # a path that ends in `continue` appends nothing more in this iteration; a path that falls
                    # through runs the rest of THIS block.  What follows the enclosing block must run on every
                    # path or on none: at the top level of the loop body nothing follows.
                    ends = []
                    try:
                        for r, st in ((r1, st1), (r2, st2)):
                            if r[0] == "cont":
                                ends.append("cont")
                            else:
                                self.st = st
                                rr = self.run(stmts[k + 1:], False, loop)
                                if rr[0] == "ret":
                                    raise Unsupported("return inside a loop")
                                ends.append(rr[0])
                    finally:
                        self.st = base
                    if loop != "top" and ends != ["cont", "cont"]:
                        raise Unsupported("`continue` on only some of the paths through a nested block")
                    self.merge_if(base, c, st1, st2)
                    return ("fall",) if loop == "top" else ("cont",)
                if r1[0] == "ret" or r2[0] == "ret":
                    if not top:
                        self.st = base
                        raise Unsupported("return inside a nested block")
                    outs = []
                    for r, st in ((r1, st1), (r2, st2)):
                        if r[0] == "ret":
                            outs.append(r[1])
                        else:
                            self.st = st
                            rr = self.run(stmts[k + 1:], True)
                            if rr[0] != "ret":
                                raise Unsupported("no value at the end of %s" % self.name)
                            outs.append(rr[1])
                    self.st = base
                    return ("ret", "(if %s then %s else %s)" % (c[1], outs[0], outs[1]))
                self.st = base
                self.merge_if(base, c, st1, st2)
            else:
                raise Unsupported("internal: statement %s" % s[0])
        return ("fall",)

    def translate(self):
        """-> (Gallina text, Sig)"""
        src = self.ctx.src.get(self.file)
        if src is None:
            raise Unsupported("file %s was not read" % self.file)
        params, ret, body = fn_sig(src, self.name)
        if not re.fullmatch(r"Vec<u8>|\[u8;\s*\d+\]", ret):
            raise Unsupported("return type `%s` is not a byte vector / array" % ret)
        vars_, plist = {}, []
        for pn, pt in params:
            kind, ty = self.ctx.classify(pt)
            if not re.fullmatch(r"_?[a-z][A-Za-z_0-9]*", pn):
                raise Unsupported("parameter pattern %s" % pn)
            plist.append(dict(kind=kind, name=pn, ty=ty, fields=[], rust=pt))
            if kind == "int":
                vars_[pn] = ("val", R("num", coq_ident(pn), ty))
            elif kind in ("bool", "bytes", "optstr"):
                vars_[pn] = ("val", R(kind, coq_ident(pn)))
                if kind == "bytes":
                    self.byte_params.add(coq_ident(pn))
            elif kind == "str":
                vars_[pn] = ("val", R("bytes", coq_ident(pn)))
            elif kind == "struct" and not self.rec:
                vars_[pn] = ("struct", ty)
            else:
                # lists of integers / pairs, options, tuples; in record mode also structs and enums (model types)
                desc = self.ctx.tydesc(pt)
                try:
                    coq_type(desc)
                    plist[-1].update(kind="dyn", desc=desc)
                    vars_[pn] = self.bindvar(desc, coq_ident(pn))
                except Unsupported:
                    plist[-1].update(kind="other")
                    vars_[pn] = ("other", pt)
        self.st = State(vars_)
        r = self.run(split_stmts(tokens(body)), True)
        if r[0] != "ret":
            raise Unsupported("no value at the end of %s" % self.name)
        if MARK in r[1]:
            raise Unsupported("a shift whose operand type is not written in the source")
        binders = []
        for prm in plist:
            if prm["kind"] == "int":
                binders.append("(%s : N)" % coq_ident(prm["name"]))
            elif prm["kind"] == "bool":
                binders.append("(%s : bool)" % coq_ident(prm["name"]))
            elif prm["kind"] in ("bytes", "str"):
                binders.append("(%s : list N)" % coq_ident(prm["name"]))
            elif prm["kind"] == "optstr":
                binders.append("(%s : option (list N))" % coq_ident(prm["name"]))
            elif prm["kind"] == "dyn":
                binders.append("(%s : %s)" % (coq_ident(prm["name"]), coq_type(prm["desc"])))
            elif prm["kind"] == "struct":
                for fn_, fty in self.ctx.struct_fields(prm["ty"]):          # declaration order of the struct
                    if fn_ in self.used.get(prm["name"], ()):
                        prm["fields"].append(fn_)
                        k2, _ = self.ctx.classify(fty)
                        binders.append("(%s : %s)" % (coq_ident("%s_%s" % (prm["name"], fn_)), {"int": "N", "bool": "bool", "bytes": "list N"}[k2]))
                for m_ in self.methods.get(prm["name"], []):                # then the methods, in order of first use
                    prm["fields"].append(m_)
                    binders.append("(%s : %s)" % (coq_ident("%s_%s" % (prm["name"], m_[:-2])), {"int": "N", "bool": "bool"}[self.method_kind[(prm["name"], m_[:-2])]]))
        for pn, callee, why, cty in self.opaque:
            if pn not in self.leading:
                binders.append("(%s : %s)" % (pn, cty))
        binders = ["(%s : %s)" % (pn, cty) for pn, callee, why, cty in self.opaque if pn in self.leading] + binders
        names = [b.split()[0][1:] for b in binders]
        if len(set(names)) != len(names):
            raise Unsupported("parameter names collide after flattening: %s" % names)
        text = "(* %s :: %s *)\n" % (self.file, self.name)
        for pn, callee, why, cty in self.opaque:
            text += comment("NOT TRANSLATED: %s is the parameter %s (%s)" % (
                "the function %s" % callee if "->" in cty else "the value returned by the call of %s" % callee, pn, why))
        def inline(t):                                            # locals are inlined in comments and in <name>_pre
            for (name_, kind_, text_), ph in reversed(list(self.shared.items())):
                t = t.replace(ph, text_)
            return t
        for n_ in self.notes:
            text += comment(inline(n_))
        lets, result = self.finish(r[1], set(names) | RESERVED)
        body_text = result[1:-1] if result.startswith("(") and match_paren_whole(result) else result
        text += "Definition %s%s : list N :=\n" % (self.coq, "".join(" " + b for b in binders))
        for n_, k_, t in lets:
            text += "  let %s := %s in\n" % (n_, t[1:-1] if t.startswith("(") and match_paren_whole(t) else t)
        text += "  %s.\n" % body_text
        if self.pre:
            pre = inline(" && ".join(self.pre))
            words = set(re.findall(r"[A-Za-z_][A-Za-z_0-9']*", pre))
            text += "Definition %s_pre%s : bool :=\n  %s.\n" % (
                self.coq, "".join(" " + b for b in binders if b.split()[0][1:] in words), pre)   # only the parameters it mentions
        if "\u2039" in text:
            raise Unsupported("internal: unresolved placeholder")
        return text, Sig(self.coq, plist, list(self.opaque))


def match_paren_whole(s):
    depth = 0
    for k, ch in enumerate(s):
        depth += {"(": 1, ")": -1}.get(ch, 0)
        if depth == 0 and k < len(s) - 1:
            return False
    return depth == 0


# (file, function, Gallina name), callees before callers
MP4 = "src/muxer/mp4.rs"
FRAG = "src/fragmented.rs"
BUILDERS = [
    (MP4, "build_box", "build_box_src"),
    (MP4, "build_ftyp_box", "build_ftyp_box_src"),
    (MP4, "build_vmhd_box", "build_vmhd_box_src"),
    (MP4, "build_smhd_box", "build_smhd_box_src"),
    (MP4, "build_url_box", "build_url_box_src"),
    (MP4, "build_dref_box", "build_dref_box_src"),
    (MP4, "build_dinf_box", "build_dinf_box_src"),
    (MP4, "build_hdlr_box", "build_hdlr_box_src"),
    (MP4, "build_sound_hdlr_box", "build_sound_hdlr_box_src"),
    (MP4, "build_meta_hdlr_box", "build_meta_hdlr_box_src"),
    (MP4, "build_mvhd_payload", "build_mvhd_payload_src"),
    (MP4, "build_tkhd_box_with_id", "build_tkhd_box_with_id_src"),
    (MP4, "build_tkhd_box", "build_tkhd_box_src"),
    (MP4, "build_audio_tkhd_box", "build_audio_tkhd_box_src"),
    (MP4, "build_mdhd_box_with_timescale_and_duration", "build_mdhd_box_src"),
    (MP4, "build_stsc_box", "build_stsc_box_src"),
    (MP4, "build_vpcc_box", "build_vpcc_box_src"),
    (MP4, "build_vp09_box", "build_vp09_box_src"),
    (MP4, "build_av1c_box", "build_av1c_box_src"),
    (MP4, "build_av01_box", "build_av01_box_src"),
    (MP4, "build_avcc_box", "build_avcc_box_src"),
    (MP4, "build_avc1_box", "build_avc1_box_src"),
    (MP4, "build_hvcc_box", "build_hvcc_box_src"),
    (MP4, "build_hvc1_box", "build_hvc1_box_src"),
    (MP4, "build_audio_specific_config", "build_audio_specific_config_src"),
    (MP4, "build_esds_box", "build_esds_box_src"),
    (MP4, "build_mp4a_box", "build_mp4a_box_src"),
    (MP4, "build_dops_box", "build_dops_box_src"),
    (MP4, "build_opus_box", "build_opus_box_src"),
    (FRAG, "build_box", "build_box_fmp4_src"),
    (FRAG, "build_ftyp_fmp4", "build_ftyp_fmp4_src"),
    (FRAG, "build_mvhd_fmp4", "build_mvhd_fmp4_src"),
    (FRAG, "build_mvex", "build_mvex_src"),
    (FRAG, "build_tkhd_fmp4", "build_tkhd_fmp4_src"),
    (FRAG, "build_mdhd_fmp4", "build_mdhd_fmp4_src"),
    (FRAG, "build_hdlr_video", "build_hdlr_video_src"),
    (FRAG, "build_vmhd", "build_vmhd_src"),
    (FRAG, "build_dinf", "build_dinf_src"),
    (FRAG, "build_empty_stts", "build_empty_stts_src"),
    (FRAG, "build_empty_stsc", "build_empty_stsc_src"),
    (FRAG, "build_empty_stsz", "build_empty_stsz_src"),
    (FRAG, "build_empty_stco", "build_empty_stco_src"),
    (FRAG, "build_stbl_fmp4", "build_stbl_fmp4_src"),
    (FRAG, "build_avcc_fmp4", "build_avcc_fmp4_src"),
    (FRAG, "build_avc1_fmp4", "build_avc1_fmp4_src"),
    (FRAG, "build_hvc1_fmp4", "build_hvc1_fmp4_src"),
    (FRAG, "build_av01_fmp4", "build_av01_fmp4_src"),
    (FRAG, "build_vp09_fmp4", "build_vp09_fmp4_src"),
    (FRAG, "build_mfhd", "build_mfhd_src"),
    (FRAG, "build_tfhd", "build_tfhd_src"),
    (FRAG, "build_tfdt", "build_tfdt_src"),
    # sample tables with data-dependent loops
    (MP4, "build_stsz_box", "build_stsz_box_src"),
    (MP4, "build_stco_box", "build_stco_box_src"),
    (MP4, "build_stss_box", "build_stss_box_src"),
    (MP4, "build_stts_box", "build_stts_box_src"),
    (MP4, "build_ctts_box", "build_ctts_box_src"),
    # containers, in record mode: struct parameters are the model's records (table RECORDS)
    (MP4, "build_stsd_box", "build_stsd_box_src", "rec"),
    (MP4, "build_audio_stsd_box", "build_audio_stsd_box_src", "rec"),
    (MP4, "build_stbl_box", "build_stbl_box_src", "rec"),
    (MP4, "build_audio_stbl_box", "build_audio_stbl_box_src", "rec"),
    (MP4, "build_minf_box", "build_minf_box_src", "rec"),
    (MP4, "build_audio_minf_box", "build_audio_minf_box_src", "rec"),
    (MP4, "build_mdia_box", "build_mdia_box_src", "rec"),
    (MP4, "build_audio_mdia_box", "build_audio_mdia_box_src", "rec"),
    (MP4, "build_trak_box", "build_trak_box_src", "rec"),
    (MP4, "build_audio_trak_box", "build_audio_trak_box_src", "rec"),
    (MP4, "build_ilst_string_item", "build_ilst_string_item_src", "rec"),
    (MP4, "build_udta_box", "build_udta_box_src", "rec"),
    (MP4, "build_moov_box", "build_moov_box_src", "rec"),
    # fragmented init segment, record mode (FragmentConfig is the model's frag_config); the three sample entries that
    # were translated above with their configuration record as a parameter are translated again, now calling it
    (FRAG, "build_vpcc_fmp4", "build_vpcc_fmp4_src", "rec"),
    (FRAG, "build_hvcc_fmp4", "build_hvcc_fmp4_src", "rec"),
    (FRAG, "build_av1c_fmp4", "build_av1c_fmp4_src", "rec"),
    (FRAG, "build_hvc1_fmp4", "build_hvc1_fmp4_full_src", "rec"),
    (FRAG, "build_av01_fmp4", "build_av01_fmp4_full_src", "rec"),
    (FRAG, "build_vp09_fmp4", "build_vp09_fmp4_full_src", "rec"),
    (FRAG, "build_stsd_fmp4", "build_stsd_fmp4_src", "rec"),
    (FRAG, "build_stbl_fmp4", "build_stbl_fmp4_full_src", "rec"),
    (FRAG, "build_minf_fmp4", "build_minf_fmp4_src", "rec"),
    (FRAG, "build_mdia_fmp4", "build_mdia_fmp4_src", "rec"),
    (FRAG, "build_trak_fmp4", "build_trak_fmp4_src", "rec"),
    (FRAG, "build_moov_fmp4", "build_moov_fmp4_src", "rec"),
    # media segment
    (FRAG, "build_trun", "build_trun_src", "rec"),
    (FRAG, "build_traf", "build_traf_src", "rec"),
    (FRAG, "build_moof_with_offset", "build_moof_with_offset_src", "rec"),
    (FRAG, "build_moof", "build_moof_src", "rec"),
    (FRAG, "build_media_segment", "build_media_segment_src", "rec"),
    # Annex B -> length-prefixed re-framing; the NAL iterator is abstract (OPAQUE_ITER): parameter `nals`
    ("src/codec/h264.rs", "annexb_to_avcc", "annexb_to_avcc_src"),
    ("src/codec/h265.rs", "hevc_annexb_to_hvcc", "hevc_annexb_to_hvcc_src"),
]
SOURCE_FILES = [MP4, FRAG, "src/api.rs", "src/codec/opus.rs", "src/codec/vp9.rs", "src/codec/av1.rs", "src/codec/h264.rs", "src/codec/h265.rs"]


def generate_builders(repo):
    """-> (coq text, problems)"""
    ctx = Ctx(repo, SOURCE_FILES)
    problems = list(ctx.problems)
    text = ("\n(* ---- byte builders: one term per statement, widths taken from the Rust types in the source ---- *)\n"
            "From Muxide Require Import Model.Base Model.Codec Model.Boxes Model.Frag.\nOpen Scope N_scope.\n\n"
            "(* Vec::last_mut() and the assignment through the reference it returns *)\n"
            "Definition vec_last {A} (v : list A) : option A := match rev v with x :: _ => Some x | [] => None end.\n"
            "Definition vec_set_last {A} (v : list A) (x : A) : list A := removelast v ++ [x].\n"
            "(* l.iter().enumerate(): the elements paired with their index *)\n"
            "Fixpoint enumerate_from {A} (i : N) (l : list A) : list (N * A) :=\n"
            "  match l with [] => [] | x :: t => (i, x) :: enumerate_from (i + 1) t end.\n\n")
    for entry in BUILDERS:
        f, fn, coq = entry[:3]
        try:
            t_, sig = ByteBuilder(ctx, f, fn, coq, rec="rec" in entry[3:]).translate()
            ctx.sigs[(f, fn)] = sig
            text += t_ + "\n"
        except Unsupported as e:
            problems.append("%s %s (byte builder): %s" % (f, fn, e))
            text += comment("%s %s: NOT TRANSLATED: %s" % (f, fn, e)) + "\n"
        except Exception as e:                                   # never raise: an unforeseen input is a problem entry
            problems.append("%s %s (byte builder): internal error %s: %s" % (f, fn, type(e).__name__, e))
            text += "(* %s %s: NOT TRANSLATED: internal error *)\n\n" % (f, fn)
    return text, problems


def generate(repo="/repo"):
    """-> (coq text, list of problems); never raises"""
    problems = []
    try:
        src = open(repo + "/src/muxer/mp4.rs").read()
    except OSError as e:
        src = ""
        problems.append("src/muxer/mp4.rs: cannot read: %s" % e)
    text = "(* GENERATED on every run by gen/rust2coq.py from %s/src/muxer/mp4.rs: do not edit *)\nFrom Coq Require Import NArith List.\nOpen Scope N_scope.\n\n" % repo
    funcs = {}
    for name, coq, kw in (("days_to_ymd", "days_to_ymd_src", {}),
                          ("format_unix_timestamp", "unix_fields_src",
                           dict(result=["year", "month", "day", "hours", "minutes", "seconds"], stop_before="format!"))):
        try:
            text += translate(src, name, coq, funcs, **kw) + "\n"
            funcs[name] = coq
        except Unsupported as e:
            problems.append("%s: %s" % (name, e))
            text += "(* %s: NOT TRANSLATED: %s *)\n" % (name, e)
    cache = {}

    def load(f):
        if f not in cache:
            try:
                t_ = open(repo + "/" + f).read()
            except OSError as e:
                raise Unsupported("cannot read %s: %s" % (f, e))
            for a_, b_ in REWRITES.get(f, []):
                t_ = t_.replace(a_, b_)
            cache[f] = t_
        return cache[f]

    for f, fn, coq, params, kind in TAILS:
        try:
            text += translate_tail(load(f), fn, coq, params, kind)
        except Unsupported as e:
            problems.append("%s %s (tail): %s" % (f, fn, e))
            text += "(* %s tail: NOT TRANSLATED: %s *)\n" % (fn, e)
    for f, fn, var, coq, params, kind in LETS:
        try:
            load(f)
            text += translate_let(cache[f], fn, var, coq, params, kind)
        except Unsupported as e:
            problems.append("%s %s.%s: %s" % (f, fn, var, e))
            text += "(* %s.%s: NOT TRANSLATED: %s *)\n" % (fn, var, e)
    try:
        t_, p_ = generate_builders(repo)
        text += t_
        problems += p_
    except Exception as e:                                       # defensive: generate never raises
        problems.append("byte builders: internal error %s: %s" % (type(e).__name__, e))
    return text, problems


if __name__ == "__main__":
    t, p = generate()
    print(t)
    print(p)
