"""Ad-hoc correspondence run: python3 gen/corr.py <family> <n> [seed]"""
import sys
sys.path.insert(0, __file__.rsplit("/", 1)[0])
from lib import *
import families

fam, n = sys.argv[1], int(sys.argv[2])
seed = int(sys.argv[3]) if len(sys.argv) > 3 else 1
rng = Rng(seed)
cases = getattr(families, fam)(rng, n, fam[:6] + "_")
t = time.time()
mb, mf = run_sharded(DRIVER, cases)
t1 = time.time()
ib, if_ = run_sharded(HARNESS_DEBUG, cases)
t2 = time.time()
bad = 0
for c in cases:
    if mb.get(c.id) != ib.get(c.id):
        bad += 1
        if bad <= 3:
            print("MISMATCH", c.id)
            print(c.text()[:1500])
            m, i = mb.get(c.id) or [], ib.get(c.id) or []
            for k in range(max(len(m), len(i))):
                a = m[k] if k < len(m) else None
                b = i[k] if k < len(i) else None
                if a != b:
                    print(" model:", (a or "")[:300]); print(" impl :", (b or "")[:300]); break
print("cases", len(cases), "mismatches", bad, "model %.1fs impl %.1fs" % (t1 - t, t2 - t1), "failures", mf, if_)
from collections import Counter
cnt = Counter()
for c in cases:
    for l in ib.get(c.id, []):
        w = l.split(" ")
        cnt[" ".join(w[:3]) if w[0] == "r" and len(w) > 2 and w[1] == "err" else " ".join(w[:2])[:40] if w[0]=="r" else w[0]] += 1
print(dict(cnt.most_common(40)))
