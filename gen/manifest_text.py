"""Per-property wording for MANIFEST.json."""
COMMON_NOTE = ("Trusted: Coq kernel; the hand-written Gallina model (tied to /repo only by the correspondence stage, whose strength "
               "is bounded by the generators); extraction with ExtrOcamlBasic; the OCaml driver / Rust harness / Python glue; "
               "standards transcribed from memory. Axioms: none (Print Assumptions: Closed under the global context) unless listed in the evidence file.")
TEXT = {
 "C02": dict(technique="Coq theorems (box round trip) + model/impl correspondence + Gallina wf checker on impl output",
   level="Proof (partial): the generic ISO-BMFF reader provably recovers every box the model's build_box emits (all payloads, sizes < 2^32); the full tree-level theorem is stated in DESIGN.md and is being extended. The Gallina structure checker (recursive exact tiling, mandatory boxes, table counts) is evaluated on every byte stream the real crate emits for generated histories, and the model is compared byte for byte with the crate.",
   note=COMMON_NOTE),
 "C03": dict(technique="Coq theorems (run-length tables lossless) + correspondence + Gallina timing checker on impl output",
   level="Proof (partial): stts/ctts run-length encoders are proved lossless for all lists; the timing predicate (durations = consecutive tick differences, last = previous, ctts iff some offset non-zero, mdhd = sum) is evaluated on the crate's output for generated histories and the model is compared byte for byte with the crate.",
   note=COMMON_NOTE),
 "C05": dict(technique="Coq theorems (step and whole-history no-trace) + differential replay on the real crate",
   level="Proof: for every model state and every frame-writing call, a rejected call returns the identical state (whole muxer: sink, counters, both layers); lifted by induction to all histories: removing the rejected calls yields the same final state and the same later results. Tied to the crate by byte-exact correspondence and by replaying each generated history with and without its rejected calls on the real crate.",
   note=COMMON_NOTE + " Video frames >= 4 GiB (length check after duration patch) are outside the executed range; the model contains that branch."),
 "C14": dict(technique="Coq theorem (length-prefixed round trip) + declarative split spec evaluated on impl output + correspondence",
   level="Proof (partial, being extended): 4-byte length-prefixed framing provably parses back to exactly the framed units; the declarative Annex B split (Spec/NalSplit.v, independent of the scanner) is evaluated against the crate's converter on generated and small-alphabet inputs; model and crate compared exactly.",
   note=COMMON_NOTE),
}
NOT_APPLICABLE = {}
