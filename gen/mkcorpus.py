"""Writes the committed corpus: witnesses of the recorded findings and of the repaired defects.
Deterministic (fixed seed); run once and commit the output."""
import sys, os
sys.path.insert(0, os.path.dirname(os.path.abspath(__file__)))
from lib import *
import families as F
rng = Rng(20260930)
K264 = bytes.fromhex("0000000167420 01eda02802d8b110000000168ce38800000000165888400".replace(" ", ""))
P264 = bytes.fromhex("00000001419a246c")
ADTS = bytes.fromhex("fff14c80013ffcaabb")
def w(prop, name, text):
    d = os.path.join(VERIF, "corpus", prop)
    os.makedirs(d, exist_ok=True)
    open(os.path.join(d, name + ".case"), "w").write(text)
def mux(cid, b, ops):
    return "case %s mux\n%s\n%s\nend\n" % (cid, "\n".join("b " + x for x in b), "\n".join("o " + x for x in ops))
def frag(cid, b, ops):
    return "case %s frag\n%s\n%s\nend\n" % (cid, "\n".join(b), "\n".join("o " + x for x in ops))
V = ["video h264 280 1e0"]
A = V + ["audio aac-lc bb80 2"]
k, p, a = hx(K264), hx(P264), hx(ADTS)
# C09 known finding
w("C09", "start_offset", mux("start_offset", A + ["fast 0"], ["wv 0 %s 1" % k, "wa %s %s" % (fb(1.0), a), "wa %s %s" % (fb(1.5), a), "fin 0"]))
# C01/C15 repaired: I P B B + audio
bf = ["wvd %s %s %s 1" % (fb(0.0), fb(0.0), k), "wvd %s %s %s 0" % (fb(0.3), fb(0.1), p), "wvd %s %s %s 0" % (fb(0.1), fb(0.2), hx(P264 + b"\x01")),
      "wvd %s %s %s 0" % (fb(0.2), fb(0.3), hx(P264 + b"\x02\x03")), "wa %s %s" % (fb(0.05), a), "wa %s %s" % (fb(0.25), a), "fin 0"]
for prop in ("C01", "C15", "C06", "C03"):
    w(prop, "bframes_audio", mux("bframes_audio_on", A + ["fast 1"], bf) + mux("bframes_audio_off", A + ["fast 0"], bf))
# C04/C05 repaired
w("C05", "rejected_first_video", mux("rej_first", A, ["wv 0 %s 0" % p, "wa 0 %s" % a, "wv 0 %s 1" % k, "wa 0 %s" % a, "fin 0"]))
w("C04", "rejected_first_video", mux("rej_first", A, ["wv 0 %s 0" % p, "wa 0 %s" % a, "wv 0 %s 1" % k, "wa 0 %s" % a, "fin 0"]))
w("C05", "rejected_audio_patch", mux("rej_audio", A, ["wv 0 %s 1" % k, "wa 0 %s" % a, "wa %s %s" % (fb(0.02), a), "wa %s 00010203" % fb(0.5), "fin 0"]))
w("C03", "rejected_audio_patch", mux("rej_audio", A, ["wv 0 %s 1" % k, "wa 0 %s" % a, "wa %s %s" % (fb(0.02), a), "wa %s 00010203" % fb(0.5), "fin 0"]))
# C11 repaired
w("C11", "nonzero_start", frag("nonzero_start", ["b video h264 780 438", "b sps 6742001eda02802d8b11", "b pps 68ce3880"],
  ["fi", "fw 2328 2328 aa 1", "fw 2ee0 2ee0 bb 0", "ff", "fw 3a98 3a98 cc 1", "fw 4650 4650 dd 0", "ff", "fi"]))
# C12 repaired panics
w("C12", "repaired_panics",
  mux("ev_adjacent_sc", V, ["ev 000001000001650000 21", "fin 0"]) + mux("ev_empty", V, ["ev - 21", "fin 0"]) +
  mux("ev_vp9_short", ["video vp9 280 1e0"], ["ev 49 21", "ev 4983 21", "fin 0"]) +
  mux("adts_header_only", A, ["wv 0 %s 1" % k, "wa 0 fff14c8000fffc", "fin 0"]) +
  mux("width_70000", ["video h264 11170 1e0"], ["wv 0 %s 1" % k, "fin 0"]) +
  mux("huge_ctime", V + ["ctime ffffffffffffffff"], ["wv 0 %s 1" % k, "fin 0"]) +
  mux("av1_profile7", ["video av1 280 1e0"], ["wv 0 0a01e0 1", "fin 0"]) +
  mux("cts_straddle", V, ["wvd %s %s %s 1" % (fb(1.0248e14), fb(1.0247e14), k), "fin 0"]) +
  "case hevc_empty fn is_hevc_keyframe -\ncase hevc_nosc fn is_hevc_keyframe 4001\ncase av1_p7 fn extract_av1_config 0a01e0\n" +
  frag("frag_ts0", ["fc 280 1e0 0 7d0 6742 68ce ~ ~ ~"], ["fw 0 0 aa 1", "fw bb8 bb8 bb 0", "fr", "fd", "ff"]) +
  frag("frag_2_63", ["fc 280 1e0 15f90 7d0 6742 68ce ~ ~ ~"], ["fw 8000000000000000 1 aa 1", "fw 8000000000000000 2 bb 0", "fr", "fd", "ff"]) +
  frag("frag_span", ["fc 280 1e0 1 7d0 6742 68ce ~ ~ ~"], ["fw 0 0 aa 1", "fw ffffffffffffffff ffffffffffffffff bb 0", "fr", "fd", "ff"]))
# C19 / C07 / C16 known findings
w("C19", "minimal", mux("minimal", V, ["fin 0"]))
w("C19", "vp9", mux("vp9", ["video vp9 280 1e0"], ["wv 0 %s 1" % hx(vp9_key(rng, 0)), "fin 0"]))
w("C19", "opus8", mux("opus8", V + ["audio opus bb80 8"], ["wv 0 %s 1" % k, "wa 0 %s" % hx(opus_packet(rng)), "fin 0"]))
w("C19", "frag_av1", frag("frag_av1", ["b video av1 780 438", "b av1seq %s" % hx(obu(1, av1_seq_payload_simple(rng)))], ["fi"]) +
                     frag("frag_hevc", ["b video h265 780 438", "b sps 4201010160", "b pps 4401c0", "b vps 40010c01"], ["fi"]))
w("C07", "av1_mono", mux("av1_mono", ["video av1 280 1e0"], ["wv 0 %s 1" % hx(bytes([10, 5, 24, 4, 0, 9, 128]) + av1_frame_obu(rng, True)), "fin 0"]))
w("C16", "long", mux("long", V, ["wv 0 %s 1" % k, "wv %s %s 0" % (fb(47000.0), p), "fin 0"]))
w("C03", "long", mux("long", V, ["wv 0 %s 1" % k, "wv %s %s 0" % (fb(47000.0), p), "fin 0"]))
w("C16", "rate96k", mux("rate96k", V + ["audio aac-lc 17700 2"], ["wv 0 %s 1" % k, "wa 0 %s" % a, "fin 0"]))
w("C16", "frag_gap", frag("frag_gap", ["fc 280 1e0 15f90 7d0 6742 68ce ~ ~ ~"], ["fw 0 0 aa 1", "fw 100000005 100000005 bb 0", "fw 100000005 180000005 cc 0", "ff"]))
print("corpus written")
