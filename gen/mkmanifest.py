"""Regenerate MANIFEST.json from the property table (gen/props.py) and gen/manifest_text.py."""
import json, sys, os
sys.path.insert(0, os.path.dirname(os.path.abspath(__file__)))
import props, manifest_text as T
allp = ["C%02d" % i for i in range(1, 21)]
checks = []
for p in allp:
    if p in props.PROPS and p in T.TEXT:
        t = T.TEXT[p]
        checks.append(dict(property_id=p, quick_cmd="bin/check %s --tier quick" % p,
                           thorough_cmd="bin/check %s --tier thorough" % p,
                           evidence_file="/verif/evidence/%s.json" % p,
                           replay_cmd_template="bin/check %s --replay {path}" % p,
                           engine="coq-model+correspondence",
                           level_claimed=dict(category="proof", text=t["level"], design_ref=t.get("ref", "DESIGN.md section 4")),
                           level_note=t["note"], technique=t["technique"]))
na = [dict(property_id=p, reason=T.NOT_APPLICABLE.get(p, "check not yet registered in this revision; see DESIGN.md section 9 (status)"))
      for p in allp if not (p in props.PROPS and p in T.TEXT)]
m = dict(version=1, setup_cmd="bin/setup",
         hooks=dict(guard="muxide_verif", enable='RUSTFLAGS="--cfg muxide_verif" (reserved; no guarded source changes exist)',
                    baseline_off_cmd="cd /repo && cargo test --workspace --no-fail-fast --offline",
                    source_commits=[], add_only=True),
         engines=[dict(name="coq-model+correspondence", path="/verif/bin/check",
                       serves_properties=[c["property_id"] for c in checks],
                       kind_free_text="Rocq/Coq 8.16.1 theorems about a hand-written executable Gallina model; model extracted to OCaml and compared with the real crate (Rust harness, path dependency on /repo) on generated inputs; Gallina decision predicates evaluated on the implementation's outputs")],
         checks=checks, not_applicable=na,
         notes="See DESIGN.md. Unguarded 'fix:' commits in /repo are listed in known_findings.json (status fixed).")
json.dump(m, open("/verif/MANIFEST.json", "w"), indent=1)
print("checks:", [c["property_id"] for c in checks], "n/a:", [x["property_id"] for x in na])
