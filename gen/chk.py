"""Ad-hoc: run impl on a family and evaluate Gallina checks on its output."""
import sys
sys.path.insert(0, __file__.rsplit("/", 1)[0])
from lib import *
import families
from collections import Counter
fam, n = sys.argv[1], int(sys.argv[2])
seed = int(sys.argv[3]) if len(sys.argv) > 3 else 1
rng = Rng(seed)
cases = getattr(families, fam)(rng, n, fam[:6] + "_")
text = "".join(c.text() for c in cases)
rc, iout, err = run_bin(HARNESS_DEBUG, text)
open("/verif/build/impl.out", "w").write(iout)
t=time.time()
p = subprocess.run([DRIVER, "check", "/verif/build/impl.out"], input=text.encode(), stdout=subprocess.PIPE, stderr=subprocess.PIPE)
print("check time %.1fs"%(time.time()-t), p.stderr.decode()[-300:])
cnt = Counter()
bad = []
for l in p.stdout.decode().split("\n"):
    w = l.split(" ")
    if w[0] != "chk": continue
    for kv in w[2:]:
        cnt[kv] += 1
        if kv.endswith("=0"): bad.append((w[1], kv))
print(dict(cnt)); print(bad[:10])
if bad:
    cid = bad[0][0]
    c = [c for c in cases if c.id == cid][0]
    print(c.text()[:3000]); print("\n".join(l[:300] for l in parse_blocks(iout)[cid]))
