"""Small ISO-BMFF reader used only to project outputs onto per-property
observations (which property does a model/implementation difference touch).
Verdicts never come from this file; they come from the Gallina checks."""
import struct

CONTAINERS = {b"moov": 0, b"trak": 0, b"mdia": 0, b"minf": 0, b"dinf": 0, b"stbl": 0, b"mvex": 0,
              b"udta": 0, b"ilst": 0, b"\xa9nam": 0, b"\xa9day": 0, b"moof": 0, b"traf": 0,
              b"meta": 4, b"stsd": 8, b"dref": 8, b"avc1": 78, b"hvc1": 78, b"av01": 78, b"vp09": 78,
              b"mp4a": 28, b"Opus": 28}


class Box:
    def __init__(self, typ, payload, off):
        self.typ, self.payload, self.off, self.kids = typ, payload, off, []

    def find(self, *path):
        cur = [self]
        for t in path:
            nxt = []
            for b in cur:
                nxt += [k for k in b.kids if k.typ == t]
            cur = nxt
        return cur

    def skeleton(self):
        return (self.typ.hex(), len(self.payload), [k.skeleton() for k in self.kids])


def parse(buf, off=0, depth=0):
    out = []
    i = 0
    while i < len(buf):
        if i + 8 > len(buf):
            return None
        size = struct.unpack(">I", buf[i:i + 4])[0]
        typ = buf[i + 4:i + 8]
        if size < 8 or i + size > len(buf):
            return None
        b = Box(typ, buf[i + 8:i + size], off + i)
        if typ in CONTAINERS and depth < 12:
            k = CONTAINERS[typ]
            if len(b.payload) < k:
                return None
            kids = parse(b.payload[k:], off + i + 8 + k, depth + 1)
            if kids is None:
                return None
            b.kids = kids
        out.append(b)
        i += size
    return out


class Root(Box):
    def __init__(self, kids):
        Box.__init__(self, b"root", b"", 0)
        self.kids = kids


def root(buf):
    k = parse(buf)
    return None if k is None else Root(k)


def u32s(b):
    return list(struct.unpack(">%dI" % (len(b) // 4), b[:len(b) // 4 * 4]))


def track_tables(trak):
    """-> dict of raw table payloads (hex) for a trak"""
    d = {}
    for name in (b"stts", b"ctts", b"stsc", b"stsz", b"stco", b"stss", b"stsd"):
        x = trak.find(b"mdia", b"minf", b"stbl", name)
        d[name.decode()] = x[0].payload.hex() if x else None
    for name in (b"mdhd", b"hdlr"):
        x = trak.find(b"mdia", name)
        d[name.decode()] = x[0].payload.hex() if x else None
    x = trak.find(b"tkhd")
    d["tkhd"] = x[0].payload.hex() if x else None
    return d


def resolve_samples(buf, trak):
    """(offset, size) per sample from stsc/stco/stsz; lenient, observation only"""
    t = track_tables(trak)
    try:
        stsz = bytes.fromhex(t["stsz"]); stco = bytes.fromhex(t["stco"]); stsc = bytes.fromhex(t["stsc"])
        sizes = u32s(stsz[12:])
        offs = u32s(stco[8:])
        ent = u32s(stsc[8:])
        ent = [tuple(ent[i:i + 3]) for i in range(0, len(ent), 3)]
        out = []
        si = 0
        for ci, o in enumerate(offs, 1):
            spc = 0
            for fc, n, _ in ent:
                if fc <= ci:
                    spc = n
            cur = o
            for _ in range(spc):
                if si >= len(sizes):
                    break
                out.append((cur, sizes[si]))
                cur += sizes[si]
                si += 1
        return out
    except Exception:
        return None
