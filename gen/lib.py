"""Shared helpers: seeded PRNG (splitmix64), payload builders, case writers,
runners for the extracted model (OCaml driver) and the Rust harness, and the
result-block parser.  Every random choice derives from one PRNG state."""
import os, struct, subprocess, sys, json, time

VERIF = os.path.dirname(os.path.dirname(os.path.abspath(__file__)))
BUILD = os.path.join(VERIF, "build")
DRIVER = os.path.join(BUILD, "ocaml", "driver")
HARNESS_DEBUG = os.path.join(BUILD, "cargo", "debug", "muxide-verif-harness")
HARNESS_RELEASE = os.path.join(BUILD, "cargo", "release", "muxide-verif-harness")


class Rng:
    def __init__(self, seed):
        self.s = seed & 0xFFFFFFFFFFFFFFFF

    def next(self):
        self.s = (self.s + 0x9E3779B97F4A7C15) & 0xFFFFFFFFFFFFFFFF
        z = self.s
        z = ((z ^ (z >> 30)) * 0xBF58476D1CE4E5B9) & 0xFFFFFFFFFFFFFFFF
        z = ((z ^ (z >> 27)) * 0x94D049BB133111EB) & 0xFFFFFFFFFFFFFFFF
        return z ^ (z >> 31)

    def below(self, n):
        return self.next() % n if n > 0 else 0

    def range(self, a, b):  # inclusive
        return a + self.below(b - a + 1)

    def chance(self, num, den):
        return self.below(den) < num

    def choice(self, l):
        return l[self.below(len(l))]

    def bytes(self, n):
        return bytes(self.below(256) for _ in range(n))

    def shuffle(self, l):
        l = list(l)
        for i in range(len(l) - 1, 0, -1):
            j = self.below(i + 1)
            l[i], l[j] = l[j], l[i]
        return l

    def fork(self, tag):
        r = Rng(self.next() ^ (hash_str(tag)))
        return r


def hash_str(s):
    h = 1469598103934665603
    for c in s.encode():
        h = ((h ^ c) * 1099511628211) & 0xFFFFFFFFFFFFFFFF
    return h


# ---------- encodings ----------
def hx(b):
    return b.hex() if len(b) else "-"


def unhx(s):
    return b"" if s == "-" else bytes.fromhex(s)


def f64bits(x):
    return struct.unpack(">Q", struct.pack(">d", x))[0]


def bits_f64(b):
    return struct.unpack(">d", struct.pack(">Q", b))[0]


def fb(x):
    """f64 -> hex bit pattern token"""
    return "%x" % f64bits(x)


NAN = 0x7FF8000000000000
PINF = 0x7FF0000000000000
NINF = 0xFFF0000000000000
NEGZERO = 0x8000000000000000


def be16(x):
    return struct.pack(">H", x & 0xFFFF)


def be32(x):
    return struct.pack(">I", x & 0xFFFFFFFF)


# ---------- payload builders ----------
SC3 = b"\x00\x00\x01"
SC4 = b"\x00\x00\x00\x01"


def clean_nal_body(rng, n):
    """bytes without any 00 00 0x pattern, so the unit cannot contain a start code"""
    out = bytearray()
    for _ in range(n):
        out.append(rng.range(2, 255))
    return bytes(out)


def sc(rng):
    return SC4 if rng.chance(1, 2) else SC3


def h264_nal(rng, typ, n=None, ref=3):
    n = rng.range(1, 12) if n is None else n
    return bytes([(ref << 5) | typ]) + clean_nal_body(rng, n)


def h264_key(rng, extra=True):
    parts = []
    if extra and rng.chance(1, 4):
        parts.append(sc(rng) + h264_nal(rng, 9, 1))  # AUD
    # parameter sets of every small length as well (1..4-byte SPS: the avcC builder reads bytes 1..3)
    ps = [sc(rng) + h264_nal(rng, 7, rng.choice([0, 1, 2, 2, 3]) if rng.chance(1, 6) else rng.range(3, 14)),
          sc(rng) + h264_nal(rng, 8, 0 if rng.chance(1, 10) else rng.range(1, 5))]
    if rng.chance(1, 6):
        ps.reverse()          # PPS before SPS
    parts += ps
    if extra and rng.chance(1, 4):
        parts.append(sc(rng) + h264_nal(rng, 6, 3))  # SEI
    if extra and rng.chance(1, 5):
        parts.append(sc(rng) + h264_nal(rng, 7, 4))  # later differing SPS
    if extra and rng.chance(1, 5):
        parts.append(sc(rng) + h264_nal(rng, 8, rng.range(1, 5)))  # later differing PPS (the FIRST one counts, wherever it stands)
    parts.append(sc(rng) + h264_nal(rng, 5, rng.range(2, 40)))
    return b"".join(parts)


def h264_delta(rng):
    return sc(rng) + h264_nal(rng, 1, rng.range(1, 30), ref=rng.range(0, 3))


def hevc_nal(rng, typ, n=None):
    n = rng.range(1, 16) if n is None else n
    return bytes([(typ << 1) & 0x7E, 1]) + clean_nal_body(rng, n)


def h265_key(rng, extra=True):
    short = rng.chance(1, 6)
    parts = [sc(rng) + hevc_nal(rng, 32, rng.range(0, 3) if short else None),
             sc(rng) + hevc_nal(rng, 33, rng.range(0, 4) if short else rng.range(1, 20)),
             sc(rng) + hevc_nal(rng, 34, rng.range(0, 2) if short else None)]
    if short and rng.chance(1, 3):
        k = rng.below(3)
        parts[k] = parts[k][:-1] if len(parts[k]) > 4 else parts[k]     # a parameter set cut inside its 2-byte header
    if rng.chance(1, 4):
        # any order of the three parameter sets is legal as long as they precede the slice
        order = rng.choice([[0, 2, 1], [1, 0, 2], [1, 2, 0], [2, 0, 1], [2, 1, 0]])
        parts = [parts[k] for k in order]
    if extra and rng.chance(1, 4):
        parts.insert(0, sc(rng) + hevc_nal(rng, 35, 1))
    if extra and rng.chance(1, 4):
        parts.append(sc(rng) + hevc_nal(rng, 39, 4))
    parts.append(sc(rng) + hevc_nal(rng, rng.choice([19, 20, 21]), rng.range(2, 40)))
    return b"".join(parts)


def h265_delta(rng):
    return sc(rng) + hevc_nal(rng, rng.choice([0, 1]), rng.range(1, 30))


def leb128(n):
    out = bytearray()
    while True:
        b = n & 0x7F
        n >>= 7
        if n:
            out.append(b | 0x80)
        else:
            out.append(b)
            return bytes(out)


def obu(typ, payload, ext=False, has_size=True):
    h = (typ << 3) | (0x04 if ext else 0) | (0x02 if has_size else 0)
    out = bytes([h]) + (b"\x00" if ext else b"")
    if has_size:
        out += leb128(len(payload))
    return out + payload


# a simple, valid sequence header payload (profile 0, level in op point 0): built bit by bit
class BitW:
    def __init__(self):
        self.bits = []

    def put(self, v, n):
        for i in range(n - 1, -1, -1):
            self.bits.append((v >> i) & 1)

    def bytes(self, trailing=True):
        b = list(self.bits)
        if trailing:
            b.append(1)
        while len(b) % 8:
            b.append(0)
        return bytes(sum(b[i + j] << (7 - j) for j in range(8)) for i in range(0, len(b), 8))


def av1_seq_payload_simple(rng, level=None):
    w = BitW()
    w.put(0, 3)  # profile
    w.put(0, 1)  # still
    w.put(0, 1)  # reduced
    w.put(0, 1)  # timing_info_present
    w.put(0, 1)  # initial_display_delay_present
    w.put(0, 5)  # op count - 1
    w.put(0, 12)  # idc
    lvl = rng.range(0, 23) if level is None else level
    w.put(lvl, 5)
    if lvl > 7:
        w.put(rng.below(2), 1)
    w.put(10, 4)
    w.put(10, 4)  # frame w/h bits - 1
    w.put(rng.below(2048), 11)
    w.put(rng.below(2048), 11)
    w.put(0, 1)  # frame_id_numbers_present
    w.put(rng.below(8), 3)  # 128sb, filter_intra, intra_edge
    w.put(rng.below(16), 4)  # interintra, masked, warped, dual
    w.put(0, 1)  # enable_order_hint
    w.put(1, 1)  # seq_choose_screen_content_tools -> 2
    w.put(1, 1)  # seq_choose_integer_mv
    w.put(rng.below(8), 3)  # superres cdef restoration
    # color config profile 0
    w.put(rng.below(2), 1)  # high_bitdepth
    w.put(0, 1)  # monochrome
    w.put(0, 1)  # color_description_present
    w.put(rng.below(2), 1)  # color_range
    w.put(rng.below(4), 2)  # chroma_sample_position
    w.put(rng.below(2), 1)  # separate_uv_delta_q
    w.put(rng.below(2), 1)  # film grain
    return w.bytes()


def av1_frame_obu(rng, key=True):
    # show_existing_frame=0, frame_type (2 bits): 0 = KEY
    first = (0 << 7) | ((0 if key else 1) << 5) | rng.below(32)
    return obu(6, bytes([first]) + rng.bytes(rng.range(1, 20)))


def av1_key(rng, seq=None):
    seq = av1_seq_payload_simple(rng) if seq is None else seq
    parts = []
    if rng.chance(1, 2):
        parts.append(obu(2, b""))  # temporal delimiter
    parts.append(obu(1, seq, ext=rng.chance(1, 6)))
    parts.append(av1_frame_obu(rng, True))
    return b"".join(parts)


def av1_delta(rng):
    return (obu(2, b"") if rng.chance(1, 2) else b"") + av1_frame_obu(rng, False)


def vp9_key(rng, profile=None):
    profile = rng.below(4) if profile is None else profile
    b3 = (profile << 6) | rng.below(16)  # show_existing=0, frame_type=0
    out = bytearray(b"\x49\x83\x42" + bytes([b3]) + rng.bytes(1))
    if profile >= 2:
        out += rng.bytes(1)
    for _ in range(2):  # width, height varuints
        k = rng.range(1, 3)
        for i in range(k):
            v = rng.below(128)
            out.append(v | (0x80 if i < k - 1 else 0))
    out += rng.bytes(rng.range(0, 12))
    return bytes(out)


def vp9_delta(rng):
    b3 = (rng.below(4) << 6) | (1 << 4) | rng.below(16)
    return b"\x49\x83\x42" + bytes([b3]) + rng.bytes(rng.range(2, 20))


def adts(rng, payload_len=None, protection_absent=True, sfi=None, chan=None, profile=None, extra_tail=0):
    payload_len = rng.range(1, 40) if payload_len is None else payload_len
    hdr = 7 if protection_absent else 9
    fl = hdr + payload_len
    sfi = rng.range(0, 12) if sfi is None else sfi
    chan = rng.range(1, 7) if chan is None else chan
    profile = rng.below(4) if profile is None else profile
    b0 = 0xFF
    b1 = 0xF0 | (1 if protection_absent else 0)
    b2 = (profile << 6) | (sfi << 2) | (rng.below(2) << 1) | (chan >> 2)
    b3 = ((chan & 3) << 6) | (rng.below(16) << 2) | ((fl >> 11) & 3)
    b4 = (fl >> 3) & 0xFF
    b5 = ((fl & 7) << 5) | rng.below(32)
    b6 = rng.below(256)
    out = bytes([b0, b1, b2, b3, b4, b5, b6]) + (rng.bytes(2) if not protection_absent else b"")
    return out + rng.bytes(payload_len) + rng.bytes(extra_tail)


def opus_packet(rng):
    code = rng.below(4)
    toc = (rng.below(32) << 3) | (rng.below(2) << 2) | code
    if code == 3:
        return bytes([toc, (rng.below(2) << 7) | (rng.below(2) << 6) | rng.range(1, 48)]) + rng.bytes(rng.range(0, 20))
    return bytes([toc]) + rng.bytes(rng.range(0, 30))


def annexb_tail(rng, codec):
    """now and then an Annex B frame ends in a dangling start code or stray zero bytes (legal input: an
    empty trailing unit), which must not leak into the stored sample"""
    if codec in ("h264", "h265") and rng.chance(1, 8):
        return rng.choice([SC3, SC4, b"\x00", b"\x00\x00", b"\x00\x00\x00", SC3 + SC3, SC4 + b"\x00"])
    return b""


def video_key(rng, codec):
    return {"h264": h264_key, "h265": h265_key, "av1": av1_key, "vp9": vp9_key}[codec](rng) + annexb_tail(rng, codec)


def video_delta(rng, codec):
    if codec in ("h264", "h265") and rng.chance(1, 25):
        # a "frame" made of start codes only (every unit empty): non-empty data, nothing to store
        return rng.choice([SC4, SC3, SC4 + SC3, SC3 + SC4 + SC3, b"\xaa" + SC3, SC3 + b"\x00"])
    return {"h264": h264_delta, "h265": h265_delta, "av1": av1_delta, "vp9": vp9_delta}[codec](rng) + annexb_tail(rng, codec)


def audio_frame(rng, acodec):
    return opus_packet(rng) if acodec == "opus" else adts(rng, protection_absent=rng.chance(3, 4))


VCODECS = ["h264", "h265", "av1", "vp9"]
ACODECS = ["aac-lc", "aac-main", "aac-ssr", "aac-ltp", "aac-he", "aac-hev2", "opus"]


# ---------- case construction ----------
class Case:
    """A case is a list of text lines in the shared case language."""

    def __init__(self, cid, kind):
        self.id = cid
        self.kind = kind
        self.lines = []
        self.meta = {}

    def b(self, *w):
        self.lines.append("b " + " ".join(str(x) for x in w))
        return self

    def o(self, *w):
        self.lines.append("o " + " ".join(str(x) for x in w))
        return self

    def raw(self, line):
        self.lines.append(line)
        return self

    def ops(self):
        return [l[2:].split(" ") for l in self.lines if l.startswith("o ")]

    def text(self):
        if self.kind == "fn":
            return "case %s fn %s\n" % (self.id, " ".join(self.lines))
        return "case %s %s\n%s\nend\n" % (self.id, self.kind, "\n".join(self.lines))

    def clone(self, cid=None):
        c = Case(cid or self.id, self.kind)
        c.lines = list(self.lines)
        c.meta = dict(self.meta)
        return c


def fn_case(cid, name, *args):
    c = Case(cid, "fn")
    c.lines = [name] + [str(a) for a in args]
    return c


# ---------- running ----------
def run_bin(path, text, timeout=600):
    p = subprocess.run([path], input=text.encode(), stdout=subprocess.PIPE, stderr=subprocess.PIPE, timeout=timeout)
    return p.returncode, p.stdout.decode(errors="replace"), p.stderr.decode(errors="replace")


def parse_blocks(out):
    """-> {case id: [lines]} (lines between 'case <id>' and 'end')"""
    blocks = {}
    cur = None
    for line in out.split("\n"):
        if line.startswith("case "):
            cur = line[5:].strip()
            blocks[cur] = []
        elif line == "end":
            cur = None
        elif cur is not None and not line.startswith("#"):
            blocks[cur].append(line)
        elif cur is not None:
            blocks.setdefault("#" + cur, []).append(line)
    return blocks


def run_sharded(path, cases, shards=16, timeout=900):
    """Run [cases] through the binary at [path] in parallel shards. Returns (blocks, failures)
    where failures lists shards that crashed or timed out (with the ids they held)."""
    from concurrent.futures import ThreadPoolExecutor

    if not cases:
        return {}, []
    # cases that carry the same meta["group"] and stand next to each other form one unit: they run in ONE
    # process, in order (what an earlier muxer leaves behind in the process must not reach a later one);
    # ungrouped cases are units of one, dealt out round-robin exactly as before
    units = []
    for c in cases:
        g = c.meta.get("group")
        if g is not None and units and units[-1][0] == g:
            units[-1][1].append(c)
        else:
            units.append((g, [c]))
    shards = max(1, min(shards, len(units)))
    parts = [[] for _ in range(shards)]
    for k, (g, u) in enumerate(units):
        parts[k % shards].extend(u)
    blocks, failures = {}, []

    def work(part):
        text = "".join(c.text() for c in part)
        try:
            rc, out, err = run_bin(path, text, timeout)
            return part, rc, out, err
        except subprocess.TimeoutExpired as e:
            return part, -9, (e.stdout or b"").decode(errors="replace"), "timeout"

    with ThreadPoolExecutor(max_workers=shards) as ex:
        for part, rc, out, err in ex.map(work, parts):
            b = parse_blocks(out)
            blocks.update(b)
            if rc != 0:
                missing = [c.id for c in part if c.id not in b]
                failures.append({"rc": rc, "stderr": err[-400:], "missing": missing})
    return blocks, failures
