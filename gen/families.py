"""Case families.  Each family is a function (rng, n, prefix) -> [Case]."""
from lib import *

TITLES = [b"", b"Hello", "Grüße 世界 \U0001F600".encode(), b"x" * 300, b"a",
          "\ufeffHoliday".encode(), "\ufeff".encode(), b"  padded  ", b"\tTab", ("x" * 254 + "\u00e9" + "tail").encode(),
          ("\u4e16" * 100).encode(), ("y" * 253 + "\U0001F600").encode(), b"z" * 255, b"z" * 256, b"nul\x00inside"]
LANGS = [b"eng", b"und", b"deu", b"zzz", b"aaa", b"ENG", b"e1g", b"en", b"", "éèa".encode(), b"engx"]
CTIMES = [0, 1, 86399, 86400, 951782400, 951868799, 1700000000, 4102444800, 253402300799, 2**32, 2**40,
          68169600, 825552000, 1078012800, 1709164800, 1709251199, 3981398400, 4107456000, 4107542400, 13574563200]

AAC_RATES = [96000, 88200, 64000, 48000, 44100, 32000, 24000, 22050, 16000, 12000, 11025, 8000, 7350]


def rand_cfg(rng, codec=None, audio=None, fast=None, meta=None, dims=None):
    codec = codec or rng.choice(VCODECS)
    if audio is None:
        audio = rng.choice(["none-cfg", "none-cfg"] + ACODECS + ["none"])
    fast = rng.chance(1, 2) if fast is None else fast
    meta = rng.below(8) if meta is None else meta  # bit0 title bit1 ctime bit2 lang
    w, h = dims or rng.choice([(640, 480), (1920, 1080), (16, 16), (65535, 65535), (1, 1), (320, 240)])
    return dict(codec=codec, audio=audio, fast=fast, meta=meta, w=w, h=h,
                rate=rng.choice(AAC_RATES + [12345, 0, 192000]) if audio not in ("opus",) else rng.choice([48000, 44100]),
                ch=rng.choice([1, 2, 2, 2, 3, 6, 8, 2, 1, 0, 255, 65535, 256, 257, 258, 4098, 32768, 15, 16]))


def emit_cfg(c, cfg, rng):
    alias = rng.chance(1, 5)
    c.b("setvideo" if alias else "video", cfg["codec"], "%x" % cfg["w"], "%x" % cfg["h"])
    a = cfg["audio"]
    if a != "none-cfg":
        c.b("setaudio" if rng.chance(1, 5) else "audio", a, "%x" % cfg["rate"], "%x" % cfg["ch"])
    m = cfg["meta"]
    if m:
        title = hx(rng.choice(TITLES)) if m & 1 else "~"
        if title == "-":
            title = "-"
        ct = "%x" % rng.choice(CTIMES) if m & 2 else "~"
        lang = hx(rng.choice(LANGS)) if m & 4 else "~"
        style = rng.below(3)
        if style == 0 or (m & 1):
            c.b("meta", title, ct, lang)
            # builder-level setters AFTER with_metadata must add to it, not replace it
            extra = []
            if rng.chance(1, 4):
                extra.append(("ctime", "%x" % rng.choice(CTIMES)))
            if rng.chance(1, 4):
                extra.append(("lang", hx(rng.choice(LANGS))))
            if len(extra) == 2 and rng.chance(1, 2):
                extra.reverse()
            for k, v in extra:
                c.b(k, v)
        else:
            # builder-level setters (no title possible that way)
            if m & 2:
                c.b("ctime", ct)
            if m & 4:
                c.b("lang", lang)
    c.b("fast", 1 if cfg["fast"] else 0)
    c.meta["cfg"] = cfg
    return c


def has_audio(cfg):
    return cfg["audio"] not in ("none-cfg", "none")


def frame_times(rng, n, style=None):
    """strictly increasing list of float seconds"""
    style = style or rng.choice(["30", "2997", "vfr", "ms", "big"])
    t0 = rng.choice([0.0, 0.0, 0.0, 0.5, 10.0, 1.0 / 90000.0])
    out = []
    t = t0
    for i in range(n):
        if style == "30":
            out.append(t0 + i / 30.0)
        elif style == "2997":
            out.append(t0 + i * 1001 / 30000.0)
        elif style == "ms":
            out.append(t0 + i * 0.033)
        elif style == "big":
            out.append(t0 + i * rng.choice([1.0, 100.0, 3600.0]))
        else:
            out.append(t)
            t += rng.choice([1 / 90000.0, 0.001, 0.0333, 0.04, 1.0, 0.5, 2 / 90000.0])
    return out


def cancelling_ticks(rng, n, base):
    """n decode times (ticks) whose first and last intervals equal `base`, whose middle intervals deviate
    from it, and whose total span is exactly base * (n - 1)"""
    deltas = [base] * (n - 1)
    if n >= 4:
        i = rng.range(1, n - 3)
        d = max(1, min(rng.choice([1, 1, 7, base // 2, base - 1]), base - 1))
        deltas[i] -= d
        deltas[i + 1 if i + 1 < n - 2 else i - 1 if i - 1 >= 1 else i] += d
    t, out = rng.choice([0, 0, 9000]), []
    for d in [0] + deltas:
        t += d
        out.append(t)
    return out


def fam_jitter_cancel(rng, n, prefix):
    """streams whose timing is irregular but looks constant from its end points (first interval = last
    interval, span = interval x (n-1)): every per-sample duration must still be the submitted difference"""
    out = []
    for i in range(n):
        cfg = rand_cfg(rng, audio=rng.choice(["none-cfg", "aac-lc", "opus"]), dims=(640, 480), meta=0)
        cfg["rate"], cfg["ch"] = 48000, 2
        codec = cfg["codec"]
        c = Case("%s%d" % (prefix, i), "mux")
        emit_cfg(c, cfg, rng)
        nv = rng.range(4, 8)
        vt = cancelling_ticks(rng, nv, rng.choice([3000, 3003, 1500]))
        ops = [(t, 0, ["wv", fb(t / 90000.0), hx(video_key(rng, codec) if k == 0 else video_delta(rng, codec)), 1 if k == 0 else 0])
               for k, t in enumerate(vt)]
        if has_audio(cfg):
            at = cancelling_ticks(rng, rng.range(4, 8), rng.choice([1920, 960, 1800]))
            ops += [(vt[0] + t, 1, ["wa", fb((vt[0] + t) / 90000.0), hx(audio_frame(rng, cfg["audio"]))]) for t in at]
        ops.sort(key=lambda x: (x[0], x[1]))
        for _, _, o in ops:
            c.o(*o)
        c.o("fin", 0)
        out.append(c)
    # the same for fragments: one segment of 4..7 samples whose durations cancel
    for j in range(max(2, n // 3)):
        c = Case("%sf%d" % (prefix, j), "frag")
        frag_builder(rng, c, codec=rng.choice(["h264", "h265"]), stray_always=False)
        c.lines = [l for l in c.lines]  # builder lines as generated
        ts = cancelling_ticks(rng, rng.range(4, 8), rng.choice([3000, 2, 1500]))
        for k, t in enumerate(ts):
            c.o("fw", "%x" % t, "%x" % t, hx(rng.bytes(rng.range(1, 6))), 1 if k == 0 else 0)
        c.o("ff")
        c.o("fw", "%x" % (ts[-1] + 3000), "%x" % (ts[-1] + 3000), hx(rng.bytes(3)), 1)
        c.o("ff")
        out.append(c)
    return out


def fam_big_samples(rng, n, prefix):
    """samples around typical buffer sizes (4 KiB, 8 KiB, 64 KiB) mixed with small ones, audio and video, both
    layouts: offsets must still resolve to each sample's own bytes (write batching / coalescing)"""
    out = []
    # Opus packets are passed through at any length: 65535 / 65536 / 70000 / 131077 bytes, then more samples
    for j, size in enumerate([65535, 65536, 65537, 70000, 131077, 65536]):
        c = Case("%sopus%d" % (prefix, j), "mux")
        c.b("video", "h264", "280", "1e0")
        c.b("audio", "opus", "bb80", "2")
        c.b("fast", j % 2)
        c.o("wv", fb(0.0), hx(video_key(rng, "h264")), 1)
        c.o("wa", fb(0.0), hx(bytes([0x08]) + rng.bytes(5)))
        c.o("wa", fb(0.02), hx(bytes([0x08]) + bytes([rng.range(1, 255)]) * (size - 1)))
        c.o("wv", fb(0.04), hx(video_delta(rng, "h264")), 0)
        c.o("wa", fb(0.04), hx(bytes([0x08]) + rng.bytes(7)))
        c.o("wv", fb(0.08), hx(video_delta(rng, "h264")), 0)
        c.o("fin", 0)
        out.append(c)
    for i in range(n):
        codec = rng.choice(["h264", "h265"])
        c = Case("%s%d" % (prefix, i), "mux")
        c.b("video", codec, "280", "1e0")
        audio = rng.chance(3, 4)
        if audio:
            c.b("audio", "aac-lc", "bb80", "2")
        c.b("fast", i % 2)
        big = lambda: bytes([rng.below(256)]) * rng.choice([4095, 4096, 8191, 8192, 9000, 16384, 65536])
        head = (b"\x00\x00\x01\x41" if codec == "h264" else b"\x00\x00\x01\x02\x01")
        c.o("wv", fb(0.0), hx(video_key(rng, codec)), 1)
        t = 0.0
        for k in range(rng.range(2, 5)):
            if audio:
                c.o("wa", fb(t + 0.001), hx(adts(rng, payload_len=rng.choice([1, 5, 100]))))
                if rng.chance(1, 2):
                    c.o("wa", fb(t + 0.02), hx(adts(rng, payload_len=rng.choice([1, 5, 4000]))))
            t += 0.04
            c.o("wv", fb(t), hx(head + (big() if rng.chance(2, 3) else rng.bytes(5))), 0)
        c.o("fin", 0)
        out.append(c)
    return out


def gop_reorder(rng, n):
    """returns list of (pts_index, dts_index) in decode order for n frames: I then groups P B.. B"""
    order = [0]
    i = 1
    while i < n:
        g = min(rng.range(1, 4), n - i)  # group size: 1 P + (g-1) B
        order.append(i + g - 1)
        for k in range(g - 1):
            order.append(i + k)
        i += g
    return order


def mux_history(rng, cid, cfg=None, nv=None, na=None, bframes=None, rejects=0, fin=None, post=None, sink=None):
    cfg = cfg or rand_cfg(rng)
    c = Case(cid, "mux")
    emit_cfg(c, cfg, rng)
    if sink:
        c.raw("sink " + " ".join(sink))
    codec = cfg["codec"]
    nv = rng.range(0, 8) if nv is None else nv
    bframes = rng.chance(1, 3) if bframes is None else bframes
    times = frame_times(rng, nv)
    ops = []
    if bframes and nv >= 2:
        shift = times[1] - times[0] if nv > 1 else 0.04
        order = gop_reorder(rng, nv)
        for k, pi in enumerate(order):
            data = video_key(rng, codec) if k == 0 else video_delta(rng, codec)
            # dts = k-th time, pts = time of display index shifted so that pts >= dts mostly
            pts = times[pi] + (shift if rng.chance(3, 4) else 0.0)
            ops.append((times[k], ["wvd", fb(pts), fb(times[k]), hx(data), 1 if k == 0 else 0]))
    else:
        use_ev = rng.chance(1, 8)
        for k in range(nv):
            key = (k == 0) or rng.chance(1, 6)
            data = video_key(rng, codec) if key else video_delta(rng, codec)
            if use_ev:
                ops.append((times[k], ["ev", hx(data), "%x" % rng.choice([33, 40, 1000, 1])]))
            elif rng.chance(1, 6):
                ops.append((times[k], ["wvd", fb(times[k]), fb(times[k]), hx(data), 1 if key else 0]))
            else:
                ops.append((times[k], ["wv", fb(times[k]), hx(data), 1 if key else 0]))
    aops = []
    if has_audio(cfg) and nv > 0:
        na = rng.range(0, 8) if na is None else na
        t = times[0] + rng.choice([0.0, 0.0, 0.01, 0.5])
        for k in range(na):
            data = audio_frame(rng, cfg["audio"])
            if rng.chance(1, 10):
                aops.append((t, ["ea", hx(data), "%x" % 1024]))
            else:
                aops.append((t, ["wa", fb(t), hx(data)]))
            t += rng.choice([0.0, 1024 / 48000.0, 0.02, 0.0213, 1.0])
    # submission order: all video first / alternate by time / bursts; audio needs first video before it
    mode = rng.below(3)
    if not ops:
        merged = []
    elif mode == 0:
        merged = ops + aops
    elif mode == 1:
        merged = [ops[0]] + sorted(ops[1:] + aops, key=lambda x: x[0])
        # sorted() may reorder video among themselves only by time => still decode order
    else:
        merged = [ops[0]] + aops + ops[1:]
    seq = [o for _, o in merged]
    # rejected calls sprinkled in
    for _ in range(rejects):
        pos = rng.below(len(seq) + 1)
        seq.insert(pos, bad_call(rng, cfg))
    for o in seq:
        c.o(*o)
    fin = rng.choice([0, 0, 0, 1, 2, 3, 4]) if fin is None else fin
    c.o("fin", fin)
    if fin in (0, 1):
        post = rng.range(0, 3) if post is None else post
        for _ in range(post):
            k = rng.below(6)
            if k == 4:
                c.o("ea", hx(audio_frame(rng, "aac-lc")), "400")
            elif k == 5:
                c.o("ev", hx(video_delta(rng, codec)), "21")
            elif k == 0:
                c.o("wv", fb(1e6), hx(video_delta(rng, codec)), 0)
            elif k == 1:
                c.o("wa", fb(1e6), hx(audio_frame(rng, "aac-lc")))
            elif k == 2:
                c.o("fin", rng.choice([0, 1]))
            else:
                c.o("wvd", fb(1e6), fb(1e6), hx(video_delta(rng, codec)), 0)
        if rng.chance(1, 2):
            # a late finish attempt through one of the CONSUMING variants (finish / finish_with_stats / flush):
            # it must be rejected like every other call after a successful finish; nothing may follow it
            c.o("fin", rng.choice([2, 3, 4, 4]))
    return c


def bad_call(rng, cfg):
    codec = cfg["codec"]
    k = rng.below(12)
    if k == 0:
        return ["wv", "%x" % NAN, hx(video_delta(rng, codec)), 0]
    if k == 1:
        return ["wv", fb(-1.0), hx(video_delta(rng, codec)), 0]
    if k == 2:
        return ["wv", fb(0.0), "-", 1]
    if k == 3:
        return ["wa", fb(0.0), "-"]
    if k == 4:
        return ["wa", "%x" % PINF, hx(audio_frame(rng, "aac-lc"))]
    if k == 5:
        return ["wa", fb(rng.choice([0.0, 0.5, 100.0])), hx(rng.bytes(rng.range(1, 10)))]  # garbage audio
    if k == 6:
        return ["wvd", fb(1.0), "%x" % NINF, hx(video_delta(rng, codec)), 0]
    if k == 7:
        return ["wv", fb(0.0), hx(video_delta(rng, codec)), 0]  # old timestamp / not key
    if k == 8:
        return ["wv", fb(rng.choice([0.0, 1e-9])), hx(rng.bytes(rng.range(1, 12))), 1]  # garbage key
    if k == 9:
        return ["ev", "-", "21"]
    if k == 10:
        return ["wa", fb(-0.5), hx(audio_frame(rng, "aac-lc"))]
    return ["wvd", fb(-2.0), fb(0.0), hx(video_delta(rng, codec)), 1]


def fam_mux_basic(rng, n, prefix):
    return [mux_history(rng, "%s%d" % (prefix, i), rejects=rng.choice([0, 0, 1, 3])) for i in range(n)]


def fam_mux_clean(rng, n, prefix, **kw):
    """valid histories only, finishing successfully (when dims fit)"""
    out = []
    for i in range(n):
        cfg = rand_cfg(rng, dims=rng.choice([(640, 480), (1920, 1080), (16, 16), (65535, 65535)]))
        if "cfg" in kw:
            cfg.update(kw["cfg"])
        out.append(mux_history(rng, "%s%d" % (prefix, i), cfg=cfg, nv=kw.get("nv", rng.range(1, 9)),
                               na=kw.get("na"), bframes=kw.get("bframes"), rejects=0,
                               fin=kw.get("fin", 0), post=kw.get("post", 0)))
    return out


def fam_mux_av(rng, n, prefix):
    out = []
    for i in range(n):
        cfg = rand_cfg(rng, audio=rng.choice(ACODECS), dims=(640, 480))
        out.append(mux_history(rng, "%s%d" % (prefix, i), cfg=cfg, nv=rng.range(1, 8), na=rng.range(1, 8),
                               bframes=rng.chance(1, 2), rejects=0, fin=0, post=0))
    return out


# ---------- contract alphabet (C04/C05) ----------
TS_ALPHA = [("nan", NAN), ("pinf", PINF), ("ninf", NINF), ("neg", f64bits(-0.5)), ("negzero", NEGZERO),
            ("zero", 0), ("t1", f64bits(1.0)), ("t1eps", f64bits(1.0 + 1e-7)), ("t2", f64bits(2.0)),
            ("t05", f64bits(0.5)), ("huge", f64bits(1e300)), ("big", f64bits(50000.0)), ("big2", f64bits(100000.0))]


def payload_alpha(rng, codec):
    return [("empty", b""), ("nocfg", video_delta(rng, codec)), ("key", video_key(rng, codec)),
            ("garbage", rng.bytes(rng.range(1, 9))), ("delta", video_delta(rng, codec))]


def fam_contract(rng, n, prefix):
    out = []
    for i in range(n):
        codec = rng.choice(VCODECS)
        acodec = rng.choice(["none-cfg", "aac-lc", "opus", "none"])
        c = Case("%s%d" % (prefix, i), "mux")
        cfg = rand_cfg(rng, codec=codec, audio=acodec, dims=(640, 480), meta=0)
        emit_cfg(c, cfg, rng)
        L = rng.range(1, 7)
        for _ in range(L):
            kind = rng.below(10)
            ts = rng.choice(TS_ALPHA)[1]
            ts2 = rng.choice(TS_ALPHA)[1]
            if kind <= 2:
                _, p = rng.choice(payload_alpha(rng, codec))
                c.o("wv", "%x" % ts, hx(p), rng.below(2) if rng.chance(1, 4) else 1)
            elif kind <= 4:
                _, p = rng.choice(payload_alpha(rng, codec))
                c.o("wvd", "%x" % ts, "%x" % ts2, hx(p), rng.below(2) if rng.chance(1, 4) else 1)
            elif kind <= 6:
                a = rng.choice([b"", audio_frame(rng, "aac-lc"), opus_packet(rng), rng.bytes(rng.range(1, 9))])
                c.o("wa", "%x" % ts, hx(a))
            elif kind == 7:
                _, p = rng.choice(payload_alpha(rng, codec))
                c.o("ev", hx(p), "%x" % rng.choice([0, 33, 2**32 - 1]))
            elif kind == 8:
                a = rng.choice([b"", audio_frame(rng, "aac-lc"), opus_packet(rng)])
                c.o("ea", hx(a), "%x" % rng.choice([0, 960, 1024]))
            else:
                c.o("fin", rng.choice([0, 1]))
        c.o("fin", rng.choice([0, 0, 1, 2, 3, 4]))
        out.append(c)
    return out


# ---------- sink fault scripts (C13) ----------
def fam_sink(rng, n, prefix):
    out = []
    for i in range(n):
        L = rng.range(1, 8)
        evs = []
        for _ in range(L):
            k = rng.below(10)
            if k < 5:
                evs.append("a%x" % rng.choice([1, 2, 3, 7, 8, 100, 10**6]))
            elif k < 8:
                evs.append("i")
            elif k == 8:
                evs.append("f%x" % rng.below(9))
            else:
                evs.append("a0")
        cfg = rand_cfg(rng, dims=(640, 480))
        out.append(mux_history(rng, "%s%d" % (prefix, i), cfg=cfg, nv=rng.range(0, 4), rejects=0, fin=0,
                               post=2, sink=evs))
    # samples larger than typical I/O chunk sizes (64 KiB, 1 MiB/8) under trickling / interrupting sinks
    for j in range(max(1, n // 25)):
        codec = rng.choice(["h264", "h265"])
        size = rng.choice([65535, 65536, 65537, 70000, 131073])
        c = Case("%sbig%d" % (prefix, j), "mux")
        c.b("video", codec, "280", "1e0")
        if rng.chance(1, 2):
            c.b("audio", "aac-lc", "bb80", "2")
        c.b("fast", rng.below(2))
        c.raw("sink " + " ".join(rng.choice(["a1000", "a10000", "i", "a7", "a20000"]) for _ in range(rng.range(8, 40))))
        key = video_key(rng, codec)
        nal = (b"\x00\x00\x01\x65" if codec == "h264" else b"\x00\x00\x01\x26\x01") + bytes([0x55]) * size
        c.o("wv", fb(0.0), hx(key + nal), 1)
        c.o("wv", fb(0.04), hx(video_delta(rng, codec)), 0)
        c.o("fin", 0)
        out.append(c)
    return out


def fam_sink_sweep(rng, n, prefix):
    """one transient fault at the k-th write of finish, for every k up to the last write of a small file and
    for every injected error kind (WouldBlock / TimedOut included), possibly after a short write, the sink
    accepting everything again afterwards: the bytes accepted must stay a prefix of the fault-free file,
    finish must report the error, and nothing may be written after it"""
    out = []
    start = rng.below(1000)
    for i in range(n):
        j = start + i
        k = j % 9                      # index of the failing write
        kind = (j // 9) % 9            # injected ErrorKind
        fast = (j // 81) % 2
        partial = rng.choice([None, None, 1, 5, 8, 100])
        evs = ["a%x" % 10**6] * k
        if partial is not None:
            evs.append("a%x" % partial)
        evs.append("f%x" % kind)
        cfg = rand_cfg(rng, fast=fast, audio=rng.choice(["none-cfg", "aac-lc"]), dims=(640, 480), meta=rng.choice([0, 1]))
        cfg["rate"], cfg["ch"] = 48000, 2
        out.append(mux_history(rng, "%s%d" % (prefix, i), cfg=cfg, nv=rng.range(1, 3), na=rng.range(0, 2), rejects=0,
                               fin=rng.choice([0, 1]), post=2, sink=evs))
    return out


def fam_sink_long(rng, n, prefix):
    """long video-only (and a few A/V) histories, 17..40 frames, under sinks that never fail but cut single
    writes short at scattered positions (inside the payload of the 16th, 17th, 32nd ... sample too): batching
    of sample writes must not lose or repeat a byte"""
    out = []
    for i in range(n):
        nv = rng.choice([17, 18, 20, 33, 40])
        evs = []
        cut_at = set(rng.range(2, nv + 6) for _ in range(rng.range(1, 4))) | ({17, 18} if i % 3 == 0 else set())
        for k in range(nv + 12):
            if k in cut_at:
                evs.append("a%x" % rng.choice([1, 2, 3, 5, 7]))
                if rng.chance(1, 3):
                    evs.append("i")
            evs.append("a%x" % 10**6)
        cfg = rand_cfg(rng, fast=i % 2, audio="none-cfg" if i % 4 else "aac-lc", dims=(640, 480), meta=0)
        cfg["rate"], cfg["ch"] = 48000, 2
        out.append(mux_history(rng, "%s%d" % (prefix, i), cfg=cfg, nv=nv, na=0 if i % 4 else 5, bframes=False, rejects=0,
                               fin=rng.choice([0, 1]), post=1, sink=evs))
    return out


# ---------- fragmented (C10/C11) ----------
def frag_builder(rng, c, codec=None, stray_always=False):
    codec = codec or rng.choice(VCODECS)
    omit = 11 if stray_always else rng.below(12)          # 0..3: leave one required parameter out (new_with_fragment must return an error)
    if omit != 0:
        c.b("video", codec, "%x" % rng.choice([1920, 640, 65536, 0]), "%x" % rng.choice([1080, 480]))
    if codec in ("h264", "h265"):
        if omit != 1:
            c.b("sps", hx(rng.choice([bytes.fromhex("6742001eda02802d8b11"), rng.bytes(rng.range(0, 20))])))
        if omit != 2:
            c.b("pps", hx(rng.choice([bytes.fromhex("68ce3880"), rng.bytes(rng.range(0, 6))])))
        if codec == "h265" and omit != 3:
            c.b("vps", hx(rng.bytes(rng.range(0, 12))))
    elif codec == "av1":
        if omit not in (1, 2):
            good = obu(1, av1_seq_payload_simple(rng))
            c.b("av1seq", hx(rng.choice([good, good, good, rng.bytes(rng.range(0, 10)), mutate(rng, good), good + av1_delta(rng),
                                         av1_delta(rng) + good, good[:rng.range(0, len(good))]])))
    elif omit in (1, 2):
        pass
    else:
        c.b("vp9", *["%x" % x for x in [rng.below(4096), rng.below(4096), rng.below(4), rng.choice([8, 10, 12]),
                                         rng.below(8), rng.below(8), rng.below(2), 0, rng.below(2)]])
    if rng.chance(1, 3) or stray_always:
        # a stray parameter that belongs to ANOTHER codec: it must not change which sample entry is written
        stray = rng.choice({"h264": ["vps", "av1seq", "vp9"], "h265": ["av1seq", "vp9"], "av1": ["vps", "sps", "vp9"],
                            "vp9": ["vps", "sps", "av1seq"]}[codec])
        if stray == "vps" and codec != "h265":
            c.b("vps", hx(rng.bytes(rng.range(0, 12))))
        elif stray == "sps" and codec in ("av1", "vp9"):
            c.b("sps", hx(bytes.fromhex("6742001eda02802d8b11")))
            c.b("pps", hx(bytes.fromhex("68ce3880")))
        elif stray == "av1seq" and codec != "av1":
            c.b("av1seq", hx(obu(1, av1_seq_payload_simple(rng))))
        elif stray == "vp9" and codec != "vp9":
            c.b("vp9", "280", "1e0", "0", "8", "2", "2", "0", "0", "1")
    c.meta["codec"] = codec


def fam_frag(rng, n, prefix):
    out = []
    for i in range(n):
        c = Case("%s%d" % (prefix, i), "frag")
        if rng.chance(1, 5):
            c.raw("fc %x %x %x %x %s %s ~ ~ ~" % (rng.choice([640, 1920]), 480, rng.choice([90000, 1000, 1, 0, 48000]),
                                                  rng.choice([0, 1, 2000, 2**32 - 1]), "6742001e", "68ce"))
        else:
            frag_builder(rng, c)
        L = rng.range(0, 14)
        rejected_at = None
        dts = rng.choice([0, 0, 9000, 12345, 2**33, 0x7472756E, 0x74666474, 0x6D646174, 0x6D6F6F66, 0x74726166, 0x6D66686400])
        step = rng.choice([3000, 3000, 1, 1500, 90000])
        seg_first = None          # decode time of the first sample queued since the last flush
        after_flush = None        # (first, last) decode times of the segment just flushed
        for _ in range(L):
            k = rng.below(10)
            if after_flush is not None and after_flush[0] < after_flush[1] and rng.chance(1, 2):
                # first write after a flush, going back INTO the span of the segment just emitted: must be rejected
                d = rng.range(after_flush[0], after_flush[1] - 1)
                c.o("fw", "%x" % d, "%x" % d, hx(rng.bytes(rng.choice([1, 9]))), rng.below(2))
                after_flush = None
                continue
            if k < 6:
                after_flush = None
                vstep = step if rng.chance(3, 4) else rng.choice([0, 1, 2999, 10**6])
                d = dts
                if rng.chance(1, 10) and dts > 0:
                    d = dts - rng.choice([1, step, 2 * step])  # may be rejected
                    d = max(d, 0)
                    rejected_at = d
                elif rejected_at is not None and rng.chance(1, 2) and rejected_at + 1 < dts:
                    # right after a rejected write: a dts between the rejected one and the last accepted one
                    d = rng.range(rejected_at, dts - 1)
                    rejected_at = None
                pts = d + rng.choice([0, 0, 0, step, 2 * step])
                if rng.chance(1, 12) and d >= step:
                    pts = d - step
                c.o("fw", "%x" % pts, "%x" % d, hx(rng.bytes(rng.choice([0, 1, 9, 30]))), rng.below(2))
                if d >= dts:
                    if seg_first is None:
                        seg_first = d
                    seg_last = d
                    dts = d + vstep
            elif k == 6:
                c.o("ff")
                if seg_first is not None:
                    after_flush = (seg_first, seg_last)
                seg_first = None
            elif k == 7:
                c.o("fr")
            elif k == 8:
                c.o("fd")
            else:
                c.o("fi")
        c.o("ff")
        c.o("fi")
        out.append(c)
    return out


def fam_frag_numeric(rng, n, prefix):
    """decode times at the numeric edges of the fragmented muxer: jumps of 2^63 ticks and more between
    fragments (forward = accepted, backward = rejected), two samples of one fragment on either side of a
    multiple of 2^32, timescales 2..999 with spans near u64::MAX under the duration queries"""
    out = []
    U = 2**64 - 1
    for i in range(n):
        c = Case("%s%d" % (prefix, i), "frag")
        k = i % 6
        ts = [90000, 600, 2, 999, 1000, 48000, 1, 2**32 - 1][i % 8] if k >= 4 else 90000
        c.raw("fc 280 1e0 %x %x 6742001e 68ce ~ ~ ~" % (ts, rng.choice([2000, 0, 1, 2**32 - 1])))
        def w(d, key=0):
            c.o("fw", "%x" % d, "%x" % d, hx(rng.bytes(rng.range(1, 4))), key)
        if k == 0:      # forward jump of 2^63 and more, each side in its own fragment
            a = rng.choice([0, 1, 5]); w(a, 1); c.o("ff"); w(a + 2**63 + rng.choice([0, 1]), 1); c.o("ff"); w(U, 1); c.o("ff")
        elif k == 1:    # backward jump of more than 2^63: must be rejected
            w(2**63 + 5, 1); c.o("ff"); w(1, 1); c.o("ff"); w(2**63 + 6, 1); c.o("ff")
        elif k == 2:    # two samples of one fragment around a multiple of 2^32
            m = rng.choice([2**32, 2**33, 2**32 * 3]); w(m - 1500, 1); w(m + 1500); w(m + 4500); c.o("ff")
        elif k == 3:    # exactly on the boundary, and equal decode times there
            m = 2**32; w(m - 3000, 1); w(m); w(m); w(m + 3000); c.o("ff")
        else:           # duration queries with extreme spans
            w(0, 1); c.o("fd"); c.o("fr"); w(rng.choice([U, U - 1, 2**63, 10**15, 600 * 10**6])); c.o("fd"); c.o("fr")
            w(U); c.o("fd"); c.o("fr")
        c.o("fi")
        out.append(c)
    return out


def fam_frag_init(rng, n, prefix):
    """fragmented builder configurations (each codec, with and without parameters that belong to another
    codec), the init segment, one key frame, one segment: what the sample description of a fragmented
    stream says (C07/C19)"""
    out = []
    for i in range(n):
        c = Case("%s%d" % (prefix, i), "frag")
        frag_builder(rng, c, codec=VCODECS[i % len(VCODECS)], stray_always=(i % 2 == 0))
        c.o("fi")
        c.o("fw", "0", "0", hx(rng.bytes(rng.range(1, 9))), 1)
        c.o("ff")
        c.o("fi")
        out.append(c)
    return out


def fam_dims(rng, n, prefix):
    """progressive configurations whose width / height sit at the 16-bit limit of the sample entry: either
    dimension alone, or both, above 65535 must make finish return an error (never a wrapped field, never a
    panic); 65535 must be stored exactly"""
    DIMS = [(65535, 65535), (65536, 480), (640, 65536), (65536, 65536), (70000, 1080), (1920, 2 ** 32 - 1),
            (2 ** 32 - 1, 2 ** 32 - 1), (65535, 65536), (65536, 65535), (0, 0), (1, 65535), (131072, 131072)]
    out = []
    for i in range(n):
        w, h = DIMS[i % len(DIMS)]
        cfg = rand_cfg(rng, audio=rng.choice(["none-cfg", "aac-lc", "opus"]), dims=(w, h), meta=rng.choice([0, 0, 5]))
        cfg["rate"], cfg["ch"] = 48000, 2
        c = Case("%s%d" % (prefix, i), "mux")
        emit_cfg(c, cfg, rng)
        codec = cfg["codec"]
        c.o("wv", fb(0.0), hx(video_key(rng, codec)), 1)
        if has_audio(cfg):
            c.o("wa", fb(0.0), hx(audio_frame(rng, cfg["audio"])))
        c.o("wv", fb(0.04), hx(video_delta(rng, codec)), 0)
        c.o("fin", rng.choice([0, 0, 1, 3]))
        if rng.chance(1, 2):
            c.o("fin", 0)      # a second attempt after a failed (or successful) finish
        out.append(c)
    return out


# ---------- parser inputs ----------
ALPHA5 = [0, 1, 2, 3, 0xFF]


def soup(rng, n):
    return bytes(rng.choice(ALPHA5) if rng.chance(4, 5) else rng.below(256) for _ in range(n))


def constructive_annexb(rng):
    junk = soup(rng, rng.range(0, 4)) if rng.chance(1, 3) else b""
    parts = [junk]
    for _ in range(rng.range(0, 5)):
        parts.append(sc(rng))
        parts.append(clean_nal_body(rng, rng.range(0, 6)))
        if rng.chance(1, 4):
            parts.append(b"\x00" * rng.range(1, 3))  # trailing zeros before next start code
    return b"".join(parts)


def fam_fn_annexb(rng, n, prefix):
    out = []
    for i in range(n):
        d = soup(rng, rng.range(0, 14)) if rng.chance(1, 2) else constructive_annexb(rng)
        name = rng.choice(["nal_iter", "annexb_to_avcc", "hevc_annexb_to_hvcc", "find_start_code",
                           "extract_avc_config", "extract_hevc_config", "is_h264_keyframe", "is_hevc_keyframe"])
        if rng.chance(1, 3):
            d = rng.choice([h264_key(rng), h265_key(rng), h264_delta(rng), h265_delta(rng)])
            if rng.chance(1, 3) and len(d) > 2:
                d = d[: rng.below(len(d))]
        if rng.chance(1, 4):
            # boundary placements of start codes: at the very end, doubled, after a single byte
            d = d + rng.choice([SC4, SC3, SC3 + SC4, SC4 + SC3, bytes([rng.range(1, 255)]) + SC4, bytes([rng.range(1, 255)]) + SC3,
                                SC4 + bytes([rng.range(1, 255)]), b"\x00" + SC3, b"\x00\x00"])
        if name == "find_start_code":
            out.append(fn_case("%s%d" % (prefix, i), name, hx(d), rng.below(len(d) + 3)))
        else:
            out.append(fn_case("%s%d" % (prefix, i), name, hx(d)))
    return out


def mutate(rng, d):
    d = bytearray(d)
    k = rng.below(4)
    if k == 0 and d:
        d = d[: rng.below(len(d) + 1)]
    elif k == 1 and d:
        for _ in range(rng.range(1, 3)):
            i = rng.below(len(d))
            d[i] ^= 1 << rng.below(8)
    elif k == 2:
        i = rng.below(len(d) + 1)
        d[i:i] = rng.bytes(rng.range(1, 3))
    return bytes(d)


def fam_fn_codec(rng, n, prefix):
    out = []
    for i in range(n):
        k = rng.below(10)
        if k < 2:
            d = opus_packet(rng) if rng.chance(2, 3) else rng.bytes(rng.range(0, 4))
            name = rng.choice(["is_valid_opus_packet", "opus_packet_samples", "opus_frame_count"])
            out.append(fn_case("%s%d" % (prefix, i), name, hx(d)))
        elif k == 2:
            out.append(fn_case("%s%d" % (prefix, i), "opus_frame_duration_from_toc", "%x" % rng.below(256)))
        elif k < 6:
            base = rng.choice([av1_key(rng), av1_delta(rng), obu(1, av1_seq_payload_simple(rng)), rng.bytes(rng.range(0, 12)),
                               leb128(rng.below(2**40)) + rng.bytes(2),
                               b"", bytes([0x0E]), bytes([0x0C]), bytes([0x0A, 0x00]), bytes([0x0E, 0x00, 0x00]),
                               bytes([0x0A, 0x01]) + rng.bytes(1),                       # sequence header with a 1-byte payload
                               bytes([0x32, 0x01, 0x80 | rng.below(128)]) + av1_key(rng),  # show_existing_frame first
                               bytes([0x1A, 0x01, 0x80]),                                # frame header OBU: show_existing_frame
                               bytes([0x32, 0x00]) + av1_key(rng),                       # empty frame OBU first
                               bytes([0x0A, 0x0B]) + bytes([0xFF] * 11),
                               # OBU size fields near 2^64 (9- and 10-byte LEB128) and near 2^32 / 2^56
                               bytes([rng.choice([0x0A, 0x32, 0x12])]) + bytes([rng.choice([0xF5, 0xFA, 0xFF])]) + bytes([0xFF] * 8) + bytes([0x01]) + rng.bytes(3),
                               bytes([0x0A]) + bytes([0xFF] * 8) + bytes([0x7F]) + rng.bytes(2),
                               bytes([0x0A]) + bytes([0xFF] * 7) + bytes([0x7F]) + rng.bytes(2),
                               bytes([0x0A]) + bytes([0xFF] * 4) + bytes([0x0F]) + rng.bytes(2),
                               bytes([0xFF] * 9) + bytes([0x01]), bytes([0x80] * 9) + bytes([0x01]), bytes([0xFF] * 10),
                               # complete leading OBU(s), then an OBU whose declared size runs past the end of the buffer
                               bytes([0x12, 0x00, 0x32, 0x03, 0x10, 0x00]), bytes([0x12, 0x00, 0x12, 0x00, 0x32, 0x05, 0x10]),
                               av1_key(rng)[:-rng.range(1, 4)], obu(2, b"") + av1_key(rng)[:-rng.range(1, 6)],
                               obu(2, b"") + obu(15, rng.bytes(3)) + bytes([0x0A, 0x20]) + rng.bytes(rng.range(0, 8))])
            d = mutate(rng, base) if rng.chance(1, 2) else base
            name = rng.choice(["read_leb128", "parse_obu_header", "obu_iter", "extract_av1_config", "is_av1_keyframe"])
            out.append(fn_case("%s%d" % (prefix, i), name, hx(d)))
        else:
            base = rng.choice([vp9_key(rng), vp9_delta(rng), b"\x49\x83\x42" + rng.bytes(rng.range(0, 8)), rng.bytes(rng.range(0, 6)),
                               bytes([0xA0 | rng.below(16)]) + b"\x49\x83\x42" + rng.bytes(rng.range(0, 10)),   # profile 2/3 forms
                               bytes([0xB0, 0x49, 0x83, 0x42]) + rng.bytes(rng.range(0, 3)),
                               bytes([0x80 | rng.below(64)]) + rng.bytes(rng.range(0, 3))])
            d = mutate(rng, base) if rng.chance(1, 2) else base
            name = rng.choice(["extract_vp9_config", "is_vp9_keyframe", "is_valid_vp9_frame"])
            out.append(fn_case("%s%d" % (prefix, i), name, hx(d)))
    return out


# ---------- the validation module (K9): five public functions, boundary values of every parameter ----------
V_DIMS = [0, 1, 239, 240, 241, 319, 320, 321, 640, 1080, 1920, 2160, 2161, 4096, 4097, 65536, 2**32 - 1]
V_FPS = [0.0, -0.0, 5e-324, -1.0, 1.0, 23.976, 30.0, 60.0, 120.0, 120.00000000000001, 121.0, 1e300, float("inf"), float("-inf")]
V_RATES = [0, 1, 8000, 44100, 48000, 96000, 192000, 192001, 2**32 - 1]
V_CH = [0, 1, 2, 6, 8, 9, 255]
V_ACODECS = ["aac-lc", "aac-main", "aac-he", "aac-hev2", "aac-ssr", "aac-ltp", "opus", "none"]
V_VCODECS = ["h264", "h265", "av1", "vp9"]


def v_fps(rng):
    return "%x" % (NAN if rng.chance(1, 12) else f64bits(rng.choice(V_FPS)))


def v_vframe(rng, codec):
    k = rng.below(6)
    if k == 0:
        return b""
    if k == 1:
        return rng.bytes(rng.range(1, 12))
    if k < 4:
        return video_key(rng, codec)
    return video_delta(rng, codec)


def v_aframe(rng, codec):
    k = rng.below(8)
    if k == 0:
        return b""
    if k == 1:
        return rng.bytes(rng.range(1, 10))
    if codec == "opus" and k in (2, 3):
        return rng.choice([bytes([0x03]), bytes([0x03, 0x00]), bytes([0x03, 0x40]), bytes([0xFB, 0x3F])])
    good = audio_frame(rng, codec if codec != "none" else "aac-lc")
    if k == 2:
        return good[:rng.range(1, 6)]
    if k == 3:
        g = bytearray(good + b"\x00\x00"); g[0] = rng.choice([0xFE, 0x00, 0xFF]); g[1] = rng.choice([0x0F, 0xE1, 0xF1, g[1]])
        return bytes(g[:max(2, len(good))])
    return good


def fam_validation(rng, n, prefix):
    out = []
    for i in range(n):
        cid = "%s%d" % (prefix, i)
        k = rng.below(10)
        vc, ac = rng.choice(V_VCODECS), rng.choice(V_ACODECS)
        if k < 2:
            out.append(fn_case(cid, "validate_video_config", vc, "%x" % rng.choice(V_DIMS), "%x" % rng.choice(V_DIMS), v_fps(rng)))
        elif k < 4:
            out.append(fn_case(cid, "validate_audio_config", ac, "%x" % rng.choice(V_RATES), "%x" % rng.choice(V_CH)))
        elif k < 6:
            out.append(fn_case(cid, "validate_video_frame", vc, hx(v_vframe(rng, vc)), rng.below(2)))
        elif k < 8:
            out.append(fn_case(cid, "validate_audio_frame", ac, hx(v_aframe(rng, ac))))
        else:
            o = lambda x: "~" if rng.chance(1, 6) else x
            good_dims = rng.chance(2, 3)
            w = "%x" % (rng.choice([640, 1920, 320, 4096]) if good_dims else rng.choice(V_DIMS))
            h = "%x" % (rng.choice([480, 1080, 240, 2160]) if good_dims else rng.choice(V_DIMS))
            out.append(fn_case(cid, "validate_muxing_config",
                               o(vc), o(w), o(h), o(v_fps(rng) if not good_dims else "%x" % f64bits(30.0)),
                               o(hx(v_vframe(rng, vc))), rng.below(2),
                               o(ac), o("%x" % (48000 if good_dims else rng.choice(V_RATES))), o("%x" % (2 if good_dims else rng.choice(V_CH))),
                               o(hx(v_aframe(rng, ac)))))
    return out


# ---------- codec names (Display / FromStr; the CLI's option values) ----------
NAME_POOL = ["h264", "H264", "h.264", "H.264", "avc", "AVC", "Avc", "h265", "H.265", "hevc", "HEVC", "av1", "AV1", "vp9", "VP9",
             "aac", "AAC", "aac-lc", "AAC-LC", "aac-main", "AAC-Main", "aac-ssr", "aac-ltp", "aac-he", "AAC-HE", "aac-hev2",
             "AAC-HEv2", "opus", "Opus", "OPUS", "none", "None", "", " ", "h264 ", " h264", "h 264", "h264\n", "h-264", "h266",
             "vp8", "av01", "aac_lc", "aac-", "aac-he2", "mp3", "x", "hevc1", "none0",
             "\u212a", "a\u212ac", "\u0130", "aac-ma\u0130n", "opu\u017f", "h\u00b2\u2076\u2074", "\u0397264", "\uff48264", "avc\u0301"]


def fam_names(rng, n, prefix):
    out = []
    for i in range(n):
        cid = "%s%d" % (prefix, i)
        k = rng.below(8)
        if k < 3:
            t = rng.choice(NAME_POOL)
            if rng.chance(1, 4):
                t = "".join(ch.upper() if rng.chance(1, 2) else ch.lower() for ch in t)
            out.append(fn_case(cid, rng.choice(["parse_video_codec", "parse_audio_codec"]), hx(t.encode("utf-8"))))
        elif k < 5:
            t = bytes(rng.choice(b"aAcChHeEvV12645.-lLtTpPsSrRmMiInNoOuU ") for _ in range(rng.range(0, 8)))
            out.append(fn_case(cid, rng.choice(["parse_video_codec", "parse_audio_codec"]), hx(t)))
        elif k < 6 and rng.chance(1, 4):
            out.append(fn_case(cid, "invariant_log", "-"))
        elif k < 6 and rng.chance(1, 3):
            out.append(fn_case(cid, "opus_config", rng.choice(["mono", "stereo", "default"]),
                               rng.choice(["~", "0", "138", "ffff"]), rng.choice(["~", "0", "1", "2", "3", "8", "ff"])))
        elif k < 6 and rng.chance(1, 6):
            out.append(fn_case(cid, "frag_default_init", "-"))
        elif k < 6:
            out.append(fn_case(cid, "video_codec_name", rng.choice(V_VCODECS)))
        else:
            out.append(fn_case(cid, "audio_codec_name", rng.choice(V_ACODECS)))
    return out


# ---------- rejection matrix (C05/C04/C03/C06): every rejection reason x position x codec ----------
def reject_variants(rng, cfg, t_ok, last_v_t, last_a_t, small=False):
    """calls that are rejected for exactly one reason each; timestamps chosen so that the
    timing checks pass whenever the reason is about the payload"""
    codec = cfg["codec"]
    a = cfg["audio"] if has_audio(cfg) else None
    later_v = last_v_t + rng.choice([0.25, 1.0, 3.0])
    later_a = max(last_a_t, last_v_t) + rng.choice([0.125, 0.5, 2.0])
    if small:
        # a rejected call whose timestamp lies BETWEEN its accepted neighbours
        later_v = last_v_t + rng.choice([0.001, 0.005, 0.01])
        later_a = (last_a_t if last_a_t > 0 else last_v_t) + rng.choice([0.001, 0.005, 0.01])
    out = [
        ("v-empty", ["wv", fb(later_v), "-", 0]),
        ("v-nan", ["wv", "%x" % NAN, hx(video_delta(rng, codec)), 0]),
        ("v-neg", ["wv", fb(-1.0), hx(video_delta(rng, codec)), 0]),
        ("v-old", ["wv", fb(last_v_t), hx(video_delta(rng, codec)), 0]),
        ("v-subtick", ["wv", fb(last_v_t + 1e-9), hx(video_delta(rng, codec)), 0]),
        ("v-gap", ["wv", fb(last_v_t + 50000.0), hx(video_delta(rng, codec)), 0]),
        ("vd-dtsold", ["wvd", fb(later_v), fb(last_v_t), hx(video_delta(rng, codec)), 0]),
        ("vd-dtsinf", ["wvd", fb(later_v), "%x" % PINF, hx(video_delta(rng, codec)), 0]),
        ("vd-cts", ["wvd", fb(later_v + 30000.0), fb(later_v), hx(video_delta(rng, codec)), 0]),
        ("ev-empty", ["ev", "-", "21"]),
    ]
    if a:
        good = audio_frame(rng, a)
        bad_payloads = [rng.bytes(rng.range(1, 10))]
        if a != "opus":
            g = bytearray(good)
            g[0] = 0xFE
            bad_payloads.append(bytes(g))                      # broken syncword
            g = bytearray(good); g[2] = (g[2] & 0xC3) | (13 << 2); bad_payloads.append(bytes(g))  # bad rate index
            bad_payloads.append(good[:-1])                     # truncated
            bad_payloads.append(good[:7])                      # header only
            g = bytearray(good); g[1] |= 0x08; bad_payloads.append(bytes(g))                     # MPEG-2 version bit
            g = bytearray(good); g[1] |= rng.choice([0x02, 0x04, 0x06]); bad_payloads.append(bytes(g))  # layer != 0
            g = bytearray(good); g[2] &= 0xFE; g[3] &= 0x3F; bad_payloads.append(bytes(g))       # channel configuration 0
            g = bytearray(good[:8]); g[1] &= 0xFE; bad_payloads.append(bytes(g))                 # CRC announced, bytes missing
        else:
            bad_payloads.append(bytes([0x03]))                 # code 3 without count byte
            bad_payloads.append(bytes([0x03, 0x00]))           # zero frames
        for k, p in enumerate(bad_payloads):
            out.append(("a-bad%d" % k, ["wa", fb(later_a), hx(p)]))
        out += [
            ("a-empty", ["wa", fb(later_a), "-"]),
            ("a-old", ["wa", fb(max(last_a_t - 0.01, 0.0)), hx(good)]) if last_a_t > 0.02 else ("a-neg", ["wa", fb(-0.5), hx(good)]),
            ("a-inf", ["wa", "%x" % PINF, hx(good)]),
            ("a-gap", ["wa", fb(later_a + 50000.0), hx(good)]),
            ("ea-bad", ["ea", hx(rng.bytes(3)), "400"]),
        ]
    else:
        out.append(("a-noaudio", ["wa", fb(later_v), hx(audio_frame(rng, "aac-lc"))]))
    return out


def fam_audio_defects(rng, n, prefix):
    """EVERY audio rejection reason once per round (n rounds), as the last audio call before finish, on an
    AAC track and on an Opus track: each ADTS header defect (syncword, reserved rate index, truncated, header
    only, MPEG-2 bit, layer, channel configuration 0, missing CRC bytes), each Opus defect, empty, old,
    infinite, gap"""
    out = []
    for r in range(n):
        for a in ("aac-lc", "opus", "aac-he"):
            cfg = rand_cfg(rng, codec="h264", audio=a, dims=(640, 480), meta=0)
            cfg["rate"], cfg["ch"] = 48000, 2
            for name, bad in [v for v in reject_variants(rng, cfg, 0.0, 0.54, 0.52) if v[0].startswith("a-") or v[0].startswith("ea-")]:
                c = Case("%sr%d_%s_%s" % (prefix, r, a, name), "mux")
                emit_cfg(c, cfg, rng)
                c.o("wv", fb(0.5), hx(video_key(rng, "h264")), 1)
                c.o("wa", fb(0.5), hx(audio_frame(rng, a)))
                c.o("wa", fb(0.52), hx(audio_frame(rng, a)))
                c.o("wv", fb(0.54), hx(video_delta(rng, "h264")), 0)
                c.o(*bad)
                if r % 2:
                    c.o("wa", fb(0.56), hx(audio_frame(rng, a)))
                c.o("fin", 0)
                out.append(c)
    return out


def fam_reject_matrix(rng, n, prefix):
    out = []
    k = 0
    turn = rng.below(1000)      # the rejection reasons are taken IN TURN (not drawn), so that each one occurs
    while len(out) < n:
        cfg = rand_cfg(rng, audio=rng.choice(["none-cfg", "aac-lc", "aac-he", "opus", "opus"]), dims=(640, 480),
                       meta=rng.choice([0, 0, 5]))
        codec = cfg["codec"]
        nv = rng.range(2, 4)
        vt = [0.5 + i * rng.choice([1 / 30.0, 0.04]) for i in range(nv)]
        na = rng.range(2, 5) if has_audio(cfg) else 0
        at = [0.5 + i * rng.choice([0.021, 0.02, 0.033]) for i in range(na)]
        base = [["wv", fb(vt[0]), hx(video_key(rng, codec)), 1]]
        rest = [(t, ["wv", fb(t), hx(video_delta(rng, codec)), 0]) for t in vt[1:]] + \
               [(t, ["wa", fb(t), hx(audio_frame(rng, cfg["audio"]))]) for t in at]
        rest.sort(key=lambda x: x[0])
        seq = base + [o for _, o in rest]
        variants = reject_variants(rng, cfg, 0.0, vt[-1], at[-1] if at else 0.0)
        name, bad = variants[(turn + k) % len(variants)]
        pos = rng.choice(["first", "middle", "last", "last", "last2"]) if k % 3 else "last"
        c = Case("%s%d_%s_%s" % (prefix, k, name, pos), "mux")
        k += 1
        emit_cfg(c, cfg, rng)
        if pos == "first":
            # before anything is accepted: use the generic (first-frame) forms
            first_bad = rng.choice([["wv", fb(0.5), hx(video_delta(rng, codec)), 0],       # not a keyframe
                                    ["wv", fb(0.5), hx(video_key(rng, codec)), 0],         # carries its own (different) configuration but is not flagged key
                                    ["wvd", fb(0.5), fb(0.25), hx(video_key(rng, codec)), 0],
                                    ["wv", fb(0.5), hx(rng.bytes(9)), 1],                   # no config
                                    ["wa", fb(0.5), hx(audio_frame(rng, "aac-lc"))],        # audio before video
                                    ["wv", fb(0.5), "-", 1]])
            ops = [first_bad] + seq
        elif pos == "middle":
            # rejected call in the middle: its timestamps refer to the end, so rebuild for the prefix
            cut = rng.range(1, len(seq) - 1)
            vts = [bits_f64(int(o[1], 16)) for o in seq[:cut] if o[0] == "wv"]
            ats = [bits_f64(int(o[1], 16)) for o in seq[:cut] if o[0] == "wa"]
            vmid = reject_variants(rng, cfg, 0.0, vts[-1], ats[-1] if ats else 0.0, small=rng.chance(2, 3))
            # keep only variants that cannot make LATER valid frames invalid: fine, they are all rejected
            nm, bad2 = rng.choice([v for v in vmid if not v[0].endswith("gap")] or vmid)
            ops = seq[:cut] + [bad2] + seq[cut:]
        elif pos == "last":
            ops = seq + [bad]
        else:
            ops = seq + [bad, rng.choice(variants)[1]]
        for o in ops:
            c.o(*o)
        c.o("fin", 0)
        out.append(c)
    return out


# ---------- a rejected call between two accepted ones that are far apart (C03/C04/C05/C16) ----------
def fam_reject_gap(rng, n, prefix):
    """accepted frame at t0, a call rejected for its payload at t0+g1, then a frame at t0+g2: whether the
    last one is accepted (and which duration the first one gets) must depend on g2 alone"""
    out = []
    lim = 2**32 / 90000.0
    for i in range(n):
        cfg = rand_cfg(rng, audio=rng.choice(["aac-lc", "aac-he", "opus"]), dims=(640, 480), meta=0)
        codec = cfg["codec"]
        c = Case("%s%d" % (prefix, i), "mux")
        emit_cfg(c, cfg, rng)
        t0 = rng.choice([0.0, 0.5, 10.0])
        g2 = rng.choice([0.04, 1.0, lim - 1.0, lim - 0.0001, lim + 0.0001, lim + 1.0, 50000.0, 90000.0, lim, lim, (2**32 - 1) / 90000.0])
        g1 = g2 * rng.choice([0.25, 0.5, 0.9]) if rng.chance(4, 5) else g2 + 1.0
        track = rng.choice(["a", "a", "v"])
        c.o("wv", fb(t0), hx(video_key(rng, codec)), 1)
        c.o("wa", fb(t0), hx(audio_frame(rng, cfg["audio"])))
        if track == "a":
            bad = rng.choice([rng.bytes(rng.range(1, 6)), b"", audio_frame(rng, cfg["audio"])[:1]])
            c.o("wa", fb(t0 + g1), hx(bad) if bad else "-")
            c.o("wa", fb(t0 + g2), hx(audio_frame(rng, cfg["audio"])))
            if rng.chance(1, 2):
                c.o("wa", fb(t0 + g2 + 0.02), hx(audio_frame(rng, cfg["audio"])))
        else:
            c.o("wv", fb(t0 + g1), "-", 0)
            c.o("wv", fb(t0 + g2), hx(video_delta(rng, codec)), 0)
            if rng.chance(1, 2):
                c.o("wv", fb(t0 + g2 + 0.04), hx(video_delta(rng, codec)), 0)
        c.o("fin", 0)
        out.append(c)
    # explicit decode times: the 32-bit gap guard is about DECODE times, whatever the presentation times are
    for j in range(max(4, n // 4)):
        cfg = rand_cfg(rng, audio="none-cfg", dims=(640, 480), meta=0)
        codec = cfg["codec"]
        c = Case("%sd%d" % (prefix, j), "mux")
        emit_cfg(c, cfg, rng)
        d0 = rng.choice([3000, 9000, 90000])
        gap = 2**32 + rng.choice([-3000, -1, 0, 1, 1000, 2999, 3000, 3001, 6000])
        off = rng.choice([-3000, -3000, -1, 0, 3000, 6000])
        c.o("wvd", fb(d0 / 90000.0), fb(d0 / 90000.0), hx(video_key(rng, codec)), 1)
        c.o("wvd", fb((d0 + gap + off) / 90000.0), fb((d0 + gap) / 90000.0), hx(video_delta(rng, codec)), 0)
        c.o("wvd", fb((d0 + gap + 3000 + max(off, 0)) / 90000.0), fb((d0 + gap + 3000) / 90000.0), hx(video_delta(rng, codec)), 0)
        c.o("fin", 0)
        out.append(c)
    return out


# ---------- automatic-timestamp convenience calls, with rejected calls in between (C17) ----------
def fam_encode_paths(rng, n, prefix):
    out = []
    for i in range(n):
        cfg = rand_cfg(rng, audio=rng.choice(["none", "aac-lc", "aac-lc", "opus"]), dims=(640, 480), meta=rng.choice([0, 0, 5]))
        codec = cfg["codec"]
        c = Case("%s%d" % (prefix, i), "mux")
        emit_cfg(c, cfg, rng)
        started = False
        if rng.chance(1, 3):
            # a first convenience call that is rejected (by the API layer or only by the writer), then the real start
            c.o("ev", rng.choice([hx(rng.bytes(rng.range(1, 12))), hx(video_delta(rng, codec)), "-", hx(video_delta(rng, codec))]),
                "%x" % rng.choice([33, 40]))
        for k in range(rng.range(2, 9)):
            r = rng.below(12)
            ms = "%x" % rng.choice([33, 33, 40, 1, 0, 1000, 17, 16777217, 20000001, 33554433, 16777216])
            if r < 5:
                key = (not started) if rng.chance(5, 6) else started
                data = video_key(rng, codec) if key else video_delta(rng, codec)
                if codec in ("h264", "h265") and rng.chance(1, 4):
                    # an access-unit delimiter and an EMPTY unit (two start codes in a row) in front of the frame:
                    # key-frame detection must look past empty units
                    aud = b"\x00\x00\x01\x09\xf0" if codec == "h264" else b"\x00\x00\x01\x46\x01\x50"
                    data = aud + rng.choice([b"\x00\x00\x01", b"\x00\x00\x00\x01"]) + data
                c.o("ev", hx(data), ms)
                started = started or key
            elif r < 6:
                c.o("ev", "-", ms)
            elif r < 7:
                c.o("ev", hx(rng.bytes(rng.range(1, 12))), ms)
            elif r < 10:
                a = cfg["audio"] if has_audio(cfg) else "aac-lc"
                c.o("ea", hx(audio_frame(rng, a)), "%x" % rng.choice([1024, 960, 0, 480, 2048]))
            elif r < 11:
                c.o("ea", hx(rng.bytes(rng.range(0, 9))) or "-", "%x" % rng.choice([1024, 960]))
            else:
                c.o("wv", fb(rng.choice([0.0, 0.5, 2.0, 10.0])), hx(video_delta(rng, codec)), 0)
        fin = rng.choice([0, 0, 3])
        c.o("fin", fin)
        if fin == 0 and rng.chance(1, 2):
            # convenience calls after finish: rejected, and with the same error kind on every equivalent path
            c.o("ea", hx(audio_frame(rng, "aac-lc")), "400")
            c.o("ev", hx(video_delta(rng, codec)), "21")
        out.append(c)
    return out


# ---------- cross-track timestamp ties (C15/C01/C08): every index relation at a tie ----------
def fam_interleave_ties(rng, n, prefix):
    """video and audio on a common tick grid so that equal timestamps across tracks are frequent, with
    audio sparser, denser, late-starting or early-ending relative to video, in every call order"""
    out = []
    for i in range(n):
        cfg = rand_cfg(rng, audio=rng.choice(["aac-lc", "opus", "aac-he"]), dims=(640, 480), meta=rng.choice([0, 0, 5]))
        codec = cfg["codec"]
        c = Case("%s%d" % (prefix, i), "mux")
        emit_cfg(c, cfg, rng)
        unit = rng.choice([0.05, 0.04, 0.1, 1 / 30.0])
        t0 = rng.choice([0.0, 0.0, 1.0])
        nv = rng.range(3, 9)
        vstep = rng.choice([1, 1, 2])
        astep = rng.choice([1, 2, 2, 3, 4])
        astart = rng.choice([0, 0, 1, 2, 3]) * vstep
        na = rng.range(1, 7)
        vt = [t0 + unit * vstep * k for k in range(nv)]
        at = [t0 + unit * (astart + astep * k) for k in range(na)]
        vops = [(t, 0, ["wv", fb(t), hx(video_key(rng, codec) if k == 0 else video_delta(rng, codec)), 1 if k == 0 else 0])
                for k, t in enumerate(vt)]
        aops = [(t, 1, ["wa", fb(t), hx(audio_frame(rng, cfg["audio"]))]) for t in at]
        order = rng.below(3)
        if order == 0:      # merged, video first at ties
            seq = sorted(vops + aops, key=lambda x: (x[0], x[1]))
        elif order == 1:    # merged, audio first at ties (the first video frame must still come first)
            seq = sorted(vops + aops, key=lambda x: (x[0], -x[1]))
            seq = [vops[0]] + [x for x in seq if x is not vops[0]]
        else:               # all video, then all audio
            seq = vops + aops
        for _, _, o in seq:
            c.o(*o)
        c.o("fin", 0)
        out.append(c)
    return out


# ---------- long A/V histories with repeated timestamps inside a track (C15/C01) ----------
def fam_long_ties(rng, n, prefix):
    """30..60 video frames and 40..90 audio frames; consecutive audio frames often share a timestamp (legal:
    audio time only has to be non-decreasing), so the interleaving sort sees many equal keys"""
    out = []
    for i in range(n):
        cfg = rand_cfg(rng, audio=rng.choice(["aac-lc", "opus"]), dims=(640, 480), meta=0)
        codec = cfg["codec"]
        c = Case("%s%d" % (prefix, i), "mux")
        emit_cfg(c, cfg, rng)
        nv, na = rng.range(30, 60), rng.range(40, 90)
        vt = [k * 0.04 for k in range(nv)]
        at, t = [], 0.0
        for k in range(na):
            at.append(t)
            if not rng.chance(1, 2):
                t += rng.choice([0.02, 0.04, 0.021])
        ops = [(t, 0, k, ["wv", fb(t), hx(h264_key(rng, extra=False) if codec == "h264" and k == 0 else
                                          (video_key(rng, codec) if k == 0 else video_delta(rng, codec))), 1 if k == 0 else 0])
               for k, t in enumerate(vt)]
        ops += [(t, 1, k, ["wa", fb(t), hx(audio_frame(rng, cfg["audio"])[:40] if cfg["audio"] == "opus" else adts(rng, payload_len=rng.range(1, 12)))])
                for k, t in enumerate(at)]
        if rng.chance(1, 2):
            ops.sort(key=lambda x: (x[0], x[1], x[2]))
        else:
            ops = [o for o in ops if o[1] == 0] + [o for o in ops if o[1] == 1]
        for _, _, _, o in ops:
            c.o(*o)
        c.o("fin", 0)
        out.append(c)
    return out


# ---------- builder call sequences (C17/C04): repeated and overriding configuration calls ----------
def fam_builder_scripts(rng, n, prefix):
    out = []
    for i in range(n):
        c = Case("%s%d" % (prefix, i), "mux")
        codec = rng.choice(VCODECS)
        audio = None
        for k in range(rng.range(1, 7)):
            r = rng.below(8)
            if r < 2:
                codec = rng.choice(VCODECS)
                c.b(rng.choice(["video", "setvideo"]), codec, "%x" % rng.choice([640, 1280, 320]), "%x" % rng.choice([480, 720, 240]))
            elif r < 5:
                audio = rng.choice(["aac-lc", "opus", "none", "none", "aac-he"])
                c.b(rng.choice(["audio", "setaudio"]), audio, "%x" % rng.choice([48000, 44100]), "%x" % rng.choice([1, 2]))
            elif r < 6:
                c.b("meta", hx(bytes(rng.choice(b"abcXYZ 09") for _ in range(rng.range(1, 6)))) if rng.chance(1, 2) else "~",
                    ("%x" % rng.choice(CTIMES)) if rng.chance(1, 3) else "~", hx(rng.choice([b"fra", b"jpn"])) if rng.chance(1, 3) else "~")
            elif r < 7:
                if rng.chance(1, 2):
                    c.b("lang", hx(rng.choice([b"eng", b"deu", b"und"])))
                else:
                    c.b("ctime", "%x" % rng.choice(CTIMES))
            else:
                c.b("fast", rng.below(2))
        if not any(l.startswith("b video") or l.startswith("b setvideo") for l in c.lines) and rng.chance(5, 6):
            c.b(rng.choice(["video", "setvideo"]), codec, "280", "1e0")
        c.o("wv", fb(0.0), hx(video_key(rng, codec)), 1)
        c.o("wa", fb(0.0), hx(audio_frame(rng, audio if audio and audio != "none" else "aac-lc")))
        c.o("wv", fb(0.04), hx(video_delta(rng, codec)), 0)
        c.o("wa", fb(0.03), hx(audio_frame(rng, audio if audio and audio != "none" else "opus")))
        c.o("fin", rng.choice([0, 3]))
        out.append(c)
    return out


# ---------- presentation earlier than decode on every frame, with audio (C09/C03/C16) ----------
def fam_negative_cts_av(rng, n, prefix):
    """explicit-dts video whose composition offsets are all <= 0 (some negative), audio starting at the
    first video decode time: dropping the offsets shifts the whole video against the audio"""
    out = []
    for i in range(n):
        cfg = rand_cfg(rng, audio=rng.choice(["aac-lc", "opus", "none"]), dims=(640, 480), meta=0)
        codec = cfg["codec"]
        c = Case("%s%d" % (prefix, i), "mux")
        emit_cfg(c, cfg, rng)
        step = rng.choice([3000, 3003, 1500])
        lead = rng.choice([1, 2, 1, 1]) * step
        nv = rng.range(2, 6)
        mode = rng.below(3)       # 0: constant negative offset, 1: only the first, 2: only the last
        ops = []
        for k in range(nv):
            d = lead + k * step
            off = {0: -lead, 1: (-lead if k == 0 else 0), 2: (-step if k == nv - 1 else 0)}[mode]
            if mode == 2 and nv - 1 == k and k > 0:
                off = -rng.choice([1, step // 2])
            ops.append((d, 0, ["wvd", fb((d + off) / 90000.0), fb(d / 90000.0),
                               hx(video_key(rng, codec) if k == 0 else video_delta(rng, codec)), 1 if k == 0 else 0]))
        if has_audio(cfg):
            for k in range(rng.range(1, 5)):
                t = lead + k * rng.choice([1920, 1800, 960])
                ops.append((t, 1, ["wa", fb(t / 90000.0), hx(audio_frame(rng, cfg["audio"]))]))
        ops.sort(key=lambda x: (x[0], x[1]))
        for _, _, o in ops:
            c.o(*o)
        c.o("fin", 0)
        out.append(c)
    return out


# ---------- creation times on calendar boundaries (C18/C12/C16) ----------
def fam_ctimes(rng, n, prefix):
    import datetime
    out = []
    epoch = datetime.datetime(1970, 1, 1)
    for i in range(n):
        y = rng.choice([rng.range(1970, 2110), rng.range(1970, 2110), rng.range(2110, 2500), 2000, 2100, 2400, 9999, rng.choice([1972, 2024, 2096])])
        leap = (y % 4 == 0 and y % 100 != 0) or y % 400 == 0
        md = rng.choice([(2, 28), (2, 29) if leap else (3, 1), (2, 29) if leap else (2, 28), (3, 1), (12, 31), (1, 1), (rng.range(1, 12), rng.range(1, 28))])
        sec = rng.choice([0, 86399, rng.below(86400)])
        t = int((datetime.datetime(y, md[0], md[1]) - epoch).total_seconds()) + sec
        cfg = rand_cfg(rng, audio=rng.choice(["none-cfg", "aac-lc"]), dims=(640, 480), meta=0)
        c = Case("%s%d" % (prefix, i), "mux")
        emit_cfg(c, cfg, rng)
        if rng.chance(1, 2):
            c.b("ctime", "%x" % t)
        else:
            c.b("meta", hx(b"t") if rng.chance(1, 2) else "~", "%x" % t, "~")
        c.o("wv", fb(0.0), hx(video_key(rng, cfg["codec"])), 1)
        c.o("fin", rng.choice([0, 1, 3]))
        out.append(c)
    return out


# ---------- timestamps between ticks (C03/C04/C16): rounding of pts and dts separately ----------
def fam_subtick(rng, n, prefix):
    """explicit-dts video whose pts and dts fall at arbitrary fractions of a 90 kHz tick (fractions on either
    side of one half), so that round(pts) - round(dts) differs from round(pts - dts); audio likewise"""
    out = []
    fr = [0.0, 0.1, 0.25, 0.4, 0.49, 0.5, 0.51, 0.6, 0.75, 0.9, 0.99]
    for i in range(n):
        cfg = rand_cfg(rng, audio=rng.choice(["none", "aac-lc", "opus"]), dims=(640, 480), meta=0)
        codec = cfg["codec"]
        c = Case("%s%d" % (prefix, i), "mux")
        emit_cfg(c, cfg, rng)
        d = rng.choice([0, 3000, 90000])
        ops = []
        for k in range(rng.range(2, 6)):
            dd = d + rng.choice(fr)
            off = rng.choice([0, 3000, 6000, 2999, 1]) if rng.chance(3, 4) else 0
            pp = d + off + rng.choice(fr)
            if pp < dd and off == 0:
                pp = dd
            ops.append((dd, 0, ["wvd", fb(pp / 90000.0), fb(dd / 90000.0),
                                hx(video_key(rng, codec) if k == 0 else video_delta(rng, codec)), 1 if k == 0 else 0]))
            d += rng.choice([3000, 3003, 1500, 1])
        if has_audio(cfg):
            t = ops[0][0] + 9000
            for k in range(rng.range(1, 4)):
                ops.append((t + 0.0, 1, ["wa", fb((t + rng.choice(fr)) / 90000.0), hx(audio_frame(rng, cfg["audio"]))]))
                t += rng.choice([1920, 960, 1])
        ops.sort(key=lambda x: (x[0], x[1]))
        for _, _, o in ops:
            c.o(*o)
        c.o("fin", 0)
        out.append(c)
    return out


# ---------- audio against the first video presentation time when later frames are presented earlier (C04) ----------
def fam_audio_vs_first_video(rng, n, prefix):
    out = []
    for i in range(n):
        cfg = rand_cfg(rng, audio=rng.choice(["aac-lc", "opus"]), dims=(640, 480), meta=0)
        codec = cfg["codec"]
        c = Case("%s%d" % (prefix, i), "mux")
        emit_cfg(c, cfg, rng)
        p0 = rng.choice([0.2, 0.5, 1.0])
        c.o("wvd", fb(p0), fb(0.0), hx(video_key(rng, codec)), 1)
        later = []
        for k in range(rng.range(1, 4)):
            later.append(round(p0 * rng.choice([0.25, 0.5, 0.75, 1.5]), 6))
        d = 0.0
        for pt in later:
            d += 0.01
            c.o("wvd", fb(max(pt, d) if pt >= d else pt + d), fb(d), hx(video_delta(rng, codec)), 0)
        t = 0.0
        if rng.chance(1, 3):
            # a call rejected for its PAYLOAD at a time that would pass the "not before the first video frame" test:
            # it must not switch that test off for the calls that follow
            c.o("wa", fb(rng.choice([p0, p0 + 0.1])), hx(rng.choice([b"", b"\xff", rng.bytes(3), bytes(9)])))
        for k in range(rng.range(2, 6)):
            t = max(t, rng.choice([p0 * 0.3, p0 * 0.6, p0 * 0.9, p0, p0 * 1.1, p0 + 0.5]))
            c.o("wa", fb(t), hx(audio_frame(rng, cfg["audio"])))
        c.o("fin", 0)
        out.append(c)
    return out


# ---------- A/V streams whose timestamps cross 2^32 ticks (C15/C01/C03/C16) ----------
def fam_cross_2p32(rng, n, prefix):
    out = []
    for i in range(n):
        cfg = rand_cfg(rng, audio=rng.choice(["aac-lc", "opus"]), dims=(640, 480), meta=0)
        codec = cfg["codec"]
        c = Case("%s%d" % (prefix, i), "mux")
        emit_cfg(c, cfg, rng)
        start = 2**32 - rng.choice([1, 3000, 6000, 9000, 15000])
        vstep, astep = rng.choice([3000, 3003]), rng.choice([1920, 1800])
        ops = [(start + k * vstep, 0, k) for k in range(rng.range(3, 8))] + [(start + k * astep, 1, k) for k in range(rng.range(2, 10))]
        ops.sort()
        for t, kind, k in ops:
            if kind == 0:
                c.o("wv", fb(t / 90000.0), hx(video_key(rng, codec) if k == 0 else video_delta(rng, codec)), 1 if k == 0 else 0)
            else:
                c.o("wa", fb(t / 90000.0), hx(audio_frame(rng, cfg["audio"])))
        c.o("fin", 0)
        out.append(c)
    return out


# ---------- long convenience-call histories (C15/C17/C03): clock drift only shows after seconds ----------
def fam_long_encode(rng, n, prefix):
    """several seconds of encode_video / encode_audio at sample rates whose frame duration is not a whole
    number of ticks (44.1 kHz family), so that a per-frame rounding of the automatic clock accumulates
    until it crosses a video frame boundary"""
    out = []
    for i in range(n):
        rate = rng.choice([44100, 22050, 11025, 44100])
        codec = rng.choice(["h264", "h264", "h265"])
        c = Case("%s%d" % (prefix, i), "mux")
        c.b("video", codec, "280", "1e0")
        c.b("audio", "aac-lc", "%x" % rate, "2")
        c.b("fast", rng.below(2))
        ms = rng.choice([33, 40])
        nv = rng.range(90, 130)
        frame_s = 1024.0 / rate
        ta = tv = 0.0
        c.o("ev", hx(h264_key(rng, extra=False) if codec == "h264" else h265_key(rng, extra=False)), "%x" % ms)
        tv += ms / 1000.0
        k = 1
        while k < nv:
            if ta <= tv:
                c.o("ea", hx(adts(rng, payload_len=rng.range(1, 6))), "400")
                ta += frame_s
            else:
                c.o("ev", hx((b"\x00\x00\x01\x41" if codec == "h264" else b"\x00\x00\x01\x02\x01") + rng.bytes(3)), "%x" % ms)
                tv += ms / 1000.0
                k += 1
        c.o("fin", 0)
        out.append(c)
    return out


# ---------- composition-offset boundaries (C16/C03/C04): pts - dts around +-2^31 ticks ----------
def fam_cts_bounds(rng, n, prefix):
    out = []
    offs = [2**31 - 2, 2**31 - 1, 2**31, 2**31 + 1, -(2**31) - 1, -(2**31), -(2**31) + 1, 2**31 + 90000, -(2**31) - 90000,
            0, 1, -1, 2**30, -(2**30)]
    for i in range(n):
        cfg = rand_cfg(rng, audio=rng.choice(["none", "none", "aac-lc"]), dims=(640, 480), meta=0)
        codec = cfg["codec"]
        c = Case("%s%d" % (prefix, i), "mux")
        emit_cfg(c, cfg, rng)
        base = 2**31 + 90000 * rng.range(1, 5)
        first = rng.chance(1, 3)
        off0 = rng.choice(offs) if first else 0
        c.o("wvd", fb((base + off0) / 90000.0), fb(base / 90000.0), hx(video_key(rng, codec)), 1)
        d = base
        for k in range(rng.range(1, 4)):
            d += rng.choice([3000, 3003, 1, 90000])
            off = rng.choice(offs) if rng.chance(2, 3) else rng.choice([0, 3000, 6000])
            c.o("wvd", fb((d + off) / 90000.0), fb(d / 90000.0), hx(video_delta(rng, codec)), 0)
        if has_audio(cfg):
            c.o("wa", fb(base / 90000.0), hx(audio_frame(rng, cfg["audio"])))
        c.o("fin", 0)
        out.append(c)
    return out


# ---------- timestamps at the top of the tick range (C12/C06/C04/C16) ----------
def fam_signed_zero(rng, n, prefix):
    """-0.0 is a finite, non-negative time: every entry point must treat it like +0.0"""
    out = []
    NZ = "8000000000000000"
    for i in range(n):
        cfg = rand_cfg(rng, audio=rng.choice(["none-cfg", "aac-lc", "opus"]), dims=(640, 480), meta=0)
        cfg["rate"], cfg["ch"] = 48000, 2
        codec = cfg["codec"]
        c = Case("%s%d" % (prefix, i), "mux")
        emit_cfg(c, cfg, rng)
        k = i % 4
        if k == 0:
            c.o("wvd", rng.choice([NZ, fb(0.0), fb(1 / 30.0)]), NZ, hx(video_key(rng, codec)), 1)
        elif k == 1:
            c.o("wv", NZ, hx(video_key(rng, codec)), 1)
        elif k == 2:
            c.o("wvd", NZ, fb(0.0), hx(video_key(rng, codec)), 1)
        else:
            c.o("wvd", fb(0.0), fb(0.0), hx(video_key(rng, codec)), 1)
        if has_audio(cfg):
            c.o("wa", rng.choice([NZ, fb(0.0)]), hx(audio_frame(rng, cfg["audio"])))
        c.o("wvd", fb(2 / 30.0), fb(1 / 30.0), hx(video_delta(rng, codec)), 0)
        c.o("fin", 0)
        out.append(c)
    return out


def fam_extreme_ts(rng, n, prefix):
    top = 2**64 / 90000.0
    vals = [204963823041217.0, 204963823041218.0, 204963823041216.0, 204963823041200.0, top, top * 1.0000001, top * 0.9999999,
            top - 40000.0, 1e14, 1e15, 1.8e19, 1e300, 2**63 / 90000.0, 2**63 / 90000.0 + 1, 2**53 / 90000.0, 2**52 / 90000.0,
            2**32 / 90000.0, 4.5e15, 0.0]
    out = []
    for i in range(n):
        cfg = rand_cfg(rng, audio=rng.choice(["none", "aac-lc", "opus"]), dims=(640, 480), meta=0)
        codec = cfg["codec"]
        c = Case("%s%d" % (prefix, i), "mux")
        emit_cfg(c, cfg, rng)
        ts = sorted(rng.choice(vals) for _ in range(rng.range(2, 4)))
        if rng.chance(1, 4):
            ts = [rng.choice(vals)] + ts
        key = True
        if rng.chance(1, 3):
            # a presentation time that saturates the tick range with an ordinary decode time: pts - dts near 2^64
            c.o("wvd", fb(rng.choice([1e15, 1e300, top, top * 1.0000001])), fb(rng.choice([0.0, 1 / 30.0, 1.0])),
                hx(video_key(rng, codec)), 1)
            key = rng.chance(1, 2)      # the frame above must be rejected, so the next one may still have to be the key frame
        for t in ts:
            if rng.chance(1, 4):
                dt = rng.choice(vals)
                c.o("wvd", fb(t), fb(min(t, dt)), hx(video_key(rng, codec) if key else video_delta(rng, codec)), 1 if key else 0)
            else:
                c.o("wv", fb(t), hx(video_key(rng, codec) if key else video_delta(rng, codec)), 1 if key else 0)
            key = False
            if has_audio(cfg) and rng.chance(2, 3):
                c.o("wa", fb(t), hx(audio_frame(rng, cfg["audio"])))
        c.o("fin", rng.choice([0, 0, 1, 3]))
        out.append(c)
    return out


# ---------- ADTS frame-length boundaries (C01/C14/C04): every bit of the 13-bit length ----------
def fam_adts_lengths(rng, n, prefix):
    out = []
    lens = [1, 2, 7, 8, 9, 255, 256, 257, 1023, 1024, 2047, 2048, 2049, 4087, 4088, 4089, 4095, 4096, 4097, 6000, 8182, 8184]
    for i in range(n):
        cfg = rand_cfg(rng, audio=rng.choice(["aac-lc", "aac-main", "aac-hev2"]), dims=(640, 480), meta=0)
        c = Case("%s%d" % (prefix, i), "mux")
        emit_cfg(c, cfg, rng)
        c.o("wv", fb(0.0), hx(video_key(rng, cfg["codec"])), 1)
        t = 0.0
        for _ in range(rng.range(1, 3)):
            pa = rng.chance(3, 4)
            L = rng.choice(lens)
            L = min(L, 8191 - (7 if pa else 9))
            fr = adts(rng, payload_len=L, protection_absent=pa, extra_tail=rng.choice([0, 0, 1, 5]))
            if rng.chance(1, 6):
                fr = fr[:-1 - rng.below(3)]     # truncated: must be rejected
            c.o("wa", fb(t), hx(fr))
            t += 0.02
        c.o("fin", 0)
        out.append(c)
    return out


# ---------- exhaustive small scopes (thorough tier) ----------
def fam_exh_annexb(rng, n, prefix):
    """ALL byte strings up to a length bound over {00,01,02,03,FF} through both converters and the
    iterator (n selects the bound: n >= 90000 -> length 7, else length 6)"""
    import itertools
    L = 7 if n >= 90000 else (6 if n >= 15000 else 5)
    out = []
    k = 0
    for l in range(0, L + 1):
        for t in itertools.product(ALPHA5, repeat=l):
            d = bytes(t)
            name = ("annexb_to_avcc", "nal_iter", "hevc_annexb_to_hvcc")[k % 3] if l < L else "annexb_to_avcc"
            out.append(fn_case("%s%d" % (prefix, k), name, hx(d)))
            k += 1
    return out


def fam_exh_units(rng, n, prefix):
    """ALL sequences of up to 4 units, each = a 3- or 4-byte start code followed by 0..3 payload bytes (non-zero,
    or with an inner / trailing zero), through annexb_to_avcc; up to 3 units through the H.265 converter and
    the iterator: every mix of start-code widths and payload parities"""
    import itertools
    bodies = [b"", b"\x65", b"\x41\x9a", b"\x41\x00", b"\x26\x01\xaf", b"\x65\x00\x88", b"\x00"]
    units = [scode + body for scode in (b"\x00\x00\x01", b"\x00\x00\x00\x01") for body in bodies]
    out = []
    k = 0
    for l in range(1, 5):
        if l == 4 and n < 20000:
            break
        for t in itertools.product(units, repeat=l):
            d = b"".join(t)
            names = ["annexb_to_avcc"] if l == 4 else ["annexb_to_avcc", "hevc_annexb_to_hvcc", "nal_iter"]
            for name in names:
                if l == 3 and name != "annexb_to_avcc" and k % 3:
                    k += 1
                    continue
                out.append(fn_case("%s%d" % (prefix, k), name, hx(d)))
                k += 1
    return out


def fam_exh_frag(rng, n, prefix):
    """ALL op sequences of length <= 5 (6 when n is large) over {write(sync, dts+), write(nonsync, dts=),
    write(dts-), write(empty payload), flush, init}"""
    import itertools
    L = 6 if n >= 40000 else 5
    alpha = ["w+", "w=", "w-", "w0", "f", "i"]
    out = []
    k = 0
    for l in range(1, L + 1):
        for seq in itertools.product(alpha, repeat=l):
            c = Case("%s%d" % (prefix, k), "frag")
            k += 1
            c.raw("fc 280 1e0 15f90 7d0 6742001e 68ce ~ ~ ~")
            dts = 9000
            for s in seq:
                if s == "w+":
                    dts += 3000
                    c.o("fw", "%x" % (dts + 3000), "%x" % dts, "aabbcc", 1)
                elif s == "w=":
                    c.o("fw", "%x" % dts, "%x" % dts, "dd", 0)
                elif s == "w-":
                    c.o("fw", "%x" % dts, "%x" % max(dts - 1500, 0), "ee", 0)
                elif s == "w0":
                    dts += 3000
                    c.o("fw", "%x" % max(dts - 3000, 0), "%x" % dts, "-", 0)
                elif s == "f":
                    c.o("ff")
                else:
                    c.o("fi")
            c.o("ff")
            out.append(c)
    return out


def fam_exh_contract(rng, n, prefix):
    """ALL histories of length <= 2 (3 when n is large) over the product alphabet of C04
    (timestamp class x payload class x call kind), per codec, followed by finish"""
    import itertools
    out = []
    k = 0
    L = 3 if n >= 100000 else 2
    for codec in VCODECS:
        pay = payload_alpha(Rng(hash_str(codec)), codec)
        aud = [("aempty", b""), ("adts", adts(Rng(1), payload_len=5)), ("opus", bytes([0x08, 1, 2])), ("agarb", b"\x01\x02\x03")]
        tsl = [t for _, t in TS_ALPHA if _ in ("nan", "neg", "zero", "t1", "t1eps", "t2", "huge")]
        calls = []
        for ts in tsl:
            for _, p in pay:
                calls.append(["wv", "%x" % ts, hx(p), 1])
            calls.append(["wv", "%x" % ts, hx(pay[2][1]), 0])
            calls.append(["wvd", "%x" % ts, "%x" % f64bits(1.0), hx(pay[2][1]), 1])
            for _, a in aud:
                calls.append(["wa", "%x" % ts, hx(a)])
        calls.append(["fin", 0])
        for acodec in ("aac-lc", "opus"):
            for l in range(1, L + 1):
                for seq in itertools.product(range(len(calls)), repeat=l):
                    if l == 3 and (k % 7):     # thin out the cubic layer deterministically
                        k += 1
                        continue
                    c = Case("%s%d" % (prefix, k), "mux")
                    k += 1
                    c.b("video", codec, "280", "1e0").b("audio", acodec, "bb80", 2).b("fast", k % 2)
                    for i in seq:
                        c.o(*calls[i])
                    c.o("fin", 0)
                    out.append(c)
    return out


# ---------- process-history independence: related muxers one after the other in one process ----------
def _grouped(out, group, cases):
    before = []
    for c in cases:
        c.meta["group"] = group
        c.meta["before"] = list(before)
        before.append(c)
        out.append(c)


SPS_A = bytes.fromhex("6742001eda02802d8b11")
SC3, SC4 = b"\x00\x00\x01", b"\x00\x00\x00\x01"


def _h264_hist(c, rng, sps=SPS_A, pps=bytes.fromhex("68ce3880"), vt=(0, 3000, 6000), fin=0):
    c.o("wv", fb(vt[0] / 90000.0), hx(SC4 + sps + SC4 + pps + SC3 + b"\x65\x88" + rng.bytes(4)), 1)
    for t in vt[1:]:
        c.o("wv", fb(t / 90000.0), hx(SC4 + b"\x41\x9a" + rng.bytes(3)), 0)
    c.o("fin", fin)


def fam_neighbours(rng, n, prefix):
    """groups of progressive muxers that differ in ONE respect, run back to back in one process, n rounds"""
    out = []
    for r in range(n):
        P = "%sr%d_" % (prefix, r)
        # 1. AAC configurations whose (rate, channels) are close
        g = []
        for k, (rate, ch) in enumerate([(96000, 2), (96000, 3), (88200, 4), (88200, 5), (48000, 2), (48000, 1), (96000, 2)]):
            c = Case("%saac%d" % (P, k), "mux")
            c.b("video", "h264", "280", "1e0")
            c.b("audio", "aac-lc", "%x" % rate, "%x" % ch)
            c.b("fast", k % 2)
            c.o("wv", fb(0.0), hx(SC4 + SPS_A + SC4 + bytes.fromhex("68ce3880") + SC3 + b"\x65\x88\x84"), 1)
            c.o("wa", fb(0.0), hx(adts(rng, payload_len=4, chan=min(ch, 7))))
            c.o("wa", fb(0.02), hx(adts(rng, payload_len=5, chan=min(ch, 7))))
            c.o("fin", 0)
            g.append(c)
        _grouped(out, P + "aac", g)
        # 2. metadata: empty title / no title / language only / title, same creation time
        g = []
        for k, (title, ct, lang) in enumerate([("", "65a0b0c0", "~"), ("~", "65a0b0c0", "~"), ("~", "~", hx(b"fra")), (hx(b"A"), "65a0b0c0", "~"),
                                               ("~", "65a0b0c0", "~"), ("", "~", "~"), ("~", "~", "~")]):
            c = Case("%smeta%d" % (P, k), "mux")
            c.b("video", "h264", "280", "1e0")
            c.b("fast", (k + r) % 2)
            if (title, ct, lang) != ("~", "~", "~"):
                c.b("meta", title if title else "-", ct, lang)
            _h264_hist(c, rng)
            g.append(c)
        _grouped(out, P + "meta", g)
        # 3. dimensions / layout / parameter sets: same SPS with PPS of different lengths, different SPS
        g = []
        for k, (w, h, fast, sps, pps) in enumerate([(640, 480, 0, SPS_A, "68ce3880"), (1920, 1080, 1, SPS_A, "68ce38801122"),
                                                    (1920, 1080, 0, SPS_A[:-1] + b"\x22", "68ce3880"), (320, 240, 1, SPS_A, "68ce"),
                                                    (320, 240, 0, SPS_A, "68ce3880aabbcc"), (640, 480, 0, SPS_A, "68ce3880")]):
            c = Case("%sdims%d" % (P, k), "mux")
            c.b("video", "h264", "%x" % w, "%x" % h)
            c.b("fast", fast)
            _h264_hist(c, rng, sps=sps, pps=bytes.fromhex(pps))
            g.append(c)
        _grouped(out, P + "dims", g)
        # 4. codecs in turn (scratch buffers shared between the H.264 and H.265 converters)
        g = []
        for k, codec in enumerate(["h264", "h265", "h264", "h265", "h265", "h264"]):
            c = Case("%scodec%d" % (P, k), "mux")
            c.b("video", codec, "280", "1e0")
            c.b("fast", k % 2)
            c.o("wv", fb(0.0), hx(video_key(rng, codec)), 1)
            c.o("wv", fb(0.04), hx(video_delta(rng, codec)), 0)
            c.o("wv", fb(0.08), hx(video_delta(rng, codec)), 0)
            c.o("fin", 0)
            g.append(c)
        _grouped(out, P + "codec", g)
        # 5. same sample counts (and same totals) with different per-sample timing
        g = []
        V = [(0, 3000, 6000, 9000, 12000), (0, 2999, 6030, 9030, 12030), (0, 3000, 6000, 9000, 12000), (0, 1000, 6000, 11000, 12000)]
        A = [(0, 1920, 3840, 5760), (0, 960, 3840, 5760), (0, 1920, 3840, 5760), (0, 2250, 2340, 5760)]
        for k in range(4):
            c = Case("%stiming%d" % (P, k), "mux")
            c.b("video", "h264", "280", "1e0")
            c.b("audio", "aac-lc", "bb80", "2")
            c.b("fast", (k + r) % 2)
            ops = [(t, 0, j) for j, t in enumerate(V[k])] + [(t, 1, j) for j, t in enumerate(A[k])]
            if k % 2 == 0:
                ops.sort()
            for t, kind, j in ops:
                if kind == 0:
                    c.o("wv", fb((90000 + t) / 90000.0),
                        hx(SC4 + SPS_A + SC4 + bytes.fromhex("68ce3880") + SC3 + b"\x65" + bytes([j + 1]) if j == 0 else SC4 + b"\x41" + bytes([j + 1, 7])), 1 if j == 0 else 0)
                else:
                    c.o("wa", fb((90000 + t) / 90000.0), hx(adts(rng, payload_len=3 + j, chan=2)))
            c.o("fin", 0)
            g.append(c)
        _grouped(out, P + "timing", g)
        # 6. a finish that fails in the sink, then good muxers (both layouts)
        g = []
        for k, (fast, sink) in enumerate([(1, "f0"), (1, None), (1, "a5 f3"), (1, None), (0, "f1"), (0, None), (1, "a%x f4" % 10**6), (1, None)]):
            c = Case("%sfail%d" % (P, k), "mux")
            c.b("video", "h264", "280", "1e0")
            if k >= 4:
                c.b("audio", "aac-lc", "bb80", "2")
            c.b("fast", fast)
            if sink:
                c.raw("sink " + sink)
            _h264_hist(c, rng, fin=rng.choice([0, 1]))
            g.append(c)
        _grouped(out, P + "fail", g)
        # 7. Opus packets that share a TOC byte: valid / invalid forms, within one muxer and across muxers
        g = []
        SEQS = [[b"\x27\x02\xaa\xbb", b"\x27", b"\x27\x00\xaa", b"\x27\x02\xcc\xdd"],
                [b"\xfb\x00\xaa", b"\xfb\x02\xaa\xbb", b"\xfb", b"\xfb\x02\x11\x22"],
                [b"\x27", b"\x27\x02\xaa\xbb"], [b"\xfb\x02\xaa\xbb", b"\xfb\x80\xaa", b"\xfb\x02\xaa\xbb"]]
        for k, seq in enumerate(SEQS):
            c = Case("%sopus%d" % (P, k), "mux")
            c.b("video", "h264", "280", "1e0")
            c.b("audio", "opus", "bb80", "2")
            c.o("wv", fb(0.0), hx(SC4 + SPS_A + SC4 + bytes.fromhex("68ce3880") + SC3 + b"\x65\x88\x84"), 1)
            for j, pkt in enumerate(seq):
                c.o("wa", fb(0.02 * j), hx(pkt))
            c.o("fin", 0)
            g.append(c)
        _grouped(out, P + "opus", g)
        # 8. audio configured: silent muxer, then one with audio frames, then silent again
        g = []
        for k, na in enumerate([0, 3, 0, 2]):
            c = Case("%ssilent%d" % (P, k), "mux")
            c.b("video", "h264", "280", "1e0")
            c.b("audio", "aac-lc", "bb80", "2")
            c.b("fast", (k // 2) % 2)
            c.o("wv", fb(0.0), hx(SC4 + SPS_A + SC4 + bytes.fromhex("68ce3880") + SC3 + b"\x65\x88\x84"), 1)
            for j in range(na):
                c.o("wa", fb(0.02 * j), hx(adts(rng, payload_len=4, chan=2)))
            c.o("wv", fb(0.04), hx(SC4 + b"\x41\x9a\x01"), 0)
            c.o("fin", 0)
            g.append(c)
        _grouped(out, P + "silent", g)
    return out


def fam_frag_neighbours(rng, n, prefix):
    """groups of fragmented muxers run back to back in one process"""
    out = []
    for r in range(n):
        P = "%sr%d_" % (prefix, r)
        # configurations that differ in the timescale only, then in the size
        g = []
        for k, (w, h, ts) in enumerate([(640, 480, 90000), (640, 480, 1000), (1920, 1080, 90000), (640, 480, 90000), (640, 480, 48000)]):
            c = Case("%sts%d" % (P, k), "frag")
            c.raw("fc %x %x %x %x %s %s ~ ~ ~" % (w, h, ts, 2000, "6742001e", "68ce"))
            c.o("fi")
            c.o("fw", "0", "0", hx(rng.bytes(3)), 1)
            c.o("fw", "bb8", "bb8", hx(rng.bytes(2)), 0)
            c.o("ff")
            c.o("fi")
            g.append(c)
        _grouped(out, P + "ts", g)
        # segments of different lengths under the same sequence number (2, 5, 1, 70, 90, 64, 63 samples)
        g = []
        for k, m in enumerate([2, 5, 1, 70, 90, 64, 63, 3]):
            c = Case("%slen%d" % (P, k), "frag")
            c.raw("fc 280 1e0 15f90 7d0 6742001e 68ce ~ ~ ~")
            step = rng.choice([3000, 1500, 3003])
            for j in range(m):
                c.o("fw", "%x" % (j * step + (j % 3)), "%x" % (j * step), hx(rng.bytes(rng.range(1, 4))), 1 if j == 0 else 0)
            c.o("ff")
            c.o("fw", "%x" % (m * step), "%x" % (m * step), hx(rng.bytes(2)), 1)
            c.o("ff")
            g.append(c)
        _grouped(out, P + "len", g)
        # AV1 sequence headers with the same payload bits behind different OBU headers
        g = []
        pay = av1_seq_payload_simple(rng)
        for k, o in enumerate([obu(1, pay), bytes([0x0a, 0x80 | len(pay), 0x00]) + pay, obu(1, pay), obu(1, pay, ext=True)]):
            c = Case("%sav1%d" % (P, k), "frag")
            c.b("video", "av1", "280", "1e0")
            c.b("av1seq", hx(o))
            c.o("fi")
            g.append(c)
        _grouped(out, P + "av1", g)
    return out
