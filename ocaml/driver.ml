(* Driver for the extracted model: reads the case language on stdin, prints one
   result block per case on stdout in exactly the format the Rust harness
   prints.  Glue only: hex/number parsing and printing. *)
open Model

(* ---------- conversions ---------- *)
let rec pos_of_int (i : int) : positive =
  if i = 1 then XH else if i land 1 = 0 then XO (pos_of_int (i lsr 1)) else XI (pos_of_int (i lsr 1))
let n_of_int (i : int) : n = if i = 0 then N0 else Npos (pos_of_int i)
let rec int_of_pos = function XH -> 1 | XO p -> 2 * int_of_pos p | XI p -> 2 * int_of_pos p + 1
let int_of_n = function N0 -> 0 | Npos p -> int_of_pos p
let rec nat_of_int i = if i = 0 then O else S (nat_of_int (i - 1))
let rec int_of_nat = function O -> 0 | S k -> 1 + int_of_nat k

let byte_tbl = Array.init 256 n_of_int
let hexval c = match c with
  | '0'..'9' -> Char.code c - 48 | 'a'..'f' -> Char.code c - 87 | 'A'..'F' -> Char.code c - 55
  | _ -> failwith "bad hex"
let bytes_of_hex (s : string) : n list =
  if s = "-" then [] else begin
    let l = String.length s / 2 in
    let rec go i acc = if i < 0 then acc
      else go (i - 1) (byte_tbl.(hexval s.[2*i] * 16 + hexval s.[2*i+1]) :: acc) in
    go (l - 1) []
  end
let hex_of_bytes (b : n list) : string =
  match b with [] -> "-" | _ ->
  let buf = Buffer.create 64 in
  List.iter (fun x -> Buffer.add_string buf (Printf.sprintf "%02x" (int_of_n x))) b;
  Buffer.contents buf

(* arbitrary-size numbers as lower-case hex *)
let n_of_hex (s : string) : n =
  let sixteen = n_of_int 16 in
  let r = ref N0 in
  String.iter (fun c -> r := N.add (N.mul !r sixteen) (n_of_int (hexval c))) s; !r
let hex_of_n (x : n) : string =
  match x with N0 -> "0" | Npos p ->
  let rec bits p acc = match p with
    | XH -> 1 :: acc | XO q -> bits q (0 :: acc) | XI q -> bits q (1 :: acc) in
  (* bits p [] is MSB-first *)
  let bl = bits p [] in
  let padn = (4 - (List.length bl mod 4)) mod 4 in
  let bl = List.init padn (fun _ -> 0) @ bl in
  let buf = Buffer.create 16 in
  let rec go = function
    | a :: b :: c :: d :: t -> Buffer.add_string buf (Printf.sprintf "%x" (a*8+b*4+c*2+d)); go t
    | _ -> () in
  go bl; Buffer.contents buf
let opt_hex s = if s = "~" then None else Some (bytes_of_hex s)
let opt_num s = if s = "~" then None else Some (n_of_hex s)
let b01 s = s = "1"
let s01 b = if b then "1" else "0"

(* ---------- names ---------- *)
let vcodec = function "h264" -> H264 | "h265" -> H265 | "av1" -> Av1 | "vp9" -> Vp9 | _ -> failwith "vcodec"
let acodec = function
  | "aac-lc" -> Aac Lc | "aac-main" -> Aac Main | "aac-ssr" -> Aac Ssr | "aac-ltp" -> Aac Ltp
  | "aac-he" -> Aac He | "aac-hev2" -> Aac Hev2 | "opus" -> Opus | "none" -> NoAudio | _ -> failwith "acodec"
let adts_name = function
  | FrameTooShort -> "FrameTooShort" | MissingSyncword -> "MissingSyncword"
  | InvalidMpegVersion -> "InvalidMpegVersion" | InvalidLayer -> "InvalidLayer"
  | InvalidHeaderLength -> "InvalidHeaderLength" | InvalidSampleRateIndex -> "InvalidSampleRateIndex"
  | InvalidChannelConfig -> "InvalidChannelConfig" | InvalidFrameLength -> "InvalidFrameLength"
  | CrcMismatch -> "CrcMismatch"
let io_name = function
  | IoInvalidData -> "InvalidData" | IoInvalidInput -> "InvalidInput" | IoOther -> "Other"
  | IoWriteZero -> "WriteZero" | IoInjected k -> "Injected" ^ hex_of_n k
let merr_str = function
  | MissingVideoConfig -> "MissingVideoConfig" | MIo k -> "Io " ^ io_name k
  | AlreadyFinished -> "AlreadyFinished"
  | NegativeVideoPts i -> "NegativeVideoPts " ^ hex_of_n i | NegativeVideoDts i -> "NegativeVideoDts " ^ hex_of_n i
  | InvalidVideoPts i -> "InvalidVideoPts " ^ hex_of_n i | InvalidVideoDts i -> "InvalidVideoDts " ^ hex_of_n i
  | NegativeAudioPts i -> "NegativeAudioPts " ^ hex_of_n i | InvalidAudioPts i -> "InvalidAudioPts " ^ hex_of_n i
  | AudioNotConfigured -> "AudioNotConfigured"
  | EmptyAudioFrame i -> "EmptyAudioFrame " ^ hex_of_n i | EmptyVideoFrame i -> "EmptyVideoFrame " ^ hex_of_n i
  | NonIncreasingVideoPts i -> "NonIncreasingVideoPts " ^ hex_of_n i
  | DecreasingAudioPts i -> "DecreasingAudioPts " ^ hex_of_n i
  | AudioBeforeFirstVideo -> "AudioBeforeFirstVideo"
  | FirstVideoFrameMustBeKeyframe -> "FirstVideoFrameMustBeKeyframe"
  | FirstVideoFrameMissingSpsPps -> "FirstVideoFrameMissingSpsPps"
  | FirstAv1FrameMissingSequenceHeader -> "FirstAv1FrameMissingSequenceHeader"
  | FirstVp9FrameMissingSequenceHeader -> "FirstVp9FrameMissingSequenceHeader"
  | MInvalidAdtsDetailed (i, e) -> "InvalidAdtsDetailed " ^ hex_of_n i ^ " " ^ adts_name e
  | MInvalidOpusPacket i -> "InvalidOpusPacket " ^ hex_of_n i
  | NonIncreasingDts i -> "NonIncreasingDts " ^ hex_of_n i

(* canonical NaN: any NaN prints as 7ff8000000000000 (the harness does the same) *)
let f64_hex (x : f64) = Printf.sprintf "%s" (hex_of_n (encode64 x))

let opt f = function None -> "none" | Some x -> f x
let nat_s k = string_of_int (int_of_nat k)

(* ---------- pure function cases ---------- *)
let vp9cfg_str (c : vp9_config) =
  String.concat " " (List.map hex_of_n [c.vp9_width; c.vp9_height; c.vp9_profile; c.vp9_bit_depth;
    c.vp9_color_space; c.vp9_transfer_function; c.vp9_matrix_coefficients; c.vp9_level; c.vp9_full_range_flag])
let av1cfg_str (c : av1_config) =
  Printf.sprintf "%s %s %s %s %s %s %s %s %s %s" (hex_of_bytes c.av1_sequence_header)
    (hex_of_n c.av1_seq_profile) (hex_of_n c.av1_seq_level_idx) (hex_of_n c.av1_seq_tier)
    (s01 c.av1_high_bitdepth) (s01 c.av1_twelve_bit) (s01 c.av1_monochrome)
    (s01 c.av1_subsampling_x) (s01 c.av1_subsampling_y) (hex_of_n c.av1_chroma_sample_position)
let obu_str (i : obu_info) =
  Printf.sprintf "%s %s %s %s %s" (hex_of_n i.obu_ty) (s01 i.obu_ext) (nat_s i.obu_header_size)
    (hex_of_n i.obu_payload_size) (hex_of_n i.obu_total_size)

let vcodec_s = function H264 -> "h264" | H265 -> "h265" | Av1 -> "av1" | Vp9 -> "vp9"
let acodec_s = function
  | Aac Lc -> "aac-lc" | Aac Main -> "aac-main" | Aac Ssr -> "aac-ssr" | Aac Ltp -> "aac-ltp"
  | Aac He -> "aac-he" | Aac Hev2 -> "aac-hev2" | Opus -> "opus" | NoAudio -> "none"

let vres (r : vresult) : string =
  let l xs = String.concat "," (List.map (fun x -> string_of_int (int_of_n x)) xs) in
  Printf.sprintf "%s m%s e%s" (s01 r.vr_valid) (l r.vr_messages) (l r.vr_errors)

let run_fn (name : string) (args : string list) : string =
  let d () = bytes_of_hex (List.nth args 0) in
  match name with
  | "find_start_code" ->
      opt (fun (p, l) -> nat_s p ^ " " ^ nat_s l)
        (find_start_code (d ()) (nat_of_int (int_of_string (List.nth args 1))))
  | "nal_iter" -> String.concat "," (List.map hex_of_bytes (nal_iter (d ()))) ^ "."
  | "annexb_to_avcc" -> hex_of_bytes (annexb_to_avcc (d ()))
  | "hevc_annexb_to_hvcc" -> hex_of_bytes (hevc_annexb_to_hvcc (d ()))
  | "extract_avc_config" ->
      opt (fun c -> hex_of_bytes c.avc_sps ^ " " ^ hex_of_bytes c.avc_pps) (extract_avc_config (d ()))
  | "extract_hevc_config" ->
      opt (fun c -> Printf.sprintf "%s %s %s %s %s %s %s" (hex_of_bytes c.hevc_vps) (hex_of_bytes c.hevc_sps)
             (hex_of_bytes c.hevc_pps) (hex_of_n (hevc_general_profile_space c)) (s01 (hevc_general_tier_flag c))
             (hex_of_n (hevc_general_profile_idc c)) (hex_of_n (hevc_general_level_idc c)))
        (extract_hevc_config (d ()))
  | "is_h264_keyframe" -> s01 (is_h264_keyframe (d ()))
  | "is_hevc_keyframe" -> s01 (is_hevc_keyframe (d ()))
  | "is_valid_opus_packet" -> s01 (is_valid_opus_packet (d ()))
  | "opus_packet_samples" -> opt hex_of_n (opus_packet_samples (d ()))
  | "opus_frame_count" -> opt (fun (c, v) -> hex_of_n c ^ " " ^ s01 v) (opus_frame_count (d ()))
  | "opus_frame_duration_from_toc" -> opt hex_of_n (opus_frame_duration_from_toc (n_of_hex (List.nth args 0)))
  | "read_leb128" -> opt (fun (v, k) -> hex_of_n v ^ " " ^ nat_s k) (read_leb128 (d ()))
  | "parse_obu_header" -> opt obu_str (parse_obu_header (d ()))
  | "obu_iter" ->
      String.concat "," (List.map (fun (i, b) -> obu_str i ^ " " ^ hex_of_bytes b) (obu_iter (d ()))) ^ "."
  | "extract_av1_config" -> opt av1cfg_str (extract_av1_config (d ()))
  | "is_av1_keyframe" -> s01 (is_av1_keyframe (d ()))
  | "extract_vp9_config" -> opt vp9cfg_str (extract_vp9_config (d ()))
  | "is_vp9_keyframe" ->
      (match is_vp9_keyframe (d ()) with
       | Vp9TooShort -> "err FrameTooShort" | Vp9BadMarker -> "err InvalidFrameMarker"
       | Vp9Key b -> "ok " ^ s01 b)
  | "is_valid_vp9_frame" -> s01 (is_valid_vp9_frame (d ()))
  | "tick" -> hex_of_n (tick (decode64 (n_of_hex (List.nth args 0))))
  | "frag_default_init" ->
      (match fstep (fmuxer_new frag_config_default) FInit with
       | (_, FrBytes b) -> hex_of_bytes b
       | _ -> "unexpected")
  | "opus_config" ->
      (match args with
       | [base; ps; ch] ->
           let c = match base with "mono" -> opus_config_mono | "stereo" -> opus_config_stereo | _ -> opus_config_default in
           let c = if ps = "~" then c else opus_with_pre_skip c (n_of_hex ps) in
           let c = if ch = "~" then c else opus_with_channels c (n_of_hex ch) in
           Printf.sprintf "%s %s %s %s %s %s" (hex_of_n c.oc_version) (hex_of_n c.oc_output_channel_count) (hex_of_n c.oc_pre_skip)
             (hex_of_n c.oc_input_sample_rate) (hex_of_n c.oc_output_gain) (hex_of_n c.oc_channel_mapping_family)
       | _ -> "bad-args")
  | "invariant_log" -> "ok 0"   (* the assertion log is not part of the model: it never influences a result *)
  | "parse_video_codec" -> opt vcodec_s (parse_video_codec (d ()))
  | "parse_audio_codec" -> opt acodec_s (parse_audio_codec (d ()))
  | "video_codec_name" -> hex_of_bytes (video_codec_name (vcodec (List.nth args 0)))
  | "audio_codec_name" -> hex_of_bytes (audio_codec_name (acodec (List.nth args 0)))
  | "validate_video_config" ->
      (match args with
       | [c; w; h; f] -> vres (validate_video_config (vcodec c) (n_of_hex w) (n_of_hex h) (decode64 (n_of_hex f)))
       | _ -> "bad-args")
  | "validate_audio_config" ->
      (match args with
       | [c; r; ch] -> vres (validate_audio_config (acodec c) (n_of_hex r) (n_of_hex ch))
       | _ -> "bad-args")
  | "validate_video_frame" ->
      (match args with
       | [c; d; k] -> vres (validate_video_frame (vcodec c) (bytes_of_hex d) (b01 k))
       | _ -> "bad-args")
  | "validate_audio_frame" ->
      (match args with
       | [c; d] -> vres (validate_audio_frame (acodec c) (bytes_of_hex d))
       | _ -> "bad-args")
  | "validate_muxing_config" ->
      (match args with
       | [vc; w; h; f; vf; k; ac; r; ch; af] ->
           let o g x = if x = "~" then None else Some (g x) in
           vres (validate_muxing_config
                   { vv_codec = o vcodec vc; vv_width = o n_of_hex w; vv_height = o n_of_hex h;
                     vv_framerate = o (fun x -> decode64 (n_of_hex x)) f;
                     vv_frame = o (fun x -> (bytes_of_hex x, b01 k)) vf }
                   { av_codec = o acodec ac; av_rate = o n_of_hex r; av_channels = o n_of_hex ch;
                     av_frame = o bytes_of_hex af })
       | _ -> "bad-args")
  | _ -> "unknown-fn"

(* ---------- case reader ---------- *)
let words l = List.filter (fun s -> s <> "") (String.split_on_char ' ' l)

let parse_bop (w : string list) : bop =
  match w with
  | ["video"; c; x; y] -> BVideo (vcodec c, n_of_hex x, n_of_hex y)
  | ["setvideo"; c; x; y] -> BSetVideoTrack (vcodec c, n_of_hex x, n_of_hex y)
  | ["audio"; c; r; ch] -> BAudio (acodec c, n_of_hex r, n_of_hex ch)
  | ["setaudio"; c; r; ch] -> BSetAudioTrack (acodec c, n_of_hex r, n_of_hex ch)
  | ["meta"; t; ct; l] -> BWithMetadata { md_title = opt_hex t; md_creation_time = opt_num ct; md_language = opt_hex l }
  | ["ctime"; t] -> BSetCreateTime (n_of_hex t)
  | ["lang"; l] -> BSetLanguage (bytes_of_hex l)
  | ["fast"; b] -> BFastStart (b01 b)
  | ["sps"; x] -> BSps (bytes_of_hex x) | ["pps"; x] -> BPps (bytes_of_hex x)
  | ["vps"; x] -> BVps (bytes_of_hex x) | ["av1seq"; x] -> BAv1Seq (bytes_of_hex x)
  | ["vp9"; w; h; p; bd; cs; tf; mc; lv; fr] ->
      BVp9 { vp9_width = n_of_hex w; vp9_height = n_of_hex h; vp9_profile = n_of_hex p; vp9_bit_depth = n_of_hex bd;
             vp9_color_space = n_of_hex cs; vp9_transfer_function = n_of_hex tf;
             vp9_matrix_coefficients = n_of_hex mc; vp9_level = n_of_hex lv; vp9_full_range_flag = n_of_hex fr }
  | _ -> failwith ("bad builder op: " ^ String.concat " " w)

let parse_ev (s : string) : sink_ev =
  match s.[0] with
  | 'a' -> SAcc (n_of_hex (String.sub s 1 (String.length s - 1)))
  | 'i' -> SIntr
  | 'f' -> SFail (n_of_hex (String.sub s 1 (String.length s - 1)))
  | _ -> failwith "bad sink ev"

let print_mux_result (kind : int) (r : result) =
  match r with
  | ROk -> print_endline "r ok"
  | RStats s ->
      if kind = 0 || kind = 3 then
        Printf.printf "r stats %s %s %s %s\n" (hex_of_n s.st_video_frames) (hex_of_n s.st_audio_frames)
          (f64_hex s.st_duration) (hex_of_n s.st_bytes)
      else print_endline "r ok"
  | RErr e -> print_endline ("r err " ^ merr_str e)
  | RPanic _ -> print_endline "r panic"

let run_mux (bops : bop list) (script : sink_ev list) (ops : string list list) =
  match build (run_builder bops) script with
  | Inr e -> print_endline ("build err " ^ merr_str e)
  | Inl m0 ->
      print_endline "build ok";
      let m = ref m0 and stop = ref false in
      List.iter (fun w ->
        if not !stop then begin
          let (o, kind) = match w with
            | ["wv"; p; d; k] -> (WV (n_of_hex p, bytes_of_hex d, b01 k), 0)
            | ["wvd"; p; t; d; k] -> (WVD (n_of_hex p, n_of_hex t, bytes_of_hex d, b01 k), 0)
            | ["wa"; p; d] -> (WA (n_of_hex p, bytes_of_hex d), 0)
            | ["ev"; d; ms] -> (EV (bytes_of_hex d, n_of_hex ms), 0)
            | ["ea"; d; s] -> (EA (bytes_of_hex d, n_of_hex s), 0)
            | ["fin"; k] -> (FIN, int_of_string k)
            | _ -> failwith ("bad op: " ^ String.concat " " w) in
          let (m', r) = step !m o in
          m := m';
          print_mux_result kind r;
          (match r with RPanic _ -> stop := true
                      | _ -> Printf.printf "s %s\n" (hex_of_n (len (sink_of !m))));
          (* consuming finishes end the muxer's life *)
          (match o with FIN when kind >= 2 -> stop := true | _ -> ())
        end) ops;
      print_endline ("sink " ^ hex_of_bytes (sink_of !m))

let run_frag (mk : (fmuxer, string) Stdlib.result) (ops : string list list) =
  match mk with
  | Stdlib.Error e -> print_endline ("build err " ^ e)
  | Stdlib.Ok m0 ->
      print_endline "build ok";
      let m = ref m0 and stop = ref false in
      List.iter (fun w ->
        if not !stop then begin
          let o = match w with
            | ["fw"; p; t; d; s] -> FWrite (n_of_hex p, n_of_hex t, bytes_of_hex d, b01 s)
            | ["ff"] -> FFlush | ["fr"] -> FReady | ["fd"] -> FDur | ["fi"] -> FInit
            | _ -> failwith ("bad fop: " ^ String.concat " " w) in
          let (m', r) = fstep !m o in
          m := m';
          (match r with
           | FrOk -> print_endline "r ok"
           | FrErrNonMonotonic (a, b) -> Printf.printf "r err NonMonotonicDts %s %s\n" (hex_of_n a) (hex_of_n b)
           | FrSeg None -> print_endline "r seg none"
           | FrSeg (Some b) -> print_endline ("r seg " ^ hex_of_bytes b)
           | FrBool b -> print_endline ("r bool " ^ s01 b)
           | FrNum x -> print_endline ("r num " ^ hex_of_n x)
           | FrBytes b -> print_endline ("r bytes " ^ hex_of_bytes b)
           | FrPanic -> print_endline "r panic"; stop := true)
        end) ops

(* ---------- check mode: evaluate the Gallina decision predicates on the
   implementation's output ---------- *)
let impl_blocks (path : string) : (string, string list) Hashtbl.t =
  let h = Hashtbl.create 1024 in
  let ic = open_in path in
  let cur = ref "" and acc = ref [] in
  (try while true do
    let l = input_line ic in
    if String.length l > 5 && String.sub l 0 5 = "case " then begin cur := String.sub l 5 (String.length l - 5); acc := [] end
    else if l = "end" then Hashtbl.replace h !cur (List.rev !acc)
    else acc := l :: !acc
  done with End_of_file -> ());
  close_in ic; h

let class_of_line (l : string) : rclass option =
  match words l with
  | "r" :: "ok" :: _ | "r" :: "stats" :: _ -> Some COk
  | "r" :: "err" :: _ -> Some CErr
  | "r" :: "panic" :: _ -> Some CPanic
  | _ -> None

let op_of_words w = match w with
  | ["wv"; p; d; k] -> WV (n_of_hex p, bytes_of_hex d, b01 k)
  | ["wvd"; p; t; d; k] -> WVD (n_of_hex p, n_of_hex t, bytes_of_hex d, b01 k)
  | ["wa"; p; d] -> WA (n_of_hex p, bytes_of_hex d)
  | ["ev"; d; ms] -> EV (bytes_of_hex d, n_of_hex ms)
  | ["ea"; d; s] -> EA (bytes_of_hex d, n_of_hex s)
  | ["fin"; _] -> FIN
  | _ -> failwith "bad op"

let pr_checks id l =
  Printf.printf "chk %s %s\n" id (String.concat " " (List.map (fun (n, b) -> n ^ "=" ^ s01 b) l))

let merr_of_words (w : string list) : merr =
  let z = N0 in
  match w with
  | "MissingVideoConfig" :: _ -> MissingVideoConfig
  | "Io" :: "InvalidData" :: _ -> MIo IoInvalidData
  | "Io" :: "InvalidInput" :: _ -> MIo IoInvalidInput
  | "Io" :: "Other" :: _ -> MIo IoOther
  | "Io" :: "WriteZero" :: _ -> MIo IoWriteZero
  | "Io" :: _ -> MIo (IoInjected z)
  | "AlreadyFinished" :: _ -> AlreadyFinished
  | "NegativeVideoPts" :: _ -> NegativeVideoPts z | "NegativeVideoDts" :: _ -> NegativeVideoDts z
  | "InvalidVideoPts" :: _ -> InvalidVideoPts z | "InvalidVideoDts" :: _ -> InvalidVideoDts z
  | "NegativeAudioPts" :: _ -> NegativeAudioPts z | "InvalidAudioPts" :: _ -> InvalidAudioPts z
  | "AudioNotConfigured" :: _ -> AudioNotConfigured
  | "EmptyAudioFrame" :: _ -> EmptyAudioFrame z | "EmptyVideoFrame" :: _ -> EmptyVideoFrame z
  | "NonIncreasingVideoPts" :: _ -> NonIncreasingVideoPts z
  | "DecreasingAudioPts" :: _ -> DecreasingAudioPts z
  | "AudioBeforeFirstVideo" :: _ -> AudioBeforeFirstVideo
  | "FirstVideoFrameMustBeKeyframe" :: _ -> FirstVideoFrameMustBeKeyframe
  | "FirstVideoFrameMissingSpsPps" :: _ -> FirstVideoFrameMissingSpsPps
  | "FirstAv1FrameMissingSequenceHeader" :: _ -> FirstAv1FrameMissingSequenceHeader
  | "FirstVp9FrameMissingSequenceHeader" :: _ -> FirstVp9FrameMissingSequenceHeader
  | "InvalidAdtsDetailed" :: _ -> MInvalidAdtsDetailed (z, FrameTooShort)
  | "InvalidOpusPacket" :: _ -> MInvalidOpusPacket z
  | "NonIncreasingDts" :: _ -> NonIncreasingDts z
  | _ -> failwith ("unknown error kind: " ^ String.concat " " w)

let outcome_of_line (l : string) : outcome option =
  match words l with
  | "r" :: "ok" :: _ | "r" :: "stats" :: _ -> Some OOk
  | "r" :: "err" :: w -> (try Some (OErr (err_names (merr_of_words w))) with Failure _ -> Some (OErr []))
  | "r" :: "panic" :: _ | "r" :: "timeout" :: _ | "r" :: "crash" :: _ -> Some OPanic
  | _ -> None

let rec firstn k l = if k = 0 then [] else match l with [] -> [] | x :: t -> x :: firstn (k-1) t

let check_mux id (bops : bop list) (script : sink_ev list) (ops : string list list) (blk : string list) =
  match blk with
  | "build ok" :: rest ->
      let cls = List.filter_map class_of_line rest in
      let outs = List.filter_map outcome_of_line rest in
      let lens = List.filter_map (fun l -> match words l with ["s"; h] -> Some (n_of_hex h) | _ -> None) rest in
      let sink = List.fold_left (fun acc l -> match words l with ["sink"; h] -> bytes_of_hex h | _ -> acc) [] rest in
      let b = run_builder bops in
      let kinds = List.map (fun w -> match w with ["fin"; k] -> int_of_string k | _ -> -1) ops in
      let ops = List.map op_of_words ops in
      (* the implementation stops at a consuming finish or a panic: align *)
      let ops = firstn (List.length cls) ops in
      (* statistics of the first successful finish, when that entry point returns them *)
      let stats =
        let rec go ls ks = match ls, ks with
          | l :: lt, k :: kt ->
              (match words l with
               | ["r"; "stats"; v; a; d; bts] -> Some (((n_of_hex v, n_of_hex a), n_of_hex d), n_of_hex bts)
               | "r" :: "ok" :: _ when k >= 0 -> None
               | _ -> go lt kt)
          | _, _ -> None in
        go (List.filter (fun l -> String.length l > 2 && String.sub l 0 2 = "r ") rest) kinds in
      pr_checks id [
        ("C01", check_C01 b ops cls sink);
        ("C02", check_C02_mux b ops cls sink);
        ("C03", check_C03 b ops cls sink);
        ("C04", check_C04 b ops outs);
        (* the theorem's scope: the duration clause is stated (and can hold for any binary64 return value)
           only while the largest presentation end is below 2^51 ticks; beyond it the check is skipped *)
        ("C06", (not (N.ltb (expected_max_end (accepted b ops cls)) (n_of_hex "8000000000000"))) ||
                check_C06 b ops cls lens stats (script = []));
        ("C06scope", N.ltb (expected_max_end (accepted b ops cls)) (n_of_hex "8000000000000"));
        ("C09", check_C09 b ops cls sink);
        ("C15", check_C15 b ops cls sink);
        ("C07", check_C07 b ops cls sink);
        ("C18", check_C18 b ops cls sink);
      ];
      let pr_fail name l = if l <> [] then Printf.printf "fail %s %s %s\n" id name (String.concat "," (List.map hex_of_n l)) in
      pr_fail "C19" (failed_C19_mux b ops cls sink);
      pr_fail "C16" (failed_C16_mux b ops cls sink)
  | _ -> pr_checks id []

let check_frag id (ops : string list list) (blk : string list) =
  let ok2 = ref true in
  List.iter (fun l -> match words l with
    | ["r"; "seg"; h] when h <> "none" -> if not (check_segment_structure (bytes_of_hex h)) then ok2 := false
    | ["r"; "bytes"; h] -> if not (check_init_structure (bytes_of_hex h)) then ok2 := false
    | _ -> ()) blk;
  match blk with
  | "build ok" :: rest ->
      let fops = List.map (fun w -> match w with
        | ["fw"; p; t; d; s] -> FWrite (n_of_hex p, n_of_hex t, bytes_of_hex d, b01 s)
        | ["ff"] -> FFlush | ["fr"] -> FReady | ["fd"] -> FDur | ["fi"] -> FInit
        | _ -> failwith "bad fop") ops in
      let outs = List.filter_map (fun l -> match words l with
        | ["r"; "ok"] -> Some FoOk
        | "r" :: "err" :: _ -> Some FoErr
        | ["r"; "seg"; "none"] -> Some (FoSeg None)
        | ["r"; "seg"; h] -> Some (FoSeg (Some (bytes_of_hex h)))
        | ["r"; "bytes"; h] -> Some (FoInit (bytes_of_hex h))
        | "r" :: _ -> Some FoOther
        | _ -> None) rest in
      let fops = firstn (List.length outs) fops in
      pr_checks id [("C02", !ok2); ("C10", check_C10 fops outs); ("C11", check_C11 fops outs)]
  | _ -> pr_checks id [("C02", !ok2)]

let check_fn id name args (blk : string list) =
  let r = match blk with [l] when String.length l >= 2 -> String.sub l 2 (String.length l - 2) | _ -> "" in
  match name with
  | "annexb_to_avcc" | "hevc_annexb_to_hvcc" ->
      pr_checks id [("C14", r <> "panic" && check_reframe (bytes_of_hex (List.nth args 0)) (bytes_of_hex r))]
  | _ -> pr_checks id []

let pairs_mode () =
  (try while true do
    let line = input_line stdin in
    match words line with
    | ["c08"; id; has; h1; h2] ->
        Printf.printf "chk %s C08=%s\n" id (s01 (check_C08 (b01 has) (bytes_of_hex h1) (bytes_of_hex h2)))
    | ["same"; id; ign; h1; h2] ->
        Printf.printf "chk %s SAME=%s\n" id (s01 (same_media (b01 ign) (bytes_of_hex h1) (bytes_of_hex h2)))
    | ["c19init"; id; w; h; ts; hx] ->
        let l = failed_C19_init (n_of_hex w) (n_of_hex h) (n_of_hex ts) (bytes_of_hex hx) in
        Printf.printf "fail %s C19 %s\n" id (String.concat "," (List.map hex_of_n l))
    | ["iso8601"; id; t] -> Printf.printf "r %s %s\n" id (hex_of_bytes (iso8601 (n_of_hex t)))
    | _ -> ()
  done with End_of_file -> ())

(* ---------- CLI model (Model/Cli.v) ---------- *)
let input_of (s : string) : input option =
  if s = "~" then None else if s = "M" then Some Missing else Some (Present (bytes_of_hex s))
let optn s = if s = "~" then None else Some (n_of_hex s)
let cli_mode () =
  (try while true do
    let line = input_line stdin in
    match words line with
    | ["mux"; id; v; a; vc; w; h; fps; ac; rate; ch; frag; title; lang; dry; creat] ->
        let o = { mo_video = input_of v; mo_audio = input_of a;
                  mo_vcodec = (if vc = "~" then None else Some (vcodec vc));
                  mo_width = optn w; mo_height = optn h;
                  mo_fps_ok = (if fps = "~" then None else Some (b01 fps));
                  mo_acodec = (if ac = "~" then None else Some (acodec ac));
                  mo_rate = optn rate; mo_channels = optn ch; mo_fragmented = b01 frag;
                  mo_title = opt_hex title; mo_language = opt_hex lang; mo_dry_run = b01 dry;
                  mo_output_creatable = b01 creat } in
        (match mux_command o with
         | CliOk (f, nv, na) ->
             Printf.printf "cli %s ok %s %s %s\n" id (match f with Some b -> hex_of_bytes b | None -> "none") (hex_of_n nv) (hex_of_n na)
         | CliFail -> Printf.printf "cli %s fail\n" id)
    | ["validate"; id; v; a] ->
        Printf.printf "cli %s valid %s\n" id (s01 (validate_verdict (input_of v) (input_of a)))
    | ["info"; id; hx] ->
        (match info_walk (bytes_of_hex hx) with
         | None -> Printf.printf "cli %s info none\n" id
         | Some l ->
             Printf.printf "cli %s info %s\n" id
               (String.concat "," (List.map (function
                  | IBox (t, sz, off) -> Printf.sprintf "%s:%s:%s" (hex_of_bytes t) (hex_of_n sz) (hex_of_n off)
                  | IInvalid (sz, off) -> Printf.sprintf "invalid:%s:%s" (hex_of_n sz) (hex_of_n off)) l) ^ "."))
    | _ -> ()
  done with End_of_file -> ())

(* ---------- AV1 syntax encoder (Spec/Av1Syntax.v): AST given as a flat token list ---------- *)
let av1enc_mode () =
  (try while true do
    let line = input_line stdin in
    match words line with
    | "av1" :: id :: toks ->
        let q = ref toks in
        let nx () = match !q with t :: r -> q := r; n_of_hex t | [] -> failwith "short ast" in
        let bl () = not (nx () = N0) in
        let profile = nx () in let still = bl () in let reduced = bl () in let rlevel = nx () in
        let timing =
          if bl () then begin
            let nu = nx () in let ts = nx () in
            let epi = if bl () then Some (nx ()) else None in
            let dmi = if bl () then begin
                let a = nx () in let b = nx () in let c = nx () in let d = nx () in
                Some { dm_buffer_delay_length_minus_1 = a; dm_num_units_in_decoding_tick = b;
                       dm_buffer_removal_time_length_minus_1 = c; dm_frame_presentation_time_length_minus_1 = d } end
              else None in
            Some ({ ti_num_units_in_display_tick = nu; ti_time_scale = ts; ti_num_ticks_per_picture_minus_1 = epi }, dmi)
          end else None in
        let iddp = bl () in
        let nops = int_of_n (nx ()) in
        let ops = List.init nops (fun _ ->
          let idc = nx () in let lvl = nx () in let tier = bl () in
          let params = if bl () then (let a = nx () in let b = nx () in let c = bl () in Some ((a, b), c)) else None in
          let idd = if bl () then Some (nx ()) else None in
          { op_idc = idc; op_seq_level_idx = lvl; op_seq_tier = tier; op_parameters = params;
            op_initial_display_delay_minus_1 = idd }) in
        let fwb = nx () in let fhb = nx () in let mw = nx () in let mh = nx () in
        let fid = if bl () then (let a = nx () in let b = nx () in Some (a, b)) else None in
        let b128 = bl () in let fi = bl () in let ief = bl () in
        let ii = bl () in let mc = bl () in let wm = bl () in let df = bl () in
        let oh = if bl () then (let a = bl () in let b = bl () in let c = nx () in Some ((a, b), c)) else None in
        let tri () = match int_of_n (nx ()) with 2 -> None | 0 -> Some false | _ -> Some true in
        let sct = tri () in let imv = tri () in
        let sr = bl () in let cdef = bl () in let rest = bl () in
        let hbd = bl () in let tb = bl () in let mono = bl () in
        let desc = if bl () then (let a = nx () in let b = nx () in let c = nx () in Some ((a, b), c)) else None in
        let range = bl () in let sx = bl () in let sy = bl () in let csp = nx () in let suv = bl () in
        let fg = bl () in
        let cc = { cc_high_bitdepth = hbd; cc_twelve_bit = tb; cc_mono_chrome = mono; cc_description = desc;
                   cc_color_range = range; cc_subsampling_x = sx; cc_subsampling_y = sy;
                   cc_chroma_sample_position = csp; cc_separate_uv_delta_q = suv } in
        let s = { sh_seq_profile = profile; sh_still_picture = still; sh_reduced_still_picture_header = reduced;
                  sh_reduced_level = rlevel; sh_timing = timing; sh_initial_display_delay_present = iddp;
                  sh_operating_points = ops; sh_frame_width_bits_minus_1 = fwb; sh_frame_height_bits_minus_1 = fhb;
                  sh_max_frame_width_minus_1 = mw; sh_max_frame_height_minus_1 = mh; sh_frame_id = fid;
                  sh_use_128x128_superblock = b128; sh_enable_filter_intra = fi; sh_enable_intra_edge_filter = ief;
                  sh_enable_interintra_compound = ii; sh_enable_masked_compound = mc; sh_enable_warped_motion = wm;
                  sh_enable_dual_filter = df; sh_order_hint = oh; sh_force_screen_content_tools = sct;
                  sh_force_integer_mv = imv; sh_enable_superres = sr; sh_enable_cdef = cdef;
                  sh_enable_restoration = rest; sh_color = cc; sh_film_grain_params_present = fg } in
        Printf.printf "av1 %s %s %s %s %s %s\n" id (s01 (valid_seq s)) (hex_of_bytes (seq_obu None s))
          (hex_of_n profile) (hex_of_n (seq_level0 s)) (hex_of_n (seq_tier0 s))
    | _ -> ()
  done with End_of_file -> ())

(* explicit: every mux case rewritten with encode_* calls replaced by explicit-timestamp writes *)
let words_of_op (o : op) (orig : string list) : string list = match o with
  | WV (p, d, k) -> ["wv"; hex_of_n p; (if d = [] then "-" else hex_of_bytes d); s01 k]
  | WA (p, d) -> ["wa"; hex_of_n p; (if d = [] then "-" else hex_of_bytes d)]
  | _ -> orig

let explicit_mux id (bops : bop list) (script : sink_ev list) (ops : string list list) =
  Printf.printf "case %s\n" id;
  (match build (run_builder bops) script with
   | Inr _ -> print_endline "nobuild"
   | Inl m0 ->
       let os = List.map op_of_words ops in
       let xs = explicit_of m0 os in
       let rec go xs ws = match xs, ws with
         | x :: xt, w :: wt -> print_endline ("o " ^ String.concat " " (words_of_op x w)); go xt wt
         | _, _ -> () in
       go xs ops);
  print_endline "end"

(* vp9enc: key-frame headers of Spec/Vp9Syntax.v -> frame bytes
   line: vp9 <id> profile show err twelve cs range ssx ssy w-1 h-1 rw|~ rh|~ rest-hex *)
let vp9enc_mode () =
  (try while true do
    let line = input_line stdin in
    match words line with
    | ["vp9"; id; pr; sh; er; tw; cs; rg; sx; sy; w; h; rw; rh; rest] ->
        let hd = { vk_profile = n_of_hex pr; vk_show_frame = b01 sh; vk_error_resilient = b01 er; vk_twelve_bit = b01 tw;
                   vk_color_space = n_of_hex cs; vk_color_range = b01 rg; vk_subsampling_x = b01 sx; vk_subsampling_y = b01 sy;
                   vk_width_minus_1 = n_of_hex w; vk_height_minus_1 = n_of_hex h;
                   vk_render_size = (if rw = "~" then None else Some (n_of_hex rw, n_of_hex rh)) } in
        let restbits = List.concat_map (fun b -> f (nat_of_int 8) b) (bytes_of_hex rest) in
        Printf.printf "vp9 %s %s %s %s\n" id (s01 (valid_vp9_key_hdr hd)) (hex_of_bytes (vp9_key_frame hd restbits))
          (hex_of_n (vp9_bit_depth_of hd))
    | [] -> ()
    | _ -> failwith ("bad vp9 line: " ^ line)
  done with End_of_file -> ())

let () =
  if Array.length Sys.argv > 1 && Sys.argv.(1) = "vp9enc" then (vp9enc_mode (); exit 0);
  if Array.length Sys.argv > 1 && Sys.argv.(1) = "av1enc" then (av1enc_mode (); exit 0);
  if Array.length Sys.argv > 1 && Sys.argv.(1) = "pairs" then (pairs_mode (); exit 0);
  if Array.length Sys.argv > 1 && Sys.argv.(1) = "cli" then (cli_mode (); exit 0);
  let explicit = Array.length Sys.argv > 1 && Sys.argv.(1) = "explicit" in
  let check = Array.length Sys.argv > 2 && Sys.argv.(1) = "check" in
  let impl = if check then impl_blocks Sys.argv.(2) else Hashtbl.create 1 in
  let blk id = try Hashtbl.find impl id with Not_found -> [] in
  let cur_id = ref "" and cur_kind = ref "" in
  let bops = ref [] and script = ref [] and ops = ref [] and fc = ref None in
  (try
    while true do
      let line = input_line stdin in
      match words line with
      | [] -> ()
      | "case" :: id :: "fn" :: name :: args ->
          if check then check_fn id name args (blk id)
          else Printf.printf "case %s\nr %s\nend\n" id (try run_fn name args with Failure m -> "driver-failure " ^ m)
      | ["case"; id; kind] ->
          cur_id := id; cur_kind := kind; bops := []; script := []; ops := []; fc := None
      | "b" :: w -> bops := parse_bop w :: !bops
      | "sink" :: evs -> script := List.map parse_ev evs
      | ["fc"; w; h; ts; fd; sps; pps; vps; av1; vp9] ->
          let vp9c = if vp9 = "~" then None else
            (match String.split_on_char ',' vp9 with
             | [w; h; p; bd; cs; tf; mc; lv; fr] ->
                 Some { vp9_width = n_of_hex w; vp9_height = n_of_hex h; vp9_profile = n_of_hex p;
                        vp9_bit_depth = n_of_hex bd; vp9_color_space = n_of_hex cs; vp9_transfer_function = n_of_hex tf;
                        vp9_matrix_coefficients = n_of_hex mc; vp9_level = n_of_hex lv; vp9_full_range_flag = n_of_hex fr }
             | _ -> failwith "bad vp9 cfg") in
          fc := Some { fc_width = n_of_hex w; fc_height = n_of_hex h; fc_timescale = n_of_hex ts;
                       fc_fragment_duration_ms = n_of_hex fd; fc_sps = bytes_of_hex sps; fc_pps = bytes_of_hex pps;
                       fc_vps = opt_hex vps; fc_av1 = opt_hex av1; fc_vp9 = vp9c }
      | "o" :: w -> ops := w :: !ops
      | ["end"] when explicit ->
          (match !cur_kind with
           | "mux" -> explicit_mux !cur_id (List.rev !bops) !script (List.rev !ops)
           | _ -> ())
      | ["end"] ->
          if check then begin
            (match !cur_kind with
             | "mux" -> check_mux !cur_id (List.rev !bops) !script (List.rev !ops) (blk !cur_id)
             | "frag" -> check_frag !cur_id (List.rev !ops) (blk !cur_id)
             | _ -> ())
          end else begin
          Printf.printf "case %s\n" !cur_id;
          (match !cur_kind with
           | "mux" -> run_mux (List.rev !bops) !script (List.rev !ops)
           | "frag" ->
               let mk = match !fc with
                 | Some c -> Stdlib.Ok (fmuxer_new c)
                 | None -> (match new_with_fragment (run_builder (List.rev !bops)) with
                            | Inl m -> Stdlib.Ok m
                            | Inr FMissingVideo -> Stdlib.Error "MissingVideoConfig"
                            | Inr FMissingParam -> Stdlib.Error "Io InvalidInput") in
               run_frag mk (List.rev !ops)
           | k -> print_endline ("unknown-kind " ^ k));
          print_endline "end"
          end
      | _ -> failwith ("bad line: " ^ line)
    done
  with End_of_file -> ())
